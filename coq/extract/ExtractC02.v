From Coq Require Import Extraction ExtrOcamlBasic.
From PyCasbin Require Import Base MatcherText.
Definition oracle := oracle_C02.
Extraction "oracle.ml" oracle.
