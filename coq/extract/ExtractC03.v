From Coq Require Import Extraction ExtrOcamlBasic.
From PyCasbin Require Import Base RoleGraph CondRM.
Definition oracle := oracle_C03.
Extraction "oracle.ml" oracle.
