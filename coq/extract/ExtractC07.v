From Coq Require Import Extraction ExtrOcamlBasic.
From PyCasbin Require Import Base Subject.
Definition oracle := oracle_C07.
Extraction "oracle.ml" oracle.
