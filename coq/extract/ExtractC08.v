From Coq Require Import Extraction ExtrOcamlBasic.
From PyCasbin Require Import Base EnforceInst.
Definition oracle := oracle_C01.
Extraction "oracle.ml" oracle.
