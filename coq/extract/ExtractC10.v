From Coq Require Import Extraction ExtrOcamlBasic.
From PyCasbin Require Import Base Csv.
Definition oracle := oracle_C10.
Extraction "oracle.ml" oracle.
