From Coq Require Import Extraction ExtrOcamlBasic.
From PyCasbin Require Import Base Filtered.
Definition oracle := oracle_C12.
Extraction "oracle.ml" oracle.
