From Coq Require Import Extraction ExtrOcamlBasic.
From PyCasbin Require Import Base PatternInst.
Definition oracle := oracle_C13.
Extraction "oracle.ml" oracle.
