From Coq Require Import Extraction ExtrOcamlBasic.
From PyCasbin Require Import Base RoleGraph PatternRM.
Definition oracle := oracle_C14.
Extraction "oracle.ml" oracle.
