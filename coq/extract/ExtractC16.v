From Coq Require Import Extraction ExtrOcamlBasic.
From PyCasbin Require Import Base RWLock.
Definition oracle := oracle_C16.
Extraction "oracle.ml" oracle.
