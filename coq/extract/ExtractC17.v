From Coq Require Import Extraction ExtrOcamlBasic.
From PyCasbin Require Import Base Synced.
Definition oracle := oracle_C17.
Extraction "oracle.ml" oracle.
