From Coq Require Import Extraction ExtrOcamlBasic.
From PyCasbin Require Import Base AsyncEq.
Definition oracle := oracle_C18.
Extraction "oracle.ml" oracle.
