From Coq Require Import Extraction ExtrOcamlBasic.
From PyCasbin Require Import Base Fast.
Definition oracle := oracle_C19.
Extraction "oracle.ml" oracle.
