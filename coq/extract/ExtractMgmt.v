From Coq Require Import Extraction ExtrOcamlBasic.
From PyCasbin Require Import Base MgmtWire.
Definition oracle := oracle_mgmt.
Extraction "oracle.ml" oracle.
