(* AdLang.v — a small language for the bodies of the bundled text adapters (casbin/persist/adapters/file_adapter.py:
   FileAdapter._load_policy_file, _save_policy_file; string_adapter.py: StringAdapter.load_policy, save_policy) and its
   interpreter.  translators/adapters.py renders the Python source into this syntax on every run (coq/gen/AdaptersGen.v);
   AdapterTie.v proves that the interpreter run on the regenerated programs computes Csv.load_file / save_file /
   load_string / save_string - the functions the C10 round-trip theorems are about.

   Meaning fixed by the interpreter (trusted):
   - the model object is Csv.model: the assertions of all sections, flattened, in dict order; `"p" in model.model.keys()` /
     `sec in model.keys()` asks whether some assertion has that section; `model.model["p"].items()` / `model[sec].items()`
     hands out the (key, assertion) pairs of that section in order; ast.policy is the assertion's rule list;
   - the file opened "rb" is a text (code points; Csv.v explains why bytes and code points split alike at '\n');
     `line = file.readline(); while line: ...; line = file.readline()` visits Csv.readlines of the text in order (readline
     returns b"" - falsy - exactly at the end); .decode() is the identity; file.writelines(l) on the file opened "w" makes
     the file's text the concatenation of l; opening for writing truncates (the text written is all there is);
   - load_policy_line(s, model) is Csv.load_policy_line (itself regenerated and tied: LineTie.v);
   - x[i] += s replaces element i (IndexError out of range); `for i, line in enumerate(l)` reads l afresh at every
     iteration and the run is REFUSED (error 90) if the body changed the length of l; `continue` skips to the next
     iteration; integers are Z; `+` concatenates strings; s.join(l), s.split("\n"), s.strip(), s.rstrip("\n") are
     Csv.join / split_on / strip / rstrip_nl (compared with CPython by the C10 check). *)
From Coq Require Import List NArith ZArith Bool.
From PyCasbin Require Import Base Csv.
Import ListNotations.
Local Open Scope N_scope.

Inductive av := AVS (s : str) | AVL (l : list str) | AVZ (z : Z) | AVB (b : bool) | AVAst (a : ast) | AVNone.

Inductive aex : Type :=
| AVar (x : N)
| AStr (s : str) | ANil | AInt (z : Z) | AStrList (l : list str)
| AConcat (a b : aex)
| AJoin (sep : str) (a : aex)
| ALen (a : aex)
| ASub (a b : aex)
| AEq (a b : aex) | ANe (a b : aex)
| ANot (a : aex)
| AHasSec (a : aex)
| ARstripNl (a : aex) | ASplitNl (a : aex) | AStrip (a : aex) | ADecode (a : aex)
| ASelfLine.

Inductive ast_ : Type :=
| AAssign (x : N) (e : aex)
| AIf (c : aex) (a b : list ast_)
| AForAsts (k v : N) (sec : aex) (body : list ast_)        (* for k, v in model[sec].items() *)
| AForPolicy (x v : N) (body : list ast_)                  (* for x in v.policy *)
| AForEnum (i x l : N) (body : list ast_)                  (* for i, x in enumerate(l) *)
| AForStrs (x : N) (e : aex) (body : list ast_)            (* for x in <list of strings> *)
| AAppend (x : N) (e : aex)
| AIdxAdd (x : N) (i e : aex)                              (* x[i] += e *)
| AWriteLines (e : aex)
| ASetLine (e : aex)                                       (* self.line = e *)
| AReadLoop (x : N) (body : list ast_)                     (* x = file.readline(); while x: body; x = file.readline() *)
| ALoadLine (e : aex)                                      (* load_policy_line(e, model) *)
| AContinue
| ARaise (code : N).

Definition alocals := list (N * av).
Record astate := { a_loc : alocals; a_model : model; a_out : option str; a_line : str }.
Inductive aout := ANext (s : astate) | ACont (s : astate) | AErr (c : N).

Definition akeyb (a b : N) : bool :=
  match a, b with N0, N0 => true | Npos p, Npos q => Pos.eqb p q | _, _ => false end.
Fixpoint alookup (x : N) (l : alocals) : option av :=
  match l with [] => None | (y, v) :: r => if akeyb x y then Some v else alookup x r end.
Fixpoint aupd (x : N) (v : av) (l : alocals) : alocals :=
  match l with
  | [] => [(x, v)]
  | (y, w) :: r => if akeyb x y then (y, v) :: r else (y, w) :: aupd x v r
  end.
Definition aset (x : N) (v : av) (s : astate) : astate :=
  {| a_loc := aupd x v (a_loc s); a_model := a_model s; a_out := a_out s; a_line := a_line s |}.

Definition sec_present (m : model) (c : N) : bool := existsb (fun a => a_sec a =? c) m.
Definition sec_asts (m : model) (c : N) : list ast := filter (fun a => a_sec a =? c) m.

(* l[k] := l[k] ++ s *)
Fixpoint idx_add (l : list str) (k : nat) (s : str) : option (list str) :=
  match l, k with
  | [], _ => None
  | x :: r, O => Some ((x ++ s) :: r)
  | x :: r, S k' => match idx_add r k' s with Some r' => Some (x :: r') | None => None end
  end.

Section Loops.
  Context {A : Type}.
  (* a loop over a snapshot; `continue` ends one iteration *)
  Fixpoint for_list (f : A -> astate -> aout) (xs : list A) (s : astate) : aout :=
    match xs with
    | [] => ANext s
    | x :: r => match f x s with ANext s' | ACont s' => for_list f r s' | AErr c => AErr c end
    end.
End Loops.

Fixpoint aeval (n : nat) (s : astate) (e : aex) {struct n} : result av :=
  match n with
  | O => Err EFuel
  | S n' =>
    let ev := aeval n' s in
    match e with
    | AVar x => match alookup x (a_loc s) with Some v => Ok v | None => Err EName end
    | AStr t => Ok (AVS t)
    | ANil => Ok (AVL [])
    | AInt z => Ok (AVZ z)
    | AStrList l => Ok (AVL l)
    | AConcat a b => rbind (ev a) (fun va => rbind (ev b) (fun vb =>
                       match va, vb with AVS x, AVS y => Ok (AVS (x ++ y)) | _, _ => Err EType end))
    | AJoin sep a => rbind (ev a) (fun va => match va with AVL l => Ok (AVS (join sep l)) | _ => Err EType end)
    | ALen a => rbind (ev a) (fun va => match va with
                                        | AVL l => Ok (AVZ (Z.of_nat (length l)))
                                        | AVS l => Ok (AVZ (Z.of_nat (length l)))
                                        | _ => Err EType end)
    | ASub a b => rbind (ev a) (fun va => rbind (ev b) (fun vb =>
                       match va, vb with AVZ x, AVZ y => Ok (AVZ (x - y)) | _, _ => Err EType end))
    | AEq a b => rbind (ev a) (fun va => rbind (ev b) (fun vb =>
                       match va, vb with
                       | AVS x, AVS y => Ok (AVB (str_eqb x y))
                       | AVZ x, AVZ y => Ok (AVB (x =? y)%Z)
                       | _, _ => Err 90
                       end))
    | ANe a b => rbind (ev a) (fun va => rbind (ev b) (fun vb =>
                       match va, vb with
                       | AVS x, AVS y => Ok (AVB (negb (str_eqb x y)))
                       | AVZ x, AVZ y => Ok (AVB (negb (x =? y)%Z))
                       | _, _ => Err 90
                       end))
    | ANot a => rbind (ev a) (fun va => match va with AVB b => Ok (AVB (negb b)) | _ => Err 90 end)
    | AHasSec a => rbind (ev a) (fun va => match va with AVS [c] => Ok (AVB (sec_present (a_model s) c)) | _ => Err 90 end)
    | ARstripNl a => rbind (ev a) (fun va => match va with AVS t => Ok (AVS (rstrip_nl t)) | _ => Err EAttr end)
    | ASplitNl a => rbind (ev a) (fun va => match va with AVS t => Ok (AVL (split_on c_nl t)) | _ => Err EAttr end)
    | AStrip a => rbind (ev a) (fun va => match va with AVS t => Ok (AVS (strip t)) | _ => Err EAttr end)
    | ADecode a => rbind (ev a) (fun va => match va with AVS t => Ok (AVS t) | _ => Err EAttr end)
    | ASelfLine => Ok (AVS (a_line s))
    end
  end.

(* for i, x in enumerate(l): `todo` iterations left, at index k; the list is read afresh each time *)
Fixpoint for_enum_idx (f : astate -> aout) (i x l : N) (todo : nat) (k : nat) (len0 : nat) (s : astate) : aout :=
  match todo with
  | O => match alookup l (a_loc s) with
         | Some (AVL cur) => if Nat.eqb (length cur) len0 then ANext s else AErr 90
         | _ => AErr 90
         end
  | S todo' =>
      match alookup l (a_loc s) with
      | Some (AVL cur) =>
          if negb (Nat.eqb (length cur) len0) then AErr 90 else
          match nth_error cur k with
          | None => AErr 90
          | Some v => match f (aset x (AVS v) (aset i (AVZ (Z.of_nat k)) s)) with
                      | ANext s' | ACont s' => for_enum_idx f i x l todo' (S k) len0 s'
                      | AErr c => AErr c
                      end
          end
      | _ => AErr 90
      end
  end.

Fixpoint aexec (n : nat) (s : astate) (c : ast_) {struct n} : aout :=
  match n with
  | O => AErr EFuel
  | S n' =>
    match c with
    | AAssign x e => match aeval n' s e with Ok v => ANext (aset x v s) | Err c => AErr c end
    | AIf c a b =>
        match aeval n' s c with
        | Ok (AVB true) => ablock n' s a
        | Ok (AVB false) => ablock n' s b
        | Ok _ => AErr 90
        | Err c => AErr c
        end
    | AForAsts k v sec body =>
        match aeval n' s sec with
        | Ok (AVS [c]) =>
            if sec_present (a_model s) c
            then for_list (fun a s' => ablock n' (aset v (AVAst a) (aset k (AVS (a_key a)) s')) body) (sec_asts (a_model s) c) s
            else AErr EKeyError
        | Ok _ => AErr 90
        | Err c => AErr c
        end
    | AForPolicy x v body =>
        match alookup v (a_loc s) with
        | Some (AVAst a) => for_list (fun r s' => ablock n' (aset x (AVL r) s') body) (a_pol a) s
        | _ => AErr 90
        end
    | AForEnum i x l body =>
        match alookup l (a_loc s) with
        | Some (AVL cur) => for_enum_idx (fun s' => ablock n' s' body) i x l (length cur) 0 (length cur) s
        | _ => AErr 90
        end
    | AForStrs x e body =>
        match aeval n' s e with
        | Ok (AVL l) => for_list (fun t s' => ablock n' (aset x (AVS t) s') body) l s
        | Ok _ => AErr EType
        | Err c => AErr c
        end
    | AAppend x e =>
        match alookup x (a_loc s), aeval n' s e with
        | Some (AVL l), Ok (AVS t) => ANext (aset x (AVL (l ++ [t])) s)
        | _, Err c => AErr c
        | _, _ => AErr 90
        end
    | AIdxAdd x i e =>
        match alookup x (a_loc s), aeval n' s i, aeval n' s e with
        | Some (AVL l), Ok (AVZ k), Ok (AVS t) =>
            if (k <? 0)%Z then AErr 90
            else match idx_add l (Z.to_nat k) t with Some l' => ANext (aset x (AVL l') s) | None => AErr EIndex end
        | _, Err c, _ => AErr c
        | _, _, Err c => AErr c
        | _, _, _ => AErr 90
        end
    | AWriteLines e =>
        match aeval n' s e with
        | Ok (AVL l) => ANext {| a_loc := a_loc s; a_model := a_model s;
                                 a_out := Some (match a_out s with Some t => t | None => [] end ++ concat l); a_line := a_line s |}
        | Ok _ => AErr EType
        | Err c => AErr c
        end
    | ASetLine e =>
        match aeval n' s e with
        | Ok (AVS t) => ANext {| a_loc := a_loc s; a_model := a_model s; a_out := a_out s; a_line := t |}
        | Ok _ => AErr 90
        | Err c => AErr c
        end
    | AReadLoop x body => AErr 90       (* needs the file: see aexec_file below *)
    | ALoadLine e =>
        match aeval n' s e with
        | Ok (AVS t) => match load_policy_line t (a_model s) with
                        | Ok m' => ANext {| a_loc := a_loc s; a_model := m'; a_out := a_out s; a_line := a_line s |}
                        | Err c => AErr c
                        end
        | Ok _ => AErr 90
        | Err c => AErr c
        end
    | AContinue => ACont s
    | ARaise code => AErr code
    end
  end
with ablock (n : nat) (s : astate) (b : list ast_) {struct n} : aout :=
  match n with
  | O => AErr EFuel
  | S n' =>
    match b with
    | [] => ANext s
    | c :: r => match aexec n' s c with ANext s' => ablock n' s' r | o => o end
    end
  end.

(* a method body whose top level may contain the read loop over the file opened for reading *)
Fixpoint ablock_file (n : nat) (file : str) (s : astate) (b : list ast_) : aout :=
  match b with
  | [] => ANext s
  | AReadLoop x body :: r =>
      match for_list (fun piece s' => ablock n (aset x (AVS piece) s') body) (readlines file) s with
      | ANext s' => ablock_file n file (aset x (AVS []) s') r
      | o => o
      end
  | c :: r => match aexec n s c with ANext s' => ablock_file n file s' r | o => o end
  end.

Definition ainit (locals : list N) (m : model) (line : str) : astate :=
  {| a_loc := map (fun x => (x, AVNone)) locals; a_model := m; a_out := None; a_line := line |}.

(* the model after a loading method *)
Definition arun_load (n : nat) (locals : list N) (body : list ast_) (file line : str) (m : model) : result model :=
  match ablock_file n file (ainit locals m line) body with
  | ANext s | ACont s => Ok (a_model s)
  | AErr c => Err c
  end.
(* what a saving method wrote: the file's text (file adapter) / self.line (string adapter) *)
Definition arun_save_file (n : nat) (locals : list N) (body : list ast_) (m : model) : result str :=
  match ablock_file n [] (ainit locals m []) body with
  | ANext s | ACont s => Ok (match a_out s with Some t => t | None => [] end)
  | AErr c => Err c
  end.
Definition arun_save_line (n : nat) (locals : list N) (body : list ast_) (m : model) (line0 : str) : result str :=
  match ablock_file n [] (ainit locals m line0) body with
  | ANext s | ACont s => Ok (a_line s)
  | AErr c => Err c
  end.
