(* AdapterTie.v — C10: the bodies of FileAdapter._load_policy_file / _save_policy_file and StringAdapter.load_policy /
   save_policy regenerated from casbin/persist/adapters/*.py on this run (coq/gen/AdaptersGen.v), executed by the
   interpreter of AdLang.v, compute Csv.load_file / save_file / load_string / save_string - for every file text and every
   model. *)
From Coq Require Import List NArith ZArith Bool Lia Arith.
From PyCasbin Require Import Base Csv AdLang.
From PyCasbinGen Require Import AdaptersGen.
Import ListNotations.
Local Open Scope N_scope.

Definition AFUEL : nat := 40.

Definition run_file_load (text : str) (m : model) : result model := arun_load AFUEL file_load_locals file_load_gen text [] m.
Definition run_file_save (m : model) : result str := arun_save_file AFUEL file_save_locals file_save_gen m.
Definition run_string_load (line : str) (m : model) : result model := arun_load AFUEL string_load_locals string_load_gen [] line m.
Definition run_string_save (m : model) (line0 : str) : result str := arun_save_line AFUEL string_save_locals string_save_gen m line0.

Ltac alz t := let v := eval lazy -[N.eqb str_eqb list_eqb strip join app map flat_map concat readlines split_on rstrip_nl
                                   load_policy_line sec_present sec_asts for_list for_enum_idx length nth_error idx_add
                                   Z.of_nat Z.sub Z.eqb Z.ltb Z.to_nat render_line sep_cs str model rule] in t in v.
Ltac aeval_lhs := match goal with |- ?l = _ => let v := alz l in change l with v end.

(* ------------------------------------------------------------------ FileAdapter._load_policy_file *)
Definition mkL (v : av) (m : model) : astate := {| a_loc := [(1, v)]; a_model := m; a_out := None; a_line := [] |}.

Lemma file_load_body n piece v m :
  ablock (6 + n) (aset 1 (AVS piece) (mkL v m)) [ALoadLine (AStrip (ADecode (AVar 1)))] =
  match load_policy_line (strip piece) m with Ok m' => ANext (mkL (AVS piece) m') | Err e => AErr e end.
Proof.
  unfold mkL. aeval_lhs. destruct (load_policy_line (strip piece) m); reflexivity.
Qed.

Lemma file_load_loop n : forall pieces v m,
  match load_lines (map strip pieces) m with
  | Ok m' => exists v', for_list (fun piece s' => ablock (6 + n) (aset 1 (AVS piece) s') [ALoadLine (AStrip (ADecode (AVar 1)))]) pieces (mkL v m)
                        = ANext (mkL v' m')
  | Err e => for_list (fun piece s' => ablock (6 + n) (aset 1 (AVS piece) s') [ALoadLine (AStrip (ADecode (AVar 1)))]) pieces (mkL v m) = AErr e
  end.
Proof.
  induction pieces as [|p r IH]; intros v m; cbn [map load_lines for_list].
  - exists v. reflexivity.
  - rewrite file_load_body. destruct (load_policy_line (strip p) m) as [m'|e]; [apply IH | reflexivity].
Qed.

Theorem tie_file_load text m : run_file_load text m = load_file text m.
Proof.
  unfold run_file_load, arun_load, AFUEL, load_file, file_lines.
  let b := eval lazy in file_load_gen in change file_load_gen with b.
  change (ainit file_load_locals m []) with (mkL AVNone m).
  cbn [ablock_file].
  pose proof (file_load_loop 34 (readlines text) AVNone m) as HL. change (6 + 34)%nat with 40%nat in HL.
  destruct (load_lines (map strip (readlines text)) m) as [m'|e].
  - destruct HL as (v' & HL). rewrite HL. reflexivity.
  - rewrite HL. reflexivity.
Qed.

(* ------------------------------------------------------------------ StringAdapter.load_policy *)
Definition mkSL (strs s : av) (m : model) (line : str) : astate :=
  {| a_loc := [(1, strs); (2, s)]; a_model := m; a_out := None; a_line := line |}.
Definition SLBODY : list ast_ :=
  Eval lazy in match nth_error string_load_gen 2 with Some (AForStrs _ _ b) => b | _ => [] end.

Lemma string_load_body n t strs v m line :
  ablock (8 + n) (aset 2 (AVS t) (mkSL strs v m line)) SLBODY =
  if nonempty t then match load_policy_line t m with Ok m' => ANext (mkSL strs (AVS t) m' line) | Err e => AErr e end
  else ACont (mkSL strs (AVS t) m line).
Proof.
  unfold SLBODY, mkSL. destruct t as [|c r].
  - aeval_lhs. reflexivity.
  - aeval_lhs. change (str_eqb (c :: r) []) with false. cbv beta iota. cbn [nonempty]. destruct (load_policy_line (c :: r) m); reflexivity.
Qed.

Lemma string_load_loop n strs line : forall ts v m,
  match load_lines (filter nonempty ts) m with
  | Ok m' => exists v', for_list (fun t s' => ablock (8 + n) (aset 2 (AVS t) s') SLBODY) ts (mkSL strs v m line) = ANext (mkSL strs v' m' line)
  | Err e => for_list (fun t s' => ablock (8 + n) (aset 2 (AVS t) s') SLBODY) ts (mkSL strs v m line) = AErr e
  end.
Proof.
  induction ts as [|t r IH]; intros v m; cbn [filter load_lines for_list].
  - exists v. reflexivity.
  - rewrite string_load_body. destruct (nonempty t); cbn [load_lines].
    + destruct (load_policy_line t m) as [m'|e]; [apply IH | reflexivity].
    + apply IH.
Qed.

Theorem tie_string_load line m : run_string_load line m = load_string line m.
Proof.
  unfold run_string_load, arun_load, AFUEL, load_string, string_lines.
  let b := eval lazy in string_load_gen in change string_load_gen with b.
  change (ainit string_load_locals m line) with (mkSL AVNone AVNone m line).
  destruct line as [|c r].
  - reflexivity.
  - cbn [ablock_file]. unfold mkSL.
    lazymatch goal with |- context [aexec ?n ?s (AIf ?c ?a ?b)] => let v := alz (aexec n s (AIf c a b)) in change (aexec n s (AIf c a b)) with v end.
    change (str_eqb (c :: r) []) with false. cbv beta iota.
    lazymatch goal with |- context [aexec ?n ?s (AAssign ?x ?e)] => let v := alz (aexec n s (AAssign x e)) in change (aexec n s (AAssign x e)) with v end.
    cbv beta iota.
    lazymatch goal with |- context [aexec ?n ?s (AForStrs ?x ?e ?b)] =>
      change (aexec n s (AForStrs x e b)) with
        (for_list (fun t s' => ablock 39 (aset 2 (AVS t) s') SLBODY) (split_on c_nl (c :: r)) (mkSL (AVL (split_on c_nl (c :: r))) AVNone m (c :: r))) end.
    pose proof (string_load_loop 31 (AVL (split_on c_nl (c :: r))) (c :: r) (split_on c_nl (c :: r)) AVNone m) as HL.
    change (8 + 31)%nat with 39%nat in HL.
    destruct (load_lines (filter nonempty (split_on c_nl (c :: r))) m) as [m'|e].
    + destruct HL as (v' & HL). rewrite HL. reflexivity.
    + rewrite HL. reflexivity.
Qed.

(* ------------------------------------------------------------------ shared list facts for the saving methods *)
Definition rules_lines (asts : list ast) : list str := flat_map (fun a => map (render_line (a_key a)) (a_pol a)) asts.

Lemma sec_lines_filter sec : forall m, sec_lines sec m = rules_lines (sec_asts m sec).
Proof.
  unfold sec_lines, rules_lines, sec_asts. induction m as [|a r IH]; [reflexivity|].
  cbn [flat_map filter]. destruct (a_sec a =? sec); cbn [flat_map app]; rewrite IH; reflexivity.
Qed.

Lemma sec_absent_lines sec : forall m, sec_present m sec = false -> sec_lines sec m = [].
Proof.
  unfold sec_lines, sec_present. induction m as [|a r IH]; intro H; [reflexivity|].
  cbn [existsb] in H. apply orb_false_iff in H. destruct H as [H1 H2]. cbn [flat_map]. rewrite H1, (IH H2). reflexivity.
Qed.

Fixpoint add_nl_but_last (l : list str) : list str :=
  match l with
  | [] => []
  | x :: r => match r with [] => [x] | _ => (x ++ [c_nl]) :: add_nl_but_last r end
  end.

Lemma concat_add_nl : forall l, concat (add_nl_but_last l) = join [c_nl] l.
Proof.
  induction l as [|x r IH]; [reflexivity|].
  destruct r as [|y r']; [simpl; apply app_nil_r|].
  change (add_nl_but_last (x :: y :: r')) with ((x ++ [c_nl]) :: add_nl_but_last (y :: r')).
  change (join [c_nl] (x :: y :: r')) with (x ++ [c_nl] ++ join [c_nl] (y :: r')).
  cbn [concat]. rewrite IH, <- app_assoc. reflexivity.
Qed.

Lemma idx_add_at : forall (pre : list str) x suf s, idx_add (pre ++ x :: suf) (length pre) s = Some (pre ++ (x ++ s) :: suf).
Proof. induction pre as [|p r IH]; intros x suf s; simpl; [reflexivity|]. rewrite IH. reflexivity. Qed.

Lemma nth_error_at : forall (pre : list str) x suf, nth_error (pre ++ x :: suf) (length pre) = Some x.
Proof. induction pre as [|p r IH]; intros; simpl; [reflexivity | apply IH]. Qed.

Lemma join_nil_concat : forall l : list str, join [] l = concat l.
Proof.
  induction l as [|x r IH]; [reflexivity|]. destruct r as [|y r']; [simpl; symmetry; apply app_nil_r|].
  change (join [] (x :: y :: r')) with (x ++ [] ++ join [] (y :: r')). rewrite IH. reflexivity.
Qed.

(* ------------------------------------------------------------------ FileAdapter._save_policy_file *)
Definition mkFS (lines : list str) (key a pv i line : av) (m : model) (out : option str) : astate :=
  {| a_loc := [(1, AVL lines); (2, key); (3, a); (4, pv); (5, i); (6, line)]; a_model := m; a_out := out; a_line := [] |}.

Definition FS_APPEND : list ast_ :=
  [AAppend 1 (AConcat (AConcat (AVar 2) (AStr [44; 32])) (AJoin [44; 32] (AVar 4)))].

Lemma fs_rules_loop n key a i line m : forall pol lines pv,
  exists pv', for_list (fun r s' => ablock (8 + n) (aset 4 (AVL r) s') FS_APPEND) pol (mkFS lines (AVS key) (AVAst a) pv i line m None)
              = ANext (mkFS (lines ++ map (render_line key) pol) (AVS key) (AVAst a) pv' i line m None).
Proof.
  induction pol as [|r pol IH]; intros lines pv; cbn [for_list map].
  - exists pv. rewrite app_nil_r. reflexivity.
  - unfold FS_APPEND, mkFS at 1.
    match goal with |- context [ablock ?n ?s ?b] => let v := alz (ablock n s b) in change (ablock n s b) with v end.
    cbv beta iota.
    destruct (IH (lines ++ [(key ++ [44; 32]) ++ join [44; 32] r]) (AVL r)) as (pv' & H).
    exists pv'. unfold FS_APPEND, mkFS in H |- *. etransitivity; [exact H|]. unfold render_line, sep_cs, c_comma, c_space.
    rewrite <- !app_assoc. reflexivity.
Qed.

Lemma fs_asts_loop n i line m : forall asts lines kv av0 pv,
  exists kv' av' pv',
    for_list (fun a s' => ablock (12 + n) (aset 3 (AVAst a) (aset 2 (AVS (a_key a)) s')) [AForPolicy 4 3 FS_APPEND]) asts
             (mkFS lines kv av0 pv i line m None)
    = ANext (mkFS (lines ++ rules_lines asts) kv' av' pv' i line m None).
Proof.
  induction asts as [|a asts IH]; intros lines kv av0 pv; cbn [for_list].
  - exists kv, av0, pv. unfold rules_lines. cbn [flat_map]. rewrite app_nil_r. reflexivity.
  - unfold mkFS at 1.
    match goal with |- context [ablock ?k ?s ?b] =>
      change (ablock k s b) with
        (match for_list (fun r s' => ablock (8 + (1 + n)) (aset 4 (AVL r) s') FS_APPEND) (a_pol a)
                        (mkFS lines (AVS (a_key a)) (AVAst a) pv i line m None) with
         | ANext s' => ablock (10 + n) s' [] | o => o end) end.
    destruct (fs_rules_loop (1 + n) (a_key a) a i line m (a_pol a) lines pv) as (pv1 & H1). rewrite H1.
    change (ablock (10 + n) ?s []) with (ANext s).
    destruct (IH (lines ++ map (render_line (a_key a)) (a_pol a)) (AVS (a_key a)) (AVAst a) pv1) as (kv' & av' & pv' & H).
    exists kv', av', pv'. rewrite H. unfold rules_lines. cbn [flat_map]. rewrite <- app_assoc. reflexivity.
Qed.

Definition FS_ENUM_BODY : list ast_ :=
  [AIf (ANe (AVar 5) (ASub (ALen (AVar 1)) (AInt 1))) [AIdxAdd 1 (AVar 5) (AStr [10])] []].

Lemma fs_enum_loop n key a pv m : forall suf pre i line,
  exists i' line',
    for_enum_idx (fun s' => ablock (12 + n) s' FS_ENUM_BODY) 5 6 1 (length suf) (length pre) (length pre + length suf)
                 (mkFS (pre ++ suf) key a pv i line m None)
    = ANext (mkFS (pre ++ add_nl_but_last suf) key a pv i' line' m None).
Proof.
  induction suf as [|x suf IH]; intros pre i line.
  - exists i, line. cbn [for_enum_idx length add_nl_but_last]. unfold mkFS. cbn [alookup a_loc akeyb Pos.eqb].
    rewrite !app_nil_r, Nat.add_0_r, Nat.eqb_refl. reflexivity.
  - cbn [for_enum_idx length]. unfold mkFS at 1. cbn [alookup a_loc akeyb Pos.eqb].
    rewrite app_length. cbn [length]. rewrite Nat.eqb_refl. cbn [negb]. cbv beta iota.
    rewrite nth_error_at.
    destruct suf as [|y suf'].
    + (* last element: i == len(lines) - 1 *)
      match goal with |- context [ablock ?k ?s ?b] => let v := alz (ablock k s b) in change (ablock k s b) with v end.
      rewrite app_length. cbn [length].
      replace (Z.of_nat (length pre) =? Z.of_nat (length pre + 1) - 1)%Z with true by (symmetry; apply Z.eqb_eq; lia).
      cbv beta iota. cbn [negb]. cbv beta iota.
      exists (AVZ (Z.of_nat (length pre))), (AVS x). cbn [for_enum_idx]. cbn [alookup a_loc akeyb Pos.eqb].
      rewrite app_length. cbn [length]. rewrite Nat.eqb_refl. reflexivity.
    + match goal with |- context [ablock ?k ?s ?b] => let v := alz (ablock k s b) in change (ablock k s b) with v end.
      rewrite app_length. cbn [length].
      replace (Z.of_nat (length pre) =? Z.of_nat (length pre + S (S (length suf'))) - 1)%Z with false by (symmetry; apply Z.eqb_neq; lia).
      cbv beta iota. cbn [negb]. cbv beta iota.
      replace (Z.of_nat (length pre) <? 0)%Z with false by (symmetry; apply Z.ltb_ge; lia). cbv beta iota.
      rewrite Nat2Z.id, idx_add_at. cbv beta iota.
      specialize (IH (pre ++ [x ++ [10]]) (AVZ (Z.of_nat (length pre))) (AVS x)).
      rewrite app_length in IH. cbn [length] in IH. rewrite <- !app_assoc in IH. cbn [app] in IH.
      replace (length pre + 1 + length (y :: suf'))%nat with (length pre + S (S (length suf')))%nat in IH by (cbn [length]; lia).
      replace (length pre + 1)%nat with (S (length pre)) in IH by lia.
      destruct IH as (i' & line' & IH). exists i', line'.
      unfold mkFS in IH |- *. cbn [length] in IH.
      replace (length pre + S (S (length suf')))%nat with (S (length pre) + S (length suf'))%nat by lia. etransitivity; [exact IH|].
      change (add_nl_but_last (x :: y :: suf')) with ((x ++ [c_nl]) :: add_nl_but_last (y :: suf')). reflexivity.
Qed.

Theorem tie_file_save m : run_file_save m = Ok (save_file m).
Proof.
  unfold run_file_save, arun_save_file, AFUEL, save_file, save_lines.
  let b := eval lazy in file_save_gen in change file_save_gen with b.
  change (ainit file_save_locals m []) with
    {| a_loc := [(1, AVNone); (2, AVNone); (3, AVNone); (4, AVNone); (5, AVNone); (6, AVNone)]; a_model := m; a_out := None; a_line := [] |}.
  cbn [ablock_file].
  lazymatch goal with |- context [aexec ?n ?s (AAssign ?x ?e)] => let v := alz (aexec n s (AAssign x e)) in change (aexec n s (AAssign x e)) with v end.
  cbv beta iota. fold (mkFS [] AVNone AVNone AVNone AVNone AVNone m None).
  (* the p section *)
  assert (HP : exists kv av0 pv,
            aexec 40 (mkFS [] AVNone AVNone AVNone AVNone AVNone m None)
                  (AIf (AHasSec (AStr [112])) [AForAsts 2 3 (AStr [112]) [AForPolicy 4 3 FS_APPEND]] [])
            = ANext (mkFS (sec_lines c_p m) kv av0 pv AVNone AVNone m None)).
  { destruct (sec_present m 112) eqn:E.
    - destruct (fs_asts_loop 26 AVNone AVNone m (sec_asts m 112) [] AVNone AVNone AVNone) as (kv & av0 & pv & H).
      exists kv, av0, pv. rewrite (sec_lines_filter c_p m). unfold c_p. cbn [app] in H.
      unfold mkFS at 1. match goal with |- ?l = _ => let v := alz l in change l with v end. rewrite E. cbv beta iota.
      match type of H with ?lhs = _ => match goal with |- context [for_list ?F ?xs ?s0] => change (for_list F xs s0) with lhs end end.
      rewrite H. reflexivity.
    - exists AVNone, AVNone, AVNone. rewrite (sec_absent_lines c_p m E).
      unfold mkFS. match goal with |- ?l = _ => let v := alz l in change l with v end. rewrite E. reflexivity. }
  destruct HP as (kv & av0 & pv & HP). unfold FS_APPEND in HP. rewrite HP. clear HP. cbv beta iota.
  assert (HG : exists kv' av' pv',
            aexec 40 (mkFS (sec_lines c_p m) kv av0 pv AVNone AVNone m None)
                  (AIf (AHasSec (AStr [103])) [AForAsts 2 3 (AStr [103]) [AForPolicy 4 3 FS_APPEND]] [])
            = ANext (mkFS (sec_lines c_p m ++ sec_lines c_g m) kv' av' pv' AVNone AVNone m None)).
  { destruct (sec_present m 103) eqn:E.
    - destruct (fs_asts_loop 26 AVNone AVNone m (sec_asts m 103) (sec_lines c_p m) kv av0 pv) as (kv' & av' & pv' & H).
      exists kv', av', pv'. rewrite (sec_lines_filter c_g m). unfold c_g.
      unfold mkFS at 1. match goal with |- ?l = _ => let v := alz l in change l with v end. rewrite E. cbv beta iota.
      match type of H with ?lhs = _ => match goal with |- context [for_list ?F ?xs ?s0] => change (for_list F xs s0) with lhs end end.
      rewrite H. reflexivity.
    - exists kv, av0, pv. rewrite (sec_absent_lines c_g m E), app_nil_r.
      unfold mkFS. match goal with |- ?l = _ => let v := alz l in change l with v end. rewrite E. reflexivity. }
  destruct HG as (kv' & av' & pv' & HG). unfold FS_APPEND in HG. rewrite HG. clear HG. cbv beta iota.
  set (L := sec_lines c_p m ++ sec_lines c_g m).
  destruct (fs_enum_loop 27 kv' av' pv' m L [] AVNone AVNone) as (i' & line' & HE).
  cbn [app length Nat.add] in HE.
  lazymatch goal with |- context [aexec ?n ?s (AForEnum ?i ?x ?l ?b)] =>
    change (aexec n s (AForEnum i x l b)) with
      (for_enum_idx (fun s' => ablock 39 s' FS_ENUM_BODY) 5 6 1 (length L) 0 (length L) (mkFS L kv' av' pv' AVNone AVNone m None)) end.
  rewrite HE. cbv beta iota.
  unfold mkFS.
  lazymatch goal with |- context [aexec ?n ?s (AWriteLines ?e)] => let v := alz (aexec n s (AWriteLines e)) in change (aexec n s (AWriteLines e)) with v end.
  cbv beta iota. cbn [a_out app]. rewrite concat_add_nl. reflexivity.
Qed.

(* ------------------------------------------------------------------ StringAdapter.save_policy *)
Definition mkSS (tmp : list str) (sec pt a rule : av) (m : model) (line : str) : astate :=
  {| a_loc := [(1, AVL tmp); (2, sec); (3, pt); (4, a); (5, rule)]; a_model := m; a_out := None; a_line := line |}.

Definition SS_APPEND : list ast_ :=
  [AAppend 1 (AConcat (AConcat (AConcat (AVar 3) (AStr [44; 32])) (AJoin [44; 32] (AVar 5))) (AStr [10]))].

Definition nl_lines (ls : list str) : list str := map (fun l => l ++ [c_nl]) ls.

Lemma ss_rules_loop n sec key a m line : forall pol tmp rv,
  exists rv', for_list (fun r s' => ablock (8 + n) (aset 5 (AVL r) s') SS_APPEND) pol (mkSS tmp sec (AVS key) (AVAst a) rv m line)
              = ANext (mkSS (tmp ++ nl_lines (map (render_line key) pol)) sec (AVS key) (AVAst a) rv' m line).
Proof.
  induction pol as [|r pol IH]; intros tmp rv; cbn [for_list map nl_lines].
  - exists rv. rewrite app_nil_r. reflexivity.
  - unfold SS_APPEND, mkSS at 1.
    match goal with |- context [ablock ?k ?s ?b] => let v := alz (ablock k s b) in change (ablock k s b) with v end.
    cbv beta iota.
    destruct (IH (tmp ++ [((key ++ [44; 32]) ++ join [44; 32] r) ++ [10]]) (AVL r)) as (rv' & H).
    exists rv'. unfold SS_APPEND, mkSS in H |- *. etransitivity; [exact H|]. unfold nl_lines, render_line, sep_cs, c_comma, c_space, c_nl.
    cbn [map]. rewrite <- !app_assoc. reflexivity.
Qed.

Lemma ss_asts_loop n sec m line : forall asts tmp kv av0 rv,
  exists kv' av' rv',
    for_list (fun a s' => ablock (12 + n) (aset 4 (AVAst a) (aset 3 (AVS (a_key a)) s')) [AForPolicy 5 4 SS_APPEND]) asts
             (mkSS tmp sec kv av0 rv m line)
    = ANext (mkSS (tmp ++ nl_lines (rules_lines asts)) sec kv' av' rv' m line).
Proof.
  induction asts as [|a asts IH]; intros tmp kv av0 rv; cbn [for_list].
  - exists kv, av0, rv. unfold rules_lines, nl_lines. cbn [flat_map map]. rewrite app_nil_r. reflexivity.
  - unfold mkSS at 1.
    match goal with |- context [ablock ?k ?s ?b] =>
      change (ablock k s b) with
        (match for_list (fun r s' => ablock (8 + (1 + n)) (aset 5 (AVL r) s') SS_APPEND) (a_pol a)
                        (mkSS tmp sec (AVS (a_key a)) (AVAst a) rv m line) with
         | ANext s' => ablock (10 + n) s' [] | o => o end) end.
    destruct (ss_rules_loop (1 + n) sec (a_key a) a m line (a_pol a) tmp rv) as (rv1 & H1). rewrite H1.
    change (ablock (10 + n) ?s []) with (ANext s).
    destruct (IH (tmp ++ nl_lines (map (render_line (a_key a)) (a_pol a))) (AVS (a_key a)) (AVAst a) rv1) as (kv' & av' & rv' & H).
    exists kv', av', rv'. rewrite H. unfold rules_lines, nl_lines. cbn [flat_map]. rewrite map_app, <- app_assoc. reflexivity.
Qed.

Definition SS_SEC_BODY : list ast_ :=
  [AIf (ANot (AHasSec (AVar 2))) [AContinue] []; AForAsts 3 4 (AVar 2) [AForPolicy 5 4 SS_APPEND]].

Lemma ss_sec_body n c tmp sv kv av0 rv m line :
  exists kv' av' rv',
    match ablock (16 + n) (aset 2 (AVS [c]) (mkSS tmp sv kv av0 rv m line)) SS_SEC_BODY with
    | ANext s | ACont s => s = mkSS (tmp ++ nl_lines (sec_lines c m)) (AVS [c]) kv' av' rv' m line
    | AErr _ => False
    end.
Proof.
  destruct (sec_present m c) eqn:E.
  - destruct (ss_asts_loop (1 + n) (AVS [c]) m line (sec_asts m c) tmp kv av0 rv) as (kv' & av' & rv' & H).
    exists kv', av', rv'. rewrite (sec_lines_filter c m).
    unfold SS_SEC_BODY, mkSS at 1.
    match goal with |- context [ablock ?k ?s ?b] => let v := alz (ablock k s b) in change (ablock k s b) with v end.
    rewrite E. cbv beta iota. cbn [negb]. cbv beta iota.
    unfold SS_APPEND, mkSS in H. cbn [Nat.add] in H.
    match type of H with ?lhs = _ => match goal with |- context [for_list ?F ?xs ?s] => change (for_list F xs s) with lhs end end.
    rewrite H. rewrite ?E. cbv beta iota. reflexivity.
  - exists kv, av0, rv. rewrite (sec_absent_lines c m E). unfold nl_lines. cbn [map]. rewrite app_nil_r.
    unfold SS_SEC_BODY, mkSS at 1.
    match goal with |- context [ablock ?k ?s ?b] => let v := alz (ablock k s b) in change (ablock k s b) with v end.
    rewrite E. cbv beta iota. cbn [negb]. cbv beta iota. reflexivity.
Qed.

Theorem tie_string_save m line0 : run_string_save m line0 = Ok (save_string m).
Proof.
  unfold run_string_save, arun_save_line, AFUEL, save_string, save_lines.
  let b := eval lazy in string_save_gen in change string_save_gen with b.
  change (ainit string_save_locals m line0) with
    {| a_loc := [(1, AVNone); (2, AVNone); (3, AVNone); (4, AVNone); (5, AVNone)]; a_model := m; a_out := None; a_line := line0 |}.
  cbn [ablock_file].
  lazymatch goal with |- context [aexec ?n ?s (AAssign ?x ?e)] => let v := alz (aexec n s (AAssign x e)) in change (aexec n s (AAssign x e)) with v end.
  cbv beta iota. fold (mkSS [] AVNone AVNone AVNone AVNone m line0).
  lazymatch goal with |- context [aexec ?n ?s (AForStrs ?x ?e ?b)] =>
    change (aexec n s (AForStrs x e b)) with
      (for_list (fun t s' => ablock 39 (aset 2 (AVS t) s') SS_SEC_BODY) [[112]; [103]] (mkSS [] AVNone AVNone AVNone AVNone m line0)) end.
  cbn [for_list].
  destruct (ss_sec_body 23 112 [] AVNone AVNone AVNone AVNone m line0) as (k1 & a1 & r1 & H1). change (16 + 23)%nat with 39%nat in H1.
  destruct (ablock 39 (aset 2 (AVS [112]) (mkSS [] AVNone AVNone AVNone AVNone m line0)) SS_SEC_BODY) as [s1|s1|e1]; try contradiction; subst s1;
  (destruct (ss_sec_body 23 103 ([] ++ nl_lines (sec_lines 112 m)) (AVS [112]) k1 a1 r1 m line0) as (k2 & a2 & r2 & H2); change (16 + 23)%nat with 39%nat in H2;
   destruct (ablock 39 (aset 2 (AVS [103]) (mkSS ([] ++ nl_lines (sec_lines 112 m)) (AVS [112]) k1 a1 r1 m line0)) SS_SEC_BODY) as [s2|s2|e2]; try contradiction; subst s2;
   unfold mkSS;
   lazymatch goal with |- context [aexec ?n ?s (ASetLine ?e)] => let v := alz (aexec n s (ASetLine e)) in change (aexec n s (ASetLine e)) with v end;
   cbv beta iota; cbn [a_line app]; rewrite join_nil_concat; unfold nl_lines, c_p, c_g; rewrite <- map_app; reflexivity).
Qed.
