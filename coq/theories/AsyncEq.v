(* AsyncEq.v — C18 "AsyncEnforcer behaves exactly like Enforcer": model + spec, NO proofs.

   Translation validation.  translators/asyncdiff.py dumps, for every method name that the sync
   class chain (Enforcer > ManagementEnforcer > InternalEnforcer > CoreEnforcer) and the async chain
   (AsyncEnforcer > AsyncManagementEnforcer > AsyncInternalEnforcer > CoreEnforcer) resolve to
   DIFFERENT definitions, both Python ASTs as values of the generic [tree] type below
   (coq/gen/AsyncGen.v, regenerated on every check).  This file defines, as small total functions,

     erase       async-erasure: AsyncFunctionDef -> FunctionDef, Await e -> e, async for/with -> for/with
     norm        three narrowly scoped statement-list rewrites (R1-R3 below) that undo the purely
                 syntactic detours the async twins take around `await` (a temporary for the awaited
                 adapter result; the inspect.iscoroutinefunction dispatch around watcher callbacks)
     canon       norm o erase, applied to BOTH twins
     tree_eqb    structural equality
     awaits_ok   the await discipline: a call of an `async def` callee is always directly awaited
                 and nothing else is ever awaited (erasure makes a *missing* await invisible, so this
                 is checked separately, on the un-erased async trees)
     temps_scoped  the temporaries R1/R2 eliminate occur nowhere else in their method
     differing / constructor_variants_ok / one-sided lists / import agreement: table-level checks

   Encoding of a Python AST node of class K with _fields f1..fk:  Node T_K [enc f1; ...; enc fk]
   where a list-valued field is ONE child [Node T_seq items], an absent optional field is
   [Node T_none []], an identifier-valued field is [Ident k], Constant.value is [Str k] (strings) or
   [Lit k] (anything else, keyed by type and repr).  Identifiers and string constants share one
   interning table (so that "update_for_add_policy" the string and .update_for_add_policy the
   attribute get the same number); the fields type_comment, Constant.kind and (empty) type_params
   are not emitted; docstrings are dropped.  Since every field is exactly one child and the tag
   fixes the field list, the encoding is injective on ASTs.

   The translator reads the tag numbers [T_*] and the reserved interned texts [K_*] FROM THIS FILE
   (single source of truth; the trailing comment of a K_ line gives namespace and Python spelling). *)
From Coq Require Import List NArith Bool String.
From PyCasbin Require Import Base.
Import ListNotations.
Local Open Scope N_scope.

Inductive tree : Type :=
| Node (tag : N) (kids : list tree)
| Ident (k : N)       (* identifier: Name.id, Attribute.attr, arg.arg, FunctionDef.name, ... *)
| Str (k : N)         (* string constant (same interning table as Ident) *)
| Lit (k : N).        (* any other constant, interned by "type:repr" *)

(* ---------- tags (Python 3.12 ast node classes accepted by the translator) ---------- *)
Definition T_seq : N := 1.     (* a list-valued field *)
Definition T_none : N := 2.    (* an absent optional field *)
Definition T_FunctionDef : N := 10.
Definition T_AsyncFunctionDef : N := 11.
Definition T_ClassDef : N := 12.
Definition T_Return : N := 13.
Definition T_Delete : N := 14.
Definition T_Assign : N := 15.
Definition T_AugAssign : N := 16.
Definition T_AnnAssign : N := 17.
Definition T_For : N := 18.
Definition T_AsyncFor : N := 19.
Definition T_While : N := 20.
Definition T_If : N := 21.
Definition T_With : N := 22.
Definition T_AsyncWith : N := 23.
Definition T_Raise : N := 24.
Definition T_Try : N := 25.
Definition T_TryStar : N := 26.
Definition T_Assert : N := 27.
Definition T_Import : N := 28.
Definition T_ImportFrom : N := 29.
Definition T_Global : N := 30.
Definition T_Nonlocal : N := 31.
Definition T_Expr : N := 32.
Definition T_Pass : N := 33.
Definition T_Break : N := 34.
Definition T_Continue : N := 35.
Definition T_BoolOp : N := 36.
Definition T_NamedExpr : N := 37.
Definition T_BinOp : N := 38.
Definition T_UnaryOp : N := 39.
Definition T_Lambda : N := 40.
Definition T_IfExp : N := 41.
Definition T_Dict : N := 42.
Definition T_Set : N := 43.
Definition T_ListComp : N := 44.
Definition T_SetComp : N := 45.
Definition T_DictComp : N := 46.
Definition T_GeneratorExp : N := 47.
Definition T_Await : N := 48.
Definition T_Yield : N := 49.
Definition T_YieldFrom : N := 50.
Definition T_Compare : N := 51.
Definition T_Call : N := 52.
Definition T_FormattedValue : N := 53.
Definition T_JoinedStr : N := 54.
Definition T_Constant : N := 55.
Definition T_Attribute : N := 56.
Definition T_Subscript : N := 57.
Definition T_Starred : N := 58.
Definition T_Name : N := 59.
Definition T_List : N := 60.
Definition T_Tuple : N := 61.
Definition T_Slice : N := 62.
Definition T_Load : N := 63.
Definition T_Store : N := 64.
Definition T_Del : N := 65.
Definition T_And : N := 66.
Definition T_Or : N := 67.
Definition T_Add : N := 68.
Definition T_Sub : N := 69.
Definition T_Mult : N := 70.
Definition T_MatMult : N := 71.
Definition T_Div : N := 72.
Definition T_Mod : N := 73.
Definition T_Pow : N := 74.
Definition T_LShift : N := 75.
Definition T_RShift : N := 76.
Definition T_BitOr : N := 77.
Definition T_BitXor : N := 78.
Definition T_BitAnd : N := 79.
Definition T_FloorDiv : N := 80.
Definition T_Invert : N := 81.
Definition T_Not : N := 82.
Definition T_UAdd : N := 83.
Definition T_USub : N := 84.
Definition T_Eq : N := 85.
Definition T_NotEq : N := 86.
Definition T_Lt : N := 87.
Definition T_LtE : N := 88.
Definition T_Gt : N := 89.
Definition T_GtE : N := 90.
Definition T_Is : N := 91.
Definition T_IsNot : N := 92.
Definition T_In : N := 93.
Definition T_NotIn : N := 94.
Definition T_comprehension : N := 95.
Definition T_ExceptHandler : N := 96.
Definition T_arguments : N := 97.
Definition T_arg : N := 98.
Definition T_keyword : N := 99.
Definition T_alias : N := 100.
Definition T_withitem : N := 101.

(* ---------- reserved interned texts (namespace s = identifier/string, l = other literal) ---------- *)
Definition K_inspect : N := 1. (* s "inspect" *)
Definition K_iscoroutinefunction : N := 2. (* s "iscoroutinefunction" *)
Definition K_callable : N := 3. (* s "callable" *)
Definition K_getattr : N := 4. (* s "getattr" *)
Definition K_None : N := 5. (* l "NoneType:None" *)
Definition K_self : N := 6. (* s "self" *)
Definition K_adapter : N := 7. (* s "adapter" *)
Definition K_is_filtered : N := 8. (* s "is_filtered" *)
Definition K_load_policy : N := 9. (* s "load_policy" *)
Definition K_AsyncFileAdapter : N := 10. (* s "AsyncFileAdapter" *)
Definition K_FileAdapter : N := 11. (* s "FileAdapter" *)
Definition K_AsyncAdapter : N := 12. (* s "AsyncAdapter" *)
Definition K_Adapter : N := 13. (* s "Adapter" *)

(* ---------- structural equality ---------- *)
Fixpoint tree_eqb (a b : tree) {struct a} : bool :=
  match a, b with
  | Node t1 k1, Node t2 k2 =>
      N.eqb t1 t2 &&
      (fix go (l1 l2 : list tree) {struct l1} : bool :=
         match l1, l2 with
         | [], [] => true
         | x :: r1, y :: r2 => tree_eqb x y && go r1 r2
         | _, _ => false
         end) k1 k2
  | Ident x, Ident y => N.eqb x y
  | Str x, Str y => N.eqb x y
  | Lit x, Lit y => N.eqb x y
  | _, _ => false
  end.

Fixpoint trees_eqb (l1 l2 : list tree) : bool :=
  match l1, l2 with
  | [], [] => true
  | x :: r1, y :: r2 => tree_eqb x y && trees_eqb r1 r2
  | _, _ => false
  end.

(* path (child indices) to the first difference; None = equal.  Diagnostics only. *)
Fixpoint diff_path (a b : tree) {struct a} : option (list N) :=
  match a, b with
  | Node t1 k1, Node t2 k2 =>
      if negb (N.eqb t1 t2) then Some []
      else (fix go (i : N) (l1 l2 : list tree) {struct l1} : option (list N) :=
              match l1, l2 with
              | [], [] => None
              | x :: r1, y :: r2 =>
                  match diff_path x y with Some p => Some (i :: p) | None => go (i + 1) r1 r2 end
              | _, _ => Some [i]
              end) 0 k1 k2
  | Ident x, Ident y => if N.eqb x y then None else Some []
  | Str x, Str y => if N.eqb x y then None else Some []
  | Lit x, Lit y => if N.eqb x y then None else Some []
  | _, _ => Some []
  end.

(* ---------- async erasure ---------- *)
Definition erase_tag (tag : N) : N :=
  if tag =? T_AsyncFunctionDef then T_FunctionDef
  else if tag =? T_AsyncFor then T_For
  else if tag =? T_AsyncWith then T_With
  else tag.

Fixpoint erase (t : tree) : tree :=
  match t with
  | Node tag kids =>
      let kids' := map erase kids in
      if tag =? T_Await then match kids' with [x] => x | _ => Node tag kids' end
      else Node (erase_tag tag) kids'
  | _ => t
  end.

(* ---------- small syntax helpers ---------- *)
Definition seq (l : list tree) : tree := Node T_seq l.
Definition ctx_load : tree := Node T_Load [].
Definition ctx_store : tree := Node T_Store [].
Definition name_load (v : N) : tree := Node T_Name [Ident v; ctx_load].
Definition name_store (v : N) : tree := Node T_Name [Ident v; ctx_store].
Definition attr_load (o : tree) (a : N) : tree := Node T_Attribute [o; Ident a; ctx_load].
Definition call (f : tree) (args : list tree) : tree := Node T_Call [f; seq args; seq []].

(* does identifier v occur anywhere (as a name, attribute, argument, ...)?  conservative *)
Fixpoint occurs (v : N) (t : tree) : bool :=
  match t with
  | Node _ kids => existsb (occurs v) kids
  | Ident k => N.eqb k v
  | _ => false
  end.

(* replace every READ of the local v by r *)
Fixpoint subst_name (v : N) (r : tree) (t : tree) : tree :=
  match t with
  | Node tag kids => if tree_eqb t (name_load v) then r else Node tag (map (subst_name v r) kids)
  | _ => t
  end.

(* x, x.a, x.a.b : expressions whose repeated evaluation is an attribute lookup only *)
Fixpoint is_path (t : tree) : bool :=
  match t with
  | Node tag [Ident _; c] => (tag =? T_Name) && tree_eqb c ctx_load
  | Node tag [o; Ident _; c] => (tag =? T_Attribute) && tree_eqb c ctx_load && is_path o
  | _ => false
  end.

Definition is_constant (t : tree) : bool :=
  match t with
  | Node tag [Str _] => tag =? T_Constant
  | Node tag [Lit _] => tag =? T_Constant
  | _ => false
  end.

(* inspect.iscoroutinefunction(v) *)
Definition iscoro_test (v : N) : tree := call (attr_load (name_load K_inspect) K_iscoroutinefunction) [name_load v].
Definition as_iscoro_test (t : tree) : option N :=
  match t with
  | Node _ [_; Node _ [Node _ [Ident v; _]]; _] => if tree_eqb t (iscoro_test v) then Some v else None
  | _ => None
  end.

(* ---------- the three statement-list rewrites (applied after erasure, to BOTH twins) ----------

   R3 (coroutine dispatch)      if inspect.iscoroutinefunction(v): S else: S     ==>   S
        both branches are the same statement list once `await` is erased (S non-empty).  The test is
        a pure predicate on a local, so the conditional is a no-op.  Cannot hide a difference between
        the branches: they are compared with tree_eqb.

   R1 (temporary for a test)    v = E ; if v <ops> <constants>: B else: O ; rest
                           ==>  if E <ops> <constants>: B else: O ; rest
        provided v occurs nowhere else in this list (not in E, B, O, rest) — and nowhere else in the
        METHOD, which is checked globally (temps_scoped below).  E is evaluated once, first, in both
        forms.  (async: `result = await self.adapter.add_policy(..)` / `if result is False:`.)

   R2 (bound watcher callback)  v = getattr(P, "name", None) ; if callable(v): THEN else: O ; rest
                           ==>  if callable(getattr(P, "name", None)): THEN[v := P.name] else: O ; rest
        provided P is a path (x.a.b: re-evaluating it is attribute lookup only), v does not occur in
        P, O, rest (nor anywhere else in the method: temps_scoped), and every occurrence of v in THEN
        is a read.  Assumes what the sync code already assumes: looking the attribute up twice yields
        the same callable. *)
Definition r3 (t : tree) : option (list tree) :=
  match t with
  | Node tif [test; Node ts1 s1; Node ts2 s2] =>
      match as_iscoro_test test, s1 with
      | Some _, _ :: _ =>
          if (tif =? T_If) && (ts1 =? T_seq) && (ts2 =? T_seq) && trees_eqb s1 s2 then Some s1 else None
      | _, _ => None
      end
  | _ => None
  end.

Definition r1 (x y : tree) (rest : list tree) : option tree :=
  match x, y with
  | Node _ [Node _ [Node _ [Ident v; _]]; e], Node _ [Node _ [_; ops; Node _ cs]; b; o] =>
      if tree_eqb x (Node T_Assign [seq [name_store v]; e])
         && tree_eqb y (Node T_If [Node T_Compare [name_load v; ops; seq cs]; b; o])
         && forallb is_constant cs
         && negb (occurs v e) && negb (occurs v b) && negb (occurs v o) && negb (existsb (occurs v) rest)
      then Some (Node T_If [Node T_Compare [e; ops; seq cs]; b; o])
      else None
  | _, _ => None
  end.

Definition getattr_call (p : tree) (nm : N) : tree :=
  call (name_load K_getattr) [p; Node T_Constant [Str nm]; Node T_Constant [Lit K_None]].
Definition callable_call (a : tree) : tree := call (name_load K_callable) [a].

Definition r2 (x y : tree) (rest : list tree) : option tree :=
  match x, y with
  | Node _ [Node _ [Node _ [Ident v; _]]; Node _ [_; Node _ [p; Node _ [Str nm]; _]; _]],
    Node _ [_; Node _ then_; o] =>
      let g := getattr_call p nm in
      let then' := map (subst_name v (attr_load p nm)) then_ in
      if tree_eqb x (Node T_Assign [seq [name_store v]; g])
         && tree_eqb y (Node T_If [callable_call (name_load v); seq then_; o])
         && is_path p
         && negb (occurs v p) && negb (occurs v o) && negb (existsb (occurs v) rest)
         && negb (existsb (occurs v) (map (subst_name v (Node T_none [])) then_))   (* v is only READ in THEN *)
      then Some (Node T_If [callable_call g; seq then'; o])
      else None
  | _, _ => None
  end.

Fixpoint rw_seq (l : list tree) : list tree :=
  match l with
  | [] => []
  | x :: rest =>
      let rest' := rw_seq rest in
      match r3 x with
      | Some body => body ++ rest'
      | None =>
          match rest' with
          | y :: rest'' =>
              match r1 x y rest'' with
              | Some z => z :: rest''
              | None => match r2 x y rest'' with
                        | Some z => z :: rest''
                        | None => x :: rest'
                        end
              end
          | [] => [x]
          end
      end
  end.

Fixpoint norm (t : tree) : tree :=
  match t with
  | Node tag kids =>
      let kids' := map norm kids in
      if tag =? T_seq then Node tag (rw_seq kids') else Node tag kids'
  | _ => t
  end.

Definition canon (t : tree) : tree := norm (erase t).

(* ---------- scoping of the temporaries that R1 / R2 eliminate ----------
   R1 and R2 delete the binding of a local v.  That is only meaning-preserving when v occurs NOWHERE
   else in the method (a later `return v`, a second assignment, ... would observe the difference), which
   a rewrite of one statement list cannot see.  So it is checked globally, as a post-condition: every
   variable eliminated while normalising a method must not occur AS A VARIABLE anywhere in the
   normalised method.  (Attribute names and keyword-argument names are not variables; R2 only
   introduces attribute names.) *)
Fixpoint count_var (v : N) (t : tree) : nat :=
  match t with
  | Node tag kids =>
      if tag =? T_Attribute then match kids with o :: _ => count_var v o | [] => O end
      else if tag =? T_keyword then match kids with _ :: r => list_sum (map (count_var v) r) | [] => O end
      else list_sum (map (count_var v) kids)
  | Ident k => if k =? v then 1%nat else O
  | _ => O
  end.

Definition assign_target (x : tree) : option N :=
  match x with Node _ [Node _ [Node _ [Ident v; _]]; _] => Some v | _ => None end.
Definition opt_cons (o : option N) (l : list N) : list N := match o with Some v => v :: l | None => l end.

(* the variables eliminated by rw_seq l (same traversal as rw_seq) *)
Fixpoint rw_seq_vars (l : list tree) : list N :=
  match l with
  | [] => []
  | x :: rest =>
      let rest' := rw_seq rest in
      let vs := rw_seq_vars rest in
      match r3 x with
      | Some _ => vs
      | None =>
          match rest' with
          | y :: rest'' =>
              match r1 x y rest'' with
              | Some _ => opt_cons (assign_target x) vs
              | None => match r2 x y rest'' with
                        | Some _ => opt_cons (assign_target x) vs
                        | None => vs
                        end
              end
          | [] => vs
          end
      end
  end.

Fixpoint norm_vars (t : tree) : list N :=
  match t with
  | Node tag kids => flat_map norm_vars kids ++ (if tag =? T_seq then rw_seq_vars (map norm kids) else [])
  | _ => []
  end.

Definition temps_scoped (t : tree) : bool :=
  forallb (fun v => Nat.eqb (count_var v (norm t)) O) (norm_vars t).


(* ---------- the await discipline (on the UN-erased async trees) ----------
   selfs    = identifiers m such that self.m resolves to an `async def` in the async class chain
   adapters = identifiers m declared `async def` by the async adapter interfaces
   coros    = locals known to be coroutine functions here (then-branch of
              `if inspect.iscoroutinefunction(v)`)
   A call whose callee is self.m / self.adapter.m / v with m, v in those sets must be the operand of
   an Await; an Await must have exactly such a call as operand.  async for/with, yield are rejected
   (no twin uses them; their erasure would need a separate argument). *)
Definition async_callee (selfs adapters coros : list N) (f : tree) : bool :=
  match f with
  | Node _ [_; Ident m; _] =>
      (mem N.eqb m selfs && tree_eqb f (attr_load (name_load K_self) m))
      || (mem N.eqb m adapters && tree_eqb f (attr_load (attr_load (name_load K_self) K_adapter) m))
  | Node _ [Ident v; _] => mem N.eqb v coros && tree_eqb f (name_load v)
  | _ => false
  end.

Definition remove_N (v : N) (l : list N) : list N := filter (fun x => negb (N.eqb x v)) l.

Definition is_call (t : tree) : bool :=
  match t with Node tc _ => tc =? T_Call | _ => false end.

(* ua = "this node is the operand of an Await" *)
Fixpoint awaits_ok (selfs adapters coros : list N) (ua : bool) (t : tree) {struct t} : bool :=
  match t with
  | Node tag kids =>
      if tag =? T_Await then
        match kids with
        | [x] => is_call x && awaits_ok selfs adapters coros true x
        | _ => false
        end
      else if tag =? T_Call then
        match kids with
        | f :: args =>
            Bool.eqb ua (async_callee selfs adapters coros f)
            && awaits_ok selfs adapters coros false f && forallb (awaits_ok selfs adapters coros false) args
        | [] => false
        end
      else if tag =? T_If then
        match kids with
        | [test; th; el] =>
            match as_iscoro_test test with
            | Some v => awaits_ok selfs adapters coros false test
                        && awaits_ok selfs adapters (v :: coros) false th
                        && awaits_ok selfs adapters (remove_N v coros) false el
            | None => awaits_ok selfs adapters coros false test && awaits_ok selfs adapters coros false th
                      && awaits_ok selfs adapters coros false el
            end
        | _ => false
        end
      else if (tag =? T_AsyncFor) || (tag =? T_AsyncWith) || (tag =? T_Yield) || (tag =? T_YieldFrom) then false
      else forallb (awaits_ok selfs adapters coros false) kids
  | _ => true
  end.

(* every Await has exactly one operand satisfying P (what erase_preserves_on needs) *)
Fixpoint awaited_all (P : tree -> bool) (t : tree) : bool :=
  match t with
  | Node tag kids =>
      forallb (awaited_all P) kids
      && (if tag =? T_Await then match kids with [x] => P x | _ => false end else true)
  | _ => true
  end.

(* ---------- what "semantics" means in the erasure theorems ----------
   A semantics is ANY function s from trees to some domain A that is compositional: the meaning of a
   node is a function (alg) of its tag and the meanings of its children — denotational semantics
   with environments, stores, continuations... are all of this form.  "Each call awaited, the
   coroutine run to completion" is the hypothesis that Await is the identity on meanings and that
   the async forms of def/for/with mean what the plain forms mean. *)
Definition compositional {A : Type} (s : tree -> A) (alg : N -> list A -> A) : Prop :=
  forall tag kids, s (Node tag kids) = alg tag (map s kids).
Definition async_forms_transparent {A : Type} (alg : N -> list A -> A) : Prop :=
  (forall l, alg T_AsyncFunctionDef l = alg T_FunctionDef l)
  /\ (forall l, alg T_AsyncFor l = alg T_For l)
  /\ (forall l, alg T_AsyncWith l = alg T_With l).
Definition await_transparent {A : Type} (alg : N -> list A -> A) : Prop :=
  (forall a, alg T_Await [a] = a) /\ async_forms_transparent alg.
(* weaker: Await only has to be the identity on the meanings of the operands it is applied to
   (operands satisfying P; with the discipline: calls) *)
Definition await_transparent_on {A : Type} (P : tree -> bool) (s : tree -> A) (alg : N -> list A -> A) : Prop :=
  (forall x, P x = true -> alg T_Await [s x] = s x) /\ async_forms_transparent alg.
(* the semantics validates the statement-list rewrites R1-R3 on EVERY statement list (a strong, local
   hypothesis: abstract semantics that do not observe the eliminated temporaries satisfy it) *)
Definition seq_rewrites_sound {A : Type} (s : tree -> A) (alg : N -> list A -> A) : Prop :=
  forall l, alg T_seq (map s (rw_seq l)) = alg T_seq (map s l).
(* the weaker, method-level hypothesis the table theorems use: normalisation preserves the meaning of
   a method WHOSE ELIMINATED TEMPORARIES OCCUR NOWHERE ELSE — the form a store-based semantics can
   satisfy (the local hypothesis above implies it: norm_sound_from_local) *)
Definition norm_sound_on_scoped {A : Type} (s : tree -> A) : Prop :=
  forall m, temps_scoped m = true -> s (norm m) = s m.

(* ---------- the regenerated table and the table-level checks ---------- *)
Record method : Type := Method {
  m_name : string;        (* Python method name *)
  m_sync_mod : N;         (* index of the module defining the sync twin *)
  m_sync : tree;
  m_async_mod : N;
  m_async : tree }.

Definition twin_eqb (m : method) : bool := tree_eqb (canon (m_async m)) (canon (m_sync m)).

(* names of the shared methods whose canonical trees differ *)
Definition differing (ms : list method) : list string :=
  map m_name (filter (fun m => negb (twin_eqb m)) ms).

(* shared methods in which a temporary eliminated by R1/R2 still occurs elsewhere (either twin) *)
Definition unscoped_temps (ms : list method) : list string :=
  map m_name (filter (fun m => negb (temps_scoped (erase (m_async m)) && temps_scoped (erase (m_sync m)))) ms).

Definition is_async_def (t : tree) : bool :=
  match t with Node tag _ => tag =? T_AsyncFunctionDef | _ => false end.
Definition def_ident (t : tree) : option N :=
  match t with Node _ (Ident k :: _) => Some k | _ => None end.
Fixpoint async_idents (ts : list tree) : list N :=
  match ts with
  | [] => []
  | t :: r => if is_async_def t then match def_ident t with Some k => k :: async_idents r | None => async_idents r end
              else async_idents r
  end.

(* the discipline over everything the async chain executes:
   async twins of the shared methods, async-only methods, CoreEnforcer methods it inherits *)
Definition discipline_failures (shared : list method) (async_only core_inherited iface : list (string * tree))
  : list string :=
  let asyncs := map m_async shared ++ map snd async_only in
  let selfs := async_idents asyncs in
  let adapters := async_idents (map snd iface) in
  map fst (filter (fun p => negb (awaits_ok selfs adapters [] false (snd p)))
                  (map (fun m => (m_name m, m_async m)) shared ++ async_only ++ core_inherited)).

(* constructor variants: the two CoreEnforcer initialisers that AsyncInternalEnforcer overrides.
   They are not part of a call history ("started from the same model and policy"); the async
   constructor cannot await, so it does not auto-load.  Exact relation:
     init_with_file               equal after renaming the adapter classes
     init_with_model_and_adapter  equal after renaming and removing the sync twin's LAST statement,
                                  which is exactly `if self.adapter and not self.is_filtered(): self.load_policy()` *)
Definition class_table : list (N * N) :=
  [(K_AsyncFileAdapter, K_FileAdapter); (K_AsyncAdapter, K_Adapter)].
Fixpoint lookupN (k : N) (tbl : list (N * N)) : N :=
  match tbl with [] => k | (a, b) :: r => if N.eqb a k then b else lookupN k r end.
Fixpoint rename (tbl : list (N * N)) (t : tree) : tree :=
  match t with
  | Node tag kids => Node tag (map (rename tbl) kids)
  | Ident k => Ident (lookupN k tbl)
  | _ => t
  end.

Fixpoint split_last (l : list tree) : option (list tree * tree) :=
  match l with
  | [] => None
  | [x] => Some ([], x)
  | x :: r => match split_last r with Some (i, z) => Some (x :: i, z) | None => None end
  end.
(* FunctionDef [name; args; seq body; decorators; returns; ...]  ->  (same with body minus last, last) *)
Definition drop_last_stmt (t : tree) : option (tree * tree) :=
  match t with
  | Node tag (nm :: args :: Node ts body :: more) =>
      if (tag =? T_FunctionDef) && (ts =? T_seq) then
        match split_last body with
        | Some (i, z) => Some (Node tag (nm :: args :: Node ts i :: more), z)
        | None => None
        end
      else None
  | _ => None
  end.
Definition auto_load_stmt : tree :=
  Node T_If [ Node T_BoolOp [Node T_And [];
                             seq [attr_load (name_load K_self) K_adapter;
                                  Node T_UnaryOp [Node T_Not []; call (attr_load (name_load K_self) K_is_filtered) []]]];
              seq [Node T_Expr [call (attr_load (name_load K_self) K_load_policy) []]];
              seq [] ].

Fixpoint find_method (n : string) (ms : list method) : option method :=
  match ms with [] => None | m :: r => if String.eqb (m_name m) n then Some m else find_method n r end.

Definition init_file_ok (ms : list method) : bool :=
  match find_method "init_with_file" ms with
  | Some m => tree_eqb (rename class_table (canon (m_async m))) (canon (m_sync m))
  | None => false
  end.
Definition init_model_ok (ms : list method) : bool :=
  match find_method "init_with_model_and_adapter" ms with
  | Some m => match drop_last_stmt (canon (m_sync m)) with
              | Some (s', z) => tree_eqb (rename class_table (canon (m_async m))) s' && tree_eqb z auto_load_stmt
              | None => false
              end
  | None => false
  end.
Definition constructor_variants_ok (ms : list method) : bool := init_file_ok ms && init_model_ok ms.

(* imports: module index -> (bound identifier, origin).  (i) one origin per identifier across all
   seven modules; (ii) an identifier that the sync twin's module imports and the async twin's body
   uses is imported by the async twin's module too (else: NameError at run time although the trees
   are equal). *)
Definition imports_t := list (N * list (N * string)).
Definition all_bindings (imps : imports_t) : list (N * string) := flat_map snd imps.
(* (iii) the names R2/R3 rely on mean what they say: `inspect` is the stdlib module wherever it is
   bound, and no module rebinds the builtins callable / getattr *)
Definition reserved_binding_ok (b : N * string) : bool :=
  if N.eqb (fst b) K_inspect then String.eqb (snd b) "inspect"
  else negb (N.eqb (fst b) K_callable || N.eqb (fst b) K_getattr).
Definition imports_consistent (imps : imports_t) : bool :=
  let all := all_bindings imps in
  forallb (fun a => forallb (fun b => negb (N.eqb (fst a) (fst b)) || String.eqb (snd a) (snd b)) all) all
  && forallb reserved_binding_ok all.
Fixpoint module_imports (i : N) (imps : imports_t) : list (N * string) :=
  match imps with [] => [] | (j, l) :: r => if N.eqb i j then l else module_imports i r end.
Definition binds (x : N) (l : list (N * string)) : bool := existsb (fun b => N.eqb (fst b) x) l.
Definition imports_cover_method (imps : imports_t) (m : method) : bool :=
  let si := module_imports (m_sync_mod m) imps in
  let ai := module_imports (m_async_mod m) imps in
  forallb (fun b => negb (occurs (fst b) (canon (m_async m))) || binds (fst b) ai) si.
Definition imports_uncovered (imps : imports_t) (ms : list method) : list string :=
  map m_name (filter (fun m => negb (imports_cover_method imps m)) ms).

(* ---------- wire encoding of trees and the oracle ---------- *)
Fixpoint tree_of_val (v : val) {struct v} : option tree :=
  match v with
  | VL [VN 0; VN tag; VL kids] =>
      match (fix go (l : list val) {struct l} : option (list tree) :=
               match l with
               | [] => Some []
               | x :: r => match tree_of_val x, go r with
                           | Some t, Some ts => Some (t :: ts)
                           | _, _ => None
                           end
               end) kids with
      | Some ts => Some (Node tag ts)
      | None => None
      end
  | VL [VN 1; VN k] => Some (Ident k)
  | VL [VN 2; VN k] => Some (Str k)
  | VL [VN 3; VN k] => Some (Lit k)
  | _ => None
  end.

Fixpoint val_of_tree (t : tree) : val :=
  match t with
  | Node tag kids => VL [VN 0; VN tag; VL (map val_of_tree kids)]
  | Ident k => VL [VN 1; VN k]
  | Str k => VL [VN 2; VN k]
  | Lit k => VL [VN 3; VN k]
  end.

(* tags:  1 [async; sync]                 -> canon trees equal?
          2 [async; sync]                 -> () if equal, else [path] to the first difference of the canon trees
          3 t                             -> canon t
          4 [t; selfs; adapters]          -> awaits_ok
          5 [async; sync]                 -> equal after erase only (no R1-R3)?  (shows what norm contributes)
          6 t                             -> temps_scoped (erase t) *)
Definition oracle_C18 (tag : N) (v : val) : val :=
  match tag, v with
  | 1, VL [a; s] =>
      match tree_of_val a, tree_of_val s with
      | Some a', Some s' => vbool (tree_eqb (canon a') (canon s'))
      | _, _ => vbad
      end
  | 2, VL [a; s] =>
      match tree_of_val a, tree_of_val s with
      | Some a', Some s' => vopt (vlist VN) (diff_path (canon a') (canon s'))
      | _, _ => vbad
      end
  | 3, t =>
      match tree_of_val t with Some t' => val_of_tree (canon t') | None => vbad end
  | 4, VL [t; selfs; adapters] =>
      match tree_of_val t, as_listof as_N selfs, as_listof as_N adapters with
      | Some t', Some s, Some a => vbool (awaits_ok s a [] false t')
      | _, _, _ => vbad
      end
  | 5, VL [a; s] =>
      match tree_of_val a, tree_of_val s with
      | Some a', Some s' => vbool (tree_eqb (erase a') (erase s'))
      | _, _ => vbad
      end
  | 6, t =>
      match tree_of_val t with Some t' => vbool (temps_scoped (erase t')) | None => vbad end
  | _, _ => vbad
  end.
