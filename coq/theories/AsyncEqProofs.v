(* AsyncEqProofs.v — lemmas for C18 (see AsyncEq.v for the definitions).
   Generic, semantics-parametric erasure / normalisation theorems over ALL trees, and the lemmas that
   turn the kernel-decided table checks into statements about every shared method. *)
From Coq Require Import List NArith Bool String.
From PyCasbin Require Import Base AsyncEq.
Import ListNotations.
Local Open Scope N_scope.

Local Arguments N.eqb : simpl never.

(* ---------- induction over rose trees ---------- *)
Section TreeInd.
  Variable P : tree -> Prop.
  Hypothesis HNode : forall tag kids, Forall P kids -> P (Node tag kids).
  Hypothesis HIdent : forall k, P (Ident k).
  Hypothesis HStr : forall k, P (Str k).
  Hypothesis HLit : forall k, P (Lit k).
  Fixpoint tree_ind' (t : tree) : P t :=
    match t with
    | Node tag kids =>
        HNode tag kids
          ((fix go (l : list tree) : Forall P l :=
              match l with
              | [] => Forall_nil P
              | x :: r => Forall_cons x (tree_ind' x) (go r)
              end) kids)
    | Ident k => HIdent k
    | Str k => HStr k
    | Lit k => HLit k
    end.
End TreeInd.

(* ---------- tree_eqb decides equality ---------- *)
Lemma tree_eqb_eq : forall a b, tree_eqb a b = true -> a = b.
Proof.
  induction a as [tag kids IH | k | k | k] using tree_ind'; destruct b as [tag2 kids2 | k2 | k2 | k2];
    simpl; try discriminate; intro H.
  - apply andb_true_iff in H. destruct H as [Ht Hk]. apply N.eqb_eq in Ht. subst tag2. f_equal.
    revert kids2 Hk. induction IH as [| x r Hx Hr IHr]; destruct kids2 as [| y r2]; try discriminate; auto.
    intro Hk. apply andb_true_iff in Hk. destruct Hk as [H1 H2]. f_equal; auto.
  - apply N.eqb_eq in H. congruence.
  - apply N.eqb_eq in H. congruence.
  - apply N.eqb_eq in H. congruence.
Qed.

Lemma tree_eqb_refl : forall a, tree_eqb a a = true.
Proof.
  induction a as [tag kids IH | k | k | k] using tree_ind'; simpl; try apply N.eqb_refl.
  rewrite N.eqb_refl. simpl. induction IH as [| x r Hx Hr IHr]; auto. rewrite Hx. simpl. exact IHr.
Qed.

Lemma trees_eqb_eq : forall l1 l2, trees_eqb l1 l2 = true -> l1 = l2.
Proof.
  induction l1 as [| x r IH]; destruct l2 as [| y r2]; simpl; try discriminate; auto.
  intro H. apply andb_true_iff in H. destruct H as [H1 H2]. f_equal; [apply tree_eqb_eq | apply IH]; assumption.
Qed.

(* ---------- helper: pointwise equal maps ---------- *)
Lemma map_ext_Forall : forall (A B : Type) (f g : A -> B) l, Forall (fun x => f x = g x) l -> map f l = map g l.
Proof. induction 1; simpl; congruence. Qed.

(* ---------- (a) the erasure theorem: for ALL trees ---------- *)
Theorem erase_preserves :
  forall (A : Type) (s : tree -> A) (alg : N -> list A -> A),
    compositional s alg -> await_transparent alg ->
    forall t, s (erase t) = s t.
Proof.
  intros A s alg Hc [Haw [Hfd [Hfor Hwith]]].
  induction t as [tag kids IH | k | k | k] using tree_ind'; try reflexivity.
  assert (Hm : map s (map erase kids) = map s kids).
  { rewrite map_map. apply map_ext_Forall. exact IH. }
  simpl. destruct (tag =? T_Await) eqn:Ea.
  - apply N.eqb_eq in Ea. subst tag.
    destruct kids as [| x [| y r]].
    + simpl. reflexivity.
    + simpl. inversion IH; subst. rewrite (Hc T_Await [x]). simpl. rewrite Haw. assumption.
    + simpl. rewrite !Hc. simpl. simpl in Hm. rewrite Hm. reflexivity.
  - rewrite !Hc. rewrite Hm. unfold erase_tag.
    destruct (tag =? T_AsyncFunctionDef) eqn:E1; [apply N.eqb_eq in E1; subst; symmetry; apply Hfd |].
    destruct (tag =? T_AsyncFor) eqn:E2; [apply N.eqb_eq in E2; subst; symmetry; apply Hfor |].
    destruct (tag =? T_AsyncWith) eqn:E3; [apply N.eqb_eq in E3; subst; symmetry; apply Hwith |].
    reflexivity.
Qed.

(* refinement: Await only needs to be transparent on the operands it is actually applied to *)
Theorem erase_preserves_on :
  forall (A : Type) (s : tree -> A) (alg : N -> list A -> A) (P : tree -> bool),
    compositional s alg -> await_transparent_on P s alg ->
    forall t, awaited_all P t = true -> s (erase t) = s t.
Proof.
  intros A s alg P Hc [Haw [Hfd [Hfor Hwith]]].
  induction t as [tag kids IH | k | k | k] using tree_ind'; try reflexivity.
  intro Hok. simpl in Hok. apply andb_true_iff in Hok. destruct Hok as [Hkids Hroot].
  assert (IH' : Forall (fun k => s (erase k) = s k) kids).
  { rewrite forallb_forall in Hkids. rewrite Forall_forall in *. intros x Hx. apply IH; auto. }
  assert (Hm : map s (map erase kids) = map s kids).
  { rewrite map_map. apply map_ext_Forall. exact IH'. }
  simpl. destruct (tag =? T_Await) eqn:Ea.
  - apply N.eqb_eq in Ea. subst tag.
    destruct kids as [| x [| y r]]; try discriminate.
    simpl. inversion IH'; subst. rewrite (Hc T_Await [x]). simpl. rewrite Haw by assumption. assumption.
  - rewrite !Hc. rewrite Hm. unfold erase_tag.
    destruct (tag =? T_AsyncFunctionDef) eqn:E1; [apply N.eqb_eq in E1; subst; symmetry; apply Hfd |].
    destruct (tag =? T_AsyncFor) eqn:E2; [apply N.eqb_eq in E2; subst; symmetry; apply Hfor |].
    destruct (tag =? T_AsyncWith) eqn:E3; [apply N.eqb_eq in E3; subst; symmetry; apply Hwith |].
    reflexivity.
Qed.

(* the await discipline implies that every Await is applied to a call *)
Lemma awaits_ok_awaited : forall selfs adapters t coros ua,
  awaits_ok selfs adapters coros ua t = true -> awaited_all is_call t = true.
Proof.
  intros selfs adapters.
  induction t as [tag kids IH | k | k | k] using tree_ind'; try reflexivity.
  intros coros ua H. simpl in H. simpl.
  destruct (tag =? T_Await) eqn:Ea.
  - destruct kids as [| x [| y r]]; try discriminate.
    apply andb_true_iff in H. destruct H as [Hc Hx]. inversion IH; subst.
    simpl. rewrite (H1 _ _ Hx). rewrite Hc. reflexivity.
  - rewrite andb_true_r.
    destruct (tag =? T_Call) eqn:Ec.
    + destruct kids as [| f args]; try discriminate.
      apply andb_true_iff in H. destruct H as [H Hargs]. apply andb_true_iff in H. destruct H as [_ Hf].
      inversion IH; subst. simpl. rewrite (H1 _ _ Hf). simpl.
      rewrite forallb_forall in *. rewrite Forall_forall in H2. intros x Hx. eapply H2; eauto.
    + destruct (tag =? T_If) eqn:Ei.
      * destruct kids as [| test [| th [| el [| z r]]]]; try discriminate.
        inversion IH as [| ? ? Ht IH1]; subst. inversion IH1 as [| ? ? Hth IH2]; subst.
        inversion IH2 as [| ? ? Hel _]; subst. simpl.
        destruct (as_iscoro_test test).
        -- apply andb_true_iff in H. destruct H as [H H3]. apply andb_true_iff in H. destruct H as [H1 H2].
           rewrite (Ht _ _ H1), (Hth _ _ H2), (Hel _ _ H3). reflexivity.
        -- apply andb_true_iff in H. destruct H as [H H3]. apply andb_true_iff in H. destruct H as [H1 H2].
           rewrite (Ht _ _ H1), (Hth _ _ H2), (Hel _ _ H3). reflexivity.
      * destruct ((tag =? T_AsyncFor) || (tag =? T_AsyncWith) || (tag =? T_Yield) || (tag =? T_YieldFrom)); try discriminate.
        rewrite forallb_forall in *. rewrite Forall_forall in IH. intros x Hx. eapply IH; eauto.
Qed.

(* ---------- normalisation ---------- *)
Theorem norm_preserves :
  forall (A : Type) (s : tree -> A) (alg : N -> list A -> A),
    compositional s alg -> seq_rewrites_sound s alg ->
    forall t, s (norm t) = s t.
Proof.
  intros A s alg Hc Hrw.
  induction t as [tag kids IH | k | k | k] using tree_ind'; try reflexivity.
  assert (Hm : map s (map norm kids) = map s kids).
  { rewrite map_map. apply map_ext_Forall. exact IH. }
  simpl. destruct (tag =? T_seq) eqn:Es.
  - apply N.eqb_eq in Es. subst tag. rewrite !Hc. rewrite Hrw. rewrite Hm. reflexivity.
  - rewrite !Hc. rewrite Hm. reflexivity.
Qed.

Theorem canon_preserves :
  forall (A : Type) (s : tree -> A) (alg : N -> list A -> A),
    compositional s alg -> await_transparent alg -> seq_rewrites_sound s alg ->
    forall t, s (canon t) = s t.
Proof.
  intros A s alg Hc Ha Hrw t. unfold canon.
  rewrite (norm_preserves A s alg Hc Hrw). apply (erase_preserves A s alg Hc Ha).
Qed.

(* ---------- from the decided table check to every shared method ---------- *)
Lemma twin_eqb_denote :
  forall (A : Type) (s : tree -> A) (alg : N -> list A -> A),
    compositional s alg -> await_transparent alg -> seq_rewrites_sound s alg ->
    forall m, twin_eqb m = true -> s (m_async m) = s (m_sync m).
Proof.
  intros A s alg Hc Ha Hrw m H. unfold twin_eqb in H. apply tree_eqb_eq in H.
  rewrite <- (canon_preserves A s alg Hc Ha Hrw (m_async m)).
  rewrite <- (canon_preserves A s alg Hc Ha Hrw (m_sync m)). congruence.
Qed.

Lemma not_differing_eqb : forall ms m, In m ms -> ~ In (m_name m) (differing ms) -> twin_eqb m = true.
Proof.
  intros ms m Hin Hnot. destruct (twin_eqb m) eqn:E; auto. exfalso. apply Hnot.
  unfold differing. apply in_map. apply filter_In. split; auto. rewrite E. reflexivity.
Qed.

(* in ANY compositional semantics in which await is the identity and R1-R3 are valid, every shared
   method outside the list [differing ms] denotes the same thing in its sync and its async form *)
Theorem twins_denote_equal :
  forall (ms : list method) (exceptions : list string), differing ms = exceptions ->
  forall (A : Type) (s : tree -> A) (alg : N -> list A -> A),
    compositional s alg -> await_transparent alg -> seq_rewrites_sound s alg ->
    forall m, In m ms -> ~ In (m_name m) exceptions -> s (m_async m) = s (m_sync m).
Proof.
  intros ms ex Hd A s alg Hc Ha Hrw m Hin Hnot. subst ex.
  apply (twin_eqb_denote A s alg Hc Ha Hrw). apply (not_differing_eqb ms); assumption.
Qed.

(* ---------- the method-level form: normalisation is only assumed sound on methods whose eliminated
   temporaries occur nowhere else (checked by the kernel for every twin) ---------- *)
Lemma norm_sound_from_local :
  forall (A : Type) (s : tree -> A) (alg : N -> list A -> A),
    compositional s alg -> seq_rewrites_sound s alg -> norm_sound_on_scoped s.
Proof. intros A s alg Hc Hrw m _. apply (norm_preserves A s alg Hc Hrw). Qed.

Theorem canon_preserves_scoped :
  forall (A : Type) (s : tree -> A) (alg : N -> list A -> A),
    compositional s alg -> await_transparent alg -> norm_sound_on_scoped s ->
    forall t, temps_scoped (erase t) = true -> s (canon t) = s t.
Proof.
  intros A s alg Hc Ha Hn t Hs. unfold canon. rewrite (Hn (erase t) Hs). apply (erase_preserves A s alg Hc Ha).
Qed.

Lemma unscoped_nil_scoped : forall ms, unscoped_temps ms = [] ->
  forall m, In m ms -> temps_scoped (erase (m_async m)) = true /\ temps_scoped (erase (m_sync m)) = true.
Proof.
  intros ms H m Hin. unfold unscoped_temps in H. apply map_eq_nil in H.
  destruct (temps_scoped (erase (m_async m)) && temps_scoped (erase (m_sync m))) eqn:E.
  - apply andb_true_iff in E. exact E.
  - exfalso.
    assert (Hin' : In m (filter (fun m => negb (temps_scoped (erase (m_async m)) && temps_scoped (erase (m_sync m)))) ms)).
    { apply filter_In. split; auto. rewrite E. reflexivity. }
    rewrite H in Hin'. inversion Hin'.
Qed.

Theorem twins_denote_equal_scoped :
  forall (ms : list method) (exceptions : list string),
    differing ms = exceptions -> unscoped_temps ms = [] ->
  forall (A : Type) (s : tree -> A) (alg : N -> list A -> A),
    compositional s alg -> await_transparent alg -> norm_sound_on_scoped s ->
    forall m, In m ms -> ~ In (m_name m) exceptions -> s (m_async m) = s (m_sync m).
Proof.
  intros ms ex Hd Hu A s alg Hc Ha Hn m Hin Hnot. subst ex.
  destruct (unscoped_nil_scoped ms Hu m Hin) as [Hsa Hss].
  assert (He : twin_eqb m = true) by (apply (not_differing_eqb ms); assumption).
  unfold twin_eqb in He. apply tree_eqb_eq in He.
  rewrite <- (canon_preserves_scoped A s alg Hc Ha Hn (m_async m) Hsa).
  rewrite <- (canon_preserves_scoped A s alg Hc Ha Hn (m_sync m) Hss). congruence.
Qed.

(* the discipline, per tree *)
Lemma discipline_all_ok :
  forall shared async_only core_inherited iface,
    discipline_failures shared async_only core_inherited iface = [] ->
    forall m, In m shared -> awaited_all is_call (m_async m) = true.
Proof.
  intros sh ao ci ifc H m Hin. unfold discipline_failures in H.
  apply map_eq_nil in H.
  set (selfs := async_idents (map m_async sh ++ map snd ao)) in *.
  set (adapters := async_idents (map snd ifc)) in *.
  destruct (awaits_ok selfs adapters [] false (m_async m)) eqn:E.
  - eapply awaits_ok_awaited; eauto.
  - exfalso.
    assert (Hin' : In (m_name m, m_async m)
                      (filter (fun p => negb (awaits_ok selfs adapters [] false (snd p)))
                              (map (fun m => (m_name m, m_async m)) sh ++ ao ++ ci))).
    { apply filter_In. split.
      - apply in_or_app. left. apply in_map_iff. exists m. auto.
      - simpl. rewrite E. reflexivity. }
    rewrite H in Hin'. inversion Hin'.
Qed.

(* ---------- the hypotheses are satisfiable: erase itself is a compositional semantics ---------- *)
Definition erase_alg (tag : N) (ks : list tree) : tree :=
  if tag =? T_Await then match ks with [x] => x | _ => Node tag ks end
  else Node (erase_tag tag) ks.

Lemma erase_compositional : compositional erase erase_alg.
Proof. intros tag kids. reflexivity. Qed.

Lemma erase_alg_transparent : await_transparent erase_alg.
Proof. repeat split; intros; reflexivity. Qed.

(* ---------- the hypotheses of canon_preserves / twins_denote_equal are jointly satisfiable by a
   non-constant semantics: "does literal k occur in the tree" (A = bool).  It is compositional,
   Await-transparent, and R1-R3 preserve it (R1 moves E, R2 replaces reads of v by a literal-free
   path, R3 drops a literal-free test and one of two equal branches). ---------- *)
Fixpoint has_lit (k : N) (t : tree) : bool :=
  match t with
  | Node _ kids => existsb (has_lit k) kids
  | Lit j => N.eqb j k
  | _ => false
  end.
Ltac break_match_hyp H :=
  repeat match type of H with
         | context [match ?t with _ => _ end] => destruct t eqn:?; try discriminate H
         end.
Ltac split_ands :=
  repeat match goal with
         | H : _ && _ = true |- _ => apply andb_true_iff in H; destruct H
         end.
Ltac eqb_to_eq :=
  repeat match goal with
         | H : tree_eqb _ _ = true |- _ => apply tree_eqb_eq in H
         | H : trees_eqb _ _ = true |- _ => apply trees_eqb_eq in H
         end.

Lemma is_path_no_lit : forall k p, is_path p = true -> has_lit k p = false.
Proof.
  intro k. induction p as [tag kids IH | | |] using tree_ind'; try (intro H; discriminate H).
  intro H. simpl in H. break_match_hyp H; split_ands; try discriminate; eqb_to_eq; subst.
  all: simpl has_lit; simpl existsb.
  all: try match goal with H : Node _ _ = ctx_load |- _ => inversion H; subst; reflexivity end.
  inversion IH as [| ? ? Hhd _]; subst. specialize (Hhd H0). simpl in Hhd. rewrite Hhd. reflexivity.
Qed.

Lemma as_iscoro_test_eq : forall t v, as_iscoro_test t = Some v -> t = iscoro_test v.
Proof.
  intros t v H. unfold as_iscoro_test in H. break_match_hyp H.
  inversion H; subst. apply tree_eqb_eq. assumption.
Qed.

Lemma has_lit_subst : forall k v r, has_lit k r = false ->
  forall t, has_lit k (subst_name v r t) = has_lit k t.
Proof.
  intros k v r Hr. induction t as [tag kids IH | | |] using tree_ind'; try reflexivity.
  cbn [subst_name]. destruct (tree_eqb (Node tag kids) (name_load v)) eqn:E.
  - apply tree_eqb_eq in E. rewrite E. rewrite Hr. reflexivity.
  - cbn [has_lit]. clear E. induction IH as [| x l Hx Hl IHl]; simpl; [reflexivity |]. rewrite Hx.
    f_equal. apply IHl.
Qed.

Lemma has_lit_subst_list : forall k v r, has_lit k r = false ->
  forall l, existsb (has_lit k) (map (subst_name v r) l) = existsb (has_lit k) l.
Proof.
  intros k v r Hr. induction l as [| x l IH]; simpl; [reflexivity |].
  rewrite (has_lit_subst k v r Hr). rewrite IH. reflexivity.
Qed.

Lemma r3_lit : forall k x body, r3 x = Some body -> existsb (has_lit k) body = has_lit k x.
Proof.
  intros k x body H. unfold r3 in H. break_match_hyp H.
  inversion H; subst body. split_ands. eqb_to_eq. subst.
  match goal with H : as_iscoro_test _ = Some _ |- _ => apply as_iscoro_test_eq in H; subst end.
  simpl. repeat rewrite orb_false_r.
  destruct (has_lit k t2); destruct (existsb (has_lit k) l2); reflexivity.
Qed.

Lemma r1_lit : forall k x y rest z, r1 x y rest = Some z -> has_lit k z = has_lit k x || has_lit k y.
Proof.
  intros k x y rest z H. unfold r1 in H. break_match_hyp H.
  inversion H; subst z. split_ands. eqb_to_eq. subst.
  match goal with H : Node _ _ = Node T_Assign _ |- _ => inversion H; subst end.
  match goal with H : Node _ _ = Node T_If _ |- _ => inversion H; subst end.
  simpl. repeat rewrite orb_false_r.
  repeat match goal with |- context [has_lit k ?t] => destruct (has_lit k t) end;
  repeat match goal with |- context [existsb ?f ?l] => destruct (existsb f l) end; reflexivity.
Qed.

Lemma r2_lit : forall k x y rest z, r2 x y rest = Some z -> has_lit k z = has_lit k x || has_lit k y.
Proof.
  intros k x y rest z H. unfold r2 in H. break_match_hyp H.
  inversion H; subst z. split_ands. eqb_to_eq. subst.
  match goal with H : Node _ _ = Node T_Assign _ |- _ => rewrite H end.
  match goal with H : Node _ _ = Node T_If _ |- _ => rewrite H end.
  match goal with H : is_path ?p = true |- _ => pose proof (is_path_no_lit k p H) as Hp end.
  assert (Hr : has_lit k (attr_load t6 k1) = false).
  { simpl. rewrite Hp. reflexivity. }
  cbn -[existsb map subst_name N.eqb]. simpl existsb.
  rewrite (has_lit_subst_list k k0 _ Hr). rewrite Hp. simpl.
  repeat rewrite orb_false_r.
  destruct (K_None =? k); destruct (existsb (has_lit k) kids6); destruct (has_lit k t13); reflexivity.
Qed.

Lemma has_lit_rw_seq : forall k l, existsb (has_lit k) (rw_seq l) = existsb (has_lit k) l.
Proof.
  intros k. induction l as [| x rest IH]; [reflexivity |].
  cbn [rw_seq]. destruct (r3 x) as [body |] eqn:E3.
  - rewrite existsb_app. rewrite (r3_lit k x body E3). rewrite IH. reflexivity.
  - destruct (rw_seq rest) as [| y rest''] eqn:Er.
    + simpl in *. rewrite <- IH. reflexivity.
    + destruct (r1 x y rest'') as [z |] eqn:E1.
      * simpl. rewrite (r1_lit k x y rest'' z E1). rewrite <- IH. simpl. rewrite orb_assoc. reflexivity.
      * destruct (r2 x y rest'') as [z |] eqn:E2.
        -- simpl. rewrite (r2_lit k x y rest'' z E2). rewrite <- IH. simpl. rewrite orb_assoc. reflexivity.
        -- simpl. rewrite <- IH. reflexivity.
Qed.

Definition has_lit_alg (tag : N) (l : list bool) : bool := existsb (fun b => b) l.

Lemma existsb_map_id : forall (A : Type) (f : A -> bool) l, existsb (fun b => b) (map f l) = existsb f l.
Proof. induction l; simpl; congruence. Qed.

Lemma has_lit_compositional : forall k, compositional (has_lit k) has_lit_alg.
Proof. intros k tag kids. simpl. unfold has_lit_alg. symmetry. apply existsb_map_id. Qed.

Lemma has_lit_alg_transparent : await_transparent has_lit_alg.
Proof. repeat split; intros; try reflexivity. unfold has_lit_alg. simpl. apply orb_false_r. Qed.

Lemma has_lit_rewrites_sound : forall k, seq_rewrites_sound (has_lit k) has_lit_alg.
Proof. intros k l. unfold has_lit_alg. rewrite !existsb_map_id. apply has_lit_rw_seq. Qed.

Lemma has_lit_instance : forall k,
  compositional (has_lit k) has_lit_alg /\ await_transparent has_lit_alg /\ seq_rewrites_sound (has_lit k) has_lit_alg.
Proof. intro k. split; [apply has_lit_compositional | split; [apply has_lit_alg_transparent | apply has_lit_rewrites_sound]]. Qed.
