(* AsyncEqProofs.v — lemmas for C18 (see AsyncEq.v for the definitions).
   Generic, semantics-parametric erasure / normalisation theorems over ALL trees, and the lemmas that
   turn the kernel-decided table checks into statements about every shared method. *)
From Coq Require Import List NArith Bool String.
From PyCasbin Require Import Base AsyncEq.
Import ListNotations.
Local Open Scope N_scope.

Local Arguments N.eqb : simpl never.

(* ---------- induction over rose trees ---------- *)
Section TreeInd.
  Variable P : tree -> Prop.
  Hypothesis HNode : forall tag kids, Forall P kids -> P (Node tag kids).
  Hypothesis HIdent : forall k, P (Ident k).
  Hypothesis HStr : forall k, P (Str k).
  Hypothesis HLit : forall k, P (Lit k).
  Fixpoint tree_ind' (t : tree) : P t :=
    match t with
    | Node tag kids =>
        HNode tag kids
          ((fix go (l : list tree) : Forall P l :=
              match l with
              | [] => Forall_nil P
              | x :: r => Forall_cons x (tree_ind' x) (go r)
              end) kids)
    | Ident k => HIdent k
    | Str k => HStr k
    | Lit k => HLit k
    end.
End TreeInd.

(* ---------- tree_eqb decides equality ---------- *)
Lemma tree_eqb_eq : forall a b, tree_eqb a b = true -> a = b.
Proof.
  induction a as [tag kids IH | k | k | k] using tree_ind'; destruct b as [tag2 kids2 | k2 | k2 | k2];
    simpl; try discriminate; intro H.
  - apply andb_true_iff in H. destruct H as [Ht Hk]. apply N.eqb_eq in Ht. subst tag2. f_equal.
    revert kids2 Hk. induction IH as [| x r Hx Hr IHr]; destruct kids2 as [| y r2]; try discriminate; auto.
    intro Hk. apply andb_true_iff in Hk. destruct Hk as [H1 H2]. f_equal; auto.
  - apply N.eqb_eq in H. congruence.
  - apply N.eqb_eq in H. congruence.
  - apply N.eqb_eq in H. congruence.
Qed.

Lemma tree_eqb_refl : forall a, tree_eqb a a = true.
Proof.
  induction a as [tag kids IH | k | k | k] using tree_ind'; simpl; try apply N.eqb_refl.
  rewrite N.eqb_refl. simpl. induction IH as [| x r Hx Hr IHr]; auto. rewrite Hx. simpl. exact IHr.
Qed.

Lemma trees_eqb_eq : forall l1 l2, trees_eqb l1 l2 = true -> l1 = l2.
Proof.
  induction l1 as [| x r IH]; destruct l2 as [| y r2]; simpl; try discriminate; auto.
  intro H. apply andb_true_iff in H. destruct H as [H1 H2]. f_equal; [apply tree_eqb_eq | apply IH]; assumption.
Qed.

(* ---------- helper: pointwise equal maps ---------- *)
Lemma map_ext_Forall : forall (A B : Type) (f g : A -> B) l, Forall (fun x => f x = g x) l -> map f l = map g l.
Proof. induction 1; simpl; congruence. Qed.

(* ---------- (a) the erasure theorem: for ALL trees ---------- *)
Theorem erase_preserves :
  forall (A : Type) (s : tree -> A) (alg : N -> list A -> A),
    compositional s alg -> await_transparent alg ->
    forall t, s (erase t) = s t.
Proof.
  intros A s alg Hc [Haw [Hfd [Hfor Hwith]]].
  induction t as [tag kids IH | k | k | k] using tree_ind'; try reflexivity.
  assert (Hm : map s (map erase kids) = map s kids).
  { rewrite map_map. apply map_ext_Forall. exact IH. }
  simpl. destruct (tag =? T_Await) eqn:Ea.
  - apply N.eqb_eq in Ea. subst tag.
    destruct kids as [| x [| y r]].
    + simpl. reflexivity.
    + simpl. inversion IH; subst. rewrite (Hc T_Await [x]). simpl. rewrite Haw. assumption.
    + simpl. rewrite !Hc. simpl. simpl in Hm. rewrite Hm. reflexivity.
  - rewrite !Hc. rewrite Hm. unfold erase_tag.
    destruct (tag =? T_AsyncFunctionDef) eqn:E1; [apply N.eqb_eq in E1; subst; symmetry; apply Hfd |].
    destruct (tag =? T_AsyncFor) eqn:E2; [apply N.eqb_eq in E2; subst; symmetry; apply Hfor |].
    destruct (tag =? T_AsyncWith) eqn:E3; [apply N.eqb_eq in E3; subst; symmetry; apply Hwith |].
    reflexivity.
Qed.

(* refinement: Await only needs to be transparent on the operands it is actually applied to *)
Theorem erase_preserves_on :
  forall (A : Type) (s : tree -> A) (alg : N -> list A -> A) (P : tree -> bool),
    compositional s alg -> await_transparent_on P s alg ->
    forall t, awaited_all P t = true -> s (erase t) = s t.
Proof.
  intros A s alg P Hc [Haw [Hfd [Hfor Hwith]]].
  induction t as [tag kids IH | k | k | k] using tree_ind'; try reflexivity.
  intro Hok. simpl in Hok. apply andb_true_iff in Hok. destruct Hok as [Hkids Hroot].
  assert (IH' : Forall (fun k => s (erase k) = s k) kids).
  { rewrite forallb_forall in Hkids. rewrite Forall_forall in *. intros x Hx. apply IH; auto. }
  assert (Hm : map s (map erase kids) = map s kids).
  { rewrite map_map. apply map_ext_Forall. exact IH'. }
  simpl. destruct (tag =? T_Await) eqn:Ea.
  - apply N.eqb_eq in Ea. subst tag.
    destruct kids as [| x [| y r]]; try discriminate.
    simpl. inversion IH'; subst. rewrite (Hc T_Await [x]). simpl. rewrite Haw by assumption. assumption.
  - rewrite !Hc. rewrite Hm. unfold erase_tag.
    destruct (tag =? T_AsyncFunctionDef) eqn:E1; [apply N.eqb_eq in E1; subst; symmetry; apply Hfd |].
    destruct (tag =? T_AsyncFor) eqn:E2; [apply N.eqb_eq in E2; subst; symmetry; apply Hfor |].
    destruct (tag =? T_AsyncWith) eqn:E3; [apply N.eqb_eq in E3; subst; symmetry; apply Hwith |].
    reflexivity.
Qed.

(* the await discipline implies that every Await is applied to a call *)
Lemma awaits_ok_awaited : forall selfs adapters t coros ua,
  awaits_ok selfs adapters coros ua t = true -> awaited_all is_call t = true.
Proof.
  intros selfs adapters.
  induction t as [tag kids IH | k | k | k] using tree_ind'; try reflexivity.
  intros coros ua H. simpl in H. simpl.
  destruct (tag =? T_Await) eqn:Ea.
  - destruct kids as [| x [| y r]]; try discriminate.
    apply andb_true_iff in H. destruct H as [Hc Hx]. inversion IH; subst.
    simpl. rewrite (H1 _ _ Hx). rewrite Hc. reflexivity.
  - rewrite andb_true_r.
    destruct (tag =? T_Call) eqn:Ec.
    + destruct kids as [| f args]; try discriminate.
      apply andb_true_iff in H. destruct H as [H Hargs]. apply andb_true_iff in H. destruct H as [_ Hf].
      inversion IH; subst. simpl. rewrite (H1 _ _ Hf). simpl.
      rewrite forallb_forall in *. rewrite Forall_forall in H2. intros x Hx. eapply H2; eauto.
    + destruct (tag =? T_If) eqn:Ei.
      * destruct kids as [| test [| th [| el [| z r]]]]; try discriminate.
        inversion IH as [| ? ? Ht IH1]; subst. inversion IH1 as [| ? ? Hth IH2]; subst.
        inversion IH2 as [| ? ? Hel _]; subst. simpl.
        destruct (as_iscoro_test test).
        -- apply andb_true_iff in H. destruct H as [H H3]. apply andb_true_iff in H. destruct H as [H1 H2].
           rewrite (Ht _ _ H1), (Hth _ _ H2), (Hel _ _ H3). reflexivity.
        -- apply andb_true_iff in H. destruct H as [H H3]. apply andb_true_iff in H. destruct H as [H1 H2].
           rewrite (Ht _ _ H1), (Hth _ _ H2), (Hel _ _ H3). reflexivity.
      * destruct ((tag =? T_AsyncFor) || (tag =? T_AsyncWith) || (tag =? T_Yield) || (tag =? T_YieldFrom)); try discriminate.
        rewrite forallb_forall in *. rewrite Forall_forall in IH. intros x Hx. eapply IH; eauto.
Qed.

(* ---------- normalisation ---------- *)
Theorem norm_preserves :
  forall (A : Type) (s : tree -> A) (alg : N -> list A -> A),
    compositional s alg -> seq_rewrites_sound s alg ->
    forall t, s (norm t) = s t.
Proof.
  intros A s alg Hc Hrw.
  induction t as [tag kids IH | k | k | k] using tree_ind'; try reflexivity.
  assert (Hm : map s (map norm kids) = map s kids).
  { rewrite map_map. apply map_ext_Forall. exact IH. }
  simpl. destruct (tag =? T_seq) eqn:Es.
  - apply N.eqb_eq in Es. subst tag. rewrite !Hc. rewrite Hrw. rewrite Hm. reflexivity.
  - rewrite !Hc. rewrite Hm. reflexivity.
Qed.

Theorem canon_preserves :
  forall (A : Type) (s : tree -> A) (alg : N -> list A -> A),
    compositional s alg -> await_transparent alg -> seq_rewrites_sound s alg ->
    forall t, s (canon t) = s t.
Proof.
  intros A s alg Hc Ha Hrw t. unfold canon.
  rewrite (norm_preserves A s alg Hc Hrw). apply (erase_preserves A s alg Hc Ha).
Qed.

(* ---------- from the decided table check to every shared method ---------- *)
Lemma twin_eqb_denote :
  forall (A : Type) (s : tree -> A) (alg : N -> list A -> A),
    compositional s alg -> await_transparent alg -> seq_rewrites_sound s alg ->
    forall m, twin_eqb m = true -> s (m_async m) = s (m_sync m).
Proof.
  intros A s alg Hc Ha Hrw m H. unfold twin_eqb in H. apply tree_eqb_eq in H.
  rewrite <- (canon_preserves A s alg Hc Ha Hrw (m_async m)).
  rewrite <- (canon_preserves A s alg Hc Ha Hrw (m_sync m)). congruence.
Qed.

Lemma not_differing_eqb : forall ms m, In m ms -> ~ In (m_name m) (differing ms) -> twin_eqb m = true.
Proof.
  intros ms m Hin Hnot. destruct (twin_eqb m) eqn:E; auto. exfalso. apply Hnot.
  unfold differing. apply in_map. apply filter_In. split; auto. rewrite E. reflexivity.
Qed.

(* in ANY compositional semantics in which await is the identity and R1-R3 are valid, every shared
   method outside the list [differing ms] denotes the same thing in its sync and its async form *)
Theorem twins_denote_equal :
  forall (ms : list method) (exceptions : list string), differing ms = exceptions ->
  forall (A : Type) (s : tree -> A) (alg : N -> list A -> A),
    compositional s alg -> await_transparent alg -> seq_rewrites_sound s alg ->
    forall m, In m ms -> ~ In (m_name m) exceptions -> s (m_async m) = s (m_sync m).
Proof.
  intros ms ex Hd A s alg Hc Ha Hrw m Hin Hnot. subst ex.
  apply (twin_eqb_denote A s alg Hc Ha Hrw). apply (not_differing_eqb ms); assumption.
Qed.

(* the discipline, per tree *)
Lemma discipline_all_ok :
  forall shared async_only core_inherited iface,
    discipline_failures shared async_only core_inherited iface = [] ->
    forall m, In m shared -> awaited_all is_call (m_async m) = true.
Proof.
  intros sh ao ci ifc H m Hin. unfold discipline_failures in H.
  apply map_eq_nil in H.
  set (selfs := async_idents (map m_async sh ++ map snd ao)) in *.
  set (adapters := async_idents (map snd ifc)) in *.
  destruct (awaits_ok selfs adapters [] false (m_async m)) eqn:E.
  - eapply awaits_ok_awaited; eauto.
  - exfalso.
    assert (Hin' : In (m_name m, m_async m)
                      (filter (fun p => negb (awaits_ok selfs adapters [] false (snd p)))
                              (map (fun m => (m_name m, m_async m)) sh ++ ao ++ ci))).
    { apply filter_In. split.
      - apply in_or_app. left. apply in_map_iff. exists m. auto.
      - simpl. rewrite E. reflexivity. }
    rewrite H in Hin'. inversion Hin'.
Qed.

(* ---------- the hypotheses are satisfiable: erase itself is a compositional semantics ---------- *)
Definition erase_alg (tag : N) (ks : list tree) : tree :=
  if tag =? T_Await then match ks with [x] => x | _ => Node tag ks end
  else Node (erase_tag tag) ks.

Lemma erase_compositional : compositional erase erase_alg.
Proof. intros tag kids. reflexivity. Qed.

Lemma erase_alg_transparent : await_transparent erase_alg.
Proof. repeat split; intros; reflexivity. Qed.
