(* AsyncTie.v — C18: the kernel-decided facts about TODAY's source (coq/gen/AsyncGen.v, regenerated
   by translators/asyncdiff.py on every check).  Every proof here is a computation (vm_compute) on
   the regenerated table; when the source changes so that a fact no longer holds, this file stops
   compiling and the check reports it. *)
From Coq Require Import List NArith Bool String.
From PyCasbin Require Import Base AsyncEq AsyncEqProofs.
From PyCasbinGen Require Import AsyncGen.
Import ListNotations.
Local Open Scope string_scope.

(* the ONLY shared methods whose canonical trees differ are the two constructor helpers *)
Definition constructor_exceptions : list string := ["init_with_file"; "init_with_model_and_adapter"].

Lemma twins_equal : differing shared = constructor_exceptions.
Proof. vm_compute. reflexivity. Qed.

Lemma twins_equal_forallb :
  forallb (fun m => existsb (String.eqb (m_name m)) constructor_exceptions
                    || tree_eqb (canon (m_async m)) (canon (m_sync m))) shared = true.
Proof. vm_compute. reflexivity. Qed.

Lemma constructor_variants : constructor_variants_ok shared = true.
Proof. vm_compute. reflexivity. Qed.

Lemma one_sided : map fst sync_only = ["get_allowed_object_conditions"] /\ map fst async_only = [].
Proof. split; vm_compute; reflexivity. Qed.

Lemma await_discipline : discipline_failures shared async_only core_inherited adapter_iface = [].
Proof. vm_compute. reflexivity. Qed.

Lemma imports_agree : imports_consistent imports = true /\ imports_uncovered imports shared = [].
Proof. split; vm_compute; reflexivity. Qed.

(* every temporary that R1/R2 eliminate in a twin occurs nowhere else in that twin *)
Lemma temps_scoped_today : unscoped_temps shared = [].
Proof. vm_compute. reflexivity. Qed.

Lemma twins_denote_equal_scoped_today :
  forall (A : Type) (s : tree -> A) (alg : N -> list A -> A),
    compositional s alg -> await_transparent alg -> norm_sound_on_scoped s ->
    forall m, In m shared -> ~ In (m_name m) constructor_exceptions -> s (m_async m) = s (m_sync m).
Proof. exact (twins_denote_equal_scoped shared constructor_exceptions twins_equal temps_scoped_today). Qed.

Lemma twins_denote_equal_today :
  forall (A : Type) (s : tree -> A) (alg : N -> list A -> A),
    compositional s alg -> await_transparent alg -> seq_rewrites_sound s alg ->
    forall m, In m shared -> ~ In (m_name m) constructor_exceptions -> s (m_async m) = s (m_sync m).
Proof. exact (twins_denote_equal shared constructor_exceptions twins_equal). Qed.

Lemma awaits_only_on_calls : forall m, In m shared -> awaited_all is_call (m_async m) = true.
Proof. exact (discipline_all_ok shared async_only core_inherited adapter_iface await_discipline). Qed.

(* with the discipline, Await only has to be transparent on CALLS for erasure to preserve meaning *)
Lemma erase_preserves_today :
  forall (A : Type) (s : tree -> A) (alg : N -> list A -> A),
    compositional s alg -> await_transparent_on is_call s alg ->
    forall m, In m shared -> s (erase (m_async m)) = s (m_async m).
Proof.
  intros A s alg Hc Ha m Hin. apply (erase_preserves_on A s alg is_call Hc Ha). apply awaits_only_on_calls. exact Hin.
Qed.

(* non-vacuity: the table really holds async twins, erasure alone does NOT make all of them equal
   (R1-R3 are needed), and the comparison is not blind: changing one index in a twin is seen *)
Lemma table_nontrivial :
  existsb (fun m => is_async_def (m_async m)) shared = true
  /\ forallb (fun m => tree_eqb (m_async m) (m_sync m)) shared = false
  /\ existsb (fun m => negb (tree_eqb (erase (m_async m)) (erase (m_sync m))) && twin_eqb m) shared = true.
Proof. repeat split; vm_compute; reflexivity. Qed.

Lemma temps_nontrivial : existsb (fun m => negb (match norm_vars (erase (m_async m)) with [] => true | _ => false end)) shared = true.
Proof. vm_compute. reflexivity. Qed.
