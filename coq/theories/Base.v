(* Base.v — shared vocabulary of every model: the generic wire value [val] that the
   oracle protocol speaks, decoders/encoders, and a few Python-list helpers.
   No proofs about the models live here; only tiny structural lemmas. *)
From Coq Require Import List NArith Bool.
Import ListNotations.
Local Open Scope N_scope.

(* ---------- wire values ---------- *)
Inductive val : Type :=
| VN (n : N)
| VL (l : list val).

Definition str := list N.          (* a string = list of Unicode code points *)
Definition name := N.              (* an interned atom *)

Definition vbool (b : bool) : val := VN (if b then 1 else 0).
Definition vnat (n : nat) : val := VN (N.of_nat n).
Definition vstr (s : str) : val := VL (map VN s).
Definition vlist {A} (f : A -> val) (l : list A) : val := VL (map f l).
Definition vopt {A} (f : A -> val) (o : option A) : val :=
  match o with None => VL [] | Some a => VL [f a] end.
Definition vpair {A B} (f : A -> val) (g : B -> val) (p : A * B) : val :=
  VL [f (fst p); g (snd p)].
Definition verr (code : N) : val := VL [VN 999; VN code].   (* model-level exception *)
Definition vbad : val := VL [VN 998].                       (* malformed request *)

Definition as_N (v : val) : option N := match v with VN n => Some n | _ => None end.
Definition as_nat (v : val) : option nat := match v with VN n => Some (N.to_nat n) | _ => None end.
Definition as_bool (v : val) : option bool :=
  match v with VN 0 => Some false | VN 1 => Some true | _ => None end.
Definition as_list (v : val) : option (list val) := match v with VL l => Some l | _ => None end.

Fixpoint all_some {A} (l : list (option A)) : option (list A) :=
  match l with
  | [] => Some []
  | None :: _ => None
  | Some a :: r => match all_some r with Some r' => Some (a :: r') | None => None end
  end.

Definition as_listof {A} (f : val -> option A) (v : val) : option (list A) :=
  match v with VL l => all_some (map f l) | _ => None end.
Definition as_str : val -> option str := as_listof as_N.
Definition as_names : val -> option (list name) := as_listof as_N.

(* ---------- option / result ---------- *)
Inductive result (A : Type) : Type :=
| Ok (a : A)
| Err (code : N).
Arguments Ok {A} a.
Arguments Err {A} code.

Definition rbind {A B} (r : result A) (f : A -> result B) : result B :=
  match r with Ok a => f a | Err c => Err c end.
Definition vres {A} (f : A -> val) (r : result A) : val :=
  match r with Ok a => VL [VN 0; f a] | Err c => verr c end.

(* error codes shared by models and harness (harness/core.py mirrors this table) *)
Definition EArity : N := 1.          (* RuntimeError("invalid request size") *)
Definition EPolicySize : N := 2.     (* RuntimeError("invalid policy size") *)
Definition EMatcherType : N := 3.    (* RuntimeError("matcher result should be ...") *)
Definition EPriorityMismatch : N := 4.
Definition ELinkMissing : N := 5.    (* RuntimeError("error: link between ...") *)
Definition EKeyError : N := 6.
Definition EIndex : N := 7.
Definition EFilteredSave : N := 8.
Definition EGroupArity : N := 9.
Definition EFuel : N := 10.
Definition EValue : N := 11.         (* ValueError *)
Definition EUnsupportedEffect : N := 12.
Definition EEvalEmpty : N := 13.     (* eval() with empty policy *)
Definition EAttr : N := 14.          (* AttributeError *)
Definition EType : N := 15.          (* TypeError *)
Definition ERuntime : N := 16.       (* other RuntimeError *)
Definition ESyntax : N := 17.
Definition EName : N := 18.
Definition EAdapterFail : N := 19.   (* injected adapter failure *)

(* ---------- Python list helpers ---------- *)
Section ListOps.
  Context {A : Type} (eqb : A -> A -> bool).

  Fixpoint mem (x : A) (l : list A) : bool :=
    match l with [] => false | y :: r => eqb x y || mem x r end.

  (* list.remove(x): first occurrence; None if absent (Python raises ValueError) *)
  Fixpoint remove_first (x : A) (l : list A) : option (list A) :=
    match l with
    | [] => None
    | y :: r => if eqb x y then Some r
                else match remove_first x r with Some r' => Some (y :: r') | None => None end
    end.

  (* list.index(x) *)
  Fixpoint index_of (x : A) (l : list A) : option nat :=
    match l with
    | [] => None
    | y :: r => if eqb x y then Some O
                else match index_of x r with Some i => Some (S i) | None => None end
    end.

  Fixpoint dedup (l : list A) : list A :=
    match l with [] => [] | x :: r => if mem x r then dedup r else x :: dedup r end.

  Fixpoint nodupb (l : list A) : bool :=
    match l with [] => true | x :: r => negb (mem x r) && nodupb r end.
End ListOps.

Fixpoint list_eqb {A} (eqb : A -> A -> bool) (l1 l2 : list A) : bool :=
  match l1, l2 with
  | [], [] => true
  | x :: r1, y :: r2 => eqb x y && list_eqb eqb r1 r2
  | _, _ => false
  end.

Definition rule := list name.
Definition rule_eqb : rule -> rule -> bool := list_eqb N.eqb.
Definition str_eqb : str -> str -> bool := list_eqb N.eqb.

Fixpoint set_nth {A} (i : nat) (x : A) (l : list A) : list A :=
  match l, i with
  | [], _ => []
  | _ :: r, O => x :: r
  | y :: r, S i' => y :: set_nth i' x r
  end.

Fixpoint val_eqb (a b : val) {struct a} : bool :=
  match a, b with
  | VN x, VN y => N.eqb x y
  | VL l1, VL l2 =>
      (fix go (l1 l2 : list val) {struct l1} : bool :=
         match l1, l2 with
         | [], [] => true
         | x :: r1, y :: r2 => val_eqb x y && go r1 r2
         | _, _ => false
         end) l1 l2
  | _, _ => false
  end.

(* small facts used everywhere *)
Lemma list_eqb_N_eq : forall l1 l2 : list N, list_eqb N.eqb l1 l2 = true <-> l1 = l2.
Proof.
  induction l1 as [|x r IH]; destruct l2 as [|y r2]; simpl; split; intro H;
    try reflexivity; try discriminate.
  - apply andb_true_iff in H. destruct H as [H1 H2].
    apply N.eqb_eq in H1. apply IH in H2. congruence.
  - inversion H; subst. rewrite N.eqb_refl. simpl. apply IH. reflexivity.
Qed.

Lemma rule_eqb_eq : forall a b, rule_eqb a b = true <-> a = b.
Proof. exact list_eqb_N_eq. Qed.

Lemma rule_eqb_refl : forall a, rule_eqb a a = true.
Proof. intro a. apply rule_eqb_eq. reflexivity. Qed.

Lemma rule_eqb_neq : forall a b, rule_eqb a b = false <-> a <> b.
Proof.
  intros a b. split.
  - intros H E. apply rule_eqb_eq in E. congruence.
  - intro H. destruct (rule_eqb a b) eqn:E; [apply rule_eqb_eq in E; contradiction | reflexivity].
Qed.
