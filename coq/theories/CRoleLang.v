(* CRoleLang.v — RoleLang.v extended for the link query of the CONDITIONAL role manager
   (casbin/rbac/default_role_manager/role_manager.py: ConditionalRoleManager.has_link / _has_link) and its interpreter.
   translators/condhaslink.py renders the Python source into this syntax on every run (coq/gen/CondHasLinkGen.v);
   CRoleTie.v proves that the interpreter run on the regenerated programs computes CondRM.crm_has_link - the function the
   C03 theorems about conditional role definitions are about.

   Meaning fixed by the interpreter (trusted), beyond RoleLang.v's: `self.matching_func is not None` is the parameter
   `has_mf` (false for the managers CondRM.v models; `self._matching_fn(a, b)` is only evaluated behind it);
   self.get_next_roles(cur, next, domains) - the lookup and call of the link's condition function - is the parameter `nexts`
   (CondRM.crm_pass: [next] when the link carries no condition or its condition holds of the stored parameters, [] otherwise);
   `*domains` is passed through unchanged; `and` / `or` short-circuit; a set handed to `for` or `list()` comes in an
   unspecified order (`shuffle`). *)
From Coq Require Import List NArith ZArith Bool.
From PyCasbin Require Import Base.
Import ListNotations.
Local Open Scope N_scope.

Inductive rv := RName (n : name) | RRoles (l : list name) | RSet (l : list name) | RZ (z : Z) | RB (b : bool) | RNone.

Inductive rex : Type :=
| RVar (x : N)
| RInt (z : Z)
| RBool (b : bool)
| RLe (a b : rex) | RLt (a b : rex) | REq (a b : rex) | ROr (a b : rex) | RAnd (a b : rex)
| RHasMf | RMatchFn (a b : rex)
| RNextRoles (cur next : rex)     (* self.get_next_roles(cur, next, domains) *)
| RSub (a b : rex)
| RLen (a : rex)
| RSetNew                         (* set() *)
| RSetOf (a : rex)                (* set(a) *)
| RListOf (a : rex)               (* list(a) *)
| RListLit (es : list rex)        (* [a, b] of Role objects *)
| RAttrName (a : rex)             (* a.name *)
| RAttrRoles (a : rex)            (* a.roles *)
| RGetRole (a : rex)              (* self._get_role(a) *)
| RMaxLevel                       (* self.max_hierarchy_level *)
| RSelf (args : list rex).        (* self._has_link(args) *)

Inductive rst : Type :=
| RAssign (x : N) (e : rex)
| RIf (c : rex) (a b : list rst)
| RFor (x : N) (it : rex) (body : list rst)
| RUpdate (x : N) (e : rex)       (* x.update(e) *)
| RReturn (e : rex).

Definition rlocals := list (N * rv).
Inductive rout := RNext (l : rlocals) | RRet (v : rv) | RErr (c : N).

Definition rkeyb (a b : N) : bool :=
  match a, b with N0, N0 => true | Npos p, Npos q => Pos.eqb p q | _, _ => false end.
Fixpoint rlookup (x : N) (l : rlocals) : option rv :=
  match l with [] => None | (y, v) :: r => if rkeyb x y then Some v else rlookup x r end.
Fixpoint rupd (x : N) (v : rv) (l : rlocals) : rlocals :=
  match l with
  | [] => [(x, v)]
  | (y, w) :: r => if rkeyb x y then (y, v) :: r else (y, w) :: rupd x v r
  end.

(* s.add(x) / s.update(l) on a duplicate-free list *)
Definition set_ins (x : name) (s : list name) : list name := if mem N.eqb x s then s else s ++ [x].
Definition set_union (s l : list name) : list name := fold_left (fun acc x => set_ins x acc) l s.

Fixpoint rargs (ev : rex -> result rv) (es : list rex) : result (list rv) :=
  match es with
  | [] => Ok []
  | e :: r => match ev e with Ok v => match rargs ev r with Ok vs => Ok (v :: vs) | Err c => Err c end | Err c => Err c end
  end.

Fixpoint role_names (vs : list rv) : result (list name) :=
  match vs with
  | [] => Ok []
  | RName n :: r => match role_names r with Ok ns => Ok (n :: ns) | Err c => Err c end
  | _ => Err EType
  end.

Fixpoint for_names (f : name -> rlocals -> rout) (xs : list name) (l : rlocals) : rout :=
  match xs with
  | [] => RNext l
  | x :: r => match f x l with RNext l' => for_names f r l' | o => o end
  end.

Section Interp.
  Variable succ : name -> list name.                (* role.roles, by role name *)
  Variable shuffle : list name -> list name.        (* the unspecified order of a set *)
  Variable max_level : Z.                           (* self.max_hierarchy_level *)
  Variable self : list rv -> result rv.             (* self._has_link *)
  Variable has_mf : bool.                           (* self.matching_func is not None *)
  Variable nexts : name -> name -> list name.       (* get_next_roles under the call's domains *)

  Fixpoint reval (n : nat) (l : rlocals) (e : rex) {struct n} : result rv :=
    match n with
    | O => Err EFuel
    | S n' =>
      let ev := reval n' l in
      match e with
      | RVar x => match rlookup x l with Some v => Ok v | None => Err EName end
      | RInt z => Ok (RZ z)
      | RBool b => Ok (RB b)
      | RLe a b => rbind (ev a) (fun va => rbind (ev b) (fun vb =>
                     match va, vb with RZ x, RZ y => Ok (RB (x <=? y)%Z) | _, _ => Err EType end))
      | RLt a b => rbind (ev a) (fun va => rbind (ev b) (fun vb =>
                     match va, vb with RZ x, RZ y => Ok (RB (x <? y)%Z) | _, _ => Err EType end))
      | RAnd a b => rbind (ev a) (fun va => match va with RB false => Ok (RB false) | RB true => ev b | _ => Err 90 end)
      | RHasMf => Ok (RB has_mf)
      | RMatchFn a b => Err 90
      | RNextRoles a b => rbind (ev a) (fun va => rbind (ev b) (fun vb =>
                     match va, vb with RName x, RName y => Ok (RRoles (nexts x y)) | _, _ => Err EType end))
      | REq a b => rbind (ev a) (fun va => rbind (ev b) (fun vb =>
                     match va, vb with
                     | RZ x, RZ y => Ok (RB (x =? y)%Z)
                     | RName x, RName y => Ok (RB (x =? y))
                     | _, _ => Err 90
                     end))
      | ROr a b => rbind (ev a) (fun va => match va with RB true => Ok (RB true) | RB false => ev b | _ => Err 90 end)
      | RSub a b => rbind (ev a) (fun va => rbind (ev b) (fun vb =>
                     match va, vb with RZ x, RZ y => Ok (RZ (x - y)) | _, _ => Err EType end))
      | RLen a => rbind (ev a) (fun va => match va with
                                          | RRoles s | RSet s => Ok (RZ (Z.of_nat (length s)))
                                          | _ => Err EType end)
      | RSetNew => Ok (RSet [])
      | RSetOf a => rbind (ev a) (fun va => match va with
                                            | RSet s => Ok (RSet s)
                                            | RRoles s => Ok (RSet (set_union [] s))
                                            | _ => Err EType end)
      | RListOf a => rbind (ev a) (fun va => match va with
                                             | RSet s => Ok (RRoles (shuffle s))
                                             | RRoles s => Ok (RRoles s)
                                             | _ => Err EType end)
      | RListLit es => rbind (rargs ev es) (fun vs => rbind (role_names vs) (fun ns => Ok (RRoles ns)))
      | RAttrName a => rbind (ev a) (fun va => match va with RName x => Ok (RName x) | _ => Err EAttr end)
      | RAttrRoles a => rbind (ev a) (fun va => match va with RName x => Ok (RSet (succ x)) | _ => Err EAttr end)
      | RGetRole a => rbind (ev a) (fun va => match va with RName x => Ok (RName x) | _ => Err EType end)
      | RMaxLevel => Ok (RZ max_level)
      | RSelf args => rbind (rargs ev args) self
      end
    end.

  Fixpoint rexec (n : nat) (l : rlocals) (c : rst) {struct n} : rout :=
    match n with
    | O => RErr EFuel
    | S n' =>
      match c with
      | RAssign x e => match reval n' l e with Ok v => RNext (rupd x v l) | Err c => RErr c end
      | RIf c a b =>
          match reval n' l c with
          | Ok (RB true) => rblock n' l a
          | Ok (RB false) => rblock n' l b
          | Ok _ => RErr 90
          | Err c => RErr c
          end
      | RFor x it body =>
          match reval n' l it with
          | Ok (RRoles s) => for_names (fun r l' => rblock n' (rupd x (RName r) l') body) s l
          | Ok (RSet s) => for_names (fun r l' => rblock n' (rupd x (RName r) l') body) (shuffle s) l
          | Ok _ => RErr EType
          | Err c => RErr c
          end
      | RUpdate x e =>
          match rlookup x l, reval n' l e with
          | Some (RSet s), Ok (RSet t) => RNext (rupd x (RSet (set_union s t)) l)
          | Some (RSet s), Ok (RRoles t) => RNext (rupd x (RSet (set_union s t)) l)
          | _, Err c => RErr c
          | _, _ => RErr 90
          end
      | RReturn e => match reval n' l e with Ok v => RRet v | Err c => RErr c end
      end
    end
  with rblock (n : nat) (l : rlocals) (b : list rst) {struct n} : rout :=
    match n with
    | O => RErr EFuel
    | S n' =>
      match b with
      | [] => RNext l
      | c :: r => match rexec n' l c with RNext l' => rblock n' l' r | o => o end
      end
    end.

  Definition rbody (n : nat) (params locals : list N) (body : list rst) (args : list rv) : result rv :=
    if negb (Nat.eqb (length params) (length args)) then Err EType else
    match rblock n (combine params args ++ map (fun x => (x, RNone)) locals) body with
    | RRet v => Ok v
    | RNext _ => Ok RNone
    | RErr c => Err c
    end.
End Interp.

(* the recursive method: `depth` re-entries allowed *)
Fixpoint rrec (succ : name -> list name) (shuffle : list name -> list name) (has_mf : bool) (nexts : name -> name -> list name)
              (n : nat) (params locals : list N) (body : list rst) (depth : nat) (args : list rv) : result rv :=
  match depth with
  | O => Err EFuel
  | S d => rbody succ shuffle 0%Z (rrec succ shuffle has_mf nexts n params locals body d) has_mf nexts n params locals body args
  end.
