(* CRoleTie.v — C03: ConditionalRoleManager._has_link / has_link regenerated from
   casbin/rbac/default_role_manager/role_manager.py on this run (coq/gen/CondHasLinkGen.v), executed by the interpreter of
   CRoleLang.v, compute has_link_lvl over the CONDITIONED successor relation / CondRM.crm_has_link - for every role graph,
   every condition table, every frontier, every level and every set iteration order. *)
From Coq Require Import List NArith ZArith Bool Lia Arith.
From PyCasbin Require Import Base RoleGraph RoleGraphProofs CondRM CRoleLang.
From PyCasbinGen Require Import CondHasLinkGen.
Import ListNotations.
Local Open Scope N_scope.

Definition CFUEL : nat := 40.

Definition run_crec (succ : name -> list name) (shuffle : list name -> list name) (nexts : name -> name -> list name)
                    (depth : nat) (t : name) (front : rv) (lvl : Z) : result rv :=
  rrec succ shuffle false nexts CFUEL chas_link_rec_params chas_link_rec_locals chas_link_rec_gen depth [RName t; front; RZ lvl].

Definition run_chas_link (succ : name -> list name) (shuffle : list name -> list name) (nexts : name -> name -> list name)
                         (max_level : Z) (depth : nat) (a b : name) : result rv :=
  rbody succ shuffle max_level (rrec succ shuffle false nexts CFUEL chas_link_rec_params chas_link_rec_locals chas_link_rec_gen depth)
        false nexts CFUEL chas_link_params chas_link_locals chas_link_gen [RName a; RName b].

(* the conditioned successors of a role: the direct roles whose link passes *)
Definition csucc (succ : name -> list name) (nexts : name -> name -> list name) (a : name) : list name :=
  flat_map (nexts a) (succ a).

Ltac clz t := let v := eval lazy -[N.eqb Z.leb Z.ltb Z.eqb Z.sub Z.of_nat length set_union for_names name rrec] in t in v.

Definition mkC (t : name) (front : rv) (lvl : Z) (acc : list name) (role nr lr : rv) : rlocals :=
  [(1, RName t); (2, front); (3, RZ lvl); (4, RSet acc); (5, role); (6, nr); (7, lr)].

Definition CINNER : list rst :=
  [RAssign 7 (RNextRoles (RVar 5) (RVar 6)); RUpdate 4 (RSetOf (RVar 7))].
Definition COUTER : list rst :=
  [RIf (ROr (REq (RVar 1) (RAttrName (RVar 5))) (RAnd RHasMf (RMatchFn (RAttrName (RVar 5)) (RVar 1)))) [RReturn (RBool true)] [];
   RFor 6 (RListOf (RAttrRoles (RVar 5))) CINNER].

Lemma set_ins_In x a s : In a (set_ins x s) <-> a = x \/ In a s.
Proof.
  unfold set_ins. destruct (mem N.eqb x s) eqn:E.
  - apply mem_N_In in E. split; [auto | intros [->|H]; assumption].
  - rewrite in_app_iff. simpl. split; [intros [H|[H|[]]]; auto | intros [->|H]; auto].
Qed.
Lemma set_union_In : forall l s a, In a (set_union s l) <-> In a s \/ In a l.
Proof.
  unfold set_union. induction l as [|x r IH]; intros s a; simpl.
  - tauto.
  - rewrite IH, set_ins_In. split; [intros [[->|H]|H] | intros [H|[->|H]]]; auto.
Qed.

Lemma has_link_lvl_ext succ L t f1 f2 : (forall a, In a f1 <-> In a f2) ->
  has_link_lvl succ L t f1 = has_link_lvl succ L t f2.
Proof.
  intro H. apply eq_true_iff_eq. rewrite !lvl_iff.
  split; intros (k & a & Hk & Ha & Hp); exists k, a; (split; [exact Hk | split; [apply H; exact Ha | exact Hp]]).
Qed.

Lemma has_link_lvl_succ_ext s1 s2 : (forall a b, In b (s1 a) <-> In b (s2 a)) ->
  forall L t f, has_link_lvl s1 L t f = has_link_lvl s2 L t f.
Proof.
  intros H L t f. apply eq_true_iff_eq. rewrite !lvl_iff.
  assert (P : forall k a b, path (succ_edge s1) k a b <-> path (succ_edge s2) k a b).
  { intros k a b. apply path_iff. intros x y. unfold succ_edge. apply H. }
  split; intros (k & a & Hk & Ha & Hp); exists k, a; (split; [exact Hk | split; [exact Ha | apply P; exact Hp]]).
Qed.

Section Rec.
  Variable succ : name -> list name.
  Variable shuffle : list name -> list name.
  Hypothesis shuffle_same : forall l a, In a (shuffle l) <-> In a l.
  Variable nexts : name -> name -> list name.
  Variable self : list rv -> result rv.

  Lemma inner_loop n t front lvl r : forall xs acc nr lr,
    exists acc' nr' lr',
      for_names (fun x l' => rblock succ shuffle 0%Z self false nexts (8 + n) (rupd 6 (RName x) l') CINNER) xs
                (mkC t front lvl acc (RName r) nr lr)
      = RNext (mkC t front lvl acc' (RName r) nr' lr')
      /\ forall a, In a acc' <-> In a acc \/ In a (flat_map (nexts r) xs).
  Proof.
    induction xs as [|x xs IH]; intros acc nr lr.
    - exists acc, nr, lr. split; [reflexivity|]. simpl. tauto.
    - cbn [for_names]. unfold CINNER, mkC at 1.
      match goal with |- context [rblock ?a ?b ?c ?d ?e ?f ?k ?s ?bd] =>
        let v := clz (rblock a b c d e f k s bd) in change (rblock a b c d e f k s bd) with v end.
      cbv beta iota.
      destruct (IH (set_union acc (set_union [] (nexts r x))) (RName x) (RRoles (nexts r x))) as (acc' & nr' & lr' & H & HI).
      exists acc', nr', lr'. split.
      + unfold CINNER, mkC in H |- *. etransitivity; [exact H|]. reflexivity.
      + intro a. rewrite HI, !set_union_In. cbn [flat_map]. rewrite in_app_iff. simpl. tauto.
  Qed.

  Lemma outer_body n t front lvl acc role0 nr lr r :
    exists acc' nr' lr',
      rblock succ shuffle 0%Z self false nexts (14 + n) (rupd 5 (RName r) (mkC t front lvl acc role0 nr lr)) COUTER =
      (if t =? r then RRet (RB true) else RNext (mkC t front lvl acc' (RName r) nr' lr'))
      /\ forall a, In a acc' <-> In a acc \/ In a (csucc succ nexts r).
  Proof.
    destruct (inner_loop (3 + n) t front lvl r (shuffle (succ r)) acc nr lr) as (acc' & nr' & lr' & H & HI).
    exists acc', nr', lr'. split.
    - unfold COUTER, mkC at 1.
      match goal with |- context [rblock ?a ?b ?c ?d ?e ?f ?k ?s ?bd] =>
        let v := clz (rblock a b c d e f k s bd) in change (rblock a b c d e f k s bd) with v end.
      destruct (t =? r); cbv beta iota; [reflexivity|].
      unfold CINNER, mkC in H. cbn [Nat.add] in H.
      match type of H with ?lhs = _ => match goal with |- context [for_names ?F ?xs ?s0] => change (for_names F xs s0) with lhs end end.
      rewrite H. reflexivity.
    - intro a. rewrite HI. unfold csucc. rewrite !in_flat_map. split.
      + intros [Hl|(x & Hx & Hn)]; [left; exact Hl | right; exists x; split; [exact (proj1 (shuffle_same _ _) Hx) | exact Hn]].
      + intros [Hl|(x & Hx & Hn)]; [left; exact Hl | right; exists x; split; [exact (proj2 (shuffle_same _ _) Hx) | exact Hn]].
  Qed.

  Lemma outer_loop n t front lvl : forall xs acc role0 nr lr,
    if existsb (N.eqb t) xs
    then for_names (fun r l' => rblock succ shuffle 0%Z self false nexts (14 + n) (rupd 5 (RName r) l') COUTER) xs
                   (mkC t front lvl acc role0 nr lr) = RRet (RB true)
    else exists acc' role1 nr' lr',
      for_names (fun r l' => rblock succ shuffle 0%Z self false nexts (14 + n) (rupd 5 (RName r) l') COUTER) xs
                (mkC t front lvl acc role0 nr lr) = RNext (mkC t front lvl acc' role1 nr' lr')
      /\ forall a, In a acc' <-> In a acc \/ In a (flat_map (csucc succ nexts) xs).
  Proof.
    induction xs as [|r xs IH]; intros acc role0 nr lr.
    - cbn [existsb]. exists acc, role0, nr, lr. split; [reflexivity|]. simpl. tauto.
    - cbn [existsb for_names].
      destruct (outer_body n t front lvl acc role0 nr lr r) as (acc1 & nr1 & lr1 & HB & HI). rewrite HB.
      destruct (t =? r); cbn [orb]; [reflexivity|].
      specialize (IH acc1 (RName r) nr1 lr1). destruct (existsb (N.eqb t) xs); [exact IH|].
      destruct IH as (acc' & role1 & nr' & lr' & H & HJ). exists acc', role1, nr', lr'. split; [exact H|].
      intro a. rewrite HJ, HI. cbn [flat_map]. rewrite in_app_iff. tauto.
  Qed.
End Rec.

Lemma ltb_succ_0 l : (Z.of_nat l <? 0)%Z = false.
Proof. apply Z.ltb_ge. lia. Qed.
Lemma of_nat_pred l : (Z.of_nat (S l) - 1)%Z = Z.of_nat l.
Proof. lia. Qed.

Definition front_val (isset : bool) (front : list name) : rv := if isset then RSet front else RRoles front.
Definition front_iter (shuffle : list name -> list name) (isset : bool) (front : list name) : list name :=
  if isset then shuffle front else front.

(* ------------------------------------------------------------------ stepping equations *)
Section Steps.
  Variable succ : name -> list name.
  Variable shuffle : list name -> list name.
  Variable mx : Z.
  Variable self : list rv -> result rv.
  Variable nexts : name -> name -> list name.
  Notation rblock' := (rblock succ shuffle mx self false nexts).
  Notation rexec' := (rexec succ shuffle mx self false nexts).
  Notation reval' := (reval succ shuffle mx self false nexts).

  Lemma rblock_nil n l : rblock' (S n) l [] = RNext l.
  Proof. reflexivity. Qed.
  Lemma rblock_step n l c r o : rexec' n l c = o ->
    rblock' (S n) l (c :: r) = match o with RNext l' => rblock' n l' r | RRet v => RRet v | RErr e => RErr e end.
  Proof.
    intros <-. change (rblock' (S n) l (c :: r)) with (match rexec' n l c with RNext l' => rblock' n l' r | o => o end).
    destruct (rexec' n l c); reflexivity.
  Qed.
  Lemma rexec_if n l c a b v : reval' n l c = v ->
    rexec' (S n) l (RIf c a b) =
    match v with Ok (RB true) => rblock' n l a | Ok (RB false) => rblock' n l b | Ok _ => RErr 90 | Err e => RErr e end.
  Proof. intros <-. reflexivity. Qed.
  Lemma rexec_for_roles n l x it body s : reval' n l it = Ok (RRoles s) ->
    rexec' (S n) l (RFor x it body) = for_names (fun r l' => rblock' n (rupd x (RName r) l') body) s l.
  Proof.
    intro H. change (rexec' (S n) l (RFor x it body)) with
      (match reval' n l it with
       | Ok (RRoles s) => for_names (fun r l' => rblock' n (rupd x (RName r) l') body) s l
       | Ok (RSet s) => for_names (fun r l' => rblock' n (rupd x (RName r) l') body) (shuffle s) l
       | Ok _ => RErr EType
       | Err c => RErr c end).
    rewrite H. reflexivity.
  Qed.
  Lemma rexec_for_set n l x it body s : reval' n l it = Ok (RSet s) ->
    rexec' (S n) l (RFor x it body) = for_names (fun r l' => rblock' n (rupd x (RName r) l') body) (shuffle s) l.
  Proof.
    intro H. change (rexec' (S n) l (RFor x it body)) with
      (match reval' n l it with
       | Ok (RRoles s) => for_names (fun r l' => rblock' n (rupd x (RName r) l') body) s l
       | Ok (RSet s) => for_names (fun r l' => rblock' n (rupd x (RName r) l') body) (shuffle s) l
       | Ok _ => RErr EType
       | Err c => RErr c end).
    rewrite H. reflexivity.
  Qed.
End Steps.

Ltac c_atomic c := lazymatch c with RIf _ _ _ => fail | RFor _ _ _ => fail | _ => idtac end.
Ltac cbstep :=
  lazymatch goal with
  | |- context [rblock ?a ?b ?c ?d false ?f (S ?n) ?s []] => rewrite (rblock_nil a b c d f n s)
  | |- context [rblock ?a ?b ?c ?d false ?f (S ?n) ?s (?st :: ?r)] =>
      tryif c_atomic st then (let o := clz (rexec a b c d false f n s st) in rewrite (rblock_step a b c d f n s st r o eq_refl))
      else rewrite (rblock_step a b c d f n s st r _ eq_refl)
  end; cbv beta iota.
Ltac cestep :=
  lazymatch goal with
  | |- context [rexec ?a ?b ?c ?d false ?f (S ?n) ?s (RIf ?cond ?x ?y)] =>
      let v := clz (reval a b c d false f n s cond) in rewrite (rexec_if a b c d f n s cond x y v eq_refl)
  end; cbv beta iota.
Ltac cstep := first [cestep | cbstep].

Lemma existsb_set_ext t l1 l2 : (forall a : name, In a l1 <-> In a l2) -> existsb (N.eqb t) l1 = existsb (N.eqb t) l2.
Proof.
  intro H. apply eq_true_iff_eq. rewrite !existsb_exists.
  split; intros (x & Hx & He); exists x; (split; [apply H; exact Hx | exact He]).
Qed.

(* one call of _has_link up to its recursive call *)
Lemma round succ shuffle (shuffle_same : forall l a, In a (shuffle l) <-> In a l) nexts self lvl t isset front :
  exists acc', ((forall a, In a acc' <-> In a (flat_map (csucc succ nexts) front)) /\
    (rbody succ shuffle 0%Z self false nexts CFUEL chas_link_rec_params chas_link_rec_locals chas_link_rec_gen
          [RName t; front_val isset front; RZ (Z.of_nat lvl)]
    = match front with
      | [] => Ok (RB false)
      | _ => if existsb (N.eqb t) front then Ok (RB true) else self [RName t; RSet acc'; RZ (Z.of_nat lvl - 1)%Z]
      end))%type.
Proof.
  unfold rbody, CFUEL.
  let b := eval lazy in chas_link_rec_gen in change chas_link_rec_gen with b.
  change (negb (Nat.eqb (length chas_link_rec_params) (length [RName t; front_val isset front; RZ (Z.of_nat lvl)]))) with false. cbv beta iota.
  lazymatch goal with |- context [rblock _ _ _ _ _ _ _ ?L _] => let L' := eval lazy -[Z.of_nat front_val] in L in change L with L' end.
  pose proof (outer_loop succ shuffle shuffle_same nexts self 24 t (front_val isset front) (Z.of_nat lvl) (front_iter shuffle isset front) [] RNone RNone RNone) as HL.
  change (14 + 24)%nat with 38%nat in HL. unfold COUTER, CINNER, mkC in HL.
  assert (Hit : forall a, In a (front_iter shuffle isset front) <-> In a front).
  { intro a. unfold front_iter. destruct isset; [apply shuffle_same | tauto]. }
  rewrite (existsb_set_ext t _ _ Hit) in HL.
  destruct front as [|x xs].
  - exists []. split; [simpl; tauto|].
    cstep. cstep. rewrite ltb_succ_0. destruct isset; cbn [front_val length]; cbv beta iota; repeat cstep; reflexivity.
  - destruct (existsb (N.eqb t) (x :: xs)).
    + exists (flat_map (csucc succ nexts) (x :: xs)). split; [intro a; tauto|].
      { cstep. cstep. rewrite ltb_succ_0.
          destruct isset; cbn [front_val]; cbv beta iota;
            (replace (Z.of_nat (length (x :: xs)) =? 0)%Z with false by (symmetry; apply Z.eqb_neq; simpl length; lia));
            cbv beta iota; cstep; cstep; cstep.
          - lazymatch goal with |- context [rexec ?a ?b ?c ?s0 false ?f (S ?n) ?loc (RFor ?v ?it ?body)] =>
              rewrite (rexec_for_set a b c s0 f n loc v it body (x :: xs) eq_refl) end.
            unfold front_iter, front_val in HL.
            match type of HL with ?lhs = _ => match goal with |- context [for_names ?F ?xs0 ?st] => change (for_names F xs0 st) with lhs end end.
            rewrite HL. reflexivity.
          - lazymatch goal with |- context [rexec ?a ?b ?c ?s0 false ?f (S ?n) ?loc (RFor ?v ?it ?body)] =>
              rewrite (rexec_for_roles a b c s0 f n loc v it body (x :: xs) eq_refl) end.
            unfold front_iter, front_val in HL.
            match type of HL with ?lhs = _ => match goal with |- context [for_names ?F ?xs0 ?st] => change (for_names F xs0 st) with lhs end end.
            rewrite HL. reflexivity. }
    + destruct HL as (acc' & role1 & nr' & lr' & HL & HI). exists acc'. split.
      * intro a. rewrite HI. simpl In at 1. rewrite !in_flat_map.
        split; [intros [[]|(y & Hy & Hc)]; exists y; split; [apply Hit; exact Hy | exact Hc]
               | intros (y & Hy & Hc); right; exists y; split; [apply Hit; exact Hy | exact Hc]].
      * cstep. cstep. rewrite ltb_succ_0.
        destruct isset; cbn [front_val]; cbv beta iota;
          (replace (Z.of_nat (length (x :: xs)) =? 0)%Z with false by (symmetry; apply Z.eqb_neq; simpl length; lia));
          cbv beta iota; cstep; cstep; cstep.
        -- lazymatch goal with |- context [rexec ?a ?b ?c ?s0 false ?f (S ?n) ?loc (RFor ?v ?it ?body)] =>
             rewrite (rexec_for_set a b c s0 f n loc v it body (x :: xs) eq_refl) end.
           unfold front_iter, front_val in HL.
           match type of HL with ?lhs = _ => match goal with |- context [for_names ?F ?xs0 ?st] => change (for_names F xs0 st) with lhs end end.
           rewrite HL. cbv beta iota. cstep. destruct (self _); reflexivity.
        -- lazymatch goal with |- context [rexec ?a ?b ?c ?s0 false ?f (S ?n) ?loc (RFor ?v ?it ?body)] =>
             rewrite (rexec_for_roles a b c s0 f n loc v it body (x :: xs) eq_refl) end.
           unfold front_iter, front_val in HL.
           match type of HL with ?lhs = _ => match goal with |- context [for_names ?F ?xs0 ?st] => change (for_names F xs0 st) with lhs end end.
           rewrite HL. cbv beta iota. cstep. destruct (self _); reflexivity.
Qed.

(* level -1: the countdown has run out *)
Lemma crec_negative succ shuffle nexts d t fv : run_crec succ shuffle nexts (S d) t fv (-1)%Z = Ok (RB false).
Proof.
  unfold run_crec. cbn [rrec]. unfold rbody, CFUEL.
  match goal with |- ?l = _ => let v := clz l in change l with v end. reflexivity.
Qed.

Theorem tie_chas_link_rec succ shuffle (shuffle_same : forall l a, In a (shuffle l) <-> In a l) nexts :
  forall lvl depth t isset front, (S lvl < depth)%nat ->
  run_crec succ shuffle nexts depth t (front_val isset front) (Z.of_nat lvl)
  = Ok (RB (has_link_lvl (csucc succ nexts) (S lvl) t front)).
Proof.
  induction lvl as [|l IH]; intros depth t isset front Hd; (destruct depth as [|d]; [lia|]); unfold run_crec; cbn [rrec].
  - (* level 0: after this round the countdown has run out *)
    destruct (round succ shuffle shuffle_same nexts
                (rrec succ shuffle false nexts CFUEL chas_link_rec_params chas_link_rec_locals chas_link_rec_gen d)
                0%nat t isset front) as (acc' & HI & HR); rewrite HR; clear HR.
    destruct d as [|d']; [lia|].
    destruct front as [|x xs]; [reflexivity|]. cbn [has_link_lvl].
    destruct (existsb (N.eqb t) (x :: xs)); [reflexivity|].
    change (Z.of_nat 0 - 1)%Z with (-1)%Z.
    exact (crec_negative succ shuffle nexts d' t (RSet acc')).
  - destruct (round succ shuffle shuffle_same nexts
                (rrec succ shuffle false nexts CFUEL chas_link_rec_params chas_link_rec_locals chas_link_rec_gen d)
                (S l) t isset front) as (acc' & HI & HR); rewrite HR; clear HR.
    destruct front as [|x xs]; [reflexivity|].
    change (has_link_lvl (csucc succ nexts) (S (S l)) t (x :: xs)) with
      (if existsb (N.eqb t) (x :: xs) then true
       else has_link_lvl (csucc succ nexts) (S l) t (dedup N.eqb (flat_map (csucc succ nexts) (x :: xs)))).
    destruct (existsb (N.eqb t) (x :: xs)); [reflexivity|].
    rewrite of_nat_pred.
    pose proof (IH d t true acc' ltac:(lia)) as H. unfold run_crec, front_val in H. rewrite H.
    f_equal. f_equal. apply has_link_lvl_ext. intro a. rewrite HI, RoleGraphProofs.dedup_In. tauto.
Qed.

(* ConditionalRoleManager.has_link(name1, name2, *domains) *)
Theorem tie_chas_link succ shuffle (shuffle_same : forall l a, In a (shuffle l) <-> In a l) nexts :
  forall (mx : nat) depth a b, (S mx < depth)%nat ->
  run_chas_link succ shuffle nexts (Z.of_nat mx) depth a b
  = Ok (RB (N.eqb a b || has_link_lvl (csucc succ nexts) (S mx) b [a])).
Proof.
  intros mx depth a b Hd. unfold run_chas_link, rbody, CFUEL.
  let g := eval lazy in chas_link_gen in change chas_link_gen with g.
  change (negb (Nat.eqb (length chas_link_params) (length [RName a; RName b]))) with false. cbv beta iota.
  lazymatch goal with |- context [rblock _ _ _ _ _ _ _ ?L _] => let L' := eval lazy in L in change L with L' end.
  cstep. cstep.
  destruct (a =? b); cbv beta iota; cbn [orb].
  - repeat cstep. reflexivity.
  - repeat cstep.
    pose proof (tie_chas_link_rec succ shuffle shuffle_same nexts mx depth b false [a] Hd) as H.
    unfold run_crec, front_val in H.
    match type of H with ?lhs = _ => match goal with |- context [rrec ?s ?sh ?hm ?nx ?n ?p ?lo ?bd depth ?args] =>
      change (rrec s sh hm nx n p lo bd depth args) with lhs end end.
    rewrite H. reflexivity.
Qed.

(* on a CondRM state: the regenerated has_link is crm_has_link *)
Definition nexts_of (cond : N -> list N -> bool) (s : crm_state) (dk : name) (cur next : name) : list name :=
  if crm_pass cond s cur next dk then [next] else [].

Lemma csucc_crm cond s dk a b :
  In b (csucc (rm_succ (crm_rm s)) (nexts_of cond s dk) a) <-> In b (crm_succ cond s dk a).
Proof.
  unfold csucc, nexts_of, crm_succ, rm_succ. rewrite in_flat_map, !in_map_iff. split.
  - intros (x & Hx & Hb). apply in_map_iff in Hx. destruct Hx as ([u r] & Hr & Hin). cbn [snd] in Hr. subst x.
    apply filter_In in Hin. destruct Hin as [Hin Hu]. cbn [fst] in Hu. apply N.eqb_eq in Hu. subst u.
    destruct (crm_pass cond s a r dk) eqn:E; [|destruct Hb].
    destruct Hb as [<-|[]]. exists (a, r). split; [reflexivity|]. apply filter_In. split; [exact Hin|].
    cbn [fst snd]. rewrite N.eqb_refl, E. reflexivity.
  - intros ([u r] & Hr & Hin). cbn [snd] in Hr. subst r. apply filter_In in Hin. destruct Hin as [Hin Hc].
    cbn [fst snd] in Hc. apply andb_true_iff in Hc. destruct Hc as [Hu Hp]. apply N.eqb_eq in Hu. subst u.
    exists b. split.
    + apply in_map_iff. exists (a, b). split; [reflexivity|]. apply filter_In. split; [exact Hin|]. cbn [fst]. apply N.eqb_refl.
    + rewrite Hp. left. reflexivity.
Qed.

Corollary tie_crm_has_link cond shuffle (shuffle_same : forall l a, In a (shuffle l) <-> In a l) s a b doms :
  run_chas_link (rm_succ (crm_rm s)) shuffle (nexts_of cond s (dom_key doms)) (Z.of_nat (rm_max (crm_rm s)))
                (S (S (rm_max (crm_rm s)))) a b
  = Ok (RB (crm_has_link cond s a b doms)).
Proof.
  rewrite (tie_chas_link _ shuffle shuffle_same _ (rm_max (crm_rm s)) (S (S (rm_max (crm_rm s)))) a b (Nat.lt_succ_diag_r _)).
  unfold crm_has_link. f_equal. f_equal. f_equal.
  apply has_link_lvl_succ_ext. intros x y. apply csucc_crm.
Qed.
