(* CallsProofs.v — exactly which adapter calls and watcher notifications each management call issues
   (C09, C20), as exact characterisations of the model's outputs. *)
From Coq Require Import List NArith Bool Arith Lia.
From PyCasbin Require Import Base Policy PolicyProofs RoleGraph Mgmt MgmtProofs.
Import ListNotations.
Local Open Scope N_scope.

(* ---------- notify ---------- *)
Definition notifying (k : mkind) (s : mstate) : bool := (0 <? k_watcher k) && m_auto_notify s.

(* exactly one notification; the operation's own callback if the watcher offers it, else update() *)
Theorem notify_spec k s c from :
  notify k s c from = if notifying k s then [if from <=? k_watcher k then c else WUpdate] else [].
Proof. unfold notify, notifying. destruct ((0 <? k_watcher k) && m_auto_notify s); [|reflexivity].
       destruct (from <=? k_watcher k); reflexivity. Qed.

Corollary notify_length k s c from : length (notify k s c from) = if notifying k s then 1%nat else 0%nat.
Proof. rewrite notify_spec. destruct (notifying k s); reflexivity. Qed.

(* ---------- outputs of after_links / wrap_b ---------- *)
Lemma after_links_calls s pt x v ac wc :
  o_acalls (snd (after_links s pt x v ac wc)) = ac /\ o_wcalls (snd (after_links s pt x v ac wc)) = wc.
Proof. unfold after_links. destruct (snd x); split; reflexivity. Qed.

Lemma wrap_b_calls x : o_acalls (snd (wrap_b x)) = snd (fst x) /\ o_wcalls (snd (wrap_b x)) = snd x
                       /\ o_val (snd (wrap_b x)) = ok (vbool (snd (fst (fst x)))).
Proof. destruct x as [[[s b] ac] wc]. repeat split; reflexivity. Qed.

(* ---------- the internal calls: (changed?, adapter calls, notifications) ---------- *)
Definition calls_if (changed uses : bool) (a : acall) (w : list wcall) : list acall * list wcall :=
  if changed && uses then ([a], w) else ([], []).

Lemma i_add_calls k s pt r :
  let x := i_add k s pt r in
  let changed := snd (fst (fst x)) in
  (snd (fst x), snd x) = calls_if changed (use_adapter k s) (AAdd pt r) (notify k s (WAdd pt r) 2).
Proof.
  unfold i_add. destruct (add_policy (prio_opt_on k (m_prio_on s) pt) (get_store s pt) r) as [l' b].
  destruct b; cbn [negb]; [|reflexivity]. unfold calls_if. destruct (use_adapter k s); reflexivity.
Qed.

Lemma i_add_many_calls k s pt rs :
  let x := i_add_many k s pt rs in
  let changed := snd (fst (fst x)) in
  (snd (fst x), snd x) = calls_if changed (use_adapter k s) (AAddMany pt rs) (notify k s (WAddMany pt rs) 2).
Proof.
  unfold i_add_many. destruct (add_policies (prio_opt_on k (m_prio_on s) pt) (get_store s pt) rs) as [l' b].
  destruct b; cbn [negb]; [|reflexivity]. unfold calls_if. destruct (use_adapter k s); reflexivity.
Qed.

Lemma i_remove_calls k s pt r :
  let x := i_remove k s pt r in
  let changed := snd (fst (fst x)) in
  (snd (fst x), snd x) = calls_if changed (use_adapter k s) (ARemove pt r) (notify k s (WRemove pt r) 2).
Proof.
  unfold i_remove. destruct (remove_policy (get_store s pt) r) as [l' b].
  destruct b; cbn [negb]; [|reflexivity]. unfold calls_if. destruct (use_adapter k s); reflexivity.
Qed.

Lemma i_remove_many_calls k s pt rs :
  let x := i_remove_many k s pt rs in
  let changed := snd (fst (fst x)) in
  (snd (fst x), snd x) = calls_if changed (use_adapter k s) (ARemoveMany pt rs) (notify k s (WRemoveMany pt rs) 2).
Proof.
  unfold i_remove_many. destruct (remove_policies (get_store s pt) rs) as [l' b].
  destruct b; cbn [negb]; [|reflexivity]. unfold calls_if. destruct (use_adapter k s); reflexivity.
Qed.

Lemma i_remove_filtered_calls k s pt i vs x :
  i_remove_filtered k s pt i vs = Ok x ->
  let changed := snd (fst (fst x)) in
  (snd (fst x), snd x) = calls_if changed (use_adapter k s) (ARemoveFiltered pt i vs)
                                  (notify k s (WRemoveFiltered pt i vs) 2).
Proof.
  unfold i_remove_filtered. destruct (remove_filtered (get_store s pt) i vs) as [[l' b]|c]; [|discriminate].
  destruct b; cbn [negb]; intro H; inversion H; subst; cbn; [|reflexivity].
  unfold calls_if. destruct (use_adapter k s); inversion H; reflexivity.
Qed.

Lemma i_remove_filtered_eff_calls k s pt i vs x :
  i_remove_filtered_eff k s pt i vs = Ok x ->
  let gone := snd (fst (fst x)) in
  (snd (fst x), snd x) = calls_if (negb (match gone with [] => true | _ => false end)) (use_adapter k s)
                                  (ARemoveFiltered pt i vs) (notify k s (WRemoveFiltered pt i vs) 2).
Proof.
  unfold i_remove_filtered_eff. destruct (remove_filtered_effects (get_store s pt) i vs) as [[l' gone]|c]; [|discriminate].
  destruct gone as [|g0 gone']; intro H; [inversion H; reflexivity|].
  unfold calls_if. destruct (use_adapter k s); inversion H; reflexivity.
Qed.

(* ---------- C20 / C09 at the level of [step], permission-rule calls ---------- *)
Definition is_ok_true (v : val) : bool := val_eqb v (ok (vbool true)).
Definition is_ok_false (v : val) : bool := val_eqb v (ok (vbool false)).

Theorem step_add_p k s r :
  let out := snd (step k s (OAdd PT_P r)) in
  let changed := negb (has_policy (m_p s) r) in
  o_val out = ok (vbool changed)
  /\ (o_acalls out, o_wcalls out) = calls_if changed (use_adapter k s) (AAdd PT_P r) (notify k s (WAdd PT_P r) 2).
Proof.
  cbn [step has_pt is_g]. cbn. destruct (wrap_b_calls (i_add k s PT_P r)) as [Ha [Hw Hv]].
  rewrite Ha, Hw, Hv. pose proof (i_add_calls k s PT_P r) as Hc. cbv zeta in Hc.
  assert (Hb : snd (fst (fst (i_add k s PT_P r))) = negb (has_policy (m_p s) r)).
  { unfold i_add, add_policy. change (get_store s PT_P) with (m_p s).
    destruct (has_policy (m_p s) r); cbn; [reflexivity|].
    destruct (prio_opt_on k (m_prio_on s) PT_P); destruct (use_adapter k s); reflexivity. }
  rewrite Hb in *. split; [reflexivity|exact Hc].
Qed.

Theorem step_remove_p k s r : NoDup (m_p s) ->
  let out := snd (step k s (ORemove PT_P r)) in
  let changed := has_policy (m_p s) r in
  o_val out = ok (vbool changed)
  /\ (o_acalls out, o_wcalls out) = calls_if changed (use_adapter k s) (ARemove PT_P r) (notify k s (WRemove PT_P r) 2).
Proof.
  intro Hnd. cbn [step has_pt is_g]. cbn. destruct (wrap_b_calls (i_remove k s PT_P r)) as [Ha [Hw Hv]].
  rewrite Ha, Hw, Hv. pose proof (i_remove_calls k s PT_P r) as Hc. cbv zeta in Hc.
  destruct (i_remove_state k s PT_P r Hnd) as [_ Hb]. cbv zeta in Hb. change (get_store s PT_P) with (m_p s) in Hb.
  rewrite Hb in *. split; [reflexivity|exact Hc].
Qed.

Theorem step_add_many_p k s rs :
  let out := snd (step k s (OAddMany PT_P rs)) in
  let changed := batch_addable (m_p s) [] rs in
  o_val out = ok (vbool changed)
  /\ (o_acalls out, o_wcalls out) = calls_if changed (use_adapter k s) (AAddMany PT_P rs) (notify k s (WAddMany PT_P rs) 2).
Proof.
  cbn [step has_pt is_g]. cbn. destruct (wrap_b_calls (i_add_many k s PT_P rs)) as [Ha [Hw Hv]].
  rewrite Ha, Hw, Hv. pose proof (i_add_many_calls k s PT_P rs) as Hc. cbv zeta in Hc.
  assert (Hb : snd (fst (fst (i_add_many k s PT_P rs))) = batch_addable (m_p s) [] rs).
  { unfold i_add_many, add_policies. change (get_store s PT_P) with (m_p s).
    destruct (batch_addable (m_p s) [] rs); cbn; [|reflexivity]. destruct (use_adapter k s); reflexivity. }
  rewrite Hb in *. split; [reflexivity|exact Hc].
Qed.

Theorem step_remove_many_p k s rs : NoDup (m_p s) ->
  let out := snd (step k s (ORemoveMany PT_P rs)) in
  let changed := forallb (has_policy (m_p s)) rs && nodupb rule_eqb rs in
  o_val out = ok (vbool changed)
  /\ (o_acalls out, o_wcalls out) = calls_if changed (use_adapter k s) (ARemoveMany PT_P rs) (notify k s (WRemoveMany PT_P rs) 2).
Proof.
  intro Hnd. cbn [step has_pt is_g]. cbn. destruct (wrap_b_calls (i_remove_many k s PT_P rs)) as [Ha [Hw Hv]].
  rewrite Ha, Hw, Hv. pose proof (i_remove_many_calls k s PT_P rs) as Hc. cbv zeta in Hc.
  destruct (i_remove_many_state k s PT_P rs Hnd) as [_ Hb]. cbv zeta in Hb. change (get_store s PT_P) with (m_p s) in Hb.
  rewrite Hb in *. split; [reflexivity|exact Hc].
Qed.

Theorem step_update_p k s o n : NoDup (m_p s) -> k_prio k = false ->
  let out := snd (step k s (OUpdate o n)) in
  let changed := has_policy (m_p s) o && negb (has_policy (m_p s) n) in
  o_val out = ok (vbool changed)
  /\ (o_acalls out, o_wcalls out) = calls_if changed (use_adapter k s) (AUpdate PT_P o n) (notify k s (WUpdatePolicy o n) 3).
Proof.
  intros Hnd Hp. cbn [step]. unfold prio_tok. rewrite Hp, andb_false_r.
  rewrite (update_policy_spec _ o n Hnd). unfold spec_update.
  destruct (has_policy (m_p s) o && negb (has_policy (m_p s) n)); cbn [negb]; [|split; reflexivity].
  unfold calls_if. destruct (use_adapter k s); split; reflexivity.
Qed.

(* save_policy: exactly one save to the adapter, exactly one notification, whatever auto-notify says *)
Theorem step_save k s : k_adapter k = true ->
  let out := snd (step k s OSave) in
  o_acalls out = [ASave (all_rows k s)]
  /\ o_wcalls out = if 0 <? k_watcher k then [if 2 <=? k_watcher k then WSave else WUpdate] else [].
Proof.
  intro Ha. cbn [step]. rewrite Ha. cbn. split; [reflexivity|].
  destruct (0 <? k_watcher k); [|reflexivity]. destruct (2 <=? k_watcher k); reflexivity.
Qed.

(* grouping calls issue exactly what their internal call issues (link maintenance adds nothing) *)
Theorem g_add_calls k s pt r :
  let out := snd (g_add k s pt r) in let x := i_add k s pt r in
  o_acalls out = snd (fst x) /\ o_wcalls out = snd x.
Proof.
  cbv zeta. unfold g_add. destruct (i_add k s pt r) as [[[s1 b] ac] wc]. cbn [fst snd].
  destruct (m_auto_build s && b); [apply after_links_calls|split; reflexivity].
Qed.
Theorem g_remove_calls k s pt r :
  let out := snd (g_remove k s pt r) in let x := i_remove k s pt r in
  o_acalls out = snd (fst x) /\ o_wcalls out = snd x.
Proof.
  cbv zeta. unfold g_remove. destruct (i_remove k s pt r) as [[[s1 b] ac] wc]. cbn [fst snd].
  destruct (m_auto_build s && b); [apply after_links_calls|split; reflexivity].
Qed.
Theorem g_add_many_calls k s pt rs :
  let out := snd (g_add_many k s pt rs) in let x := i_add_many k s pt rs in
  o_acalls out = snd (fst x) /\ o_wcalls out = snd x.
Proof.
  cbv zeta. unfold g_add_many. destruct (i_add_many k s pt rs) as [[[s1 b] ac] wc]. cbn [fst snd].
  destruct (m_auto_build s && b); [apply after_links_calls|split; reflexivity].
Qed.
Theorem g_remove_many_calls k s pt rs :
  let out := snd (g_remove_many k s pt rs) in let x := i_remove_many k s pt rs in
  o_acalls out = snd (fst x) /\ o_wcalls out = snd x.
Proof.
  cbv zeta. unfold g_remove_many. destruct (i_remove_many k s pt rs) as [[[s1 b] ac] wc]. cbn [fst snd].
  destruct (m_auto_build s && b); [apply after_links_calls|split; reflexivity].
Qed.

(* queries and flag changes are silent *)
Theorem silent_calls k s o :
  match o with
  | QEnforce _ | QEnforceEx _ | QPolicy _ | QFiltered _ _ _ | QHas _ _ | QRoles _ | QUsers _
  | QRolesDom _ _ | QUsersDom _ _ | QAllSubjects | QAllObjects | QAllActions | QAllRoles
  | QPermsForUser _ | QPermsForUserDom _ _ | OAutoSave _ | OAutoBuild _ | OAutoNotify _ | OEnable _ | OClear => True
  | _ => False
  end -> o_acalls (snd (step k s o)) = [] /\ o_wcalls (snd (step k s o)) = [].
Proof.
  intro H. destruct o; try contradiction; cbn [step];
    repeat match goal with |- context [let '(_, _) := ?x in _] => destruct x end;
    try (split; reflexivity).
  - destruct (m_auto_build s); split; reflexivity.
  - unfold res_names. destruct (values_for_field (m_p s) (i_sub k) []); split; reflexivity.
  - unfold res_names. destruct (values_for_field (m_p s) (i_obj k) []); split; reflexivity.
  - unfold res_names. destruct (values_for_field (m_p s) (i_act k) []); split; reflexivity.
  - unfold res_names. destruct (values_for_field (m_g s) 1 []); split; reflexivity.
Qed.
