(* CmtLang.v — a small language for util.remove_comments (casbin/util/util.py; C02: the text of a matcher / effect definition as
   the model stores it).  translators/remcomments.py renders the function into this syntax on every run (coq/gen/CmtGen.v);
   CmtTie.v proves that the interpreter run on the regenerated program computes MatcherText.remove_comments.
   Trusted reading: s.find("c") is the first position or -1; s[lo:hi] for 0 <= lo is the characters from lo up to (not
   including) hi, negative bounds are refused; s.strip() removes leading and trailing white space (MatcherText.strip);
   `==` on integers; an `if` without else. *)
From Coq Require Import List NArith ZArith Bool.
From PyCasbin Require Import Base Expr MatcherText.
Import ListNotations.
Local Open Scope N_scope.

Inductive mval := MVS (s : str) | MVZ (z : Z) | MVB (b : bool).
Inductive mex :=
| MVar (x : N) | MInt (z : Z)
| MFind (a : mex) (c : N)
| MEq (a b : mex)
| MSlice (a lo hi : mex)
| MStrip (a : mex).
Inductive mst :=
| MAssign (x : N) (e : mex)
| MIf (c : mex) (body : list mst)
| MReturn (e : mex).

Definition mlocals := list (N * mval).
Fixpoint mlookup (x : N) (l : mlocals) : option mval :=
  match l with [] => None | (y, v) :: r => if x =? y then Some v else mlookup x r end.

Fixpoint meval (n : nat) (l : mlocals) (e : mex) {struct n} : result mval :=
  match n with
  | O => Err EFuel
  | S n' =>
    let ev := meval n' l in
    match e with
    | MVar x => match mlookup x l with Some v => Ok v | None => Err EName end
    | MInt z => Ok (MVZ z)
    | MFind a c => rbind (ev a) (fun va => match va with
                     | MVS t => Ok (MVZ (match find_char c t with Some i => Z.of_nat i | None => (-1)%Z end))
                     | _ => Err EAttr end)
    | MEq a b => rbind (ev a) (fun va => rbind (ev b) (fun vb =>
                     match va, vb with MVZ x, MVZ y => Ok (MVB (x =? y)%Z) | _, _ => Err EType end))
    | MSlice a lo hi => rbind (ev a) (fun va => rbind (ev lo) (fun vl => rbind (ev hi) (fun vh =>
                     match va, vl, vh with
                     | MVS t, MVZ x, MVZ y => if (x <? 0)%Z || (y <? 0)%Z then Err 90
                                              else Ok (MVS (firstn (Z.to_nat y - Z.to_nat x) (skipn (Z.to_nat x) t)))
                     | _, _, _ => Err EType
                     end)))
    | MStrip a => rbind (ev a) (fun va => match va with MVS t => Ok (MVS (strip t)) | _ => Err EAttr end)
    end
  end.

Inductive mout := MNext (l : mlocals) | MRet (v : mval) | MErr (e : N).

Fixpoint mexec (n : nat) (l : mlocals) (c : mst) {struct n} : mout :=
  match n with
  | O => MErr EFuel
  | S n' =>
    match c with
    | MAssign x e => match meval n' l e with Ok v => MNext ((x, v) :: l) | Err e => MErr e end
    | MIf c body => match meval n' l c with
                    | Ok (MVB true) => mblock n' l body
                    | Ok (MVB false) => MNext l
                    | Ok _ => MErr EType
                    | Err e => MErr e
                    end
    | MReturn e => match meval n' l e with Ok v => MRet v | Err e => MErr e end
    end
  end
with mblock (n : nat) (l : mlocals) (b : list mst) {struct n} : mout :=
  match n with
  | O => MErr EFuel
  | S n' =>
    match b with
    | [] => MNext l
    | c :: r => match mexec n' l c with MNext l' => mblock n' l' r | o => o end
    end
  end.

Definition mrun (n : nat) (params : list N) (body : list mst) (args : list mval) : result mval :=
  match mblock n (combine params args) body with
  | MRet v => Ok v
  | MNext _ => Err ESyntax
  | MErr e => Err e
  end.
