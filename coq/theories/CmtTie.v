(* CmtTie.v — C02: util.remove_comments regenerated from casbin/util/util.py on this run (coq/gen/CmtGen.v), executed by the
   interpreter of CmtLang.v, computes MatcherText.remove_comments - through which every effect and matcher definition passes
   before the model stores it (MatcherText.stored_value). *)
From Coq Require Import List NArith ZArith Bool Lia.
From PyCasbin Require Import Base Expr MatcherText CmtLang.
From PyCasbinGen Require Import CmtGen.
Import ListNotations.
Local Open Scope N_scope.

Theorem tie_remove_comments s :
  mrun 12 remove_comments_params remove_comments_gen [MVS s] = Ok (MVS (remove_comments s)).
Proof.
  unfold mrun, remove_comments_params, remove_comments_gen, remove_comments, rc_s, rc_pos.
  cbn [combine mblock mexec meval mlookup N.eqb Pos.eqb rbind].
  destruct (find_char 35 s) as [i|] eqn:E.
  - replace (Z.of_nat i =? -1)%Z with false by (symmetry; apply Z.eqb_neq; lia).
    cbn [mblock mexec meval mlookup N.eqb Pos.eqb rbind].
    replace ((0 <? 0)%Z || (Z.of_nat i <? 0)%Z) with false by (symmetry; apply orb_false_iff; split; apply Z.ltb_ge; lia).
    rewrite Nat2Z.id. change (Z.to_nat 0) with 0%nat. rewrite Nat.sub_0_r. cbn [skipn]. reflexivity.
  - reflexivity.
Qed.

Print Assumptions tie_remove_comments.
