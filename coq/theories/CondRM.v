(* CondRM.v — executable model of ConditionalRoleManager (role_manager.py 372-465) and
   ConditionalDomainManager (468-525), matching_func == None / no domain matching function.
   Link condition functions are EXTERNAL code: they appear as the Section variable
     cond : fid -> list param -> bool
   (function identity [fid] and parameters are atoms; a condition function is assumed to be a pure
   total boolean function of its stored parameters — it is never an axiom).  The oracle
   instantiates [cond] with a finite truth table passed as data ([table_cond]).  No proofs here. *)
From Coq Require Import List NArith Bool.
From PyCasbin Require Import Base RoleGraph.
Import ListNotations.

Definition ckey : Type := (name * name * name)%type.        (* (user, role, domain) *)
Definition ckey_eqb (x y : ckey) : bool :=
  N.eqb (fst (fst x)) (fst (fst y)) && N.eqb (snd (fst x)) (snd (fst y)) && N.eqb (snd x) (snd y).

Section CAssoc.
  Context {V : Type}.
  Fixpoint clookup (k : ckey) (m : list (ckey * V)) : option V :=
    match m with
    | [] => None
    | (k', v) :: r => if ckey_eqb k k' then Some v else clookup k r
    end.
  Fixpoint cset (k : ckey) (v : V) (m : list (ckey * V)) : list (ckey * V) :=
    match m with
    | [] => [(k, v)]
    | (k', v') :: r => if ckey_eqb k k' then (k', v) :: r else (k', v') :: cset k v r
    end.
End CAssoc.

(* Role.link_condition_func_map / link_condition_func_params_map (36-37) live in the Role object of
   the USER, keyed by (role.name, domain): flattened here to (user, role, domain).  Role objects
   survive delete_link, so a condition outlives the deletion and re-addition of its link; clear()
   (149-151) drops all Role objects and with them every condition and parameter list. *)
Record crm_state : Type := mkCRM {
  crm_rm     : rm_state;                     (* the inherited RoleManager part *)
  crm_fn     : list (ckey * N);              (* which condition function a link carries *)
  crm_params : list (ckey * list N)          (* its stored parameters *)
}.

Definition crm_empty (max_level : nat) : crm_state := mkCRM (rm_empty max_level) [] [].
Definition crm_clear (s : crm_state) : crm_state := mkCRM (rm_clear (crm_rm s)) [] [].

(* add_link / delete_link / get_roles / get_users are inherited from RoleManager *)
Definition crm_add_link (s : crm_state) (u r : name) : crm_state :=
  mkCRM (rm_add_link (crm_rm s) u r) (crm_fn s) (crm_params s).
Definition crm_delete_link_x (s : crm_state) (u r : name) : crm_state * option N :=
  let '(rm', e) := rm_delete_link_x (crm_rm s) u r in (mkCRM rm' (crm_fn s) (crm_params s), e).
Definition crm_delete_link (s : crm_state) (u r : name) : result crm_state :=
  match crm_delete_link_x s u r with (s', None) => Ok s' | (_, Some e) => Err e end.
Definition crm_get_roles (s : crm_state) (u : name) : list name := rm_get_roles (crm_rm s) u.
Definition crm_get_users (s : crm_state) (r : name) : list name := rm_get_users (crm_rm s) r.

(* add_domain_link_condition_func (451-455); add_link_condition_func (447-449) is the same with
   domain "" = empty_dom.  dict assignment: overwrites. *)
Definition crm_add_cond (s : crm_state) (u r d : name) (f : N) : crm_state :=
  mkCRM (crm_rm s) (cset (u, r, d) f (crm_fn s)) (crm_params s).
(* set_domain_link_condition_func_params (461-465) / set_link_condition_func_params (457-459) *)
Definition crm_set_params (s : crm_state) (u r d : name) (ps : list N) : crm_state :=
  mkCRM (crm_rm s) (crm_fn s) (cset (u, r, d) ps (crm_params s)).

(* the domain component of the key has_link(name1, name2, *domains) looks conditions up with:
   no argument -> "" (406-410, 424), otherwise domains[0] (412-415, 441-443); further arguments
   are ignored *)
Definition dom_key (doms : list name) : name :=
  match doms with [] => empty_dom | d :: _ => d end.

Section Cond.
  Variable cond : N -> list N -> bool.

  (* get_next_roles (403-420): the link cur -> next is followed iff it carries no condition
     function, or the function is true of the stored parameters ([] when none were stored, 93) *)
  Definition crm_pass (s : crm_state) (cur next dk : name) : bool :=
    match clookup (cur, next, dk) (crm_fn s) with
    | None => true
    | Some f => cond f (match clookup (cur, next, dk) (crm_params s) with Some ps => ps | None => [] end)
    end.

  Definition crm_succ (s : crm_state) (dk : name) (a : name) : list name :=
    map snd (filter (fun l => N.eqb (fst l) a && crm_pass s (fst l) (snd l) dk) (rm_roles (crm_rm s))).

  (* has_link (373-381) and _has_link (383-401): `name1 == name2` shortcut, then the same
     level countdown as the plain manager but with the test `level < 0`, i.e. levels
     max, max-1, …, 0 are all expanded: max+1 rounds. *)
  Definition crm_has_link (s : crm_state) (a b : name) (doms : list name) : bool :=
    N.eqb a b || has_link_lvl (crm_succ s (dom_key doms)) (S (rm_max (crm_rm s))) b [a].

  (* ---------------- ConditionalDomainManager ---------------- *)
  (* ConditionalDomainManager.add_link/delete_link (501-509) never write self.all_links (they do
     not call DomainManagerBase.add_link), so all_links stays {} and the per-domain managers in
     rm_map are the only store. *)
  Record cdm_state : Type := mkCDM {
    cdm_max   : nat;
    cdm_cache : list (name * crm_state)      (* rm_map *)
  }.
  Definition cdm_empty (max_level : nat) : cdm_state := mkCDM max_level [].
  Definition cdm_clear (s : cdm_state) : cdm_state := mkCDM (cdm_max s) [].

  (* _get_conditional_role_manager(domain, store) 476-494 *)
  Definition cdm_get (s : cdm_state) (d : name) : crm_state :=
    match alookup d (cdm_cache s) with Some rm => rm | None => crm_empty (cdm_max s) end.
  Definition cdm_put (s : cdm_state) (d : name) (rm : crm_state) : cdm_state :=
    mkCDM (cdm_max s) (aset d rm (cdm_cache s)).

  (* has_link 496-499: store=False — an unknown domain gets a throw-away empty manager *)
  Definition cdm_has_link (s : cdm_state) (a b d : name) : bool :=
    crm_has_link (cdm_get s d) a b [d].
  Definition cdm_add_link (s : cdm_state) (u r d : name) : cdm_state :=
    cdm_put s d (crm_add_link (cdm_get s d) u r).
  Definition cdm_delete_link_x (s : cdm_state) (u r d : name) : cdm_state * option N :=
    let '(rm', e) := crm_delete_link_x (cdm_get s d) u r in (cdm_put s d rm', e).
  (* get_roles/get_users: DomainManagerBase 286-292 via _get_role_manager 469-474 (stores) *)
  Definition cdm_get_roles (s : cdm_state) (u d : name) : list name * cdm_state :=
    (crm_get_roles (cdm_get s d) u, cdm_put s d (cdm_get s d)).
  Definition cdm_get_users (s : cdm_state) (r d : name) : list name * cdm_state :=
    (crm_get_users (cdm_get s d) r, cdm_put s d (cdm_get s d)).
  (* 511-525: condition functions / parameters are pushed into EVERY manager that exists at that
     moment (and into none created later) *)
  Definition cdm_add_cond (s : cdm_state) (u r d : name) (f : N) : cdm_state :=
    mkCDM (cdm_max s) (map (fun e => (fst e, crm_add_cond (snd e) u r d f)) (cdm_cache s)).
  Definition cdm_set_params (s : cdm_state) (u r d : name) (ps : list N) : cdm_state :=
    mkCDM (cdm_max s) (map (fun e => (fst e, crm_set_params (snd e) u r d ps)) (cdm_cache s)).
End Cond.

(* SPEC: the edge relation of the conditional manager for domain key dk *)
Definition crm_edge (cond : N -> list N -> bool) (s : crm_state) (dk : name) (a b : name) : Prop :=
  In (a, b) (rm_roles (crm_rm s)) /\ crm_pass cond s a b dk = true.

(* histories of the conditional manager *)
Inductive crm_op : Type :=
| CLink (o : rm_op)                         (* add / delete / clear *)
| CFn (u r d : name) (f : N)
| CParams (u r d : name) (ps : list N).

Definition crm_step (s : crm_state) (o : crm_op) : crm_state :=
  match o with
  | CLink (OAdd u r) => crm_add_link s u r
  | CLink (ODel u r) => fst (crm_delete_link_x s u r)
  | CLink OClear => crm_clear s
  | CFn u r d f => crm_add_cond s u r d f
  | CParams u r d ps => crm_set_params s u r d ps
  end.
Definition crm_run (s : crm_state) (ops : list crm_op) : crm_state := fold_left crm_step ops s.
Definition crm_links_of (ops : list crm_op) : list rm_op :=
  flat_map (fun o => match o with CLink o' => [o'] | _ => [] end) ops.

(* a finite truth table as data: (fid, params, value); unlisted -> false *)
Fixpoint table_cond (tbl : list (N * list N * bool)) (f : N) (ps : list N) : bool :=
  match tbl with
  | [] => false
  | (f', ps', b) :: r => if N.eqb f f' && list_eqb N.eqb ps ps' then b else table_cond r f ps
  end.

(* histories of the conditional domain manager *)
Inductive cdm_op : Type :=
| KAdd (u r d : name)
| KDel (u r d : name)
| KClear
| KList (d : name)                         (* get_roles / get_users in d: creates the manager *)
| KFn (u r d : name) (f : N)
| KParams (u r d : name) (ps : list N).

Definition cdm_step (s : cdm_state) (o : cdm_op) : cdm_state :=
  match o with
  | KAdd u r d => cdm_add_link s u r d
  | KDel u r d => fst (cdm_delete_link_x s u r d)
  | KClear => cdm_clear s
  | KList d => cdm_put s d (cdm_get s d)
  | KFn u r d f => cdm_add_cond s u r d f
  | KParams u r d ps => cdm_set_params s u r d ps
  end.
Definition cdm_run (s : cdm_state) (ops : list cdm_op) : cdm_state := fold_left cdm_step ops s.
Definition cdm_proj (d : name) (ops : list cdm_op) : list rm_op :=
  flat_map (fun o => match o with
                     | KAdd u r d' => if N.eqb d' d then [OAdd u r] else []
                     | KDel u r d' => if N.eqb d' d then [ODel u r] else []
                     | KClear => [OClear]
                     | _ => []
                     end) ops.

(* ------------------------------------------------------------------------------------------ *)
(* oracle of C03: a history of calls on one manager -> the list of observations                 *)
(*   op codes: 0 add_link u r doms | 1 delete_link u r doms | 2 has_link a b doms              *)
(*             3 get_roles u doms | 4 get_users r doms | 5 clear                               *)
(*             6 add_(domain_)link_condition_func u r d f | 7 set_(domain_)link_condition_func_params u r d ps *)
(*             8 dump of the link stores                                                       *)
(*   every observation is [0, payload] or [999, code]                                          *)

Inductive wop : Type :=
| WAdd (u r : name) (doms : list name)
| WDel (u r : name) (doms : list name)
| WHas (a b : name) (doms : list name)
| WRoles (u : name) (doms : list name)
| WUsers (r : name) (doms : list name)
| WClear
| WCond (u r d : name) (f : N)
| WParams (u r d : name) (ps : list N)
| WDump.

Definition as_wop (v : val) : option wop :=
  match v with
  | VL [VN 0; VN u; VN r; doms] => option_map (WAdd u r) (as_names doms)
  | VL [VN 1; VN u; VN r; doms] => option_map (WDel u r) (as_names doms)
  | VL [VN 2; VN a; VN b; doms] => option_map (WHas a b) (as_names doms)
  | VL [VN 3; VN u; doms] => option_map (WRoles u) (as_names doms)
  | VL [VN 4; VN r; doms] => option_map (WUsers r) (as_names doms)
  | VL [VN 5] => Some WClear
  | VL [VN 6; VN u; VN r; VN d; VN f] => Some (WCond u r d f)
  | VL [VN 7; VN u; VN r; VN d; ps] => option_map (WParams u r d) (as_names ps)
  | VL [VN 8] => Some WDump
  | _ => None
  end%N.

Definition vok (v : val) : val := VL [VN 0; v].
Definition vunit : val := VL [].
Definition vexc (e : option N) : val := match e with None => vok vunit | Some c => verr c end.

Fixpoint run_rm (s : rm_state) (ops : list wop) : list val :=
  match ops with
  | [] => []
  | o :: rest =>
      match o with
      | WAdd u r doms => vok vunit :: run_rm (rm_add_link_d s u r doms) rest
      | WDel u r doms => let '(s', e) := rm_delete_link_x s u r in vexc e :: run_rm s' rest
      | WHas a b doms => vok (vbool (rm_has_link_d s a b doms)) :: run_rm s rest
      | WRoles u doms => vok (vnames (rm_get_roles_d s u doms)) :: run_rm s rest
      | WUsers r doms => vok (vnames (rm_get_users_d s r doms)) :: run_rm s rest
      | WClear => vok vunit :: run_rm (rm_clear s) rest
      | WDump => vok (vlist vlink (rm_links s)) :: run_rm s rest
      | _ => vbad :: run_rm s rest
      end
  end.

Definition vdm (s : dm_state) : val :=
  VL [vlist (fun e => VL [VN (fst e); vlist vlink (snd e)]) (dm_links s);
      vlist (fun e => VL [VN (fst e); vlist vlink (rm_links (snd e))]) (dm_cache s)].

Fixpoint run_dm (s : dm_state) (ops : list wop) : list val :=
  match ops with
  | [] => []
  | o :: rest =>
      match o with
      | WAdd u r doms =>
          match dm_domain_of doms with
          | Ok d => vok vunit :: run_dm (dm_add_link s u r d) rest
          | Err c => verr c :: run_dm s rest
          end
      | WDel u r doms =>
          match dm_domain_of doms with
          | Ok d => let '(s', e) := dm_delete_link_x s u r d in vexc e :: run_dm s' rest
          | Err c => verr c :: run_dm s rest
          end
      | WHas a b doms =>
          match dm_domain_of doms with
          | Ok d => let '(x, s') := dm_has_link s a b d in vok (vbool x) :: run_dm s' rest
          | Err c => verr c :: run_dm s rest
          end
      | WRoles u doms =>
          match dm_domain_of doms with
          | Ok d => let '(x, s') := dm_get_roles s u d in vok (vnames x) :: run_dm s' rest
          | Err c => verr c :: run_dm s rest
          end
      | WUsers r doms =>
          match dm_domain_of doms with
          | Ok d => let '(x, s') := dm_get_users s r d in vok (vnames x) :: run_dm s' rest
          | Err c => verr c :: run_dm s rest
          end
      | WClear => vok vunit :: run_dm (dm_clear s) rest
      | WDump => vok (vdm s) :: run_dm s rest
      | _ => vbad :: run_dm s rest
      end
  end.

Section RunCond.
  Variable cond : N -> list N -> bool.

  Fixpoint run_crm (s : crm_state) (ops : list wop) : list val :=
    match ops with
    | [] => []
    | o :: rest =>
        match o with
        | WAdd u r doms => vok vunit :: run_crm (crm_add_link s u r) rest
        | WDel u r doms => let '(s', e) := crm_delete_link_x s u r in vexc e :: run_crm s' rest
        | WHas a b doms => vok (vbool (crm_has_link cond s a b doms)) :: run_crm s rest
        | WRoles u doms => vok (vnames (crm_get_roles s u)) :: run_crm s rest
        | WUsers r doms => vok (vnames (crm_get_users s r)) :: run_crm s rest
        | WClear => vok vunit :: run_crm (crm_clear s) rest
        | WCond u r d f => vok vunit :: run_crm (crm_add_cond s u r d f) rest
        | WParams u r d ps => vok vunit :: run_crm (crm_set_params s u r d ps) rest
        | WDump => vok (vlist vlink (rm_links (crm_rm s))) :: run_crm s rest
        end
    end.

  Fixpoint run_cdm (s : cdm_state) (ops : list wop) : list val :=
    match ops with
    | [] => []
    | o :: rest =>
        match o with
        | WAdd u r doms =>
            match dm_domain_of doms with
            | Ok d => vok vunit :: run_cdm (cdm_add_link s u r d) rest
            | Err c => verr c :: run_cdm s rest
            end
        | WDel u r doms =>
            match dm_domain_of doms with
            | Ok d => let '(s', e) := cdm_delete_link_x s u r d in vexc e :: run_cdm s' rest
            | Err c => verr c :: run_cdm s rest
            end
        | WHas a b doms =>
            match dm_domain_of doms with
            | Ok d => vok (vbool (cdm_has_link cond s a b d)) :: run_cdm s rest
            | Err c => verr c :: run_cdm s rest
            end
        | WRoles u doms =>
            match dm_domain_of doms with
            | Ok d => let '(x, s') := cdm_get_roles s u d in vok (vnames x) :: run_cdm s' rest
            | Err c => verr c :: run_cdm s rest
            end
        | WUsers r doms =>
            match dm_domain_of doms with
            | Ok d => let '(x, s') := cdm_get_users s r d in vok (vnames x) :: run_cdm s' rest
            | Err c => verr c :: run_cdm s rest
            end
        | WClear => vok vunit :: run_cdm (cdm_clear s) rest
        | WCond u r d f => vok vunit :: run_cdm (cdm_add_cond s u r d f) rest
        | WParams u r d ps => vok vunit :: run_cdm (cdm_set_params s u r d ps) rest
        | WDump => vok (vlist (fun e => VL [VN (fst e); vlist vlink (rm_links (crm_rm (snd e)))]) (cdm_cache s))
                   :: run_cdm s rest
        end
    end.
End RunCond.

Definition as_tbl_row (v : val) : option (N * list N * bool) :=
  match v with
  | VL [VN f; ps; b] =>
      match as_names ps, as_bool b with
      | Some ps, Some b => Some (f, ps, b)
      | _, _ => None
      end
  | _ => None
  end.

(* tags: 1 RoleManager [L, ops] | 2 DomainManager [L, ops] | 3 ConditionalRoleManager [L, tbl, ops]
         4 ConditionalDomainManager [L, tbl, ops] | 5 spec reach_le [links, k, a, b] *)
Definition oracle_C03 (tag : N) (v : val) : val :=
  match tag, v with
  | 1%N, VL [l; ops] =>
      match as_nat l, as_listof as_wop ops with
      | Some l, Some ops => VL (run_rm (rm_empty l) ops)
      | _, _ => vbad
      end
  | 2%N, VL [l; ops] =>
      match as_nat l, as_listof as_wop ops with
      | Some l, Some ops => VL (run_dm (dm_empty l) ops)
      | _, _ => vbad
      end
  | 3%N, VL [l; tbl; ops] =>
      match as_nat l, as_listof as_tbl_row tbl, as_listof as_wop ops with
      | Some l, Some tbl, Some ops => VL (run_crm (table_cond tbl) (crm_empty l) ops)
      | _, _, _ => vbad
      end
  | 4%N, VL [l; tbl; ops] =>
      match as_nat l, as_listof as_tbl_row tbl, as_listof as_wop ops with
      | Some l, Some tbl, Some ops => VL (run_cdm (table_cond tbl) (cdm_empty l) ops)
      | _, _, _ => vbad
      end
  | 5%N, VL [ls; k; VN a; VN b] =>
      match as_listof as_link ls, as_nat k with
      | Some ls, Some k => vbool (reach_le ls k a b)
      | _, _ => vbad
      end
  | _, _ => vbad
  end.
