(* CondRMProofs.v — the conditional role managers: reachability along links whose condition holds. *)
From Coq Require Import List NArith Bool Arith Lia.
From PyCasbin Require Import Base RoleGraph RoleGraphProofs CondRM.
Import ListNotations.

Lemma ckey_eqb_eq : forall x y : ckey, ckey_eqb x y = true <-> x = y.
Proof.
  intros [[a b] c] [[a' b'] c']. unfold ckey_eqb. simpl. rewrite !andb_true_iff, !N.eqb_eq.
  split; [intros [[-> ->] ->]; reflexivity | intros H; inversion H; auto].
Qed.

(* dict laws of the condition tables: last writer wins, other keys untouched *)
Section CAssocFacts.
  Context {V : Type}.
  Lemma clookup_cset_eq : forall k (v : V) m, clookup k (cset k v m) = Some v.
  Proof.
    induction m as [|[k' v'] m IH]; simpl.
    - rewrite (proj2 (ckey_eqb_eq k k) eq_refl). reflexivity.
    - destruct (ckey_eqb k k') eqn:E; simpl; rewrite E; [reflexivity | exact IH].
  Qed.
  Lemma clookup_cset_neq : forall k k' (v : V) m, k' <> k -> clookup k' (cset k v m) = clookup k' m.
  Proof.
    intros k k' v m Hne. assert (Hf : ckey_eqb k' k = false).
    { destruct (ckey_eqb k' k) eqn:E; [apply ckey_eqb_eq in E; contradiction | reflexivity]. }
    induction m as [|[k2 v2] m IH]; simpl.
    - rewrite Hf. reflexivity.
    - destruct (ckey_eqb k k2) eqn:E; simpl.
      + apply ckey_eqb_eq in E. subst k2. rewrite Hf. reflexivity.
      + destruct (ckey_eqb k' k2); [reflexivity | exact IH].
  Qed.
End CAssocFacts.

Section CondProofs.
  Variable cond : N -> list N -> bool.

  Definition crm_params_of (s : crm_state) (k : ckey) : list N :=
    match clookup k (crm_params s) with Some ps => ps | None => [] end.

  (* a link is followed iff it carries no condition function or the function is true of the
     stored parameters *)
  Lemma crm_pass_spec : forall s a b dk,
    crm_pass cond s a b dk = true <->
    (clookup (a, b, dk) (crm_fn s) = None \/
     exists f, clookup (a, b, dk) (crm_fn s) = Some f /\ cond f (crm_params_of s (a, b, dk)) = true).
  Proof.
    intros s a b dk. unfold crm_pass, crm_params_of. destruct (clookup (a, b, dk) (crm_fn s)) as [f|].
    - split.
      + intro H. right. exists f. auto.
      + intros [H|[f' [H1 H2]]]; [discriminate | inversion H1; subst; exact H2].
    - split; auto.
  Qed.

  Lemma crm_succ_In : forall s dk a b, In b (crm_succ cond s dk a) <-> crm_edge cond s dk a b.
  Proof.
    intros s dk a b. unfold crm_succ, crm_edge. rewrite in_map_iff. split.
    - intros [[x y] [Hy Hin]]. simpl in Hy. subst. apply filter_In in Hin. destruct Hin as [Hin He].
      simpl in He. apply andb_true_iff in He. destruct He as [He Hp]. apply N.eqb_eq in He. subst. auto.
    - intros [H Hp]. exists (a, b). split; [reflexivity|]. apply filter_In. split; [exact H|].
      simpl. rewrite N.eqb_refl, Hp. reflexivity.
  Qed.

  (* has_link of the conditional manager = a path of AT MOST max_hierarchy_level links each of
     which passes its condition (for the domain key the query names), on any state *)
  Theorem cond_reach : forall s a b doms,
    crm_has_link cond s a b doms = true <->
    exists k, k <= rm_max (crm_rm s) /\ path (crm_edge cond s (dom_key doms)) k a b.
  Proof.
    intros s a b doms. unfold crm_has_link. rewrite orb_true_iff, lvl_single. split.
    - intros [H|[k [Hk Hp]]].
      + apply N.eqb_eq in H. subst. exists 0. split; [lia | constructor].
      + exists k. split; [lia|]. eapply path_iff; [|exact Hp]. intros x y. symmetry. apply crm_succ_In.
    - intros [k [Hk Hp]]. right. exists k. split; [lia|].
      eapply path_iff; [|exact Hp]. intros x y. apply crm_succ_In.
  Qed.

  Corollary cond_reflexive : forall s a doms, crm_has_link cond s a a doms = true.
  Proof. intros. apply cond_reach. exists 0. split; [lia | constructor]. Qed.

  (* a link whose condition is false is not followed: no path through passing links, no role *)
  Corollary cond_false_blocks : forall s a b doms,
    (forall k, ~ path (crm_edge cond s (dom_key doms)) k a b) -> crm_has_link cond s a b doms = false.
  Proof.
    intros s a b doms H. destruct (crm_has_link cond s a b doms) eqn:E; [|reflexivity].
    apply cond_reach in E. destruct E as [k [_ Hp]]. exfalso. exact (H k Hp).
  Qed.

  (* the link part of a conditional manager evolves exactly like a plain manager *)
  Lemma crm_rm_run : forall ops s, crm_rm (crm_run s ops) = rm_run (crm_rm s) (crm_links_of ops).
  Proof.
    induction ops as [|o ops IH]; intros s; [reflexivity|].
    change (crm_run s (o :: ops)) with (crm_run (crm_step s o) ops). rewrite IH.
    destruct o as [[u r|u r|]|u r d f|u r d ps]; simpl; try reflexivity.
    unfold crm_delete_link_x. destruct (rm_delete_link_x (crm_rm s) u r). reflexivity.
  Qed.

  (* THE statement of C03 for the conditional manager, over histories *)
  Theorem cond_reach_history : forall L ops a b doms, no_double_add (crm_links_of ops) = true ->
    let s := crm_run (crm_empty L) ops in
    (crm_has_link cond s a b doms = true <->
     exists k, k <= L /\
       path (fun x y => In (x, y) (links_spec (crm_links_of ops))
                        /\ crm_pass cond s x y (dom_key doms) = true) k a b).
  Proof.
    intros L ops a b doms G s. rewrite cond_reach.
    assert (E : crm_rm s = rm_set L (links_spec (crm_links_of ops))).
    { unfold s. rewrite crm_rm_run. simpl. apply edges_are_links. exact G. }
    unfold crm_edge. rewrite E. simpl. tauto.
  Qed.

  (* conditional domain manager: a query for domain d consults only the manager of d, with the
     conditions keyed by d *)
  Theorem cdm_domain_scoped : forall s a b d,
    cdm_has_link cond s a b d = true <->
    exists k, k <= rm_max (crm_rm (cdm_get s d)) /\ path (crm_edge cond (cdm_get s d) d) k a b.
  Proof. intros. unfold cdm_has_link. rewrite cond_reach. simpl. tauto. Qed.
End CondProofs.
