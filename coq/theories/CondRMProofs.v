(* CondRMProofs.v — the conditional role managers: reachability along links whose condition holds. *)
From Coq Require Import List NArith Bool Arith Lia.
From PyCasbin Require Import Base RoleGraph RoleGraphProofs CondRM.
Import ListNotations.

Lemma ckey_eqb_eq : forall x y : ckey, ckey_eqb x y = true <-> x = y.
Proof.
  intros [[a b] c] [[a' b'] c']. unfold ckey_eqb. simpl. rewrite !andb_true_iff, !N.eqb_eq.
  split; [intros [[-> ->] ->]; reflexivity | intros H; inversion H; auto].
Qed.

(* dict laws of the condition tables: last writer wins, other keys untouched *)
Section CAssocFacts.
  Context {V : Type}.
  Lemma clookup_cset_eq : forall k (v : V) m, clookup k (cset k v m) = Some v.
  Proof.
    induction m as [|[k' v'] m IH]; simpl.
    - rewrite (proj2 (ckey_eqb_eq k k) eq_refl). reflexivity.
    - destruct (ckey_eqb k k') eqn:E; simpl; rewrite E; [reflexivity | exact IH].
  Qed.
  Lemma clookup_cset_neq : forall k k' (v : V) m, k' <> k -> clookup k' (cset k v m) = clookup k' m.
  Proof.
    intros k k' v m Hne. assert (Hf : ckey_eqb k' k = false).
    { destruct (ckey_eqb k' k) eqn:E; [apply ckey_eqb_eq in E; contradiction | reflexivity]. }
    induction m as [|[k2 v2] m IH]; simpl.
    - rewrite Hf. reflexivity.
    - destruct (ckey_eqb k k2) eqn:E; simpl.
      + apply ckey_eqb_eq in E. subst k2. rewrite Hf. reflexivity.
      + destruct (ckey_eqb k' k2); [reflexivity | exact IH].
  Qed.
End CAssocFacts.

Section CondProofs.
  Variable cond : N -> list N -> bool.

  Definition crm_params_of (s : crm_state) (k : ckey) : list N :=
    match clookup k (crm_params s) with Some ps => ps | None => [] end.

  (* a link is followed iff it carries no condition function or the function is true of the
     stored parameters *)
  Lemma crm_pass_spec : forall s a b dk,
    crm_pass cond s a b dk = true <->
    (clookup (a, b, dk) (crm_fn s) = None \/
     exists f, clookup (a, b, dk) (crm_fn s) = Some f /\ cond f (crm_params_of s (a, b, dk)) = true).
  Proof.
    intros s a b dk. unfold crm_pass, crm_params_of. destruct (clookup (a, b, dk) (crm_fn s)) as [f|].
    - split.
      + intro H. right. exists f. auto.
      + intros [H|[f' [H1 H2]]]; [discriminate | inversion H1; subst; exact H2].
    - split; auto.
  Qed.

  Lemma crm_succ_In : forall s dk a b, In b (crm_succ cond s dk a) <-> crm_edge cond s dk a b.
  Proof.
    intros s dk a b. unfold crm_succ, crm_edge. rewrite in_map_iff. split.
    - intros [[x y] [Hy Hin]]. simpl in Hy. subst. apply filter_In in Hin. destruct Hin as [Hin He].
      simpl in He. apply andb_true_iff in He. destruct He as [He Hp]. apply N.eqb_eq in He. subst. auto.
    - intros [H Hp]. exists (a, b). split; [reflexivity|]. apply filter_In. split; [exact H|].
      simpl. rewrite N.eqb_refl, Hp. reflexivity.
  Qed.

  (* has_link of the conditional manager = a path of AT MOST max_hierarchy_level links each of
     which passes its condition (for the domain key the query names), on any state *)
  Theorem cond_reach : forall s a b doms,
    crm_has_link cond s a b doms = true <->
    exists k, k <= rm_max (crm_rm s) /\ path (crm_edge cond s (dom_key doms)) k a b.
  Proof.
    intros s a b doms. unfold crm_has_link. rewrite orb_true_iff, lvl_single. split.
    - intros [H|[k [Hk Hp]]].
      + apply N.eqb_eq in H. subst. exists 0. split; [lia | constructor].
      + exists k. split; [lia|]. eapply path_iff; [|exact Hp]. intros x y. symmetry. apply crm_succ_In.
    - intros [k [Hk Hp]]. right. exists k. split; [lia|].
      eapply path_iff; [|exact Hp]. intros x y. apply crm_succ_In.
  Qed.

  Corollary cond_reflexive : forall s a doms, crm_has_link cond s a a doms = true.
  Proof. intros. apply cond_reach. exists 0. split; [lia | constructor]. Qed.

  (* a link whose condition is false is not followed: no path through passing links, no role *)
  Corollary cond_false_blocks : forall s a b doms,
    (forall k, ~ path (crm_edge cond s (dom_key doms)) k a b) -> crm_has_link cond s a b doms = false.
  Proof.
    intros s a b doms H. destruct (crm_has_link cond s a b doms) eqn:E; [|reflexivity].
    apply cond_reach in E. destruct E as [k [_ Hp]]. exfalso. exact (H k Hp).
  Qed.

  (* the link part of a conditional manager evolves exactly like a plain manager *)
  Lemma crm_rm_run : forall ops s, crm_rm (crm_run s ops) = rm_run (crm_rm s) (crm_links_of ops).
  Proof.
    induction ops as [|o ops IH]; intros s; [reflexivity|].
    change (crm_run s (o :: ops)) with (crm_run (crm_step s o) ops). rewrite IH.
    destruct o as [[u r|u r|]|u r d f|u r d ps]; simpl; try reflexivity.
    unfold crm_delete_link_x. destruct (rm_delete_link_x (crm_rm s) u r). reflexivity.
  Qed.

  (* THE statement of C03 for the conditional manager, over histories *)
  Theorem cond_reach_history : forall L ops a b doms, no_double_add (crm_links_of ops) = true ->
    let s := crm_run (crm_empty L) ops in
    (crm_has_link cond s a b doms = true <->
     exists k, k <= L /\
       path (fun x y => In (x, y) (links_spec (crm_links_of ops))
                        /\ crm_pass cond s x y (dom_key doms) = true) k a b).
  Proof.
    intros L ops a b doms G s. rewrite cond_reach.
    assert (E : crm_rm s = rm_set L (links_spec (crm_links_of ops))).
    { unfold s. rewrite crm_rm_run. simpl. apply edges_are_links. exact G. }
    unfold crm_edge. rewrite E. simpl. tauto.
  Qed.

  (* conditional domain manager: a query for domain d consults only the manager of d, with the
     conditions keyed by d *)
  Theorem cdm_domain_scoped : forall s a b d,
    cdm_has_link cond s a b d = true <->
    exists k, k <= rm_max (crm_rm (cdm_get s d)) /\ path (crm_edge cond (cdm_get s d) d) k a b.
  Proof. intros. unfold cdm_has_link. rewrite cond_reach. simpl. tauto. Qed.
End CondProofs.

(* ------------------------------------------------------------------------------------------ *)
(* ConditionalDomainManager over histories                                                     *)

Definition cdm_inv (s : cdm_state) : Prop :=
  forall d rm, alookup d (cdm_cache s) = Some rm -> rm_max (crm_rm rm) = cdm_max s.

Lemma cdm_get_max : forall s d, cdm_inv s -> rm_max (crm_rm (cdm_get s d)) = cdm_max s.
Proof.
  intros s d I. unfold cdm_get. destruct (alookup d (cdm_cache s)) eqn:C; [apply (I d c C) | reflexivity].
Qed.

Lemma cdm_get_put : forall s d0 x d, cdm_get (cdm_put s d0 x) d = if N.eqb d d0 then x else cdm_get s d.
Proof.
  intros s d0 x d. unfold cdm_get, cdm_put. simpl. destruct (N.eqb d d0) eqn:E.
  - apply N.eqb_eq in E. subst. rewrite alookup_aset_eq. reflexivity.
  - apply N.eqb_neq in E. rewrite alookup_aset_neq by exact E. reflexivity.
Qed.

Lemma cdm_inv_put : forall s d0 x, cdm_inv s -> rm_max (crm_rm x) = cdm_max s -> cdm_inv (cdm_put s d0 x).
Proof.
  intros s d0 x I Hx d rm. unfold cdm_put. simpl. destruct (N.eq_dec d d0) as [->|Hne].
  - rewrite alookup_aset_eq. intro H; inversion H; subst. exact Hx.
  - rewrite alookup_aset_neq by exact Hne. apply I.
Qed.

Lemma alookup_map : forall (g : crm_state -> crm_state) d m,
  alookup d (map (fun e : name * crm_state => (fst e, g (snd e))) m) = option_map g (alookup d m).
Proof.
  intros g d m. induction m as [|[k v] m IH]; simpl; [reflexivity|].
  destruct (N.eqb d k); [reflexivity | exact IH].
Qed.

Lemma rm_max_del : forall s u r, rm_max (fst (rm_delete_link_x s u r)) = rm_max s.
Proof. intros s u r. exact (rm_max_step s (ODel u r)). Qed.

Lemma crm_del_rm : forall x u r, crm_rm (fst (crm_delete_link_x x u r)) = fst (rm_delete_link_x (crm_rm x) u r).
Proof. intros. unfold crm_delete_link_x. destruct (rm_delete_link_x (crm_rm x) u r). reflexivity. Qed.

Lemma cdm_del_fst : forall s u r d, fst (cdm_delete_link_x s u r d) = cdm_put s d (fst (crm_delete_link_x (cdm_get s d) u r)).
Proof. intros. unfold cdm_delete_link_x. destruct (crm_delete_link_x (cdm_get s d) u r). reflexivity. Qed.

Lemma cdm_inv_step : forall s o, cdm_inv s -> cdm_inv (cdm_step s o) /\ cdm_max (cdm_step s o) = cdm_max s.
Proof.
  intros s [u r d|u r d| |d|u r d f|u r d ps] I; simpl.
  - split; [|reflexivity]. apply cdm_inv_put; [exact I|]. simpl. apply cdm_get_max. exact I.
  - rewrite cdm_del_fst. split; [|reflexivity]. apply cdm_inv_put; [exact I|].
    rewrite crm_del_rm, rm_max_del. apply cdm_get_max. exact I.
  - split; [|reflexivity]. intros d rm H. discriminate.
  - split; [|reflexivity]. apply cdm_inv_put; [exact I | apply cdm_get_max; exact I].
  - split; [|reflexivity]. intros d0 rm. unfold cdm_add_cond. simpl. rewrite (alookup_map (fun x => crm_add_cond x u r d f)).
    destruct (alookup d0 (cdm_cache s)) eqn:C; simpl; [|discriminate].
    intro H; inversion H; subst. simpl. apply (I d0 c C).
  - split; [|reflexivity]. intros d0 rm. unfold cdm_set_params. simpl. rewrite (alookup_map (fun x => crm_set_params x u r d ps)).
    destruct (alookup d0 (cdm_cache s)) eqn:C; simpl; [|discriminate].
    intro H; inversion H; subst. simpl. apply (I d0 c C).
Qed.

Lemma cdm_get_map : forall (g : crm_state -> crm_state) s d,
  (forall x, crm_rm (g x) = crm_rm x) ->
  crm_rm (cdm_get (mkCDM (cdm_max s) (map (fun e => (fst e, g (snd e))) (cdm_cache s))) d) = crm_rm (cdm_get s d).
Proof.
  intros g s d Hg. unfold cdm_get. simpl. rewrite alookup_map.
  destruct (alookup d (cdm_cache s)); simpl; [apply Hg | reflexivity].
Qed.

(* one step: the link part of domain d's manager moves like a plain manager under the projection *)
Lemma cdm_step_proj : forall s o d, cdm_inv s ->
  crm_rm (cdm_get (cdm_step s o) d) = rm_run (crm_rm (cdm_get s d)) (cdm_proj d [o]).
Proof.
  intros s [u r d0|u r d0| |d0|u r d0 f|u r d0 ps] d I; unfold cdm_proj.
  - simpl. unfold cdm_add_link. rewrite cdm_get_put. rewrite (N.eqb_sym d d0).
    destruct (N.eqb d0 d) eqn:E; [|reflexivity]. apply N.eqb_eq in E. subst. reflexivity.
  - simpl. rewrite cdm_del_fst, cdm_get_put. rewrite (N.eqb_sym d d0).
    destruct (N.eqb d0 d) eqn:E; [|reflexivity]. apply N.eqb_eq in E. subst. simpl. apply crm_del_rm.
  - change (crm_rm (cdm_get (cdm_step s KClear) d)) with (rm_empty (cdm_max s)).
    change (rm_empty (cdm_max s) = rm_clear (crm_rm (cdm_get s d))).
    unfold rm_clear, rm_empty. rewrite (cdm_get_max s d I). reflexivity.
  - simpl. rewrite cdm_get_put. destruct (N.eqb d d0) eqn:E; [|reflexivity]. apply N.eqb_eq in E. subst. reflexivity.
  - apply (cdm_get_map (fun x => crm_add_cond x u r d0 f)). reflexivity.
  - apply (cdm_get_map (fun x => crm_set_params x u r d0 ps)). reflexivity.
Qed.

Lemma cdm_proj_cons : forall d o ops, cdm_proj d (o :: ops) = cdm_proj d [o] ++ cdm_proj d ops.
Proof. intros. unfold cdm_proj. simpl. rewrite app_nil_r. reflexivity. Qed.

Lemma rm_run_app : forall a b s, rm_run s (a ++ b) = rm_run (rm_run s a) b.
Proof. intros. unfold rm_run. apply fold_left_app. Qed.

Lemma cdm_run_proj : forall ops s d, cdm_inv s ->
  crm_rm (cdm_get (cdm_run s ops) d) = rm_run (crm_rm (cdm_get s d)) (cdm_proj d ops).
Proof.
  induction ops as [|o ops IH]; intros s d I; [reflexivity|].
  change (cdm_run s (o :: ops)) with (cdm_run (cdm_step s o) ops).
  rewrite IH by (apply cdm_inv_step; exact I).
  rewrite (cdm_step_proj s o d I), (cdm_proj_cons d o ops), rm_run_app. reflexivity.
Qed.

Lemma cdm_inv_empty : forall L, cdm_inv (cdm_empty L).
Proof. intros L d rm H. discriminate. Qed.

(* in the conditional domain manager too, only the assignments recorded for the queried domain count *)
Theorem cdm_links_scoped : forall L ops d,
  crm_rm (cdm_get (cdm_run (cdm_empty L) ops) d) = rm_run (rm_empty L) (cdm_proj d ops).
Proof. intros. rewrite cdm_run_proj by apply cdm_inv_empty. reflexivity. Qed.

Theorem cdm_reach_history : forall (cond : N -> list N -> bool) L ops a b d,
  no_double_add (cdm_proj d ops) = true ->
  let m := cdm_get (cdm_run (cdm_empty L) ops) d in
  (cdm_has_link cond (cdm_run (cdm_empty L) ops) a b d = true <->
   exists k, k <= L /\
     path (fun x y => In (x, y) (links_spec (cdm_proj d ops)) /\ crm_pass cond m x y d = true) k a b).
Proof.
  intros cond L ops a b d G m. rewrite cdm_domain_scoped. fold m.
  assert (E : crm_rm m = rm_set L (links_spec (cdm_proj d ops))).
  { unfold m. rewrite cdm_links_scoped. apply edges_are_links. exact G. }
  unfold crm_edge. rewrite E. simpl. tauto.
Qed.
