(* Csv.v — text-level model of the bundled CSV adapters (C10, reused by C12).
   Mirrors, on strings = lists of Unicode code points:
     casbin/persist/adapter.py                      load_policy_line            (lines 16-53)
     casbin/persist/adapters/file_adapter.py        _load_policy_file / _save_policy_file (41-66)
     casbin/persist/adapters/asyncio/file_adapter.py  (the same two bodies, 42-67)
     casbin/persist/adapters/string_adapter.py      load_policy / save_policy   (30-53, with the
                                                    repair fixes/C10-string-adapter-save-no-g.diff)
     casbin/model/policy.py                         clear_policy                (79-87)
   plus the SPEC of the property's second sentence (split_top / spec_load) and the boolean
   well-formedness predicate of its first sentence (wf_field).  No proofs here. *)
From Coq Require Import List NArith Bool Arith.
From PyCasbin Require Import Base.
Import ListNotations.
Local Open Scope N_scope.

(* ---------- characters ---------- *)
Definition c_nl : N := 10.       (* '\n' *)
Definition c_space : N := 32.
Definition c_hash : N := 35.     (* '#' *)
Definition c_lpar : N := 40.     (* '(' *)
Definition c_rpar : N := 41.     (* ')' *)
Definition c_comma : N := 44.    (* ',' *)
Definition c_lbr : N := 91.      (* '[' *)
Definition c_rbr : N := 93.      (* ']' *)
Definition c_p : N := 112.       (* 'p' *)
Definition c_g : N := 103.       (* 'g' *)

Definition is_open (c : N) : bool := (c =? c_lbr) || (c =? c_lpar).
Definition is_close (c : N) : bool := (c =? c_rbr) || (c =? c_rpar).

(* Python's str.strip() / str.isspace() whitespace set (Py_UNICODE_ISSPACE): compared with CPython
   on all 1 114 112 code points by harness/props/c10.py on every run. *)
Definition is_space (c : N) : bool :=
  ((9 <=? c) && (c <=? 13)) || ((28 <=? c) && (c <=? 32)) || (c =? 133) || (c =? 160)
  || (c =? 5760) || ((8192 <=? c) && (c <=? 8202)) || (c =? 8232) || (c =? 8233)
  || (c =? 8239) || (c =? 8287) || (c =? 12288).

Fixpoint lstrip (s : str) : str :=
  match s with
  | [] => []
  | c :: r => if is_space c then lstrip r else s
  end.
Definition rstrip (s : str) : str := rev (lstrip (rev s)).
Definition strip (s : str) : str := rstrip (lstrip s).          (* str.strip() *)

Definition is_blank (s : str) : bool := forallb is_space s.     (* not s.strip() *)

(* sep.join(l) *)
Fixpoint join (sep : str) (l : list str) : str :=
  match l with
  | [] => []
  | x :: r => match r with [] => x | _ => x ++ sep ++ join sep r end
  end.

(* s.split(sep) for a one-character separator: never the empty list *)
Fixpoint split_on (sep : N) (s : str) : list str :=
  match s with
  | [] => [[]]
  | c :: r =>
      if c =? sep then [] :: split_on sep r
      else match split_on sep r with
           | x :: xs => (c :: x) :: xs
           | [] => [[c]]
           end
  end.

(* binary file.readline() until b"" (file_adapter.py:43-46): pieces keep their '\n'; a final
   piece without terminator is returned only when non-empty.  UTF-8 never uses byte 0x0A inside a
   multi-byte sequence, so splitting the bytes at 0x0A = splitting the code points at 10. *)
Fixpoint readlines (s : str) : list str :=
  match s with
  | [] => []
  | c :: r =>
      if c =? c_nl then [c_nl] :: readlines r
      else match readlines r with
           | [] => [[c]]
           | l :: ls => (c :: l) :: ls
           end
  end.

(* ---------- load_policy_line (adapter.py:16-53) ---------- *)

(* tokens[-1] += c ; None = IndexError (tokens is empty) *)
Fixpoint add_last (toks : list str) (c : N) : option (list str) :=
  match toks with
  | [] => None
  | t :: r =>
      match r with
      | [] => Some [t ++ [c]]
      | _ => match add_last r c with Some r' => Some (t :: r') | None => None end
      end
  end.

(* the `for c in line` loop, lines 27-40.  `stack` is only ever appended to, popped and tested for
   emptiness (the popped character is never looked at, so "(]" closes), hence a counter.
   The final stack height is returned too (the Python drops it); it makes the loop compositional. *)
Fixpoint tok_loop (line : str) (stack : nat) (toks : list str) : result (nat * list str) :=
  match line with
  | [] => Ok (stack, toks)
  | c :: r =>
      if is_open c then                                   (* 28-30 *)
        match add_last toks c with
        | None => Err EIndex                              (* tokens[-1] on [] *)
        | Some t' => tok_loop r (S stack) t'
        end
      else if is_close c then                             (* 31-33 *)
        match stack with
        | O => Err EIndex                                 (* stack.pop() on [] *)
        | S s =>
            match add_last toks c with
            | None => Err EIndex
            | Some t' => tok_loop r s t'
            end
        end
      else if (c =? c_comma) && (Nat.eqb stack 0) then    (* 34-35 *)
        tok_loop r stack (toks ++ [[]])
      else                                                (* 36-40 *)
        match toks with
        | [] => tok_loop r stack [[c]]
        | _ => match add_last toks c with
               | None => Err EIndex                       (* unreachable *)
               | Some t' => tok_loop r stack t'
               end
        end
  end.

(* lines 19-45 up to `sec = key[0]`: None = the line is skipped ("" or comment),
   Some (key, tokens[1:]) otherwise; IndexError for key = "" *)
Definition parse_line (line : str) : result (option (str * list str)) :=
  match line with
  | [] => Ok None                                         (* 19-20 *)
  | c :: _ =>
      if c =? c_hash then Ok None                         (* 22-23 *)
      else
        match tok_loop line 0%nat [] with
        | Err e => Err e
        | Ok (_, toks) =>
            match map strip toks with                     (* 42 *)
            | [] => Err EIndex                            (* tokens[0]; unreachable *)
            | key :: fs =>
                match key with
                | [] => Err EIndex                        (* key[0] on "" , line 45 *)
                | _ :: _ => Ok (Some (key, fs))
                end
            end
        end
  end.

(* the model object: model.model[sec][key].policy for every assertion of every section, sections
   and keys in dict order flattened (a section exists iff it has an assertion: model.py:69-72) *)
Record ast := { a_sec : N; a_key : str; a_pol : list (list str) }.
Definition model := list ast.

Definition ast_is (sec : N) (key : str) (a : ast) : bool :=
  (a_sec a =? sec) && str_eqb (a_key a) key.
Definition add_rule (a : ast) (fs : list str) : ast :=
  {| a_sec := a_sec a; a_key := a_key a; a_pol := a_pol a ++ [fs] |}.

(* lines 47-53: `sec not in model` / `key not in model[sec]` -> return (nothing matches, nothing
   changes); else model[sec][key].policy.append(tokens[1:]) — no arity check, no dedup *)
Fixpoint append_rule (m : model) (sec : N) (key : str) (fs : list str) : model :=
  match m with
  | [] => []
  | a :: r => if ast_is sec key a then add_rule a fs :: r else a :: append_rule r sec key fs
  end.

Definition load_policy_line (line : str) (m : model) : result model :=
  match parse_line line with
  | Err e => Err e
  | Ok None => Ok m
  | Ok (Some (key, fs)) => Ok (append_rule m (hd 0 key) key fs)
  end.

Fixpoint load_lines (ls : list str) (m : model) : result model :=
  match ls with
  | [] => Ok m
  | l :: r => match load_policy_line l m with
              | Err e => Err e
              | Ok m' => load_lines r m'
              end
  end.

(* ---------- FileAdapter / AsyncFileAdapter ---------- *)
Definition file_lines (text : str) : list str := map strip (readlines text).   (* line.decode().strip() *)
Definition load_file (text : str) (m : model) : result model :=
  load_lines (file_lines text) m.

Definition sep_cs : str := [c_comma; c_space].
Definition render_line (key : str) (fs : list str) : str :=
  key ++ sep_cs ++ join sep_cs fs.                         (* key + ", " + ", ".join(pvals) *)

Definition sec_lines (sec : N) (m : model) : list str :=
  flat_map (fun a => if a_sec a =? sec then map (render_line (a_key a)) (a_pol a) else []) m.
Definition save_lines (m : model) : list str := sec_lines c_p m ++ sec_lines c_g m.

(* every line but the last gets "\n", then writelines *)
Definition save_file (m : model) : str := join [c_nl] (save_lines m).

(* ---------- StringAdapter ---------- *)
Fixpoint lstrip_nl (s : str) : str :=
  match s with
  | [] => []
  | c :: r => if c =? c_nl then lstrip_nl r else s
  end.
Definition rstrip_nl (s : str) : str := rev (lstrip_nl (rev s)).     (* .rstrip("\n") *)

Definition save_string (m : model) : str :=
  rstrip_nl (concat (map (fun l => l ++ [c_nl]) (save_lines m))).

Definition nonempty (s : str) : bool := match s with [] => false | _ => true end.

(* split("\n"), `if s == "": continue`, lines are NOT trimmed *)
Definition string_lines (text : str) : list str := filter nonempty (split_on c_nl text).
Definition load_string (text : str) (m : model) : result model :=
  match text with
  | [] => Err ERuntime                                    (* "invalid line, line cannot be empty" *)
  | _ => load_lines (string_lines text) m
  end.

(* Policy.clear_policy: only the p and g sections *)
Definition is_pg (sec : N) : bool := (sec =? c_p) || (sec =? c_g).
Definition clear_policy (m : model) : model :=
  map (fun a => if is_pg (a_sec a) then {| a_sec := a_sec a; a_key := a_key a; a_pol := [] |} else a) m.

(* Enforcer.save_policy(); Enforcer.load_policy()  (load works on a cleared deep copy) *)
Definition roundtrip_file (m : model) : result model := load_file (save_file m) (clear_policy m).
Definition roundtrip_string (m : model) : result model := load_string (save_string m) (clear_policy m).

(* ---------- the property's vocabulary ---------- *)

(* brackets nest (never more closers than openers, all closed at the end) and no comma at depth 0 *)
Fixpoint bal (f : str) (d : nat) : bool :=
  match f with
  | [] => Nat.eqb d 0
  | c :: r =>
      if is_open c then bal r (S d)
      else if is_close c then match d with O => false | S d' => bal r d' end
      else if (c =? c_comma) && (Nat.eqb d 0) then false
      else bal r d
  end.
Definition has_nl (f : str) : bool := existsb (fun c => c =? c_nl) f.
Definition no_blank_edges (f : str) : bool :=
  match f with
  | [] => true
  | c :: _ => negb (is_space c) && negb (is_space (last f 0))
  end.
(* "no top-level comma, no line break, no leading or trailing blank and only balanced brackets" *)
Definition wf_field (f : str) : bool := bal f 0 && negb (has_nl f) && no_blank_edges f.
(* a policy type name: a well-formed non-empty field that does not start a comment or a bracket *)
Definition wf_key (k : str) : bool :=
  wf_field k && match k with [] => false | c :: _ => negb (c =? c_hash) && negb (is_open c) end.

(* a policy: keys are unique per section (dict); every policy type of the p and g sections has a
   well-formed name that starts with its section letter (p, p2, g, g2 … — load_policy_line finds
   the section from key[0]) and holds only non-empty rules of well-formed fields *)
Definition ast_id (a : ast) : N * str := (a_sec a, a_key a).
Definition wf_rule (r : list str) : Prop := r <> [] /\ Forall (fun f => wf_field f = true) r.
Definition wf_ast (a : ast) : Prop :=
  is_pg (a_sec a) = true ->
  wf_key (a_key a) = true /\ hd 0 (a_key a) = a_sec a /\ Forall wf_rule (a_pol a).
Definition wf_model (m : model) : Prop := NoDup (map ast_id m) /\ Forall wf_ast m.

(* the same as booleans (for examples and for the harness) *)
Definition id_eqb (x y : N * str) : bool := (fst x =? fst y) && str_eqb (snd x) (snd y).
Definition wf_ruleb (r : list str) : bool :=
  match r with [] => false | _ => forallb wf_field r end.
Definition wf_astb (a : ast) : bool :=
  negb (is_pg (a_sec a))
  || (wf_key (a_key a) && (hd 0 (a_key a) =? a_sec a) && forallb wf_ruleb (a_pol a)).
Definition wf_modelb (m : model) : bool := nodupb id_eqb (map ast_id m) && forallb wf_astb m.

(* ---------- spec of the loader (second sentence of C10) ---------- *)

Definition cons_hd (c : N) (l : list str) : list str :=
  match l with [] => [[c]] | x :: xs => (c :: x) :: xs end.

(* split at the commas that are outside brackets: depth = openers minus closers seen so far *)
Fixpoint split_top (s : str) (d : nat) : list str :=
  match s with
  | [] => [[]]
  | c :: r =>
      if is_open c then cons_hd c (split_top r (S d))
      else if is_close c then cons_hd c (split_top r (Nat.pred d))
      else if (c =? c_comma) && (Nat.eqb d 0) then [] :: split_top r 0
      else cons_hd c (split_top r d)
  end.

(* no prefix of s has more closing than opening brackets *)
Fixpoint no_underflow (s : str) (d : nat) : bool :=
  match s with
  | [] => true
  | c :: r =>
      if is_open c then no_underflow r (S d)
      else if is_close c then match d with O => false | S d' => no_underflow r d' end
      else no_underflow r d
  end.

(* what the code's loop really produces: a leading top-level comma does NOT open an empty first
   field (tokens == [] -> append(""), and the next character joins that token) *)
Definition impl_tokens (l : str) : list str :=
  match l with
  | c :: r => if c =? c_comma then split_top r 0 else split_top l 0
  | [] => [[]]
  end.

(* total description of load_policy_line's parsing, errors included *)
Definition spec_parse (l : str) : result (option (str * list str)) :=
  match l with
  | [] => Ok None
  | c :: _ =>
      if c =? c_hash then Ok None
      else if is_open c then Err EIndex
      else if negb (no_underflow l 0) then Err EIndex
      else match strip (hd [] (impl_tokens l)) with
           | [] => Err EIndex
           | key => Ok (Some (key, map strip (tl (impl_tokens l))))
           end
  end.

Definition is_comment (l : str) : bool := match l with c :: _ => c =? c_hash | [] => false end.

(* the line grammar: empty | comment | fields separated by top-level commas, brackets never
   closing below zero, first field not blank and not starting with a bracket *)
Definition line_ok (l : str) : bool :=
  match l with
  | [] => true
  | c :: _ =>
      (c =? c_hash)
      || (negb (is_open c) && no_underflow l 0 && negb (is_blank (hd [] (split_top l 0))))
  end.

Definition spec_fields (l : str) : list str := map strip (split_top l 0).

(* the rules a text gives to assertion a: of every non-empty non-comment line whose first field
   is a's key (and whose first character is a's section), the remaining fields, in text order *)
Definition names (key : str) (a : ast) : bool := ast_is (hd 0 key) key a.
Definition spec_rules (ls : list str) (a : ast) : list (list str) :=
  flat_map (fun l =>
    if nonempty l && negb (is_comment l) then
      match spec_fields l with
      | key :: fs => if names key a then [fs] else []
      | [] => []
      end
    else []) ls.
Definition spec_load (ls : list str) (m : model) : model :=
  map (fun a => {| a_sec := a_sec a; a_key := a_key a; a_pol := a_pol a ++ spec_rules ls a |}) m.

(* ---------- oracle ---------- *)
Definition as_rules : val -> option (list (list str)) := as_listof (as_listof as_str).
Definition as_ast (v : val) : option ast :=
  match v with
  | VL [VN s; k; p] =>
      match as_str k, as_rules p with
      | Some k, Some p => Some {| a_sec := s; a_key := k; a_pol := p |}
      | _, _ => None
      end
  | _ => None
  end.
Definition as_model : val -> option model := as_listof as_ast.
Definition vrules (p : list (list str)) : val := vlist (vlist vstr) p.
Definition vast (a : ast) : val := VL [VN (a_sec a); vstr (a_key a); vrules (a_pol a)].
Definition vmodel (m : model) : val := vlist vast m.
Definition vparsed (p : option (str * list str)) : val := vopt (vpair vstr (vlist vstr)) p.

(* all c < n with is_space c, ascending *)
Definition spaces_below (n : N) : list N :=
  rev (snd (N.iter n (fun st => let '(c, acc) := st in
                                (c + 1, if is_space c then c :: acc else acc)) (0, []))).

Definition oracle_C10 (tag : N) (v : val) : val :=
  match tag with
  | 1 => match as_N v with Some n => vlist VN (spaces_below n) | None => vbad end
  | 2 => match as_str v with Some s => vstr (strip s) | None => vbad end
  | 3 => match as_str v with Some s => vres vparsed (parse_line s) | None => vbad end
  | 4 => match as_str v with Some s => vres vparsed (spec_parse s) | None => vbad end
  | 5 => match v with
         | VL [t; m] => match as_str t, as_model m with
                        | Some t, Some m => vres vmodel (load_file t m)
                        | _, _ => vbad end
         | _ => vbad end
  | 6 => match v with
         | VL [t; m] => match as_str t, as_model m with
                        | Some t, Some m => vres vmodel (load_string t m)
                        | _, _ => vbad end
         | _ => vbad end
  | 7 => match as_model v with Some m => vstr (save_file m) | None => vbad end
  | 8 => match as_model v with Some m => vstr (save_string m) | None => vbad end
  | 9 => match as_model v with Some m => vres vmodel (roundtrip_file m) | None => vbad end
  | 10 => match as_model v with Some m => vres vmodel (roundtrip_string m) | None => vbad end
  | 11 => match as_str v with Some s => VL [vbool (wf_field s); vbool (wf_key s); vbool (line_ok s)] | None => vbad end
  | 13 => match as_model v with Some m => vbool (wf_modelb m) | None => vbad end
  (* spec of loading: [kind (0 file / 1 string); text; model] -> [all lines ok; spec_load] *)
  | 12 => match v with
          | VL [VN k; t; m] =>
              match as_str t, as_model m with
              | Some t, Some m =>
                  let ls := if k =? 0 then file_lines t else string_lines t in
                  VL [vbool (forallb line_ok ls); vmodel (spec_load ls m)]
              | _, _ => vbad end
          | _ => vbad end
  | _ => vbad
  end.
