(* CsvProofs.v — lemmas about Csv.v (C10; reused by FilteredProofs.v) *)
From Coq Require Import List NArith Bool Arith Lia.
From PyCasbin Require Import Base Csv.
Import ListNotations.
Local Open Scope N_scope.

(* ------------------------------------------------------------------ characters *)
Lemma space_not_special : forall c, is_space c = true ->
  is_open c = false /\ is_close c = false /\ (c =? c_comma) = false /\ (c =? c_hash) = false.
Proof.
  intros c H. unfold is_open, is_close, c_lbr, c_lpar, c_rbr, c_rpar, c_comma, c_hash.
  repeat split;
    repeat match goal with
    | |- (_ || _) = false => apply orb_false_iff; split
    | |- (c =? ?k) = false =>
        destruct (N.eqb_spec c k) as [E|E]; [subst c; vm_compute in H; discriminate H | reflexivity]
    end.
Qed.

Lemma nl_is_space : is_space c_nl = true.
Proof. reflexivity. Qed.

Lemma open_not_close : forall c, is_open c = true -> is_close c = false.
Proof.
  intros c H. unfold is_open, is_close in *. apply orb_true_iff in H.
  destruct H as [H|H]; apply N.eqb_eq in H; subst c; reflexivity.
Qed.

(* ------------------------------------------------------------------ strip *)
Lemma is_blank_app : forall a b, is_blank (a ++ b) = is_blank a && is_blank b.
Proof. intros. unfold is_blank. apply forallb_app. Qed.

Lemma is_blank_rev : forall a, is_blank (rev a) = is_blank a.
Proof.
  induction a as [|c a IH]; [reflexivity|]. simpl. rewrite is_blank_app, IH. simpl.
  rewrite andb_true_r. apply andb_comm.
Qed.

Lemma lstrip_blank : forall a b, is_blank a = true -> lstrip (a ++ b) = lstrip b.
Proof.
  induction a as [|c a IH]; intros b H; [reflexivity|]. simpl in *.
  apply andb_true_iff in H. destruct H as [H1 H2]. rewrite H1. apply IH. exact H2.
Qed.

Lemma lstrip_all_blank : forall a, is_blank a = true -> lstrip a = [].
Proof. intros a H. rewrite <- (app_nil_r a). rewrite lstrip_blank by exact H. reflexivity. Qed.

Lemma lstrip_app_nonblank : forall a c b, is_space c = false ->
  lstrip (a ++ c :: b) = lstrip a ++ c :: b.
Proof.
  induction a as [|x a IH]; intros c b H; simpl.
  - rewrite H. reflexivity.
  - destruct (is_space x); [apply IH; exact H | reflexivity].
Qed.

Lemma lstrip_app_notblank : forall t x, is_blank t = false -> lstrip (t ++ x) = lstrip t ++ x.
Proof.
  induction t as [|c t IH]; intros x H; [discriminate|]. simpl in *.
  destruct (is_space c); [apply IH; exact H | reflexivity].
Qed.

Lemma lstrip_decomp : forall s, exists bl, is_blank bl = true /\ s = bl ++ lstrip s.
Proof.
  induction s as [|c s [bl [H1 H2]]].
  - exists []. split; reflexivity.
  - simpl. destruct (is_space c) eqn:E.
    + exists (c :: bl). split; [simpl; rewrite E; exact H1 | simpl; f_equal; exact H2].
    + exists []. split; reflexivity.
Qed.

Lemma rstrip_app_nonblank : forall a c b, is_space c = false ->
  rstrip (a ++ c :: b) = a ++ c :: rstrip b.
Proof.
  intros a c b H. unfold rstrip. rewrite rev_app_distr. simpl. rewrite <- app_assoc. simpl.
  rewrite lstrip_app_nonblank by exact H. rewrite rev_app_distr. simpl.
  rewrite rev_involutive. rewrite <- app_assoc. reflexivity.
Qed.

Lemma rstrip_all_blank : forall a, is_blank a = true -> rstrip a = [].
Proof.
  intros a H. unfold rstrip. rewrite lstrip_all_blank; [reflexivity|].
  rewrite is_blank_rev. exact H.
Qed.

Lemma rstrip_app_blank : forall x bl, is_blank bl = true -> rstrip (x ++ bl) = rstrip x.
Proof.
  intros x bl H. unfold rstrip. rewrite rev_app_distr. rewrite lstrip_blank; [reflexivity|].
  rewrite is_blank_rev. exact H.
Qed.

Lemma rstrip_decomp : forall s, exists bl, is_blank bl = true /\ s = rstrip s ++ bl.
Proof.
  intro s. destruct (lstrip_decomp (rev s)) as [bl [H1 H2]].
  exists (rev bl). split; [rewrite is_blank_rev; exact H1|].
  unfold rstrip. rewrite <- rev_app_distr. rewrite <- H2. symmetry. apply rev_involutive.
Qed.

Lemma strip_app_blank : forall t bl, is_blank bl = true -> strip (t ++ bl) = strip t.
Proof.
  intros t bl H. unfold strip. destruct (is_blank t) eqn:E.
  - rewrite (lstrip_all_blank (t ++ bl)) by (rewrite is_blank_app, E, H; reflexivity).
    rewrite (lstrip_all_blank t) by exact E. reflexivity.
  - rewrite lstrip_app_notblank by exact E. apply rstrip_app_blank. exact H.
Qed.

Lemma strip_blank_app : forall bl t, is_blank bl = true -> strip (bl ++ t) = strip t.
Proof. intros. unfold strip. rewrite lstrip_blank by assumption. reflexivity. Qed.

Lemma strip_all_blank : forall a, is_blank a = true -> strip a = [].
Proof. intros a H. unfold strip. rewrite lstrip_all_blank by exact H. reflexivity. Qed.

Lemma strip_no_blank_edges : forall f, no_blank_edges f = true -> strip f = f.
Proof.
  intros f H. destruct f as [|c r]; [reflexivity|].
  unfold no_blank_edges in H. apply andb_true_iff in H. destruct H as [H1 H2].
  apply negb_true_iff in H1. apply negb_true_iff in H2.
  unfold strip. change (lstrip (c :: r)) with (if is_space c then lstrip r else c :: r).
  rewrite H1.
  destruct (@exists_last _ (c :: r)) as [f' [l E]]; [discriminate|].
  rewrite E in *. rewrite last_last in H2.
  rewrite rstrip_app_nonblank by exact H2. reflexivity.
Qed.

Lemma strip_pad : forall a f b, is_blank a = true -> is_blank b = true ->
  no_blank_edges f = true -> strip (a ++ f ++ b) = f.
Proof.
  intros a f b Ha Hb Hf. rewrite strip_blank_app by exact Ha.
  rewrite strip_app_blank by exact Hb. apply strip_no_blank_edges. exact Hf.
Qed.

Lemma notblank_decomp : forall s, is_blank s = false ->
  exists a c b, is_blank a = true /\ is_space c = false /\ s = a ++ c :: b.
Proof.
  induction s as [|x s IH]; intro H; [discriminate|]. simpl in H.
  destruct (is_space x) eqn:E.
  - simpl in H. destruct (IH H) as [a [c [b [H1 [H2 H3]]]]].
    exists (x :: a), c, b. repeat split; [simpl; rewrite E; exact H1 | exact H2 | simpl; f_equal; exact H3].
  - exists [], x, s. repeat split. exact E.
Qed.

Lemma strip_notblank : forall s, is_blank s = false -> strip s <> [].
Proof.
  intros s H. destruct (notblank_decomp s H) as [a [c [b [H1 [H2 H3]]]]]. subst s.
  rewrite strip_blank_app by exact H1. unfold strip.
  change (lstrip (c :: b)) with (if is_space c then lstrip b else c :: b). rewrite H2.
  change (c :: b) with ([] ++ c :: b). rewrite rstrip_app_nonblank by exact H2. discriminate.
Qed.

Lemma strip_blank_iff : forall s, strip s = [] <-> is_blank s = true.
Proof.
  intro s. split.
  - intro H. destruct (is_blank s) eqn:E; [reflexivity|]. exfalso. exact (strip_notblank s E H).
  - apply strip_all_blank.
Qed.

(* strip of a string that starts with a non-blank: only the right end moves *)
Lemma strip_head_nonblank : forall c r, is_space c = false ->
  exists bl, is_blank bl = true /\ c :: r = strip (c :: r) ++ bl /\ strip (c :: r) = c :: rstrip r.
Proof.
  intros c r H. unfold strip.
  change (lstrip (c :: r)) with (if is_space c then lstrip r else c :: r). rewrite H.
  destruct (rstrip_decomp (c :: r)) as [bl [H1 H2]]. exists bl. repeat split; try assumption.
  change (c :: r) with ([] ++ c :: r). rewrite rstrip_app_nonblank by exact H. reflexivity.
Qed.

(* ------------------------------------------------------------------ tokenizer *)
Lemma add_last_snoc : forall ts t c, add_last (ts ++ [t]) c = Some (ts ++ [t ++ [c]]).
Proof.
  induction ts as [|a ts IH]; intros t c; [reflexivity|].
  change ((a :: ts) ++ [t]) with (a :: (ts ++ [t])).
  change (add_last (a :: (ts ++ [t])) c) with
    (match ts ++ [t] with
     | [] => Some [a ++ [c]]
     | _ => match add_last (ts ++ [t]) c with Some r' => Some (a :: r') | None => None end
     end).
  rewrite IH. destruct (ts ++ [t]) eqn:E; [destruct ts; discriminate | reflexivity].
Qed.

Lemma add_last_some : forall ts c, ts <> [] -> exists ts', add_last ts c = Some ts' /\ ts' <> [].
Proof.
  intros ts c H. destruct (@exists_last _ ts H) as [l [t E]]. subst ts.
  rewrite add_last_snoc. eexists. split; [reflexivity|]. destruct l; discriminate.
Qed.

Lemma tok_loop_app : forall a b d ts,
  tok_loop (a ++ b) d ts =
  match tok_loop a d ts with
  | Err e => Err e
  | Ok (d', ts') => tok_loop b d' ts'
  end.
Proof.
  induction a as [|c a IH]; intros b d ts; [reflexivity|]. simpl.
  destruct (is_open c).
  - destruct (add_last ts c); [apply IH | reflexivity].
  - destruct (is_close c).
    + destruct d; [reflexivity|]. destruct (add_last ts c); [apply IH | reflexivity].
    + destruct ((c =? c_comma) && Nat.eqb d 0); [apply IH|].
      destruct ts; [apply IH|]. destruct (add_last (s :: ts) c); [apply IH | reflexivity].
Qed.

Lemma tok_loop_nonempty : forall l d ts d' ts',
  tok_loop l d ts = Ok (d', ts') -> (ts <> [] \/ l <> []) -> ts' <> [].
Proof.
  induction l as [|c r IH]; intros d ts d' ts' H Hne.
  - simpl in H. inversion H; subst. destruct Hne as [Hn|Hn]; [exact Hn | congruence].
  - simpl in H. destruct (is_open c).
    + destruct ts as [|t0 ts0]; [discriminate|].
      destruct (add_last_some (t0 :: ts0) c) as [x [E Ex]]; [discriminate|].
      rewrite E in H. eapply IH; [exact H | left; exact Ex].
    + destruct (is_close c).
      * destruct d; [discriminate|]. destruct ts as [|t0 ts0]; [discriminate|].
        destruct (add_last_some (t0 :: ts0) c) as [x [E Ex]]; [discriminate|].
        rewrite E in H. eapply IH; [exact H | left; exact Ex].
      * destruct ((c =? c_comma) && Nat.eqb d 0).
        -- eapply IH; [exact H | left]. destruct ts; discriminate.
        -- destruct ts as [|t0 ts0].
           ++ eapply IH; [exact H | left; discriminate].
           ++ destruct (add_last_some (t0 :: ts0) c) as [x [E Ex]]; [discriminate|].
              rewrite E in H. eapply IH; [exact H | left; exact Ex].
Qed.

Lemma tok_loop_blanks : forall bl d ts t, is_blank bl = true ->
  tok_loop bl d (ts ++ [t]) = Ok (d, ts ++ [t ++ bl]).
Proof.
  induction bl as [|c bl IH]; intros d ts t H.
  - simpl. rewrite app_nil_r. reflexivity.
  - simpl in H. apply andb_true_iff in H. destruct H as [H1 H2].
    destruct (space_not_special c H1) as [A [B [C _]]].
    simpl. rewrite A, B, C. simpl.
    destruct (ts ++ [t]) eqn:E; [destruct ts; discriminate|]. rewrite <- E.
    rewrite add_last_snoc. rewrite IH by exact H2. rewrite <- app_assoc. reflexivity.
Qed.

(* glue t L : t prepended to the first piece of L *)
Definition glue (t : str) (l : list str) : list str :=
  match l with [] => [t] | x :: xs => (t ++ x) :: xs end.

Lemma split_top_nonempty : forall s d, split_top s d <> [].
Proof.
  destruct s as [|c r]; intro d; simpl; [discriminate|].
  destruct (is_open c); [destruct (split_top r (S d)); discriminate|].
  destruct (is_close c); [destruct (split_top r (Nat.pred d)); discriminate|].
  destruct ((c =? c_comma) && Nat.eqb d 0); [discriminate|].
  destruct (split_top r d); discriminate.
Qed.

Lemma glue_cons_hd : forall t c L, glue (t ++ [c]) L = glue t (cons_hd c L).
Proof. intros t c [|x xs]; simpl; rewrite <- ?app_assoc; reflexivity. Qed.

Lemma glue_nil : forall L, L <> [] -> glue [] L = L.
Proof. intros [|x xs] H; [congruence | reflexivity]. Qed.

(* T1: the loop computes the top-level split (as long as no bracket closes below zero) *)
Lemma tok_loop_split : forall l d ts t, no_underflow l d = true ->
  exists d', tok_loop l d (ts ++ [t]) = Ok (d', ts ++ glue t (split_top l d)).
Proof.
  induction l as [|c r IH]; intros d ts t H.
  - exists d. simpl. rewrite app_nil_r. reflexivity.
  - simpl in H |- *. destruct (is_open c) eqn:Eo.
    + rewrite add_last_snoc. destruct (IH (S d) ts (t ++ [c]) H) as [d' E].
      exists d'. rewrite <- glue_cons_hd. exact E.
    + destruct (is_close c) eqn:Ec.
      * destruct d as [|d0]; [discriminate|]. rewrite add_last_snoc.
        destruct (IH d0 ts (t ++ [c]) H) as [d' E]. exists d'.
        rewrite <- glue_cons_hd. exact E.
      * destruct ((c =? c_comma) && Nat.eqb d 0) eqn:Ek.
        -- apply andb_true_iff in Ek. destruct Ek as [_ Ed]. apply Nat.eqb_eq in Ed. subst d.
           destruct (IH 0%nat (ts ++ [t]) [] H) as [d' E]. exists d'.
           rewrite glue_nil in E by apply split_top_nonempty. simpl. rewrite app_nil_r.
           etransitivity; [exact E|]. f_equal. f_equal. rewrite <- app_assoc. reflexivity.
        -- destruct (ts ++ [t]) eqn:E0; [destruct ts; discriminate|]. rewrite <- E0.
           rewrite add_last_snoc. destruct (IH d ts (t ++ [c]) H) as [d' E]. exists d'.
           rewrite <- glue_cons_hd. exact E.
Qed.

Lemma tok_loop_underflow : forall l d ts, no_underflow l d = false ->
  tok_loop l d ts = Err EIndex.
Proof.
  induction l as [|c r IH]; intros d ts H; [discriminate|]. simpl in H |- *.
  destruct (is_open c) eqn:Eo.
  - destruct (add_last ts c); [apply IH; exact H | reflexivity].
  - destruct (is_close c) eqn:Ec.
    + destruct d; [reflexivity|]. destruct (add_last ts c); [apply IH; exact H | reflexivity].
    + destruct ((c =? c_comma) && Nat.eqb d 0); [apply IH; exact H|].
      destruct ts; [apply IH; exact H|].
      destruct (add_last (s :: ts) c); [apply IH; exact H | reflexivity].
Qed.

Lemma impl_tokens_nonempty : forall l, impl_tokens l <> [].
Proof.
  destruct l as [|c r]; unfold impl_tokens; [discriminate|].
  destruct (c =? c_comma); apply split_top_nonempty.
Qed.

(* first-character step of the loop on the empty token list *)
Lemma tok_loop_top : forall c r, is_open c = false -> no_underflow (c :: r) 0 = true ->
  exists d', tok_loop (c :: r) 0 [] = Ok (d', impl_tokens (c :: r)).
Proof.
  intros c r Ho Hu. simpl in Hu. rewrite Ho in Hu.
  destruct (is_close c) eqn:Ec; [discriminate|].
  simpl. rewrite Ho, Ec. destruct (c =? c_comma) eqn:Ek.
  - simpl. destruct (tok_loop_split r 0%nat [] [] Hu) as [d' E]. exists d'.
    simpl in E. rewrite glue_nil in E by apply split_top_nonempty. exact E.
  - simpl. destruct (tok_loop_split r 0%nat [] [c] Hu) as [d' E]. exists d'.
    simpl in E. revert E. destruct (split_top r 0); intro E; exact E.
Qed.

(* the complete description of load_policy_line's parsing, errors included *)
Theorem parse_line_spec : forall l, parse_line l = spec_parse l.
Proof.
  intros [|c r]; [reflexivity|]. unfold parse_line, spec_parse.
  destruct (c =? c_hash); [reflexivity|].
  destruct (is_open c) eqn:Eo.
  - simpl. rewrite Eo. reflexivity.
  - destruct (no_underflow (c :: r) 0) eqn:Eu.
    + destruct (tok_loop_top c r Eo Eu) as [d' E]. rewrite E. simpl negb. cbv iota.
      pose proof (impl_tokens_nonempty (c :: r)) as Hne.
      destruct (impl_tokens (c :: r)) as [|k ks]; [congruence|]. simpl.
      destruct (strip k); reflexivity.
    + rewrite tok_loop_underflow by exact Eu. reflexivity.
Qed.

Lemma parse_err_is_index : forall l e, parse_line l = Err e -> e = EIndex.
Proof.
  intros l e. rewrite parse_line_spec. unfold spec_parse. destruct l as [|c r]; [discriminate|].
  destruct (c =? c_hash); [discriminate|]. destruct (is_open c); [congruence|].
  destruct (negb (no_underflow (c :: r) 0)); [congruence|].
  destruct (strip (hd [] (impl_tokens (c :: r)))); [congruence | discriminate].
Qed.

(* exactly when the loader raises *)
Definition line_raises (l : str) : bool :=
  match l with
  | [] => false
  | c :: _ =>
      negb (c =? c_hash)
      && (is_open c || negb (no_underflow l 0) || is_blank (hd [] (impl_tokens l)))
  end.

Lemma is_blank_strip : forall s, is_blank s = match strip s with [] => true | _ => false end.
Proof.
  intro s. destruct (strip s) eqn:E.
  - apply strip_blank_iff. exact E.
  - destruct (is_blank s) eqn:B; [|reflexivity].
    apply strip_blank_iff in B. congruence.
Qed.

Theorem parse_line_raises_iff : forall l,
  (exists e, parse_line l = Err e) <-> line_raises l = true.
Proof.
  intro l. rewrite parse_line_spec. unfold spec_parse, line_raises.
  destruct l as [|c r]; [split; [intros [e H]; discriminate | discriminate]|].
  remember (c :: r) as l eqn:El.
  destruct (c =? c_hash); cbn [negb andb orb].
  - split; [intros [e H]; discriminate | discriminate].
  - destruct (is_open c); cbn [negb andb orb].
    + split; [reflexivity | eexists; reflexivity].
    + destruct (no_underflow l 0); cbn [negb andb orb].
      * rewrite is_blank_strip. destruct (strip (hd [] (impl_tokens l))).
        -- split; [reflexivity | eexists; reflexivity].
        -- split; [intros [e H]; discriminate | discriminate].
      * split; [reflexivity | eexists; reflexivity].
Qed.

(* ------------------------------------------------------------------ split_top of joined fields *)
Lemma split_top_bal : forall f d rest, bal f d = true ->
  split_top (f ++ rest) d = glue f (split_top rest 0).
Proof.
  induction f as [|c f IH]; intros d rest H.
  - simpl in H. apply Nat.eqb_eq in H. subst d. simpl.
    rewrite glue_nil by apply split_top_nonempty. reflexivity.
  - simpl in H |- *. destruct (is_open c).
    + rewrite IH by exact H. pose proof (split_top_nonempty rest 0) as Hn.
      destruct (split_top rest 0); [congruence | reflexivity].
    + destruct (is_close c).
      * destruct d as [|d0]; [discriminate|]. simpl. rewrite IH by exact H.
        pose proof (split_top_nonempty rest 0) as Hn.
        destruct (split_top rest 0); [congruence | reflexivity].
      * destruct ((c =? c_comma) && Nat.eqb d 0); [discriminate|].
        rewrite IH by exact H. pose proof (split_top_nonempty rest 0) as Hn.
        destruct (split_top rest 0); [congruence | reflexivity].
Qed.

Lemma no_underflow_bal : forall f d rest, bal f d = true ->
  no_underflow (f ++ rest) d = no_underflow rest 0.
Proof.
  induction f as [|c f IH]; intros d rest H.
  - simpl in H. apply Nat.eqb_eq in H. subst d. reflexivity.
  - simpl in H |- *. destruct (is_open c); [apply IH; exact H|].
    destruct (is_close c).
    + destruct d; [discriminate | apply IH; exact H].
    + destruct ((c =? c_comma) && Nat.eqb d 0); [discriminate | apply IH; exact H].
Qed.

Definition comma : str := [c_comma].

Lemma join_cons2 : forall sep (x y : str) r, join sep (x :: y :: r) = x ++ sep ++ join sep (y :: r).
Proof. reflexivity. Qed.

(* T2: a line made of balanced comma-free pieces joined by commas splits back into them *)
Lemma split_top_join : forall ts t, Forall (fun f => bal f 0 = true) (t :: ts) ->
  split_top (join comma (t :: ts)) 0 = t :: ts.
Proof.
  induction ts as [|t' ts IH]; intros t H.
  - simpl. inversion H; subst. rewrite <- (app_nil_r t) at 1.
    rewrite split_top_bal by assumption. simpl. rewrite app_nil_r. reflexivity.
  - rewrite join_cons2. inversion H; subst. rewrite split_top_bal by assumption.
    change (comma ++ join comma (t' :: ts)) with (c_comma :: join comma (t' :: ts)).
    change (split_top (c_comma :: join comma (t' :: ts)) 0) with ([] :: split_top (join comma (t' :: ts)) 0).
    rewrite IH by assumption. simpl. rewrite app_nil_r. reflexivity.
Qed.

Lemma no_underflow_join : forall ts t, Forall (fun f => bal f 0 = true) (t :: ts) ->
  no_underflow (join comma (t :: ts)) 0 = true.
Proof.
  induction ts as [|t' ts IH]; intros t H; inversion H; subst.
  - simpl. rewrite <- (app_nil_r t). rewrite no_underflow_bal by assumption. reflexivity.
  - rewrite join_cons2. rewrite no_underflow_bal by assumption.
    change (comma ++ join comma (t' :: ts)) with (c_comma :: join comma (t' :: ts)).
    change (no_underflow (c_comma :: join comma (t' :: ts)) 0) with (no_underflow (join comma (t' :: ts)) 0).
    apply IH. assumption.
Qed.

Lemma spec_parse_tokens : forall L c rest toks, L = c :: rest ->
  (c =? c_hash) = false -> is_open c = false -> (c =? c_comma) = false ->
  no_underflow L 0 = true -> split_top L 0 = toks ->
  spec_parse L = match strip (hd [] toks) with
                 | [] => Err EIndex
                 | key => Ok (Some (key, map strip (tl toks)))
                 end.
Proof.
  intros L c rest toks EL Hh Ho Hk Hu Hs. subst L. unfold spec_parse.
  rewrite Hh, Ho, Hu. cbn [negb]. cbv iota. unfold impl_tokens. rewrite Hk, Hs. reflexivity.
Qed.

(* the declarative reading of the line grammar: any comma-joined balanced pieces whose first piece
   is not blank and starts with neither '#' nor a bracket load as those pieces, trimmed *)
Theorem parse_joined : forall t ts, Forall (fun f => bal f 0 = true) (t :: ts) ->
  is_blank t = false ->
  match t with c :: _ => (c =? c_hash) = false /\ is_open c = false | [] => False end ->
  parse_line (join comma (t :: ts)) = Ok (Some (strip t, map strip ts)).
Proof.
  intros t ts Hb Hnb Hc. rewrite parse_line_spec.
  destruct t as [|c t0]; [contradiction|]. destruct Hc as [Hh Ho].
  assert (Hk : (c =? c_comma) = false).
  { inversion Hb as [|x y Hb1 Hb2]; subst. simpl in Hb1. rewrite Ho in Hb1.
    destruct (is_close c); [discriminate|]. destruct (c =? c_comma); [discriminate | reflexivity]. }
  pose proof (no_underflow_join ts (c :: t0) Hb) as Hu.
  pose proof (split_top_join ts (c :: t0) Hb) as Hs.
  assert (Ej : exists rest, join comma ((c :: t0) :: ts) = c :: rest).
  { destruct ts; simpl; eexists; reflexivity. }
  destruct Ej as [rest Ej].
  pose proof (spec_parse_tokens _ c rest _ Ej Hh Ho Hk Hu Hs) as X.
  etransitivity; [exact X|]. cbn [hd tl].
  pose proof (strip_notblank (c :: t0) Hnb) as Hne.
  destruct (strip (c :: t0)); [congruence | reflexivity].
Qed.

(* ------------------------------------------------------------------ line round trip *)
Lemma sep_join_cs : forall f fs,
  sep_cs ++ join sep_cs (f :: fs) = c_comma :: join comma (map (cons c_space) (f :: fs)).
Proof.
  intros f fs. revert f. induction fs as [|f' fs IH]; intro f; [reflexivity|].
  rewrite join_cons2. rewrite IH. simpl map. rewrite join_cons2. simpl. reflexivity.
Qed.

Lemma render_as_join : forall key f fs,
  render_line key (f :: fs) = join comma (key :: map (cons c_space) (f :: fs)).
Proof.
  intros. unfold render_line. rewrite sep_join_cs. simpl map. rewrite join_cons2. reflexivity.
Qed.

Lemma wf_field_parts : forall f, wf_field f = true ->
  bal f 0 = true /\ has_nl f = false /\ no_blank_edges f = true.
Proof.
  intros f H. unfold wf_field in H. apply andb_true_iff in H. destruct H as [H H3].
  apply andb_true_iff in H. destruct H as [H1 H2]. apply negb_true_iff in H2. auto.
Qed.

Lemma bal_space : forall f, bal f 0 = true -> bal (c_space :: f) 0 = true.
Proof. intros f H. exact H. Qed.

Lemma strip_space_field : forall f, wf_field f = true -> strip (c_space :: f) = f.
Proof.
  intros f H. destruct (wf_field_parts f H) as [_ [_ H3]].
  change (c_space :: f) with ([c_space] ++ f). rewrite <- (app_nil_r f) at 1.
  apply strip_pad; [reflexivity | reflexivity | exact H3].
Qed.

Lemma wf_key_parts : forall k, wf_key k = true ->
  wf_field k = true /\ exists c r, k = c :: r /\ (c =? c_hash) = false /\ is_open c = false
                                   /\ is_space c = false.
Proof.
  intros k H. unfold wf_key in H. apply andb_true_iff in H. destruct H as [H1 H2].
  split; [exact H1|]. destruct k as [|c r]; [discriminate|].
  apply andb_true_iff in H2. destruct H2 as [A B].
  apply negb_true_iff in A. apply negb_true_iff in B.
  exists c, r. repeat split; try assumption.
  destruct (wf_field_parts _ H1) as [_ [_ H3]]. simpl in H3.
  apply andb_true_iff in H3. destruct H3 as [H3 _]. apply negb_true_iff in H3. exact H3.
Qed.

Lemma not_blank_head : forall c r, is_space c = false -> is_blank (c :: r) = false.
Proof. intros c r H. simpl. rewrite H. reflexivity. Qed.

(* StringAdapter: the rendered line is parsed as is *)
Theorem line_roundtrip_raw : forall key fs, wf_key key = true -> fs <> [] ->
  Forall (fun f => wf_field f = true) fs ->
  parse_line (render_line key fs) = Ok (Some (key, fs)).
Proof.
  intros key fs Hk Hne Hf. destruct fs as [|f fs]; [congruence|].
  destruct (wf_key_parts key Hk) as [Hkf [c [r [Ek [Hh [Ho Hs]]]]]].
  destruct (wf_field_parts key Hkf) as [Hkb [_ Hke]].
  rewrite render_as_join. rewrite parse_joined.
  - rewrite strip_no_blank_edges by exact Hke. f_equal. f_equal. f_equal.
    rewrite map_map. rewrite <- (map_id (f :: fs)) at 2. apply map_ext_in.
    intros x Hx. apply strip_space_field. rewrite Forall_forall in Hf. apply Hf. exact Hx.
  - constructor; [exact Hkb|]. rewrite Forall_forall. intros x Hx. apply in_map_iff in Hx.
    destruct Hx as [y [Ey Hy]]. subst x. apply bal_space.
    rewrite Forall_forall in Hf. exact (proj1 (wf_field_parts y (Hf y Hy))).
  - subst key. apply not_blank_head. exact Hs.
  - subst key. split; assumption.
Qed.

(* trailing blanks never matter to the loader (the last token is trimmed anyway) *)
Theorem parse_line_trailing_blanks : forall l bl, l <> [] -> is_blank bl = true ->
  parse_line (l ++ bl) = parse_line l.
Proof.
  intros l bl Hne Hb. destruct l as [|c r]; [congruence|]. unfold parse_line.
  cbn [app]. destruct (c =? c_hash); [reflexivity|].
  change (c :: (r ++ bl)) with ((c :: r) ++ bl). rewrite tok_loop_app.
  destruct (tok_loop (c :: r) 0 []) as [[d ts]|e] eqn:E; [|reflexivity].
  pose proof (tok_loop_nonempty _ _ _ _ _ E (or_intror Hne)) as Hts.
  destruct (@exists_last _ ts Hts) as [ts0 [t Et]]. subst ts.
  rewrite tok_loop_blanks by exact Hb. rewrite !map_app. simpl map.
  rewrite strip_app_blank by exact Hb. reflexivity.
Qed.

(* FileAdapter: line.strip() first. For a line whose first character is not blank the loader
   does not see the difference. *)
Theorem parse_line_strip : forall c r, is_space c = false ->
  parse_line (strip (c :: r)) = parse_line (c :: r).
Proof.
  intros c r H. destruct (strip_head_nonblank c r H) as [bl [H1 [H2 H3]]].
  rewrite H2 at 2. symmetry. apply parse_line_trailing_blanks; [|exact H1].
  rewrite H3. discriminate.
Qed.

Theorem line_roundtrip : forall key fs, wf_key key = true -> fs <> [] ->
  Forall (fun f => wf_field f = true) fs ->
  parse_line (strip (render_line key fs)) = Ok (Some (key, fs)).
Proof.
  intros key fs Hk Hne Hf.
  destruct (wf_key_parts key Hk) as [_ [c [r [Ek [_ [_ Hs]]]]]].
  rewrite <- (line_roundtrip_raw key fs Hk Hne Hf).
  unfold render_line. subst key. change ((c :: r) ++ sep_cs ++ join sep_cs fs) with (c :: (r ++ sep_cs ++ join sep_cs fs)).
  apply parse_line_strip. exact Hs.
Qed.

(* ------------------------------------------------------------------ model level *)
Definition set_pol (a : ast) (p : list (list str)) : ast :=
  {| a_sec := a_sec a; a_key := a_key a; a_pol := p |}.

Definition entry_rules (e : option (str * list str)) (a : ast) : list (list str) :=
  match e with
  | Some (key, fs) => if names key a then [fs] else []
  | None => []
  end.
Definition rules_for (es : list (option (str * list str))) (a : ast) : list (list str) :=
  flat_map (fun e => entry_rules e a) es.
Definition attach (es : list (option (str * list str))) (m : model) : model :=
  map (fun a => set_pol a (a_pol a ++ rules_for es a)) m.

Lemma set_pol_same : forall a, set_pol a (a_pol a) = a.
Proof. destruct a; reflexivity. Qed.

Lemma ast_is_id : forall sec key a, ast_is sec key a = true <-> ast_id a = (sec, key).
Proof.
  intros sec key a. unfold ast_is, ast_id. split.
  - intro H. apply andb_true_iff in H. destruct H as [H1 H2]. apply N.eqb_eq in H1.
    apply list_eqb_N_eq in H2. congruence.
  - intro H. inversion H; subst. rewrite N.eqb_refl. simpl. apply list_eqb_N_eq. reflexivity.
Qed.

Lemma NoDup_map_inj_in : forall {A B} (f : A -> B) l x y,
  NoDup (map f l) -> In x l -> In y l -> f x = f y -> x = y.
Proof.
  intros A B f. induction l as [|a l IH]; intros x y Hnd Hx Hy E; [contradiction|].
  simpl in Hnd. inversion Hnd as [|? ? Hni Hnd']; subst.
  destruct Hx as [Hx|Hx]; destruct Hy as [Hy|Hy]; subst.
  - reflexivity.
  - exfalso. apply Hni. rewrite E. apply in_map. exact Hy.
  - exfalso. apply Hni. rewrite <- E. apply in_map. exact Hx.
  - apply IH; assumption.
Qed.

Lemma append_rule_map : forall m sec key fs, NoDup (map ast_id m) ->
  append_rule m sec key fs = map (fun a => if ast_is sec key a then add_rule a fs else a) m.
Proof.
  induction m as [|a r IH]; intros sec key fs Hnd; [reflexivity|].
  simpl in Hnd. inversion Hnd as [|? ? Hni Hnd']; subst. simpl.
  destruct (ast_is sec key a) eqn:E.
  - f_equal. transitivity (map (fun x : ast => x) r); [symmetry; apply map_id|].
    apply map_ext_in. intros x Hx. destruct (ast_is sec key x) eqn:Ex; [|reflexivity].
    exfalso. apply Hni. apply ast_is_id in E. apply ast_is_id in Ex. rewrite E, <- Ex.
    apply in_map. exact Hx.
  - f_equal. apply IH. exact Hnd'.
Qed.

Lemma attach_ids : forall es m, map ast_id (attach es m) = map ast_id m.
Proof. intros. unfold attach. rewrite map_map. apply map_ext. reflexivity. Qed.

Lemma rules_for_set_pol : forall es a p, rules_for es (set_pol a p) = rules_for es a.
Proof. reflexivity. Qed.

Lemma attach_attach : forall es1 es2 m, attach es2 (attach es1 m) = attach (es1 ++ es2) m.
Proof.
  intros. unfold attach. rewrite map_map. apply map_ext. intro a.
  rewrite rules_for_set_pol. unfold set_pol. simpl. f_equal.
  unfold rules_for. rewrite flat_map_app. rewrite app_assoc. reflexivity.
Qed.

Lemma attach_nil : forall m, attach [] m = m.
Proof.
  intro m. unfold attach. transitivity (map (fun x : ast => x) m); [|apply map_id].
  apply map_ext. intro a. simpl. rewrite app_nil_r. apply set_pol_same.
Qed.

Lemma load_line_attach1 : forall l e m, NoDup (map ast_id m) -> parse_line l = Ok e ->
  load_policy_line l m = Ok (attach [e] m).
Proof.
  intros l e m Hnd H. unfold load_policy_line. rewrite H. destruct e as [[key fs]|].
  - f_equal. rewrite append_rule_map by exact Hnd. unfold attach. apply map_ext. intro a.
    unfold rules_for. simpl. unfold names. destruct (ast_is (hd 0 key) key a).
    + rewrite app_nil_r. reflexivity.
    + simpl. rewrite app_nil_r. symmetry. apply set_pol_same.
  - f_equal. unfold attach. transitivity (map (fun x : ast => x) m); [symmetry; apply map_id|].
    apply map_ext. intro a. simpl. rewrite app_nil_r. symmetry. apply set_pol_same.
Qed.

Lemma load_lines_attach : forall ls es m, NoDup (map ast_id m) ->
  Forall2 (fun l e => parse_line l = Ok e) ls es ->
  load_lines ls m = Ok (attach es m).
Proof.
  intros ls es m Hnd H. revert m Hnd. induction H as [|l e ls es Hle H IH]; intros m Hnd.
  - simpl. rewrite attach_nil. reflexivity.
  - simpl. rewrite (load_line_attach1 l e m Hnd Hle). rewrite IH.
    + rewrite attach_attach. reflexivity.
    + rewrite attach_ids. exact Hnd.
Qed.

(* ---- the grammar theorem ---- *)
Definition spec_entry (l : str) : option (str * list str) :=
  if nonempty l && negb (is_comment l) then
    match spec_fields l with
    | key :: fs => Some (key, fs)
    | [] => None
    end
  else None.

Lemma comma_not_bracket : is_open c_comma = false /\ is_close c_comma = false.
Proof. split; reflexivity. Qed.

Lemma parse_line_ok : forall l, line_ok l = true -> parse_line l = Ok (spec_entry l).
Proof.
  intros l H. rewrite parse_line_spec. destruct l as [|c r]; [reflexivity|].
  unfold line_ok in H. unfold spec_entry, is_comment, nonempty. cbn [andb].
  destruct (c =? c_hash) eqn:Eh.
  - unfold spec_parse. rewrite Eh. reflexivity.
  - cbn [orb negb] in H |- *. apply andb_true_iff in H. destruct H as [H H3].
    apply andb_true_iff in H. destruct H as [H1 H2]. apply negb_true_iff in H1.
    apply negb_true_iff in H3.
    assert (Hk : (c =? c_comma) = false).
    { destruct (N.eqb_spec c c_comma) as [E|E]; [|reflexivity]. subst c.
      simpl in H3. discriminate. }
    rewrite (spec_parse_tokens (c :: r) c r (split_top (c :: r) 0) eq_refl Eh H1 Hk H2 eq_refl).
    unfold spec_fields. pose proof (split_top_nonempty (c :: r) 0) as Hn.
    destruct (split_top (c :: r) 0) as [|k ks]; [congruence|]. cbn [hd tl map] in *.
    pose proof (strip_notblank k H3) as Hs. destruct (strip k); [congruence | reflexivity].
Qed.

Lemma rules_for_spec : forall ls a, rules_for (map spec_entry ls) a = spec_rules ls a.
Proof.
  induction ls as [|l ls IH]; intro a; [reflexivity|].
  unfold rules_for, spec_rules in *. simpl. rewrite IH. f_equal.
  unfold spec_entry. destruct (nonempty l && negb (is_comment l)); [|reflexivity].
  destruct (spec_fields l); reflexivity.
Qed.

Theorem load_lines_grammar : forall ls m, NoDup (map ast_id m) ->
  forallb line_ok ls = true -> load_lines ls m = Ok (spec_load ls m).
Proof.
  intros ls m Hnd H. rewrite (load_lines_attach ls (map spec_entry ls) m Hnd).
  - f_equal. unfold attach, spec_load. apply map_ext. intro a. rewrite rules_for_spec. reflexivity.
  - rewrite forallb_forall in H. induction ls as [|l ls IH]; constructor.
    + apply parse_line_ok. apply H. left. reflexivity.
    + apply IH. intros x Hx. apply H. right. exact Hx.
Qed.

Theorem load_lines_raises : forall ls m l, In l ls -> line_raises l = true ->
  load_lines ls m = Err EIndex.
Proof.
  induction ls as [|x ls IH]; intros m l Hin Hr; [contradiction|]. simpl.
  unfold load_policy_line. destruct (parse_line x) as [[[key fs]|]|e] eqn:E.
  - destruct Hin as [Hin|Hin].
    + subst x. apply parse_line_raises_iff in Hr. destruct Hr as [e He]. congruence.
    + eapply IH; eassumption.
  - destruct Hin as [Hin|Hin].
    + subst x. apply parse_line_raises_iff in Hr. destruct Hr as [e He]. congruence.
    + eapply IH; eassumption.
  - apply parse_err_is_index in E. subst e. reflexivity.
Qed.

(* ---- lines of a text ---- *)
Lemma has_nl_app : forall a b, has_nl (a ++ b) = has_nl a || has_nl b.
Proof. intros. apply existsb_app. Qed.

Lemma readlines_app_nl : forall l rest, has_nl l = false ->
  readlines (l ++ c_nl :: rest) = (l ++ [c_nl]) :: readlines rest.
Proof.
  induction l as [|c l IH]; intros rest H; [reflexivity|].
  simpl in H. apply orb_false_iff in H. destruct H as [H1 H2].
  change ((c :: l) ++ c_nl :: rest) with (c :: (l ++ c_nl :: rest)).
  cbn [readlines]. rewrite H1. rewrite IH by exact H2. reflexivity.
Qed.

Lemma readlines_nonl : forall l, has_nl l = false -> l <> [] -> readlines l = [l].
Proof.
  induction l as [|c l IH]; intros H Hne; [congruence|].
  simpl in H. apply orb_false_iff in H. destruct H as [H1 H2].
  cbn [readlines]. rewrite H1. destruct l as [|c' l']; [reflexivity|].
  rewrite IH by (assumption || discriminate). reflexivity.
Qed.

Definition plain_line (l : str) : Prop := has_nl l = false /\ l <> [].

Lemma strip_readlines_join : forall ls, Forall plain_line ls ->
  map strip (readlines (join [c_nl] ls)) = map strip ls.
Proof.
  induction ls as [|l ls IH]; intro H; [reflexivity|].
  inversion H as [|? ? [Hl1 Hl2] Hls]; subst. destruct ls as [|l' ls'].
  - simpl. rewrite readlines_nonl by assumption. reflexivity.
  - rewrite join_cons2. change ([c_nl] ++ join [c_nl] (l' :: ls')) with (c_nl :: join [c_nl] (l' :: ls')).
    rewrite readlines_app_nl by exact Hl1. cbn [map]. rewrite IH by exact Hls.
    rewrite strip_app_blank by reflexivity. reflexivity.
Qed.

Lemma split_on_app_nl : forall l rest, has_nl l = false ->
  split_on c_nl (l ++ c_nl :: rest) = l :: split_on c_nl rest.
Proof.
  induction l as [|c l IH]; intros rest H; [reflexivity|].
  simpl in H. apply orb_false_iff in H. destruct H as [H1 H2].
  change ((c :: l) ++ c_nl :: rest) with (c :: (l ++ c_nl :: rest)).
  cbn [split_on]. rewrite H1. rewrite IH by exact H2. reflexivity.
Qed.

Lemma split_on_nonl : forall l, has_nl l = false -> split_on c_nl l = [l].
Proof.
  induction l as [|c l IH]; intro H; [reflexivity|].
  simpl in H. apply orb_false_iff in H. destruct H as [H1 H2].
  cbn [split_on]. rewrite H1. rewrite IH by exact H2. reflexivity.
Qed.

Lemma split_on_join : forall ls, ls <> [] -> Forall plain_line ls ->
  split_on c_nl (join [c_nl] ls) = ls.
Proof.
  induction ls as [|l ls IH]; intros Hne H; [congruence|].
  inversion H as [|? ? [Hl1 Hl2] Hls]; subst. destruct ls as [|l' ls'].
  - simpl. apply split_on_nonl. exact Hl1.
  - rewrite join_cons2. change ([c_nl] ++ join [c_nl] (l' :: ls')) with (c_nl :: join [c_nl] (l' :: ls')).
    rewrite split_on_app_nl by exact Hl1. rewrite IH by (assumption || discriminate). reflexivity.
Qed.

Lemma join_last_char : forall ls, ls <> [] -> Forall plain_line ls ->
  exists X c, join [c_nl] ls = X ++ [c] /\ (c =? c_nl) = false.
Proof.
  induction ls as [|l ls IH]; intros Hne H; [congruence|].
  inversion H as [|? ? [Hl1 Hl2] Hls]; subst. destruct ls as [|l' ls'].
  - simpl. destruct (@exists_last _ l Hl2) as [X [c E]]. exists X, c. split; [exact E|].
    subst l. rewrite has_nl_app in Hl1. apply orb_false_iff in Hl1. destruct Hl1 as [_ Hl1].
    simpl in Hl1. rewrite orb_false_r in Hl1. exact Hl1.
  - destruct (IH ltac:(discriminate) Hls) as [X [c [E Hc]]]. rewrite join_cons2. rewrite E.
    exists (l ++ [c_nl] ++ X), c. split; [rewrite <- !app_assoc; reflexivity | exact Hc].
Qed.

Lemma concat_nl_join : forall ls, ls <> [] ->
  concat (map (fun l => l ++ [c_nl]) ls) = join [c_nl] ls ++ [c_nl].
Proof.
  induction ls as [|l ls IH]; intro Hne; [congruence|]. destruct ls as [|l' ls'].
  - simpl. rewrite app_nil_r. reflexivity.
  - rewrite join_cons2. cbn [map concat]. cbn [map concat] in IH. rewrite IH by discriminate.
    rewrite <- !app_assoc. reflexivity.
Qed.

Lemma save_string_join : forall ls, ls <> [] -> Forall plain_line ls ->
  rstrip_nl (concat (map (fun l => l ++ [c_nl]) ls)) = join [c_nl] ls.
Proof.
  intros ls Hne H. rewrite concat_nl_join by exact Hne.
  destruct (join_last_char ls Hne H) as [X [c [E Hc]]]. rewrite E.
  unfold rstrip_nl. rewrite !rev_app_distr. simpl. rewrite Hc. simpl.
  rewrite rev_involutive. reflexivity.
Qed.

(* ---- entries of a policy ---- *)
Definition sec_entries (sec : N) (m : model) : list (str * list str) :=
  flat_map (fun a => if a_sec a =? sec then map (pair (a_key a)) (a_pol a) else []) m.
Definition entries (m : model) : list (str * list str) := sec_entries c_p m ++ sec_entries c_g m.
Definition render_entry (e : str * list str) : str := render_line (fst e) (snd e).

Lemma sec_lines_entries : forall sec m, sec_lines sec m = map render_entry (sec_entries sec m).
Proof.
  intros sec. induction m as [|a m IH]; [reflexivity|].
  unfold sec_lines, sec_entries in *. simpl. rewrite map_app. rewrite IH. f_equal.
  destruct (a_sec a =? sec); [|reflexivity]. rewrite map_map. reflexivity.
Qed.

Lemma save_lines_entries : forall m, save_lines m = map render_entry (entries m).
Proof. intro m. unfold save_lines, entries. rewrite map_app, !sec_lines_entries. reflexivity. Qed.

Lemma is_pg_p : is_pg c_p = true. Proof. reflexivity. Qed.
Lemma is_pg_g : is_pg c_g = true. Proof. reflexivity. Qed.

Lemma sec_entries_wf : forall sec m, is_pg sec = true -> Forall wf_ast m ->
  forall e, In e (sec_entries sec m) -> wf_key (fst e) = true /\ wf_rule (snd e).
Proof.
  intros sec m Hs Hm e He. unfold sec_entries in He. apply in_flat_map in He.
  destruct He as [a [Ha He]]. destruct (a_sec a =? sec) eqn:E; [|contradiction].
  apply N.eqb_eq in E. apply in_map_iff in He. destruct He as [r [Er Hr]]. subst e. simpl.
  rewrite Forall_forall in Hm. destruct (Hm a Ha) as [W1 [W2 W3]]; [rewrite E; exact Hs|].
  split; [exact W1|]. rewrite Forall_forall in W3. apply W3. exact Hr.
Qed.

Lemma entries_wf : forall m, Forall wf_ast m ->
  forall e, In e (entries m) -> wf_key (fst e) = true /\ wf_rule (snd e).
Proof.
  intros m Hm e He. unfold entries in He. apply in_app_or in He.
  destruct He as [He|He]; eapply sec_entries_wf; try eassumption; reflexivity.
Qed.

Lemma has_nl_join_cs : forall fs, Forall (fun f => wf_field f = true) fs ->
  has_nl (join sep_cs fs) = false.
Proof.
  induction fs as [|f fs IH]; intro H; [reflexivity|]. inversion H; subst.
  destruct fs as [|f' fs'].
  - simpl. exact (proj1 (proj2 (wf_field_parts f H2))).
  - rewrite join_cons2. rewrite !has_nl_app. rewrite IH by assumption.
    rewrite (proj1 (proj2 (wf_field_parts f H2))). reflexivity.
Qed.

Lemma render_plain : forall key fs, wf_key key = true -> Forall (fun f => wf_field f = true) fs ->
  plain_line (render_line key fs).
Proof.
  intros key fs Hk Hf. destruct (wf_key_parts key Hk) as [Hkf [c [r [Ek _]]]].
  split.
  - unfold render_line. rewrite !has_nl_app. rewrite has_nl_join_cs by exact Hf.
    rewrite (proj1 (proj2 (wf_field_parts key Hkf))). reflexivity.
  - subst key. discriminate.
Qed.

Lemma save_lines_plain : forall m, Forall wf_ast m -> Forall plain_line (save_lines m).
Proof.
  intros m Hm. rewrite save_lines_entries. rewrite Forall_forall. intros l Hl.
  apply in_map_iff in Hl. destruct Hl as [e [El He]]. subst l.
  destruct (entries_wf m Hm e He) as [W1 [W2 W3]]. apply render_plain; assumption.
Qed.

Lemma Forall2_map_both : forall {A B C} (R : B -> C -> Prop) (f : A -> B) (g : A -> C) l,
  (forall x, In x l -> R (f x) (g x)) -> Forall2 R (map f l) (map g l).
Proof.
  intros A B C R f g. induction l as [|x l IH]; intro H; simpl; constructor.
  - apply H. left. reflexivity.
  - apply IH. intros y Hy. apply H. right. exact Hy.
Qed.

(* ---- which rules the saved lines give back to each assertion ---- *)
Lemma rf_pairs : forall k pol a,
  rules_for (map Some (map (pair k) pol)) a = if names k a then pol else [].
Proof.
  intros k pol a. unfold rules_for. induction pol as [|r pol IH]; simpl.
  - destruct (names k a); reflexivity.
  - rewrite IH. destruct (names k a); reflexivity.
Qed.

Lemma rf_sec : forall s m a,
  rules_for (map Some (sec_entries s m)) a =
  flat_map (fun a' => if (a_sec a' =? s) && names (a_key a') a then a_pol a' else []) m.
Proof.
  intros s m a. induction m as [|a' m IH]; [reflexivity|].
  unfold sec_entries in *. cbn [flat_map]. rewrite map_app. unfold rules_for in *.
  rewrite flat_map_app. rewrite IH. f_equal.
  destruct (a_sec a' =? s); [|reflexivity]. cbn [andb]. apply rf_pairs.
Qed.

Lemma flat_map_none : forall {A B} (P : A -> bool) (g : A -> list B) l,
  (forall x, In x l -> P x = false) -> flat_map (fun x => if P x then g x else []) l = [].
Proof.
  intros A B P g. induction l as [|x l IH]; intro H; [reflexivity|]. simpl.
  rewrite (H x (or_introl eq_refl)). simpl. apply IH. intros y Hy. apply H. right. exact Hy.
Qed.

Lemma flat_map_unique : forall {A B} (P : A -> bool) (g : A -> list B) l a,
  NoDup l -> In a l -> P a = true -> (forall x, In x l -> P x = true -> x = a) ->
  flat_map (fun x => if P x then g x else []) l = g a.
Proof.
  intros A B P g. induction l as [|x l IH]; intros a Hnd Hin Hp Hu; [contradiction|].
  inversion Hnd as [|? ? Hni Hnd']; subst. simpl. destruct Hin as [Hin|Hin].
  - subst x. rewrite Hp. rewrite flat_map_none; [apply app_nil_r|].
    intros y Hy. destruct (P y) eqn:Ey; [|reflexivity]. exfalso. apply Hni.
    rewrite <- (Hu y (or_intror Hy) Ey). exact Hy.
  - destruct (P x) eqn:Ex.
    + exfalso. apply Hni. rewrite (Hu x (or_introl eq_refl) Ex). exact Hin.
    + simpl. apply IH; try assumption. intros y Hy Ey. apply Hu; [right; exact Hy | exact Ey].
Qed.

Lemma NoDup_of_map : forall {A B} (f : A -> B) l, NoDup (map f l) -> NoDup l.
Proof.
  intros A B f. induction l as [|x l IH]; intro H; constructor; inversion H; subst.
  - intro Hin. apply H2. apply in_map. exact Hin.
  - apply IH. assumption.
Qed.

Lemma rf_sec_wf : forall s m a, is_pg s = true -> wf_model m -> In a m ->
  rules_for (map Some (sec_entries s m)) a = if a_sec a =? s then a_pol a else [].
Proof.
  intros s m a Hs [Hnd Hwf] Ha. rewrite rf_sec.
  assert (Hu : forall x, In x m -> (a_sec x =? s) && names (a_key x) a = true -> x = a).
  { intros x Hx Hq. apply andb_true_iff in Hq. destruct Hq as [Q1 Q2].
    apply N.eqb_eq in Q1. unfold names in Q2. apply ast_is_id in Q2.
    rewrite Forall_forall in Hwf. destruct (Hwf x Hx) as [_ [W2 _]]; [rewrite Q1; exact Hs|].
    apply (NoDup_map_inj_in ast_id m x a Hnd Hx Ha). rewrite Q2. unfold ast_id. rewrite W2.
    reflexivity. }
  destruct (a_sec a =? s) eqn:E.
  - apply (flat_map_unique (fun x => (a_sec x =? s) && names (a_key x) a) a_pol m a).
    + eapply NoDup_of_map. exact Hnd.
    + exact Ha.
    + rewrite E. cbn [andb]. unfold names. apply ast_is_id. unfold ast_id.
      apply N.eqb_eq in E. rewrite Forall_forall in Hwf.
      destruct (Hwf a Ha) as [_ [W2 _]]; [rewrite E; exact Hs|]. rewrite W2. reflexivity.
    + exact Hu.
  - apply flat_map_none. intros x Hx.
    destruct ((a_sec x =? s) && names (a_key x) a) eqn:Q; [|reflexivity].
    pose proof (Hu x Hx Q) as Ex. subst x. apply andb_true_iff in Q. destruct Q as [Q _]. congruence.
Qed.

Lemma attach_entries_clear : forall m, wf_model m ->
  attach (map Some (entries m)) (clear_policy m) = m.
Proof.
  intros m Hwf. unfold attach, clear_policy. rewrite map_map.
  transitivity (map (fun x : ast => x) m); [|apply map_id]. apply map_ext_in. intros a Ha.
  assert (R : forall a', a_sec a' = a_sec a -> a_key a' = a_key a ->
              rules_for (map Some (entries m)) a' = rules_for (map Some (entries m)) a).
  { intros a' E1 E2. unfold rules_for. apply flat_map_ext. intros [[k f]|]; [|reflexivity].
    unfold entry_rules, names, ast_is. rewrite E1, E2. reflexivity. }
  assert (V : rules_for (map Some (entries m)) a = if is_pg (a_sec a) then a_pol a else []).
  { unfold entries. rewrite map_app. unfold rules_for. rewrite flat_map_app.
    fold (rules_for (map Some (sec_entries c_p m)) a). fold (rules_for (map Some (sec_entries c_g m)) a).
    rewrite (rf_sec_wf c_p m a is_pg_p Hwf Ha), (rf_sec_wf c_g m a is_pg_g Hwf Ha).
    unfold is_pg. destruct (a_sec a =? c_p) eqn:Ep.
    - apply N.eqb_eq in Ep. rewrite Ep. simpl. apply app_nil_r.
    - simpl. destruct (a_sec a =? c_g); reflexivity. }
  destruct (is_pg (a_sec a)) eqn:Epg.
  - rewrite R by reflexivity. rewrite V. simpl. destruct a; reflexivity.
  - rewrite V. rewrite app_nil_r. apply set_pol_same.
Qed.

Lemma clear_ids : forall m, map ast_id (clear_policy m) = map ast_id m.
Proof.
  intro m. unfold clear_policy. rewrite map_map. apply map_ext. intro a.
  destruct (is_pg (a_sec a)); reflexivity.
Qed.

Lemma filter_all_true : forall {A} (f : A -> bool) l,
  (forall x, In x l -> f x = true) -> filter f l = l.
Proof.
  intros A f. induction l as [|x l IH]; intro H; [reflexivity|]. simpl.
  rewrite (H x (or_introl eq_refl)). f_equal. apply IH. intros y Hy. apply H. right. exact Hy.
Qed.

(* ---- whole-policy round trips ---- *)
Theorem file_roundtrip : forall m, wf_model m -> roundtrip_file m = Ok m.
Proof.
  intros m Hwf. pose proof Hwf as [Hnd Hm]. unfold roundtrip_file, load_file, save_file.
  unfold file_lines. rewrite strip_readlines_join by (apply save_lines_plain; exact Hm).
  rewrite save_lines_entries. rewrite map_map.
  rewrite (load_lines_attach _ (map Some (entries m))).
  - rewrite attach_entries_clear by exact Hwf. reflexivity.
  - rewrite clear_ids. exact Hnd.
  - apply Forall2_map_both. intros e He. destruct (entries_wf m Hm e He) as [W1 [W2 W3]].
    destruct e as [k fs]. unfold render_entry. apply line_roundtrip; assumption.
Qed.

Theorem string_roundtrip : forall m, wf_model m -> save_lines m <> [] -> roundtrip_string m = Ok m.
Proof.
  intros m Hwf Hne. pose proof Hwf as [Hnd Hm]. unfold roundtrip_string, load_string, save_string.
  pose proof (save_lines_plain m Hm) as Hpl.
  rewrite save_string_join by assumption.
  destruct (join [c_nl] (save_lines m)) eqn:Ej.
  - exfalso. destruct (join_last_char _ Hne Hpl) as [X [c [E _]]]. rewrite Ej in E.
    destruct X; discriminate.
  - rewrite <- Ej. unfold string_lines. rewrite split_on_join by assumption.
    assert (Hf : filter nonempty (save_lines m) = save_lines m).
    { apply filter_all_true. intros x Hx.
      rewrite Forall_forall in Hpl. destruct (Hpl x Hx) as [_ Hx2]. destruct x; [congruence | reflexivity]. }
    rewrite Hf. rewrite save_lines_entries.
    rewrite (load_lines_attach _ (map Some (entries m))).
    + rewrite attach_entries_clear by exact Hwf. reflexivity.
    + rewrite clear_ids. exact Hnd.
    + apply Forall2_map_both. intros e He. destruct (entries_wf m Hm e He) as [W1 [W2 W3]].
      destruct e as [k fs]. unfold render_entry. apply line_roundtrip_raw; assumption.
Qed.

(* F12: a policy without any rule is saved as "" by the string adapter, which it refuses to load *)
Theorem string_roundtrip_empty : forall m, save_lines m = [] -> roundtrip_string m = Err ERuntime.
Proof. intros m H. unfold roundtrip_string, save_string. rewrite H. reflexivity. Qed.

(* ---- whole-text loading ---- *)
Theorem load_file_grammar : forall text m, NoDup (map ast_id m) ->
  forallb line_ok (file_lines text) = true ->
  load_file text m = Ok (spec_load (file_lines text) m).
Proof. intros. unfold load_file. apply load_lines_grammar; assumption. Qed.

Theorem load_string_grammar : forall text m, NoDup (map ast_id m) -> text <> [] ->
  forallb line_ok (string_lines text) = true ->
  load_string text m = Ok (spec_load (string_lines text) m).
Proof.
  intros text m Hnd Hne H. unfold load_string. destruct text; [congruence|].
  apply load_lines_grammar; assumption.
Qed.

Theorem load_file_raises : forall text m l, In l (file_lines text) -> line_raises l = true ->
  load_file text m = Err EIndex.
Proof. intros. unfold load_file. eapply load_lines_raises; eassumption. Qed.

Theorem load_string_raises : forall text m l, In l (string_lines text) -> line_raises l = true ->
  load_string text m = Err EIndex.
Proof.
  intros text m l Hin Hr. unfold load_string. destruct text; [contradiction|].
  eapply load_lines_raises; eassumption.
Qed.

(* ---- boolean well-formedness is sound ---- *)
Lemma id_eqb_eq : forall x y, id_eqb x y = true -> x = y.
Proof.
  intros [a b] [c d] H. unfold id_eqb in H. simpl in H. apply andb_true_iff in H.
  destruct H as [H1 H2]. apply N.eqb_eq in H1. apply list_eqb_N_eq in H2. congruence.
Qed.

Lemma id_eqb_refl : forall x, id_eqb x x = true.
Proof.
  intros [a b]. unfold id_eqb. simpl. rewrite N.eqb_refl. simpl. apply list_eqb_N_eq. reflexivity.
Qed.

Lemma mem_id_in : forall x l, In x l -> mem id_eqb x l = true.
Proof.
  induction l as [|y l IH]; intro H; [contradiction|]. simpl. destruct H as [H|H].
  - subst y. rewrite id_eqb_refl. reflexivity.
  - rewrite IH by exact H. apply orb_true_r.
Qed.

Lemma nodupb_NoDup : forall l, nodupb id_eqb l = true -> NoDup l.
Proof.
  induction l as [|x l IH]; intro H; constructor; simpl in H; apply andb_true_iff in H;
    destruct H as [H1 H2].
  - intro Hin. apply mem_id_in in Hin. rewrite Hin in H1. discriminate.
  - apply IH. exact H2.
Qed.

Lemma wf_ruleb_sound : forall r, wf_ruleb r = true -> wf_rule r.
Proof.
  intros r H. destruct r as [|f fs]; [discriminate|]. split; [discriminate|].
  unfold wf_ruleb in H. rewrite forallb_forall in H. rewrite Forall_forall. exact H.
Qed.

Theorem wf_modelb_sound : forall m, wf_modelb m = true -> wf_model m.
Proof.
  intros m H. unfold wf_modelb in H. apply andb_true_iff in H. destruct H as [H1 H2]. split.
  - apply nodupb_NoDup. exact H1.
  - rewrite forallb_forall in H2. rewrite Forall_forall. intros a Ha Hpg.
    pose proof (H2 a Ha) as W. unfold wf_astb in W. rewrite Hpg in W. simpl in W.
    apply andb_true_iff in W. destruct W as [W W3]. apply andb_true_iff in W. destruct W as [W1 W2].
    apply N.eqb_eq in W2. repeat split; try assumption.
    rewrite forallb_forall in W3. rewrite Forall_forall. intros r Hr. apply wf_ruleb_sound.
    apply W3. exact Hr.
Qed.

(* ---- F12 as a refutation of the unguarded statement ---- *)
Definition empty_rbac : model :=
  [ {| a_sec := c_p; a_key := [c_p]; a_pol := [] |}; {| a_sec := c_g; a_key := [c_g]; a_pol := [] |} ].

Theorem string_roundtrip_refuted :
  exists m, wf_model m /\ roundtrip_string m = Err ERuntime.
Proof.
  exists empty_rbac. split; [apply wf_modelb_sound; vm_compute; reflexivity | vm_compute; reflexivity].
Qed.
