(* DomainProofs.v — domains are isolated tenants (C05). *)
From Coq Require Import List NArith Bool Arith Lia.
From PyCasbin Require Import Base Effect Enforce EnforceProofs Policy PolicyProofs RoleGraph RoleGraphProofs
  Mgmt MgmtLinks MgmtProofs.
Import ListNotations.
Local Open Scope N_scope.

(* the permission rules recorded for domain D *)
Definition p_in_dom (k : mkind) (D : name) (r : rule) : bool := fld r (i_dom k) =? D.

Definition wf_p (k : mkind) (s : mstate) : Prop := Forall (fun r => length r = p_arity k) (m_p s).

(* what domain D can see of a state *)
Definition dom_view (k : mkind) (D : name) (s s' : mstate) : Prop :=
  filter (p_in_dom k D) (m_p s) = filter (p_in_dom k D) (m_p s')
  /\ glinks_dom (m_g s) D = glinks_dom (m_g s') D
  /\ m_g2 s = m_g2 s' /\ m_enabled s = m_enabled s'.

Section Isolation.
  Variable k : mkind.
  Hypothesis Hdom : k_dom k = true.

  Lemma rule_matches_view s s' D req r :
    Inv k s -> Inv k s' -> dom_view k D s s' -> fld req 1 = D ->
    rule_matches k s req r = rule_matches k s' req r.
  Proof.
    intros HI HI' [_ [Hg [Hg2 _]]] HD. unfold rule_matches. rewrite Hdom.
    rewrite (g_link_canon k s _ _ _ HI), (g_link_canon k s' _ _ _ HI'). unfold canon_links.
    rewrite Hdom, HD, Hg.
    destruct HI as [_ [[_ [_ [_ H2]]] _]]. destruct HI' as [_ [[_ [_ [_ H2']]] _]].
    rewrite H2, H2', Hg2. reflexivity.
  Qed.

  Lemma outcome_foreign s D req r :
    fld req 1 = D -> length r = p_arity k -> p_in_dom k D r = false ->
    rule_outcome k s req r = NoMatch.
  Proof.
    intros HD Hl Hp. unfold rule_outcome. rewrite Hl, Nat.eqb_refl. cbn [negb].
    assert (Hm : rule_matches k s req r = false).
    { unfold rule_matches. rewrite Hdom. unfold p_in_dom in Hp. rewrite HD.
      rewrite (N.eqb_sym D (fld r (i_dom k))), Hp. rewrite andb_false_r. reflexivity. }
    rewrite Hm. reflexivity.
  Qed.

  Lemma outcome_not_bad s req r : length r = p_arity k -> is_bad (rule_outcome k s req r) = false.
  Proof.
    intro Hl. unfold rule_outcome. rewrite Hl, Nat.eqb_refl. cbn [negb].
    destruct (rule_matches k s req r); [|reflexivity]. destruct (k_eft k); [|reflexivity].
    destruct (fld r (i_eft k) =? A_ALLOW); [reflexivity|]. destruct (fld r (i_eft k) =? A_DENY); reflexivity.
  Qed.

  (* the non-NoMatch outcomes only come from D's rules *)
  Lemma outcomes_filter s D req : fld req 1 = D -> forall l, Forall (fun r => length r = p_arity k) l ->
    filter (fun o => negb (is_nomatch o)) (map (rule_outcome k s req) l)
    = filter (fun o => negb (is_nomatch o)) (map (rule_outcome k s req) (filter (p_in_dom k D) l)).
  Proof.
    intros HD. induction l as [|r l IH]; intro Hwf; [reflexivity|].
    inversion Hwf as [|? ? Hr Hl]; subst. cbn [map filter].
    destruct (p_in_dom k (fld req 1) r) eqn:Hp.
    - cbn [map filter]. rewrite (IH Hl). reflexivity.
    - rewrite (outcome_foreign s (fld req 1) req r eq_refl Hr Hp). cbn [is_nomatch negb]. apply IH. exact Hl.
  Qed.

  Lemma no_bad_outcomes s req : forall l, Forall (fun r => length r = p_arity k) l ->
    no_bad (map (rule_outcome k s req) l) = true.
  Proof.
    induction l as [|r l IH]; intro Hwf; [reflexivity|]. inversion Hwf; subst.
    cbn [map no_bad forallb]. rewrite outcome_not_bad by assumption. cbn [negb andb]. apply IH. assumption.
  Qed.

  (* the empty rule never matches a request of a named domain *)
  Lemma empty_rule_nomatch s req : fld req 1 <> 0 -> rule_matches k s req (empty_rule k) = false.
  Proof.
    intro HD. unfold rule_matches. rewrite Hdom.
    assert (E : fld (empty_rule k) (i_dom k) = 0).
    { unfold fld, empty_rule. clear. generalize (i_dom k) as i. induction (p_arity k) as [|n IH]; intro i; destruct i; simpl; auto. }
    rewrite E. apply N.eqb_neq in HD. rewrite HD. rewrite andb_false_r. reflexivity.
  Qed.

  Definition decision_of (r : result (bool * option nat)) : result bool :=
    match r with Ok (b, _) => Ok b | Err c => Err c end.

  (* C05, decision level: two states that agree on what D can see decide every request of D alike *)
  Theorem domain_isolation s s' D req :
    Inv k s -> Inv k s' -> wf_p k s -> wf_p k s' -> dom_view k D s s' ->
    fld req 1 = D -> D <> 0 ->
    decision_of (snd (enforce_ex_m k s req)) = decision_of (snd (enforce_ex_m k s' req)).
  Proof.
    intros HI HI' Hwf Hwf' Hv HD HD0. pose proof Hv as [Hp [_ [_ He]]].
    unfold enforce_ex_m. cbn [snd]. rewrite <- He.
    rewrite (empty_rule_nomatch s req) by (rewrite HD; exact HD0).
    rewrite (empty_rule_nomatch s' req) by (rewrite HD; exact HD0).
    unfold enforce_ex.
    destruct (negb (enabled {| enabled := m_enabled s; Enforce.arity_ok := Nat.eqb (length req) (r_arity k) |})) eqn:E1;
      [reflexivity|].
    destruct (negb (Enforce.arity_ok {| enabled := m_enabled s; Enforce.arity_ok := Nat.eqb (length req) (r_arity k) |})) eqn:E2;
      [reflexivity|].
    set (outs := map (rule_outcome k s req) (m_p s)).
    set (outs' := map (rule_outcome k s' req) (m_p s')).
    destruct (decision_is_spec_total (k_eff k) outs (no_bad_outcomes s req (m_p s) Hwf)) as [ex H1].
    destruct (decision_is_spec_total (k_eff k) outs' (no_bad_outcomes s' req (m_p s') Hwf')) as [ex' H1'].
    unfold enforce_ex_ref, enforce_ex, on in H1, H1'. cbn [negb enabled Enforce.arity_ok] in H1, H1'.
    rewrite H1, H1'. cbn [decision_of]. f_equal.
    rewrite <- (spec_decision_drop_nomatch (k_eff k) outs), <- (spec_decision_drop_nomatch (k_eff k) outs').
    unfold outs, outs'. rewrite (outcomes_filter s D req HD _ Hwf), (outcomes_filter s' D req HD _ Hwf').
    rewrite <- Hp. f_equal. f_equal. apply map_ext. intro r. unfold rule_outcome.
    rewrite (rule_matches_view s s' D req r HI HI' Hv HD). reflexivity.
  Qed.

  (* role queries in D see only D's assignments *)
  Theorem domain_role_queries s s' D u :
    Inv k s -> Inv k s' -> glinks_dom (m_g s) D = glinks_dom (m_g s') D ->
    fst (rmk_get_roles (m_rm s) u D) = fst (rmk_get_roles (m_rm s') u D)
    /\ fst (rmk_get_users (m_rm s) u D) = fst (rmk_get_users (m_rm s') u D).
  Proof.
    intros HI HI' Hg.
    rewrite (get_roles_canon k s u D HI), (get_roles_canon k s' u D HI'),
            (get_users_canon k s u D HI), (get_users_canon k s' u D HI').
    unfold canon_links. rewrite Hdom, Hg. split; reflexivity.
  Qed.
End Isolation.

(* ---------- calls that touch only other domains leave D's view alone ---------- *)
Section Foreign.
  Variable k : mkind.
  Variable D : name.

  Definition g_foreign (r : rule) : bool := negb (dom_of r =? D).
  Definition p_foreign (r : rule) : bool := negb (p_in_dom k D r).

  Lemma filter_app_foreign {A} (f : A -> bool) l rs :
    forallb (fun r => negb (f r)) rs = true -> filter f (l ++ rs) = filter f l.
  Proof.
    intro H. rewrite filter_app.
    assert (E : filter f rs = []).
    { induction rs as [|r rs IH]; [reflexivity|]. simpl in H. apply andb_true_iff in H. destruct H as [Hr H].
      simpl. apply negb_true_iff in Hr. rewrite Hr. apply IH. exact H. }
    rewrite E. apply app_nil_r.
  Qed.

  Lemma filter_notin_foreign (f : rule -> bool) l rs :
    forallb (fun r => negb (f r)) rs = true -> filter f (filter (notin rs) l) = filter f l.
  Proof.
    intro H. rewrite filter_filter_and. apply filter_ext. intro x. unfold notin.
    destruct (f x) eqn:Fx; [|rewrite andb_false_r; reflexivity]. rewrite andb_true_r.
    apply negb_true_iff. apply has_policy_false. intro Hin. rewrite forallb_forall in H.
    specialize (H x Hin). rewrite Fx in H. discriminate.
  Qed.

  (* grouping rules *)
  Lemma glinks_dom_add g rs : forallb g_foreign rs = true -> glinks_dom (g ++ rs) D = glinks_dom g D.
  Proof. intro H. unfold glinks_dom. f_equal. apply (filter_app_foreign (in_dom D)). exact H. Qed.

  Lemma glinks_dom_del g rs : forallb g_foreign rs = true -> glinks_dom (filter (notin rs) g) D = glinks_dom g D.
  Proof. intro H. unfold glinks_dom. f_equal. apply (filter_notin_foreign (in_dom D)). exact H. Qed.

  (* permission rules *)
  Lemma p_view_add p rs : forallb p_foreign rs = true ->
    filter (p_in_dom k D) (p ++ rs) = filter (p_in_dom k D) p.
  Proof. apply filter_app_foreign. Qed.

  Lemma p_view_del p rs : forallb p_foreign rs = true ->
    filter (p_in_dom k D) (filter (notin rs) p) = filter (p_in_dom k D) p.
  Proof. apply filter_notin_foreign. Qed.

  (* an in-place update of a foreign rule to a foreign rule *)
  Lemma p_view_update p o n : p_foreign o = true -> p_foreign n = true ->
    filter (p_in_dom k D) (replace_rule o n p) = filter (p_in_dom k D) p.
  Proof.
    intros Ho Hn. unfold replace_rule. induction p as [|x p IH]; [reflexivity|]. cbn [map filter].
    destruct (rule_eqb x o) eqn:E.
    - apply rule_eqb_eq in E. subst x. unfold p_foreign in Ho, Hn. apply negb_true_iff in Ho, Hn.
      rewrite Ho, Hn. exact IH.
    - destruct (p_in_dom k D x); [f_equal|]; exact IH.
  Qed.

  (* a filtered removal whose filter pins the domain column to another domain *)
  Lemma fm_pins_dom r i vs j F : nth_error vs j = Some F -> F <> 0 ->
    fm_true i vs r = true -> nth_error r (i + j) = Some F.
  Proof.
    intros Hj HF Hm. unfold fm_true in Hm. destruct (filter_match r i vs) as [[|]|] eqn:E; try discriminate.
    apply (proj1 (filter_match_sel r vs i true E) eq_refl j F Hj HF).
  Qed.

  Lemma p_view_remove_filtered p i vs j F :
    nth_error vs j = Some F -> F <> 0 -> F <> D -> (i + j)%nat = i_dom k ->
    filter (p_in_dom k D) (filter (fun r => negb (fm_true i vs r)) p) = filter (p_in_dom k D) p.
  Proof.
    intros Hj HF HFD Hij. rewrite filter_filter_and. apply filter_ext. intro x.
    destruct (p_in_dom k D x) eqn:Px; [|rewrite andb_false_r; reflexivity]. rewrite andb_true_r.
    apply negb_true_iff. destruct (fm_true i vs x) eqn:Fx; [|reflexivity]. exfalso.
    pose proof (fm_pins_dom x i vs j F Hj HF Fx) as Hn. rewrite Hij in Hn.
    unfold p_in_dom, fld in Px. rewrite (nth_error_nth _ _ _ Hn) in Px. apply N.eqb_eq in Px. congruence.
  Qed.

  Lemma g_view_remove_filtered g i vs j F :
    nth_error vs j = Some F -> F <> 0 -> F <> D -> (i + j)%nat = 2%nat ->
    glinks_dom (filter (fun r => negb (fm_true i vs r)) g) D = glinks_dom g D.
  Proof.
    intros Hj HF HFD Hij. unfold glinks_dom. f_equal. rewrite filter_filter_and. apply filter_ext. intro x.
    destruct (in_dom D x) eqn:Px; [|rewrite andb_false_r; reflexivity]. rewrite andb_true_r.
    apply negb_true_iff. destruct (fm_true i vs x) eqn:Fx; [|reflexivity]. exfalso.
    pose proof (fm_pins_dom x i vs j F Hj HF Fx) as Hn. rewrite Hij in Hn.
    unfold in_dom, dom_of in Px. rewrite (nth_error_nth _ _ _ Hn) in Px. apply N.eqb_eq in Px. congruence.
  Qed.
End Foreign.

(* ---------- step level: calls that touch only other domains ---------- *)
Definition pins_other (vs : list name) (j : nat) (D : name) : bool :=
  match nth_error vs j with Some F => negb (F =? 0) && negb (F =? D) | None => false end.

(* "touches only domains other than D", as a boolean on calls of a domain model *)
Definition op_foreign (k : mkind) (D : name) (o : op) : bool :=
  match o with
  | OAdd pt r => if pt =? PT_P then p_foreign k D r else if pt =? PT_G then g_foreign D r else false
  | OAddMany pt rs => if pt =? PT_P then forallb (p_foreign k D) rs
                      else if pt =? PT_G then forallb (g_foreign D) rs else false
  | ORemove pt r => if pt =? PT_P then p_foreign k D r else if pt =? PT_G then g_foreign D r else false
  | ORemoveMany pt rs => if pt =? PT_P then forallb (p_foreign k D) rs
                         else if pt =? PT_G then forallb (g_foreign D) rs else false
  | ORemoveFiltered pt i vs =>
      if pt =? PT_P then (i <=? i_dom k)%nat && pins_other vs (i_dom k - i) D
      else if pt =? PT_G then (i <=? 2)%nat && pins_other vs (2 - i) D else false
  | OUpdate o n => p_foreign k D o && p_foreign k D n
  | OAddRoleForUserInDomain _ _ F => negb (F =? D)
  | ODeleteRolesForUserInDomain _ _ F => negb (F =? 0) && negb (F =? D)
  | OAutoSave _ | OAutoNotify _ | OSave => true
  | QEnforce _ | QEnforceEx _ | QPolicy _ | QFiltered _ _ _ | QHas _ _ | QRoles _ | QUsers _
  | QRolesDom _ _ | QUsersDom _ _ | QHasLink _ _ _ _ | QImplRoles _ _ | QImplPerms _ _ | QImplUsers _
  | QUsersForResource _ | QUsersForResourceDom _ _ | QAllSubjects | QAllObjects | QAllActions | QAllRoles
  | QPermsForUser _ | QPermsForUserDom _ _ => true
  | _ => false
  end.

Lemma dom_view_refl k D s : dom_view k D s s.
Proof. repeat split; reflexivity. Qed.
Lemma dom_view_trans k D s1 s2 s3 : dom_view k D s1 s2 -> dom_view k D s2 s3 -> dom_view k D s1 s3.
Proof. unfold dom_view. intuition congruence. Qed.

(* states that differ only in role managers / adapter rows / flags other than `enabled` *)
Definition same_stores (s s' : mstate) : Prop :=
  m_p s' = m_p s /\ m_g s' = m_g s /\ m_g2 s' = m_g2 s /\ m_enabled s' = m_enabled s.
Lemma same_stores_view k D s s' : same_stores s s' -> dom_view k D s s'.
Proof. intros [E1 [E2 [E3 E4]]]. unfold dom_view. rewrite E1, E2, E3, E4. repeat split; reflexivity. Qed.

Lemma pins_other_spec vs j D : pins_other vs j D = true -> exists F, nth_error vs j = Some F /\ F <> 0 /\ F <> D.
Proof.
  unfold pins_other. destruct (nth_error vs j) as [F|]; [|discriminate]. intro H.
  apply andb_true_iff in H. destruct H as [H1 H2]. apply negb_true_iff in H1, H2.
  apply N.eqb_neq in H1, H2. eauto.
Qed.

Section ForeignStep.
  Variable k : mkind.
  Variable D : name.
  Hypothesis Hprio : k_prio k = false.

  Lemma prio_off s pt : prio_opt_on k (m_prio_on s) pt = None.
  Proof. unfold prio_opt_on. rewrite Hprio. rewrite andb_false_r. reflexivity. Qed.

  (* permission-rule calls *)
  Lemma p_add_view s r : p_foreign k D r = true -> dom_view k D s (fst (fst (fst (i_add k s PT_P r)))).
  Proof.
    intro Hf. unfold i_add. rewrite prio_off. unfold add_policy.
    destruct (has_policy (get_store s PT_P) r); cbn [negb fst]; [apply dom_view_refl|].
    assert (V : dom_view k D s (set_store s PT_P (get_store s PT_P ++ [r]))).
    { split; [|repeat split]. cbn. symmetry. apply p_view_add. cbn. rewrite Hf. reflexivity. }
    destruct (use_adapter k s); exact V.
  Qed.

  Lemma p_add_many_view s rs : forallb (p_foreign k D) rs = true ->
    dom_view k D s (fst (fst (fst (i_add_many k s PT_P rs)))).
  Proof.
    intro Hf. unfold i_add_many. rewrite prio_off. unfold add_policies.
    destruct (batch_addable (get_store s PT_P) [] rs) eqn:Hb; cbn [negb fst]; [|apply dom_view_refl].
    assert (Ha : add_all None (get_store s PT_P) rs = get_store s PT_P ++ rs).
    { rewrite batch_addable_spec in Hb. apply andb_true_iff in Hb. destruct Hb as [Hb Hn].
      apply andb_true_iff in Hb. destruct Hb as [Hb _]. apply add_all_spec; assumption. }
    rewrite Ha.
    assert (V : dom_view k D s (set_store s PT_P (get_store s PT_P ++ rs))).
    { split; [|repeat split]. cbn. symmetry. apply p_view_add. exact Hf. }
    destruct (use_adapter k s); exact V.
  Qed.

  Lemma p_remove_view s r : NoDup (m_p s) -> p_foreign k D r = true ->
    dom_view k D s (fst (fst (fst (i_remove k s PT_P r)))).
  Proof.
    intros Hnd Hf. destruct (i_remove_state k s PT_P r Hnd) as [Hs _]. cbv zeta in Hs. rewrite Hs.
    destruct (has_policy (get_store s PT_P) r); [|rewrite set_store_same; apply dom_view_refl].
    split; [|repeat split]. cbn. symmetry. rewrite <- filter_neqb_single. apply p_view_del. cbn. rewrite Hf. reflexivity.
  Qed.

  Lemma p_remove_many_view s rs : NoDup (m_p s) -> forallb (p_foreign k D) rs = true ->
    dom_view k D s (fst (fst (fst (i_remove_many k s PT_P rs)))).
  Proof.
    intros Hnd Hf. destruct (i_remove_many_state k s PT_P rs Hnd) as [Hs _]. cbv zeta in Hs. rewrite Hs.
    destruct (forallb (has_policy (get_store s PT_P)) rs && nodupb rule_eqb rs); [|apply dom_view_refl].
    split; [|repeat split]. cbn. symmetry. apply p_view_del. exact Hf.
  Qed.

  Lemma p_remove_filtered_view s i vs :
    (i <=? i_dom k)%nat && pins_other vs (i_dom k - i) D = true ->
    dom_view k D s (fst (p_remove_filtered k s i vs)).
  Proof.
    intro H. apply andb_true_iff in H. destruct H as [Hi Hp]. apply Nat.leb_le in Hi.
    destruct (pins_other_spec _ _ _ Hp) as [F [Hn [HF0 HFD]]].
    unfold p_remove_filtered, i_remove_filtered, remove_filtered.
    destruct (split_filtered (get_store s PT_P) i vs) as [[kept gone]|c] eqn:E; [|apply dom_view_refl].
    destruct (split_filtered_spec _ _ _ _ _ E) as [_ Hk]. subst kept.
    assert (V : dom_view k D s (set_store s PT_P (filter (fun r => negb (fm_true i vs r)) (get_store s PT_P)))).
    { split; [|repeat split]. cbn. symmetry.
      apply (p_view_remove_filtered k D (m_p s) i vs (i_dom k - i) F Hn HF0 HFD). lia. }
    destruct gone; cbn [negb fst]; [exact V|]. destruct (use_adapter k s); exact V.
  Qed.

  Lemma p_update_view s o n : NoDup (m_p s) -> p_foreign k D o = true -> p_foreign k D n = true ->
    dom_view k D s (fst (step k s (OUpdate o n))).
  Proof.
    intros Hnd Ho Hn. cbn [step]. unfold prio_tok. rewrite Hprio, andb_false_r.
    rewrite (update_policy_spec _ o n Hnd). unfold spec_update.
    destruct (has_policy (m_p s) o && negb (has_policy (m_p s) n)); cbn [negb fst]; [|apply dom_view_refl].
    assert (V : dom_view k D s (set_store s PT_P (replace_rule o n (m_p s)))).
    { split; [|repeat split]. cbn. symmetry. apply p_view_update; assumption. }
    destruct (use_adapter k s); exact V.
  Qed.

  (* grouping calls: rules unchanged except m_g, which changes only outside D *)
  Lemma set_g_view s g' rm' : glinks_dom g' D = glinks_dom (m_g s) D ->
    dom_view k D s (put_rm (set_store s PT_G g') PT_G rm').
  Proof. intro H. split; [reflexivity|]. split; [cbn; symmetry; exact H|]. split; reflexivity. Qed.

  Lemma g_add_view s r : g_foreign D r = true -> dom_view k D s (fst (g_add k s PT_G r)).
  Proof.
    intro Hf. unfold g_add. destruct (i_add_state k s PT_G r eq_refl) as [Hs Hb].
    destruct (i_add k s PT_G r) as [[[s1 b] ac] wc]. simpl in Hs, Hb. subst s1 b. change (get_store s PT_G) with (m_g s) in *.
    destruct (has_policy (m_g s) r).
    - cbn [negb]. rewrite andb_false_r. apply dom_view_refl.
    - destruct (m_auto_build s); cbn [negb andb fst].
      + rewrite fst_after_links. apply set_g_view. apply glinks_dom_add. cbn. rewrite Hf. reflexivity.
      + split; [reflexivity|]. split; [cbn; symmetry; apply glinks_dom_add; cbn; rewrite Hf; reflexivity|]. split; reflexivity.
  Qed.

  Lemma g_add_many_view s rs : forallb (g_foreign D) rs = true -> dom_view k D s (fst (g_add_many k s PT_G rs)).
  Proof.
    intro Hf. unfold g_add_many. destruct (i_add_many_state k s PT_G rs eq_refl) as [Hs Hb].
    destruct (i_add_many k s PT_G rs) as [[[s1 b] ac] wc]. simpl in Hs, Hb. subst s1 b. change (get_store s PT_G) with (m_g s) in *.
    destruct (batch_addable (m_g s) [] rs) eqn:Hbb.
    - assert (Ha : add_all None (m_g s) rs = m_g s ++ rs).
      { rewrite batch_addable_spec in Hbb. apply andb_true_iff in Hbb. destruct Hbb as [Hbb Hn].
        apply andb_true_iff in Hbb. destruct Hbb as [Hbb _]. apply add_all_spec; assumption. }
      change (get_store s PT_G) with (m_g s). rewrite Ha.
      destruct (m_auto_build s); cbn [negb andb fst].
      + rewrite fst_after_links. apply set_g_view. apply glinks_dom_add. exact Hf.
      + split; [reflexivity|]. split; [cbn; symmetry; apply glinks_dom_add; exact Hf|]. split; reflexivity.
    - rewrite andb_false_r. apply dom_view_refl.
  Qed.

  Lemma g_remove_view s r : NoDup (m_g s) -> g_foreign D r = true -> dom_view k D s (fst (g_remove k s PT_G r)).
  Proof.
    intros Hnd Hf. unfold g_remove. destruct (i_remove_state k s PT_G r Hnd) as [Hs Hb].
    destruct (i_remove k s PT_G r) as [[[s1 b] ac] wc]. simpl in Hs, Hb. subst s1 b. change (get_store s PT_G) with (m_g s) in *.
    assert (Hg : glinks_dom (filter (neqb r) (m_g s)) D = glinks_dom (m_g s) D).
    { rewrite <- filter_neqb_single. apply glinks_dom_del. cbn. rewrite Hf. reflexivity. }
    change (get_store s PT_G) with (m_g s).
    destruct (has_policy (m_g s) r).
    - destruct (m_auto_build s); cbn [negb andb fst].
      + rewrite fst_after_links. apply set_g_view. exact Hg.
      + split; [reflexivity|]. split; [cbn; symmetry; exact Hg|]. split; reflexivity.
    - rewrite andb_false_r. cbn [fst]. change (m_g s) with (get_store s PT_G). rewrite set_store_same. apply dom_view_refl.
  Qed.

  Lemma g_remove_many_view s rs : NoDup (m_g s) -> forallb (g_foreign D) rs = true ->
    dom_view k D s (fst (g_remove_many k s PT_G rs)).
  Proof.
    intros Hnd Hf. unfold g_remove_many. destruct (i_remove_many_state k s PT_G rs Hnd) as [Hs Hb].
    destruct (i_remove_many k s PT_G rs) as [[[s1 b] ac] wc]. simpl in Hs, Hb. subst s1 b. change (get_store s PT_G) with (m_g s) in *.
    change (get_store s PT_G) with (m_g s).
    destruct (forallb (has_policy (m_g s)) rs && nodupb rule_eqb rs).
    - destruct (m_auto_build s); cbn [negb andb fst].
      + rewrite fst_after_links. apply set_g_view. apply glinks_dom_del. exact Hf.
      + split; [reflexivity|]. split; [cbn; symmetry; apply glinks_dom_del; exact Hf|]. split; reflexivity.
    - rewrite andb_false_r. apply dom_view_refl.
  Qed.

  Lemma g_remove_filtered_view s i vs :
    (i <=? 2)%nat && pins_other vs (2 - i) D = true ->
    dom_view k D s (fst (g_remove_filtered k s PT_G i vs)).
  Proof.
    intro H. apply andb_true_iff in H. destruct H as [Hi Hp]. apply Nat.leb_le in Hi.
    destruct (pins_other_spec _ _ _ Hp) as [F [Hn [HF0 HFD]]].
    unfold g_remove_filtered.
    destruct (i_remove_filtered_eff k s PT_G i vs) as [[[[s1 gone] ac] wc]|c] eqn:E; [|apply dom_view_refl].
    pose proof (i_remove_filtered_eff_state k s PT_G i vs _ E) as Hst. simpl in Hst.
    assert (Hg : glinks_dom (filter (fun r => negb (fm_true i vs r)) (m_g s)) D = glinks_dom (m_g s) D).
    { apply (g_view_remove_filtered D (m_g s) i vs (2 - i) F Hn HF0 HFD). lia. }
    destruct Hst as [[Hgone Hs1]|[Hgone Hs1]].
    - subst gone s1. cbn [fst]. rewrite set_store_same. apply dom_view_refl.
    - subst s1. change (get_store s PT_G) with (m_g s).
      destruct gone as [|g0 gone'].
      + cbn [fst]. split; [reflexivity|]. split; [cbn; symmetry; exact Hg|]. split; reflexivity.
      + destruct (m_auto_build s); cbn [fst].
        * rewrite fst_after_links. apply set_g_view. exact Hg.
        * split; [reflexivity|]. split; [cbn; symmetry; exact Hg|]. split; reflexivity.
  Qed.
End ForeignStep.

(* ---------- queries change nothing but caches ---------- *)
Lemma same_stores_refl s : same_stores s s.
Proof. repeat split; reflexivity. Qed.
Lemma same_stores_set_rm s rm : same_stores s (set_rm s rm).
Proof. repeat split; reflexivity. Qed.
Lemma same_stores_trans s1 s2 s3 : same_stores s1 s2 -> same_stores s2 s3 -> same_stores s1 s3.
Proof. unfold same_stores. intuition congruence. Qed.

Lemma enforce_ex_m_stores k s req : same_stores s (fst (enforce_ex_m k s req)).
Proof.
  unfold enforce_ex_m. cbn [fst].
  match goal with |- same_stores s (if ?c then _ else _) => destruct c end;
    [apply same_stores_set_rm|apply same_stores_refl].
Qed.

Lemma impl_roles_stores k d : forall fuel s res queue x,
  impl_roles fuel k s d res queue = Ok x -> same_stores s (snd x).
Proof.
  induction fuel as [|f IH]; intros s res queue x H; destruct queue as [|n q]; simpl in H;
    try discriminate; try (inversion H; subst; apply same_stores_refl).
  destruct (if k_g k then rmk_get_roles (m_rm s) n d else ([], m_rm s)) as [r1 rm'].
  destruct (append_new res q r1) as [res1 q1].
  match type of H with context [append_new res1 q1 ?z] => destruct (append_new res1 q1 z) as [res2 q2] end.
  apply (same_stores_trans s (set_rm s rm') (snd x)); [apply same_stores_set_rm|].
  apply (IH (set_rm s rm') res2 q2 x H).
Qed.

Lemma users_allowed_stores k perm : forall subjects s, same_stores s (fst (users_allowed k s subjects perm)).
Proof.
  induction subjects as [|u rest IH]; intro s; [apply same_stores_refl|]. cbn [users_allowed].
  pose proof (enforce_ex_m_stores k s (u :: perm)) as H1.
  destruct (enforce_ex_m k s (u :: perm)) as [s' r]. simpl in H1.
  destruct r as [[b ex]|c]; [|exact H1].
  specialize (IH s'). destruct (users_allowed k s' rest perm) as [s'' r']. simpl in IH.
  destruct r'; apply (same_stores_trans s s' s''); assumption.
Qed.

Lemma query_stores k s o :
  match o with
  | QEnforce _ | QEnforceEx _ | QPolicy _ | QFiltered _ _ _ | QHas _ _ | QRoles _ | QUsers _
  | QRolesDom _ _ | QUsersDom _ _ | QHasLink _ _ _ _ | QImplRoles _ _ | QImplPerms _ _ | QImplUsers _
  | QUsersForResource _ | QUsersForResourceDom _ _ | QAllSubjects | QAllObjects | QAllActions | QAllRoles
  | QPermsForUser _ | QPermsForUserDom _ _ => True
  | _ => False
  end -> same_stores s (fst (step k s o)).
Proof.
  intro Hq. destruct o; try contradiction; cbn [step].
  - pose proof (enforce_ex_m_stores k s req) as H. destruct (enforce_ex_m k s req). exact H.
  - pose proof (enforce_ex_m_stores k s req) as H. destruct (enforce_ex_m k s req). exact H.
  - apply same_stores_refl.
  - apply same_stores_refl.
  - apply same_stores_refl.
  - destruct (rmk_get_roles (m_rm s) u empty_dom). apply same_stores_set_rm.
  - destruct (rmk_get_users (m_rm s) r empty_dom). apply same_stores_set_rm.
  - destruct (rmk_get_roles (m_rm s) u d). apply same_stores_set_rm.
  - destruct (rmk_get_users (m_rm s) r d). apply same_stores_set_rm.
  - destruct (rm_of s pt); [apply same_stores_refl|].
    destruct (dm_has_link_d s0 a b d) as [[b' dm']|c]; [apply same_stores_set_rm|apply same_stores_refl].
  - destruct (get_implicit_roles k s u d) as [[l s']|c] eqn:E; [|apply same_stores_refl].
    apply (impl_roles_stores k d _ s [] [u] (l, s') E).
  - unfold get_implicit_permissions.
    destruct (get_implicit_roles k s u d) as [[l s']|c] eqn:E; [|apply same_stores_refl].
    pose proof (impl_roles_stores k d _ s [] [u] (l, s') E) as H.
    destruct (perms_for (m_p s') (u :: l) d); [exact H|apply same_stores_refl].
  - unfold get_implicit_users_for_permission.
    destruct (values_for_field (m_p s) (i_sub k) []) as [psub|c]; [|apply same_stores_refl].
    destruct (values_for_field (m_g s) 1 []) as [ginh|c]; [|apply same_stores_refl].
    destruct (values_for_field (m_g s) 0 []) as [gsub|c]; [|apply same_stores_refl].
    pose proof (users_allowed_stores k perm (set_subtract (dedup_first [] (gsub ++ psub)) ginh) s) as H.
    destruct (users_allowed k s _ perm) as [s' r]. unfold res_names. destruct r; exact H.
  - destruct (values_for_field (m_g s) 1 []) as [roles|c]; [|apply same_stores_refl].
    destruct (users_for_resource k (m_rm s) roles o None (m_p s) []) as [[l rm]|c];
      [apply same_stores_set_rm|apply same_stores_refl].
  - destruct (users_for_resource k (m_rm s) (roles_by_domain (m_g s) d) o (Some d) (m_p s) []) as [[l rm]|c];
      [apply same_stores_set_rm|apply same_stores_refl].
  - unfold res_names. destruct (values_for_field (m_p s) (i_sub k) []); apply same_stores_refl.
  - unfold res_names. destruct (values_for_field (m_p s) (i_obj k) []); apply same_stores_refl.
  - unfold res_names. destruct (values_for_field (m_p s) (i_act k) []); apply same_stores_refl.
  - unfold res_names. destruct (values_for_field (m_g s) 1 []); apply same_stores_refl.
  - apply same_stores_refl.
  - apply same_stores_refl.
Qed.

(* ---------- the step theorem ---------- *)
Theorem foreign_step_view k D s o :
  k_prio k = false -> k_g k = true -> Inv k s -> NoDup (m_p s) -> op_foreign k D o = true ->
  dom_view k D s (fst (step k s o)).
Proof.
  intros Hprio Hkg HI Hndp Hf.
  assert (Hndg : NoDup (m_g s)) by (destruct HI as [[H _] _]; exact H).
  destruct o; try discriminate;
    try (apply same_stores_view; apply query_stores; exact I); cbn [step]; cbn [op_foreign] in Hf.
  - (* OAdd *) destruct (pt =? PT_P) eqn:EP.
    + apply N.eqb_eq in EP. subst pt. cbn. rewrite fst_wrap_b. apply p_add_view; assumption.
    + destruct (pt =? PT_G) eqn:EG; [|discriminate]. apply N.eqb_eq in EG. subst pt. cbn. rewrite Hkg. cbn.
      apply g_add_view; assumption.
  - destruct (pt =? PT_P) eqn:EP.
    + apply N.eqb_eq in EP. subst pt. cbn. rewrite fst_wrap_b. apply p_add_many_view; assumption.
    + destruct (pt =? PT_G) eqn:EG; [|discriminate]. apply N.eqb_eq in EG. subst pt. cbn. rewrite Hkg. cbn.
      apply g_add_many_view; assumption.
  - destruct (pt =? PT_P) eqn:EP.
    + apply N.eqb_eq in EP. subst pt. cbn. rewrite fst_wrap_b. apply p_remove_view; assumption.
    + destruct (pt =? PT_G) eqn:EG; [|discriminate]. apply N.eqb_eq in EG. subst pt. cbn. rewrite Hkg. cbn.
      apply g_remove_view; assumption.
  - destruct (pt =? PT_P) eqn:EP.
    + apply N.eqb_eq in EP. subst pt. cbn. rewrite fst_wrap_b. apply p_remove_many_view; assumption.
    + destruct (pt =? PT_G) eqn:EG; [|discriminate]. apply N.eqb_eq in EG. subst pt. cbn. rewrite Hkg. cbn.
      apply g_remove_many_view; assumption.
  - destruct (pt =? PT_P) eqn:EP.
    + apply N.eqb_eq in EP. subst pt. cbn. apply p_remove_filtered_view; assumption.
    + destruct (pt =? PT_G) eqn:EG; [|discriminate]. apply N.eqb_eq in EG. subst pt. cbn. rewrite Hkg. cbn.
      apply g_remove_filtered_view; assumption.
  - (* OUpdate *) apply andb_true_iff in Hf. destruct Hf as [Ho Hn].
    apply (p_update_view k D Hprio s o n Hndp Ho Hn).
  - (* OAddRoleForUserInDomain *) rewrite Hkg. apply (g_add_view k D). unfold g_foreign, dom_of. exact Hf.
  - (* ODeleteRolesForUserInDomain *) rewrite Hkg. apply (g_remove_filtered_view k D).
    cbn. unfold pins_other. cbn. exact Hf.
  - (* OSave *) destruct (negb (k_adapter k)); [apply dom_view_refl|]. cbn [fst]. repeat split.
  - repeat split.
  - repeat split.
Qed.

(* ---------- the permission rules stay duplicate-free and well-shaped ---------- *)
Definition PInv (k : mkind) (s : mstate) : Prop := NoDup (m_p s) /\ wf_p k s.

Definition fits_p (k : mkind) (r : rule) : bool := Nat.eqb (length r) (p_arity k).
Definition op_pwf (k : mkind) (o : op) : bool :=
  match o with
  | OAdd pt r => if pt =? PT_P then fits_p k r else true
  | OAddMany pt rs => if pt =? PT_P then forallb (fits_p k) rs else true
  | OUpdate _ n => fits_p k n
  | _ => true
  end.

Lemma PInv_stores k s s' : PInv k s -> m_p s' = m_p s -> PInv k s'.
Proof. intros [H1 H2] E. unfold PInv, wf_p. rewrite E. split; assumption. Qed.

Lemma wf_filter k (f : rule -> bool) l :
  Forall (fun r => length r = p_arity k) l -> Forall (fun r => length r = p_arity k) (filter f l).
Proof. rewrite !Forall_forall. intros H x Hx. apply filter_In in Hx. apply H. tauto. Qed.

Lemma PInv_filter k s (f : rule -> bool) : PInv k s -> PInv k (set_store s PT_P (filter f (m_p s))).
Proof. intros [H1 H2]. split; [apply NoDup_filter; exact H1|apply wf_filter; exact H2]. Qed.

Lemma g_call_keeps_p s pt x rm' : is_g pt = true -> m_p (put_rm (set_store s pt x) pt rm') = m_p s.
Proof.
  intro Hg. apply is_g_P in Hg. unfold put_rm, set_store. rewrite Hg.
  destruct (pt =? PT_G); [reflexivity|]. destruct rm'; reflexivity.
Qed.

Lemma m_p_set_store_g s pt x : is_g pt = true -> m_p (set_store s pt x) = m_p s.
Proof. intro Hg. apply is_g_P in Hg. unfold set_store. rewrite Hg. destruct (pt =? PT_G); reflexivity. Qed.

(* grouping calls never touch the permission rules *)
Lemma g_add_p k s pt r : is_g pt = true -> m_p (fst (g_add k s pt r)) = m_p s.
Proof.
  intro Hg. unfold g_add. destruct (i_add_state k s pt r Hg) as [Hs Hb].
  destruct (i_add k s pt r) as [[[s1 b] ac] wc]. simpl in Hs, Hb. subst s1 b.
  destruct (has_policy (get_store s pt) r); cbn [negb]; [rewrite andb_false_r; reflexivity|].
  destruct (m_auto_build s); cbn [andb fst]; [rewrite fst_after_links; apply g_call_keeps_p; exact Hg|].
  apply m_p_set_store_g; exact Hg.
Qed.
Lemma g_add_many_p k s pt rs : is_g pt = true -> m_p (fst (g_add_many k s pt rs)) = m_p s.
Proof.
  intro Hg. unfold g_add_many. destruct (i_add_many_state k s pt rs Hg) as [Hs Hb].
  destruct (i_add_many k s pt rs) as [[[s1 b] ac] wc]. simpl in Hs, Hb. subst s1 b.
  destruct (batch_addable (get_store s pt) [] rs); [|rewrite andb_false_r; reflexivity].
  destruct (m_auto_build s); cbn [andb fst]; [rewrite fst_after_links; apply g_call_keeps_p; exact Hg|].
  apply m_p_set_store_g; exact Hg.
Qed.
Lemma g_remove_p k s pt r : is_g pt = true -> NoDup (get_store s pt) -> m_p (fst (g_remove k s pt r)) = m_p s.
Proof.
  intros Hg Hnd. unfold g_remove. destruct (i_remove_state k s pt r Hnd) as [Hs Hb].
  destruct (i_remove k s pt r) as [[[s1 b] ac] wc]. simpl in Hs, Hb. subst s1 b.
  destruct (has_policy (get_store s pt) r).
  - destruct (m_auto_build s); cbn [andb fst]; [rewrite fst_after_links; apply g_call_keeps_p; exact Hg|].
    apply m_p_set_store_g; exact Hg.
  - rewrite andb_false_r. cbn [fst]. apply m_p_set_store_g; exact Hg.
Qed.
Lemma g_remove_many_p k s pt rs : is_g pt = true -> NoDup (get_store s pt) -> m_p (fst (g_remove_many k s pt rs)) = m_p s.
Proof.
  intros Hg Hnd. unfold g_remove_many. destruct (i_remove_many_state k s pt rs Hnd) as [Hs Hb].
  destruct (i_remove_many k s pt rs) as [[[s1 b] ac] wc]. simpl in Hs, Hb. subst s1 b.
  destruct (forallb (has_policy (get_store s pt)) rs && nodupb rule_eqb rs); [|rewrite andb_false_r; reflexivity].
  destruct (m_auto_build s); cbn [andb fst]; [rewrite fst_after_links; apply g_call_keeps_p; exact Hg|].
  apply m_p_set_store_g; exact Hg.
Qed.
Lemma g_remove_filtered_p k s pt i vs : is_g pt = true -> m_p (fst (g_remove_filtered k s pt i vs)) = m_p s.
Proof.
  intro Hg. unfold g_remove_filtered.
  destruct (i_remove_filtered_eff k s pt i vs) as [[[[s1 gone] ac] wc]|c] eqn:E; [|reflexivity].
  pose proof (i_remove_filtered_eff_state k s pt i vs _ E) as Hst. simpl in Hst.
  destruct Hst as [[Hgone Hs1]|[Hgone Hs1]]; subst s1.
  - subst gone. cbn [fst]. apply m_p_set_store_g; exact Hg.
  - destruct gone as [|g0 gone']; cbn [fst]; [apply m_p_set_store_g; exact Hg|].
    destruct (m_auto_build s); cbn [fst]; [rewrite fst_after_links; apply g_call_keeps_p; exact Hg|].
    apply m_p_set_store_g; exact Hg.
Qed.

Theorem foreign_step_pinv k D s o :
  k_prio k = false -> k_g k = true -> Inv k s -> PInv k s -> op_foreign k D o = true -> op_pwf k o = true ->
  PInv k (fst (step k s o)).
Proof.
  intros Hprio Hkg HI HP Hf Hw.
  assert (Hndg : NoDup (m_g s)) by (destruct HI as [[H _] _]; exact H).
  destruct o; try discriminate;
    try (apply (PInv_stores k s _ HP); apply (query_stores k s); exact I); cbn [step]; cbn [op_foreign op_pwf] in Hf, Hw.
  - (* OAdd *) destruct (pt =? PT_P) eqn:EP.
    + apply N.eqb_eq in EP. subst pt. cbn. rewrite fst_wrap_b. unfold i_add. rewrite (prio_off k Hprio).
      unfold add_policy. destruct (has_policy (get_store s PT_P) r) eqn:Hh; cbn [negb fst]; [exact HP|].
      assert (V : PInv k (set_store s PT_P (get_store s PT_P ++ [r]))).
      { destruct HP as [H1 H2]. split; cbn.
        - apply NoDup_app_snoc; [exact H1|apply has_policy_false; exact Hh].
        - unfold wf_p. cbn. apply Forall_app. split; [exact H2|]. constructor; [apply Nat.eqb_eq; exact Hw|constructor]. }
      destruct (use_adapter k s); exact V.
    + destruct (pt =? PT_G) eqn:EG; [|discriminate]. apply N.eqb_eq in EG. subst pt. cbn. rewrite Hkg. cbn.
      apply (PInv_stores k s _ HP). apply g_add_p. reflexivity.
  - (* OAddMany *) destruct (pt =? PT_P) eqn:EP.
    + apply N.eqb_eq in EP. subst pt. cbn. rewrite fst_wrap_b. unfold i_add_many. rewrite (prio_off k Hprio).
      rewrite add_policies_spec. unfold spec_add_batch.
      destruct (forallb (fun r => negb (has_policy (get_store s PT_P) r)) rs && nodupb rule_eqb rs) eqn:Hb;
        cbn [negb fst]; [|exact HP].
      assert (V : PInv k (set_store s PT_P (get_store s PT_P ++ rs))).
      { destruct HP as [H1 H2]. split; cbn.
        - pose proof (add_batch_keeps_nodup (m_p s) rs H1) as Hn. unfold spec_add_batch in Hn.
          change (get_store s PT_P) with (m_p s) in Hb. rewrite Hb in Hn. exact Hn.
        - unfold wf_p. cbn. apply Forall_app. split; [exact H2|]. rewrite Forall_forall.
          rewrite forallb_forall in Hw. intros x Hx. apply Nat.eqb_eq. apply Hw. exact Hx. }
      destruct (use_adapter k s); exact V.
    + destruct (pt =? PT_G) eqn:EG; [|discriminate]. apply N.eqb_eq in EG. subst pt. cbn. rewrite Hkg. cbn.
      apply (PInv_stores k s _ HP). apply g_add_many_p. reflexivity.
  - (* ORemove *) destruct (pt =? PT_P) eqn:EP.
    + apply N.eqb_eq in EP. subst pt. cbn. rewrite fst_wrap_b.
      destruct (i_remove_state k s PT_P r (proj1 HP)) as [Hs _]. cbv zeta in Hs. rewrite Hs.
      destruct (has_policy (get_store s PT_P) r); [apply PInv_filter; exact HP|rewrite set_store_same; exact HP].
    + destruct (pt =? PT_G) eqn:EG; [|discriminate]. apply N.eqb_eq in EG. subst pt. cbn. rewrite Hkg. cbn.
      apply (PInv_stores k s _ HP). apply g_remove_p; [reflexivity|exact Hndg].
  - (* ORemoveMany *) destruct (pt =? PT_P) eqn:EP.
    + apply N.eqb_eq in EP. subst pt. cbn. rewrite fst_wrap_b.
      destruct (i_remove_many_state k s PT_P rs (proj1 HP)) as [Hs _]. cbv zeta in Hs. rewrite Hs.
      destruct (forallb (has_policy (get_store s PT_P)) rs && nodupb rule_eqb rs); [apply PInv_filter; exact HP|exact HP].
    + destruct (pt =? PT_G) eqn:EG; [|discriminate]. apply N.eqb_eq in EG. subst pt. cbn. rewrite Hkg. cbn.
      apply (PInv_stores k s _ HP). apply g_remove_many_p; [reflexivity|exact Hndg].
  - (* ORemoveFiltered *) destruct (pt =? PT_P) eqn:EP.
    + apply N.eqb_eq in EP. subst pt. cbn. unfold p_remove_filtered, i_remove_filtered, remove_filtered.
      destruct (split_filtered (get_store s PT_P) i vs) as [[kept gone]|c] eqn:E; [|exact HP].
      destruct (split_filtered_spec _ _ _ _ _ E) as [_ Hk]. subst kept.
      destruct gone; cbn [negb fst]; [apply PInv_filter; exact HP|].
      destruct (use_adapter k s); apply PInv_filter; exact HP.
    + destruct (pt =? PT_G) eqn:EG; [|discriminate]. apply N.eqb_eq in EG. subst pt. cbn. rewrite Hkg. cbn.
      apply (PInv_stores k s _ HP). apply g_remove_filtered_p. reflexivity.
  - (* OUpdate *) unfold prio_tok. rewrite Hprio, andb_false_r.
    rewrite (update_policy_spec _ o n (proj1 HP)). unfold spec_update.
    destruct (has_policy (m_p s) o && negb (has_policy (m_p s) n)) eqn:Hb; cbn [negb fst]; [|exact HP].
    assert (V : PInv k (set_store s PT_P (replace_rule o n (m_p s)))).
    { destruct HP as [H1 H2]. split; cbn.
      - pose proof (update_keeps_nodup (m_p s) o n H1) as Hn. unfold spec_update in Hn. rewrite Hb in Hn. exact Hn.
      - unfold wf_p in *. cbn. unfold replace_rule. rewrite Forall_forall in *. intros x Hx.
        apply in_map_iff in Hx. destruct Hx as [y [Hy Hin]]. destruct (rule_eqb y o); subst x;
          [apply Nat.eqb_eq; exact Hw|apply H2; exact Hin]. }
    destruct (use_adapter k s); exact V.
  - rewrite Hkg. apply (PInv_stores k s _ HP). apply g_add_p. reflexivity.
  - rewrite Hkg. apply (PInv_stores k s _ HP). apply g_remove_filtered_p. reflexivity.
  - destruct (negb (k_adapter k)); exact HP.
  - exact HP.
  - exact HP.
Qed.

(* ---------- C05 over histories ---------- *)
Theorem foreign_history k D : forall ops s,
  k_dom k = true -> k_prio k = false -> k_g k = true ->
  Inv k s -> PInv k s ->
  forallb (fun o => op_ok k o && op_foreign k D o && op_pwf k o) ops = true ->
  let s' := fst (run k s ops) in
  Inv k s' /\ PInv k s' /\ dom_view k D s s'.
Proof.
  induction ops as [|o ops IH]; intros s Hd Hp Hg HI HP Hok; cbn zeta.
  - split; [exact HI|]. split; [exact HP|apply dom_view_refl].
  - simpl in Hok. apply andb_true_iff in Hok. destruct Hok as [Ho Hops].
    apply andb_true_iff in Ho. destruct Ho as [Ho Hw]. apply andb_true_iff in Ho. destruct Ho as [Ho Hf].
    cbn [run]. unfold step_db.
    pose proof (step_inv k s o HI Ho) as H1.
    pose proof (foreign_step_pinv k D s o Hp Hg HI HP Hf Hw) as H2.
    pose proof (foreign_step_view k D s o Hp Hg HI (proj1 HP) Hf) as H3.
    destruct (step k s o) as [s1 out]. cbn [fst] in H1, H2, H3.
    set (s1' := match o with OSave => s1 | _ => set_db s1 (fold_left apply_acall (o_acalls out) (m_db s1)) end).
    assert (E : Inv k s1' /\ PInv k s1' /\ dom_view k D s s1').
    { unfold s1'. destruct o; (split; [try exact H1; apply Inv_set_db; exact H1|split; [exact H2|exact H3]]). }
    destruct E as [E1 [E2 E3]].
    replace (let '(s'0, out0) := (match o with OSave => (s1, out) | _ => (set_db s1 (fold_left apply_acall (o_acalls out) (m_db s1)), out) end) in
             let '(s'', outs) := run k s'0 ops in (s'', out0 :: outs))
      with (let '(s'', outs) := run k s1' ops in (s'', out :: outs)) by (unfold s1'; destruct o; reflexivity).
    specialize (IH s1' Hd Hp Hg E1 E2 Hops). cbn zeta in IH.
    destruct (run k s1' ops) as [s'' outs]. cbn [fst] in *.
    destruct IH as [I1 [I2 I3]]. split; [exact I1|]. split; [exact I2|].
    apply (dom_view_trans k D s s1' s''); assumption.
Qed.

(* the property: after ANY history of calls touching only other domains, every request of D is
   decided as before and every role query in D answers as before *)
Theorem foreign_history_preserves_decisions k D ops s req :
  k_dom k = true -> k_prio k = false -> k_g k = true ->
  Inv k s -> PInv k s ->
  forallb (fun o => op_ok k o && op_foreign k D o && op_pwf k o) ops = true ->
  fld req 1 = D -> D <> 0 ->
  let s' := fst (run k s ops) in
  decision_of (snd (enforce_ex_m k s req)) = decision_of (snd (enforce_ex_m k s' req))
  /\ forall u, fst (rmk_get_roles (m_rm s) u D) = fst (rmk_get_roles (m_rm s') u D)
            /\ fst (rmk_get_users (m_rm s) u D) = fst (rmk_get_users (m_rm s') u D).
Proof.
  intros Hd Hp Hg HI HP Hok HD HD0 s'.
  destruct (foreign_history k D ops s Hd Hp Hg HI HP Hok) as [HI' [HP' Hv]]. fold s' in HI', HP', Hv.
  split.
  - apply (domain_isolation k Hd s s' D req HI HI' (proj2 HP) (proj2 HP') Hv HD HD0).
  - intro u. apply (domain_role_queries k Hd s s' D u HI HI'). destruct Hv as [_ [Hgl _]]. exact Hgl.
Qed.

(* domain-scoped permission queries only report rules recorded for that domain *)
Theorem scoped_permissions_in_domain : forall l u d out,
  get_filtered l 0 [u; d] = Ok out -> d <> 0 -> forall r, In r out -> nth_error r 1 = Some d /\ In r l.
Proof.
  intros l u d out H Hd r Hr. destruct (proj1 (get_filtered_exact l 0 [u; d] out H r) Hr) as [Hin Hs].
  split; [|exact Hin]. apply (Hs 1%nat d eq_refl Hd).
Qed.
