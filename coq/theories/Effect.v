(* Effect.v — vocabulary of effect combination (C01 C07 C08 C19): effects, effect sets, the
   per-rule outcomes the rule loop can observe, the hand-written REFERENCE semantics of the four
   effectors, and the SPEC of a decision (which never mentions the loop, the set or early exit). *)
From Coq Require Import List NArith Bool.
From PyCasbin Require Import Base.
Import ListNotations.

Inductive eff := Allow | Indet | Deny.

(* Python's `policy_effects = set()` over three possible members *)
Record effset := { hasA : bool; hasI : bool; hasD : bool }.
Definition empty_set := {| hasA := false; hasI := false; hasD := false |}.
Definition add_eff (e : eff) (s : effset) : effset :=
  match e with
  | Allow => {| hasA := true; hasI := hasI s; hasD := hasD s |}
  | Indet => {| hasA := hasA s; hasI := true; hasD := hasD s |}
  | Deny => {| hasA := hasA s; hasI := hasI s; hasD := true |}
  end.

Inductive effector := AO | DO | AD | PR.

(* reference semantics, written from the documentation of the four effect expressions *)
Definition intermediate_ref (e : effector) (s : effset) : eff :=
  match e with
  | AO => if hasA s then Allow else Indet
  | DO => if hasD s then Deny else Indet
  | AD => if hasD s then Deny else Indet
  | PR => if hasA s then Allow else if hasD s then Deny else Indet
  end.
Definition final_ref (e : effector) (s : effset) : eff :=
  match e with
  | AO => if hasA s then Allow else Deny
  | DO => if hasD s then Deny else Allow
  | AD => if hasD s then Deny else if hasA s then Allow else Deny
  | PR => if hasA s then Allow else Deny
  end.
Definition eff_bool (e : eff) : option bool :=
  match e with Allow => Some true | Deny => Some false | Indet => None end.

(* what the rule loop observes per rule *)
Inductive reft := EAllow | EDeny | EOther.   (* the rule's effect column: "allow", "deny", anything else *)
Inductive outcome :=
| NoMatch                (* matcher false (or float 0) *)
| Match (e : reft)       (* matcher true (or non-zero float); models without an effect column: Match EAllow *)
| BadSize                (* rule length differs from the policy definition -> "invalid policy size" *)
| BadType.               (* matcher value neither bool nor float -> "matcher result should be ..." *)

Definition eff_of (r : reft) : eff :=
  match r with EAllow => Allow | EDeny => Deny | EOther => Indet end.

Definition is_allow o := match o with Match EAllow => true | _ => false end.
Definition is_deny o := match o with Match EDeny => true | _ => false end.
Definition is_bad o := match o with BadSize | BadType => true | _ => false end.
Definition decisive_out o := is_allow o || is_deny o.

(* ---------- SPEC (C01) ---------- *)
Fixpoint first_decisive (outs : list outcome) : bool :=
  match outs with
  | [] => false
  | Match EAllow :: _ => true
  | Match EDeny :: _ => false
  | _ :: r => first_decisive r
  end.

Definition spec_decision (e : effector) (outs : list outcome) : bool :=
  match e with
  | AO => existsb is_allow outs
  | DO => negb (existsb is_deny outs)
  | AD => existsb is_allow outs && negb (existsb is_deny outs)
  | PR => first_decisive outs
  end.

(* ---------- SPEC (C08): which rule explains ---------- *)
(* a rule is "deciding" for effector e when it alone makes the loop's running verdict definite *)
Definition deciding (e : effector) (o : outcome) : bool :=
  match e with
  | AO => is_allow o
  | DO => is_deny o
  | AD => is_deny o
  | PR => is_allow o || is_deny o
  end.

Fixpoint first_index (f : outcome -> bool) (outs : list outcome) : option nat :=
  match outs with
  | [] => None
  | o :: r => if f o then Some O else option_map S (first_index f r)
  end.

Definition spec_explain (e : effector) (outs : list outcome) : option nat :=
  first_index (deciding e) outs.

(* the prefix the loop can reach: up to (excluding) the first deciding rule; an error is visible
   only if it sits in that prefix *)
Fixpoint error_before_decision (e : effector) (outs : list outcome) : option N :=
  match outs with
  | [] => None
  | BadSize :: _ => Some EPolicySize
  | BadType :: _ => Some EMatcherType
  | o :: r => if deciding e o then None else error_before_decision e r
  end.

(* wire encodings *)
Definition effector_of_N (n : N) : option effector :=
  match n with 0%N => Some AO | 1%N => Some DO | 2%N => Some AD | 3%N => Some PR | _ => None end.
Definition outcome_of_N (n : N) : option outcome :=
  match n with
  | 0%N => Some NoMatch | 1%N => Some (Match EAllow) | 2%N => Some (Match EDeny)
  | 3%N => Some (Match EOther) | 4%N => Some BadSize | 5%N => Some BadType | _ => None
  end.

(* ---------- the five documented policy-effect expressions (Casbin syntax docs), spelled by hand;
   code points of the ASCII text in the comment above each ---------- *)
(* some(where (p_eft == allow)) *)
Definition doc_allow_override : str := [115; 111; 109; 101; 40; 119; 104; 101; 114; 101; 32; 40; 112; 95; 101; 102; 116; 32; 61; 61; 32; 97; 108; 108; 111; 119; 41; 41]%N.
(* !some(where (p_eft == deny)) *)
Definition doc_deny_override : str := [33; 115; 111; 109; 101; 40; 119; 104; 101; 114; 101; 32; 40; 112; 95; 101; 102; 116; 32; 61; 61; 32; 100; 101; 110; 121; 41; 41]%N.
(* some(where (p_eft == allow)) && !some(where (p_eft == deny)) *)
Definition doc_allow_and_deny : str := [115; 111; 109; 101; 40; 119; 104; 101; 114; 101; 32; 40; 112; 95; 101; 102; 116; 32; 61; 61; 32; 97; 108; 108; 111; 119; 41; 41; 32; 38; 38; 32; 33; 115; 111; 109; 101; 40; 119; 104; 101; 114; 101; 32; 40; 112; 95; 101; 102; 116; 32; 61; 61; 32; 100; 101; 110; 121; 41; 41]%N.
(* priority(p_eft) || deny *)
Definition doc_priority : str := [112; 114; 105; 111; 114; 105; 116; 121; 40; 112; 95; 101; 102; 116; 41; 32; 124; 124; 32; 100; 101; 110; 121]%N.
(* subjectPriority(p_eft) || deny *)
Definition doc_subject_priority : str := [115; 117; 98; 106; 101; 99; 116; 80; 114; 105; 111; 114; 105; 116; 121; 40; 112; 95; 101; 102; 116; 41; 32; 124; 124; 32; 100; 101; 110; 121]%N.
Definition documented : list (str * effector) :=
  [ (doc_allow_override, AO); (doc_deny_override, DO); (doc_allow_and_deny, AD); (doc_priority, PR); (doc_subject_priority, PR) ].
