(* EnfLang.v — a small language for the DECISION KERNEL of CoreEnforcer.enforce_ex (casbin/core_enforcer.py): the
   disabled shortcut, the request-size check, the loop over the rules (size check, the matcher's value classified as
   bool / float / other, the rule's effect, the running effect set, the effector's intermediate verdict, explain index,
   continue / break), the empty-policy branch, the final effect and the explanation.  translators/enforce.py renders that
   part of the Python source into this syntax on every run (coq/gen/EnforceGen.v); EnforceSrcTie.v proves that the
   interpreter run on the regenerated program computes Enforce.enforce_ex - the function the C01 / C08 theorems are about.

   Abstracted (NOT translated; the translator skips exactly the assignments to these names and says so): how the matcher
   expression is built and evaluated (function table, g closures, EnforceContext unpacking, token dictionaries, eval()
   substitution) - the value `expression.eval(parameters)` yields for rule i is an INPUT of the interpreter (the per-rule
   record below), as it is an input (the outcome list) of Enforce.v; which effector object is used (the three effector
   functions are parameters, tied to casbin/effect/*.py by EffectorsGen / EnforceTie); logging. *)
From Coq Require Import List NArith ZArith Bool.
From PyCasbin Require Import Base Effect.
Import ListNotations.
Local Open Scope N_scope.

(* what the matcher evaluated to *)
Inductive rvalue := RBool (b : bool) | RFloat (nonzero : bool) | ROther (truthy : bool).
(* one stored rule as the kernel sees it *)
Record rulerec := { rr_size_ok : bool; rr_res : rvalue; rr_eft : option reft }.

Record eenv := {
  en_enabled : bool;
  en_model_ok : bool;              (* "m" in model and "m" in model["m"] *)
  en_arity_ok : bool;              (* len(r_tokens) == len(rvals) *)
  en_has_eval : bool;
  en_rules : list rulerec;
  en_empty_res : rvalue            (* the matcher on all-empty rule fields (empty-policy branch) *)
}.

Inductive ev :=
| VB (b : bool) | VZ (z : Z) | VSet (s : effset) | VEff (e : eff) | VRes (r : rvalue) | VStr (c : option reft)
| VRule (i : option nat)           (* [] or policy[i] *)
| VPair (a b : ev) | VNone.

Inductive cmp2 := KEq | KNe | KLt.

Inductive eex : Type :=
| EVar (x : N)
| EInt (z : Z) | EBool (b : bool)
| EEmptySet | EEmptyList
| ENot (a : eex) | EAnd (a b : eex)
| ECmp (op : cmp2) (a b : eex)
| EEnabled | EModelUndefined | EArityMismatch | EHasEval
| EPolicyLen
| ESizeMismatch                   (* len(p_tokens) != len(pvals) for the current rule *)
| EEvalRule                       (* expression.eval(parameters): for the current rule inside the loop; outside it (empty-policy
                                     branch) with every policy token bound to "" *)
| EIsBool (a : eex) | EIsFloat (a : eex)
| EHasEft                         (* <ptype>_eft in parameters *)
| EEft                            (* parameters[<ptype>_eft] *)
| EStrLit (c : option reft)       (* "allow" / "deny" / any other literal *)
| EEffConst (e : eff)
| EIntermediate (a : eex) | EFinal (a : eex) | EToBool (a : eex)
| EPolicyAt (a : eex)
| ETuple (a b : eex).

Inductive est : Type :=
| SAssign (x : N) (e : eex)
| SSetAdd (x : N) (e : eex)
| SIf (c : eex) (a b : list est)
| SForRules (i : N) (body : list est)          (* for i, pvals in enumerate(policy) *)
| SContinue | SBreak
| SRaise (code : N)
| SReturn (e : eex).

Inductive eout := ONext (l : list (N * ev)) | OCont (l : list (N * ev)) | OBrk (l : list (N * ev))
                | ORet (v : ev) | OErr (c : N).

Fixpoint elookup (x : N) (l : list (N * ev)) : option ev :=
  match l with [] => None | (y, v) :: r => if x =? y then Some v else elookup x r end.
Fixpoint eupd (x : N) (v : ev) (l : list (N * ev)) : list (N * ev) :=
  match l with
  | [] => [(x, v)]
  | (y, w) :: r => if x =? y then (y, v) :: r else (y, w) :: eupd x v r
  end.

Definition etruth (v : ev) : result bool :=
  match v with
  | VB b => Ok b
  | VRes (RBool b) => Ok b
  | VRes (RFloat nz) => Ok nz
  | VRes (ROther t) => Ok t
  | VZ z => Ok (negb (z =? 0)%Z)
  | VNone => Ok false
  | _ => Err 90
  end.

Definition eff_eqb (a b : eff) : bool :=
  match a, b with Allow, Allow | Indet, Indet | Deny, Deny => true | _, _ => false end.
Definition reft_eqb (a b : option reft) : bool :=
  match a, b with
  | Some EAllow, Some EAllow | Some EDeny, Some EDeny => true
  | _, _ => false                   (* two "other" strings are not known to be equal; never compared by the kernel *)
  end.

Section Interp.
  Variable im : effset -> eff.
  Variable fi : effset -> eff.
  Variable tb : eff -> option bool.
  Variable E : eenv.

  (* cur: the rule the loop is at (None outside the loop) *)
  Fixpoint eeval (n : nat) (cur : option rulerec) (l : list (N * ev)) (e : eex) {struct n} : result ev :=
    match n with
    | O => Err EFuel
    | S n' =>
      let ev' := eeval n' cur l in
      match e with
      | EVar x => match elookup x l with Some v => Ok v | None => Err EName end
      | EInt z => Ok (VZ z)
      | EBool b => Ok (VB b)
      | EEmptySet => Ok (VSet empty_set)
      | EEmptyList => Ok (VRule None)
      | ENot a => rbind (ev' a) (fun v => rbind (etruth v) (fun b => Ok (VB (negb b))))
      | EAnd a b => rbind (ev' a) (fun v => rbind (etruth v) (fun x => if x then ev' b else Ok (VB false)))
      | ECmp op a b =>
          rbind (ev' a) (fun va => rbind (ev' b) (fun vb =>
            match op, va, vb with
            | KEq, VZ x, VZ y => Ok (VB (x =? y)%Z)
            | KNe, VZ x, VZ y => Ok (VB (negb (x =? y)%Z))
            | KLt, VZ x, VZ y => Ok (VB (x <? y)%Z)
            | KEq, VZ 0%Z, VRes (RFloat nz) | KEq, VRes (RFloat nz), VZ 0%Z => Ok (VB (negb nz))
            | KEq, VStr x, VStr y => Ok (VB (reft_eqb x y))
            | KNe, VEff x, VEff y => Ok (VB (negb (eff_eqb x y)))
            | KEq, VEff x, VEff y => Ok (VB (eff_eqb x y))
            | _, _, _ => Err 90
            end))
      | EEnabled => Ok (VB (en_enabled E))
      | EModelUndefined => Ok (VB (negb (en_model_ok E)))
      | EArityMismatch => Ok (VB (negb (en_arity_ok E)))
      | EHasEval => Ok (VB (en_has_eval E))
      | EPolicyLen => Ok (VZ (Z.of_nat (length (en_rules E))))
      | ESizeMismatch => match cur with Some r => Ok (VB (negb (rr_size_ok r))) | None => Err EName end
      | EEvalRule => match cur with Some r => Ok (VRes (rr_res r)) | None => Ok (VRes (en_empty_res E)) end
      | EIsBool a => rbind (ev' a) (fun v => match v with VRes (RBool _) => Ok (VB true) | VRes _ => Ok (VB false) | _ => Err 90 end)
      | EIsFloat a => rbind (ev' a) (fun v => match v with VRes (RFloat _) => Ok (VB true) | VRes _ => Ok (VB false) | _ => Err 90 end)
      | EHasEft => match cur with Some r => Ok (VB (match rr_eft r with Some _ => true | None => false end)) | None => Err EName end
      | EEft => match cur with Some r => match rr_eft r with Some c => Ok (VStr (Some c)) | None => Err EKeyError end | None => Err EName end
      | EStrLit c => Ok (VStr c)
      | EEffConst x => Ok (VEff x)
      | EIntermediate a => rbind (ev' a) (fun v => match v with VSet s => Ok (VEff (im s)) | _ => Err 90 end)
      | EFinal a => rbind (ev' a) (fun v => match v with VSet s => Ok (VEff (fi s)) | _ => Err 90 end)
      | EToBool a => rbind (ev' a) (fun v => match v with
                                            | VEff x => match tb x with Some b => Ok (VB b) | None => Err ERuntime end
                                            | _ => Err 90 end)
      | EPolicyAt a => rbind (ev' a) (fun v => match v with
                                               | VZ z => if (z <? 0)%Z then Err 90
                                                         else if (z <? Z.of_nat (length (en_rules E)))%Z then Ok (VRule (Some (Z.to_nat z)))
                                                         else Err EIndex
                                               | _ => Err 90 end)
      | ETuple a b => rbind (ev' a) (fun va => rbind (ev' b) (fun vb => Ok (VPair va vb)))
      end
    end.

  (* the loop over the rules, structural in the list: index k, locals l *)
  Fixpoint for_rules (f : nat -> rulerec -> list (N * ev) -> eout) (rs : list rulerec) (k : nat) (l : list (N * ev)) : eout :=
    match rs with
    | [] => ONext l
    | r :: rest => match f k r l with
                   | ONext l' | OCont l' => for_rules f rest (S k) l'
                   | OBrk l' => ONext l'
                   | o => o
                   end
    end.

  Fixpoint eexec (n : nat) (cur : option rulerec) (l : list (N * ev)) (c : est) {struct n} : eout :=
    match n with
    | O => OErr EFuel
    | S n' =>
      match c with
      | SAssign x e => match eeval n' cur l e with Ok v => ONext (eupd x v l) | Err c => OErr c end
      | SSetAdd x e =>
          match elookup x l, eeval n' cur l e with
          | Some (VSet s), Ok (VEff a) => ONext (eupd x (VSet (add_eff a s)) l)
          | _, Err c => OErr c
          | _, _ => OErr 90
          end
      | SIf c a b =>
          match rbind (eeval n' cur l c) etruth with
          | Ok true => eblock n' cur l a
          | Ok false => eblock n' cur l b
          | Err c => OErr c
          end
      | SForRules i body =>
          for_rules (fun k r l' => eblock n' (Some r) (eupd i (VZ (Z.of_nat k)) l') body) (en_rules E) 0%nat l
      | SContinue => OCont l
      | SBreak => OBrk l
      | SRaise code => OErr code
      | SReturn e => match eeval n' cur l e with Ok v => ORet v | Err c => OErr c end
      end
    end
  with eblock (n : nat) (cur : option rulerec) (l : list (N * ev)) (b : list est) {struct n} : eout :=
    match n with
    | O => OErr EFuel
    | S n' =>
      match b with
      | [] => ONext l
      | c :: r => match eexec n' cur l c with ONext l' => eblock n' cur l' r | o => o end
      end
    end.

  (* result of the kernel: (decision, index of the explaining rule) or an exception *)
  Definition erun (n : nat) (locals : list N) (body : list est) : result (bool * option nat) :=
    match eblock n None (map (fun x => (x, VNone)) locals) body with
    | ORet (VPair (VB b) (VRule i)) => Ok (b, i)
    | ORet _ => Err 90
    | OErr c => Err c
    | _ => Err 90
    end.
End Interp.
