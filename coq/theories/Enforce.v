(* Enforce.v — executable model of CoreEnforcer.enforce_ex (casbin/core_enforcer.py:382-524) at the
   level of per-rule outcomes.  The effector functions are PARAMETERS here; the instance used by the
   oracle plugs in the functions regenerated from casbin/effect/*.py (PyCasbinGen.EffectorsGen). *)
From Coq Require Import List NArith Bool.
From PyCasbin Require Import Base Effect.
Import ListNotations.

Record cfg := { enabled : bool; arity_ok : bool }.

Section Loop.
  Variable im : effset -> eff.          (* eft.intermediate_effect *)
  Variable fi : effset -> eff.          (* eft.final_effect *)
  Variable tb : eff -> option bool.     (* effect_to_bool; None = raises *)

  (* lines 444-486: for i, pvals in enumerate(policy) ... *)
  Fixpoint walk (outs : list outcome) (i : nat) (s : effset) : result (effset * option nat) :=
    match outs with
    | [] => Ok (s, None)
    | BadSize :: _ => Err EPolicySize                       (* 447-448 *)
    | BadType :: _ => Err EMatcherType                      (* 469-470 *)
    | NoMatch :: rest => walk rest (S i) (add_eff Indet s)  (* 461-468: add INDETERMINATE; continue *)
    | Match r :: rest =>
        let s' := add_eff (eff_of r) s in                   (* 472-482 *)
        match im s' with                                    (* 484-486 *)
        | Indet => walk rest (S i) s'
        | _ => Ok (s', Some i)
        end
    end.

  Definition enforce_ex (c : cfg) (outs : list outcome) (empty_match : bool)
    : result (bool * option nat) :=
    if negb (enabled c) then Ok (true, None)                (* 400-401 *)
    else if negb (arity_ok c) then Err EArity               (* 430-431 *)
    else
      let r := match outs with
               | [] => Ok (add_eff (if empty_match then Allow else Indet) empty_set, None) (* 488-502 *)
               | _ => walk outs 0 empty_set
               end in
      rbind r (fun se =>
        match tb (fi (fst se)) with                         (* 504-505 *)
        | Some b => Ok (b, snd se)                          (* 520-524: index < policy_len always *)
        | None => Err ERuntime
        end).

  Definition enforce (c : cfg) (outs : list outcome) (empty_match : bool) : result bool :=
    rbind (enforce_ex c outs empty_match) (fun p => Ok (fst p)).
End Loop.

