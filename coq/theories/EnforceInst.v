(* EnforceInst.v — the enforce model instantiated with the effector code regenerated from
   casbin/effect/*.py, plus the oracle entry points for C01/C08. *)
From Coq Require Import List NArith Bool.
From PyCasbin Require Import Base Effect Enforce.
From PyCasbinGen Require Import EffectorsGen.
Import ListNotations.

(* get_effector(expr): first table row whose string equals expr *)
Fixpoint lookup_effector (tbl : list (str * eclass)) (s : str) : option eclass :=
  match tbl with
  | [] => None
  | (k, c) :: r => if str_eqb s k then Some c else lookup_effector r s
  end.

Definition get_effector (s : str) : option eclass := lookup_effector effector_table s.

Definition enforce_ex_gen (c : eclass) : cfg -> list outcome -> bool -> result (bool * option nat) :=
  enforce_ex (intermediate_gen c) (final_gen c) effect_to_bool_gen.

(* model of: build an Enforcer from a model whose [policy_effect] is the string s, then enforce_ex *)
Definition enforce_ex_str (s : str) (c : cfg) (outs : list outcome) (empty_match : bool)
  : result (bool * option nat) :=
  match get_effector s with
  | None => Err EUnsupportedEffect
  | Some cl => enforce_ex_gen cl c outs empty_match
  end.

(* ---- oracle: tag 1 = model, tag 2 = spec ---- *)
Definition oracle_C01 (tag : N) (v : val) : val :=
  match tag, v with
  | 1%N, VL [es; en; ar; outs; em] =>
      match as_str es, as_bool en, as_bool ar, as_listof (fun x => match as_N x with Some n => outcome_of_N n | None => None end) outs, as_bool em with
      | Some es, Some en, Some ar, Some outs, Some em =>
          vres (vpair vbool (vopt vnat))
               (enforce_ex_str es {| enabled := en; arity_ok := ar |} outs em)
      | _, _, _, _, _ => vbad
      end
  | 2%N, VL [VN e; outs] =>
      match effector_of_N e, as_listof (fun x => match as_N x with Some n => outcome_of_N n | None => None end) outs with
      | Some e, Some outs =>
          VL [vbool (spec_decision e outs); vopt vnat (spec_explain e outs);
              vopt VN (error_before_decision e outs)]
      | _, _ => vbad
      end
  | _, _ => vbad
  end.
