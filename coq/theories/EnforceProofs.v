(* EnforceProofs.v — lemmas about the rule loop (C01 C08, reused by C05 C07 C19). *)
From Coq Require Import List NArith Bool Arith Lia Permutation.
From PyCasbin Require Import Base Effect Enforce.
Import ListNotations.

(* ---------- the loop only depends on the effector pointwise ---------- *)
Lemma walk_ext (im im' : effset -> eff) :
  (forall s, im s = im' s) -> forall outs i s, walk im outs i s = walk im' outs i s.
Proof.
  intros H outs. induction outs as [|o outs IH]; intros i s; [reflexivity|].
  destruct o as [|r| |]; simpl; try reflexivity; [apply IH|].
  rewrite <- H. destruct (im (add_eff (eff_of r) s)); [reflexivity|apply IH|reflexivity].
Qed.

Lemma enforce_ex_ext (im im' fi fi' : effset -> eff) tb :
  (forall s, im s = im' s) -> (forall s, fi s = fi' s) ->
  forall c outs em, enforce_ex im fi tb c outs em = enforce_ex im' fi' tb c outs em.
Proof.
  intros H1 H2 c outs em. unfold enforce_ex.
  destruct (negb (enabled c)); [reflexivity|]. destruct (negb (arity_ok c)); [reflexivity|].
  destruct outs as [|o outs].
  - simpl. rewrite H2. reflexivity.
  - rewrite (walk_ext im im' H1). destruct (walk im' (o :: outs) 0 empty_set) as [[s ex]|c0]; simpl;
      [rewrite H2|]; reflexivity.
Qed.

(* ---------- spec generalised over the set accumulated so far ---------- *)
Definition spec_from (e : effector) (s : effset) (outs : list outcome) : bool :=
  match e with
  | AO => existsb is_allow outs
  | DO => negb (existsb is_deny outs)
  | AD => (hasA s || existsb is_allow outs) && negb (existsb is_deny outs)
  | PR => first_decisive outs
  end.

(* full characterisation of the loop under the reference effectors *)
Lemma walk_char (e : effector) : forall outs i s,
  intermediate_ref e s = Indet ->
  match error_before_decision e outs with
  | Some c => walk (intermediate_ref e) outs i s = Err c
  | None =>
      exists s', walk (intermediate_ref e) outs i s
                 = Ok (s', option_map (fun k => i + k) (spec_explain e outs))
              /\ eff_bool (final_ref e s') = Some (spec_from e s outs)
  end.
Proof.
  induction outs as [|o outs IH]; intros i s Hs.
  - simpl. exists s. split; [reflexivity|].
    destruct e, s as [a b d]; simpl in *; destruct a, d; simpl in *; try discriminate; reflexivity.
  - destruct o as [|r| |].
    + (* NoMatch *)
      assert (Hd : deciding e NoMatch = false) by (destruct e; reflexivity).
      simpl error_before_decision. rewrite Hd.
      specialize (IH (S i) (add_eff Indet s)).
      assert (Hs' : intermediate_ref e (add_eff Indet s) = Indet)
        by (destruct e, s as [a b d]; simpl in *; exact Hs).
      specialize (IH Hs').
      destruct (error_before_decision e outs) as [c|].
      * simpl. exact IH.
      * destruct IH as [s' [Hw Hf]]. exists s'. split.
        -- cbn [walk]. rewrite Hw. unfold spec_explain. simpl first_index. rewrite Hd.
           destruct (first_index (deciding e) outs); simpl; [f_equal; f_equal; f_equal; lia|reflexivity].
        -- rewrite Hf. destruct e, s as [a b d]; reflexivity.
    + (* Match r *)
      simpl error_before_decision.
      destruct (deciding e (Match r)) eqn:Hd.
      * (* this rule decides: the loop stops here *)
        exists (add_eff (eff_of r) s). split.
        -- cbn [walk]. unfold spec_explain. simpl first_index. rewrite Hd. simpl.
           replace (i + 0) with i by lia.
           destruct e, r, s as [a b d]; simpl in *; destruct a, d; simpl in *;
             try discriminate; reflexivity.
        -- destruct e, r, s as [a b d]; simpl in *; destruct a, d; simpl in *;
             try discriminate; try reflexivity; rewrite ?orb_true_r, ?andb_false_r; reflexivity.
      * assert (Hs' : intermediate_ref e (add_eff (eff_of r) s) = Indet)
          by (destruct e, r, s as [a b d]; simpl in *; destruct a, d; simpl in *;
              try discriminate; reflexivity).
        specialize (IH (S i) (add_eff (eff_of r) s) Hs').
        destruct (error_before_decision e outs) as [c|].
        -- cbn [walk]. rewrite Hs'. exact IH.
        -- destruct IH as [s' [Hw Hf]]. exists s'. split.
           ++ cbn [walk]. rewrite Hs'. rewrite Hw. unfold spec_explain. simpl first_index. rewrite Hd.
              destruct (first_index (deciding e) outs); simpl; [f_equal; f_equal; f_equal; lia|reflexivity].
           ++ rewrite Hf. destruct e, r, s as [a b d]; simpl in *; destruct a, d; simpl in *;
                try discriminate; reflexivity.
    + simpl. reflexivity.
    + simpl. reflexivity.
Qed.

Definition on : cfg := {| enabled := true; arity_ok := true |}.

Definition enforce_ex_ref (e : effector) :=
  enforce_ex (intermediate_ref e) (final_ref e) eff_bool.

(* C01 + C08 in one statement, for a non-empty policy *)
Theorem enforce_ex_ref_char (e : effector) (outs : list outcome) (em : bool) :
  outs <> [] ->
  enforce_ex_ref e on outs em =
  match error_before_decision e outs with
  | Some c => Err c
  | None => Ok (spec_decision e outs, spec_explain e outs)
  end.
Proof.
  intro Hne. unfold enforce_ex_ref, enforce_ex. simpl.
  destruct outs as [|o outs]; [contradiction|].
  pose proof (walk_char e (o :: outs) 0 empty_set) as H.
  assert (H0 : intermediate_ref e empty_set = Indet) by (destruct e; reflexivity).
  specialize (H H0).
  destruct (error_before_decision e (o :: outs)) as [c|].
  - rewrite H. reflexivity.
  - destruct H as [s' [Hw Hf]]. rewrite Hw. simpl. rewrite Hf.
    replace (spec_from e empty_set (o :: outs)) with (spec_decision e (o :: outs))
      by (destruct e; reflexivity).
    f_equal. f_equal. destruct (spec_explain e (o :: outs)); simpl; reflexivity.
Qed.

(* empty policy: the matcher is judged once against empty rule fields *)
Theorem enforce_ex_ref_empty (e : effector) (em : bool) :
  enforce_ex_ref e on [] em = Ok (match e with DO => true | _ => em end, None).
Proof. destruct e, em; reflexivity. Qed.

Theorem disabled_allows im fi tb (c : cfg) outs em :
  enabled c = false -> enforce_ex im fi tb c outs em = Ok (true, None).
Proof. intro H. unfold enforce_ex. rewrite H. reflexivity. Qed.

Theorem arity_raises im fi tb (c : cfg) outs em :
  enabled c = true -> arity_ok c = false -> enforce_ex im fi tb c outs em = Err EArity.
Proof. intros H1 H2. unfold enforce_ex. rewrite H1, H2. reflexivity. Qed.

Theorem enforce_is_fst_enforce_ex im fi tb c outs em :
  enforce im fi tb c outs em
  = match enforce_ex im fi tb c outs em with Ok p => Ok (fst p) | Err c => Err c end.
Proof. reflexivity. Qed.

(* ---------- facts about the spec itself ---------- *)
Lemma first_index_sound (f : outcome -> bool) : forall outs i,
  first_index f outs = Some i ->
  i < length outs /\ (exists o, nth_error outs i = Some o /\ f o = true)
  /\ forall j o', j < i -> nth_error outs j = Some o' -> f o' = false.
Proof.
  induction outs as [|o outs IH]; intros i H; [discriminate|].
  simpl in H. destruct (f o) eqn:Hf.
  - inversion H; subst. simpl. split; [lia|]. split; [exists o; auto|]. intros j o' Hj; lia.
  - destruct (first_index f outs) as [k|] eqn:Hk; [|discriminate]. simpl in H. inversion H; subst.
    destruct (IH k eq_refl) as [H1 [H2 H3]]. simpl. split; [lia|]. split; [exact H2|].
    intros j o' Hj Hn. destruct j as [|j]; simpl in Hn.
    + inversion Hn; subst. exact Hf.
    + apply (H3 j); [lia|exact Hn].
Qed.

Lemma first_index_none (f : outcome -> bool) : forall outs,
  first_index f outs = None <-> existsb f outs = false.
Proof.
  induction outs as [|o outs IH]; simpl; [tauto|].
  destruct (f o); simpl; [split; discriminate|].
  destruct (first_index f outs) as [k|]; simpl.
  - split; [discriminate|]. intro H. apply IH in H. discriminate.
  - split; [intros _; apply IH; reflexivity | reflexivity].
Qed.

Lemma first_decisive_char : forall outs,
  first_decisive outs =
  match first_index decisive_out outs with
  | Some i => match nth_error outs i with Some o => is_allow o | None => false end
  | None => false
  end.
Proof.
  induction outs as [|o outs IH]; [reflexivity|].
  destruct o as [|[]| |]; simpl; try reflexivity;
    rewrite IH; destruct (first_index decisive_out outs); reflexivity.
Qed.

(* the explaining rule's own effect IS the decision *)
Theorem explain_effect_is_decision (e : effector) : forall outs i,
  spec_explain e outs = Some i ->
  exists o, nth_error outs i = Some o /\ deciding e o = true /\ is_allow o = spec_decision e outs.
Proof.
  intros outs i H. unfold spec_explain in H.
  destruct (first_index_sound _ _ _ H) as [_ [[o [Hn Hd]] _]].
  exists o. split; [exact Hn|]. split; [exact Hd|].
  assert (Hin : In o outs) by (eapply nth_error_In; exact Hn).
  destruct e; simpl in *.
  - rewrite Hd. symmetry. apply existsb_exists. exists o. split; assumption.
  - assert (Hx : existsb is_deny outs = true) by (apply existsb_exists; exists o; split; assumption).
    rewrite Hx. destruct o as [|[]| |]; simpl in *; try discriminate; reflexivity.
  - assert (Hx : existsb is_deny outs = true) by (apply existsb_exists; exists o; split; assumption).
    rewrite Hx, andb_false_r. destruct o as [|[]| |]; simpl in *; try discriminate; reflexivity.
  - rewrite first_decisive_char. change (first_index decisive_out outs) with (first_index (deciding PR) outs).
    rewrite H, Hn. reflexivity.
Qed.

(* default/explanation relation, stated exactly (AD's allow carries no explanation in this code) *)
Theorem explain_none_iff (e : effector) : forall outs,
  spec_explain e outs = None <-> existsb (deciding e) outs = false.
Proof. intros outs. apply first_index_none. Qed.

Theorem explain_none_decision (e : effector) : forall outs,
  spec_explain e outs = None ->
  spec_decision e outs =
  match e with AO => false | DO => true | AD => existsb is_allow outs | PR => false end.
Proof.
  intros outs H. apply explain_none_iff in H. destruct e.
  - exact H.
  - change (existsb is_deny outs = false) in H. simpl. rewrite H. reflexivity.
  - change (existsb is_deny outs = false) in H. simpl. rewrite H. apply andb_true_r.
  - simpl. rewrite first_decisive_char.
    replace (first_index decisive_out outs) with (@None nat); [reflexivity|].
    symmetry. apply first_index_none. exact H.
Qed.

Theorem explain_complete (e : effector) : forall outs,
  ((e = AO \/ e = PR) /\ spec_decision e outs = true)
  \/ ((e = DO \/ e = AD) /\ existsb is_deny outs = true)
  \/ (e = PR /\ existsb decisive_out outs = true) ->
  spec_explain e outs <> None.
Proof.
  intros outs H Hn. apply explain_none_iff in Hn.
  destruct H as [[[He|He] Hd]|[[[He|He] Hd]|[He Hd]]]; subst.
  - simpl in Hd. change (existsb is_allow outs = false) in Hn. congruence.
  - simpl in Hd. rewrite first_decisive_char in Hd.
    replace (first_index decisive_out outs) with (@None nat) in Hd; [discriminate|].
    symmetry. apply first_index_none. exact Hn.
  - change (existsb is_deny outs = false) in Hn. congruence.
  - change (existsb is_deny outs = false) in Hn. congruence.
  - change (existsb decisive_out outs = false) in Hn. congruence.
Qed.

(* rules whose effect is neither allow nor deny never decide; non-matching rules neither *)
Definition inert (o : outcome) : bool :=
  match o with NoMatch | Match EOther => true | _ => false end.

Theorem inert_never_decides (e : effector) : forall l1 o l2,
  inert o = true -> spec_decision e (l1 ++ o :: l2) = spec_decision e (l1 ++ l2).
Proof.
  intros l1 o l2 Ho. destruct e; simpl; rewrite ?existsb_app; simpl;
    try (destruct o as [|[]| |]; simpl in *; try discriminate; reflexivity).
  induction l1 as [|x l1 IH]; simpl.
  - destruct o as [|[]| |]; simpl in *; try discriminate; reflexivity.
  - destruct x as [|[]| |]; try reflexivity; exact IH.
Qed.

(* order is significant only for priority *)
Lemma existsb_perm {A} (f : A -> bool) l l' : Permutation l l' -> existsb f l = existsb f l'.
Proof.
  induction 1; simpl; try congruence.
  - destruct (f x), (f y); reflexivity.
Qed.

Theorem order_irrelevant (e : effector) outs outs' :
  e <> PR -> Permutation outs outs' -> spec_decision e outs = spec_decision e outs'.
Proof.
  intros He Hp. destruct e; simpl; try contradiction;
    rewrite ?(existsb_perm is_allow _ _ Hp), ?(existsb_perm is_deny _ _ Hp); reflexivity.
Qed.

(* ---------- non-matching rules can be inserted or deleted freely (C05, C19) ---------- *)
Definition is_nomatch (o : outcome) : bool := match o with NoMatch => true | _ => false end.
Definition no_bad (outs : list outcome) : bool := forallb (fun o => negb (is_bad o)) outs.

Lemma existsb_drop_nomatch (f : outcome -> bool) : f NoMatch = false -> forall outs,
  existsb f (filter (fun o => negb (is_nomatch o)) outs) = existsb f outs.
Proof.
  intros Hf. induction outs as [|o outs IH]; [reflexivity|].
  destruct o as [|r| |]; cbn [filter is_nomatch negb existsb]; rewrite ?IH, ?Hf; reflexivity.
Qed.

Lemma first_decisive_drop_nomatch : forall outs,
  first_decisive (filter (fun o => negb (is_nomatch o)) outs) = first_decisive outs.
Proof.
  induction outs as [|o outs IH]; [reflexivity|].
  destruct o as [|[]| |]; cbn [filter is_nomatch negb first_decisive]; rewrite ?IH; reflexivity.
Qed.

Lemma spec_decision_drop_nomatch (e : effector) : forall outs,
  spec_decision e (filter (fun o => negb (is_nomatch o)) outs) = spec_decision e outs.
Proof.
  intro outs. destruct e; unfold spec_decision;
    rewrite ?(existsb_drop_nomatch is_allow eq_refl), ?(existsb_drop_nomatch is_deny eq_refl),
            ?first_decisive_drop_nomatch; reflexivity.
Qed.

Lemma no_bad_no_error (e : effector) : forall outs, no_bad outs = true -> error_before_decision e outs = None.
Proof.
  induction outs as [|o outs IH]; intro H; [reflexivity|].
  simpl in H. apply andb_true_iff in H. destruct H as [Ho H].
  destruct o as [|r| |]; try discriminate; simpl.
  - destruct (deciding e NoMatch); [reflexivity|apply IH; exact H].
  - destruct (deciding e (Match r)); [reflexivity|apply IH; exact H].
Qed.

(* with a non-matching empty rule, the decision on ANY error-free outcome list (empty or not) is the spec *)
Theorem decision_is_spec_total (e : effector) (outs : list outcome) :
  no_bad outs = true ->
  exists ex, enforce_ex_ref e on outs false = Ok (spec_decision e outs, ex).
Proof.
  intro H. destruct outs as [|o outs].
  - rewrite enforce_ex_ref_empty. exists None. destruct e; reflexivity.
  - rewrite enforce_ex_ref_char by discriminate. rewrite (no_bad_no_error e _ H). eauto.
Qed.
