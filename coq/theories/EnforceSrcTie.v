(* EnforceSrcTie.v — C01/C08: the decision kernel regenerated from CoreEnforcer.enforce_ex on this run
   (coq/gen/EnforceGen.v), executed by the interpreter of EnfLang.v, computes Enforce.enforce_ex on the outcome list
   [map out_of rules] - for every effector triple (im, fi, tb), every configuration and every list of rules.  Hence the
   theorems of EnforceProofs.v / EnforceTie.v (decision = declared effect combination, explanation = first decisive rule,
   disabled allows, arity raises, ...) speak of what the source says now. *)
From Coq Require Import List NArith ZArith Bool Lia.
From PyCasbin Require Import Base Effect Enforce EnfLang.
From PyCasbinGen Require Import EnforceGen.
Import ListNotations.
Local Open Scope N_scope.

Definition EFUEL : nat := 60.

(* how the kernel's per-rule observations map to the outcomes of Effect.v *)
Definition out_of (r : rulerec) : outcome :=
  if negb (rr_size_ok r) then BadSize
  else match rr_res r with
       | RBool false | RFloat false => NoMatch
       | RBool true | RFloat true => Match (match rr_eft r with Some c => c | None => EAllow end)
       | ROther _ => BadType
       end.
Definition truthy (r : rvalue) : bool := match r with RBool b => b | RFloat nz => nz | ROther t => t end.

Section Tie.
  Variable im : effset -> eff.
  Variable fi : effset -> eff.
  Variable tb : eff -> option bool.

  Section Eqs.
    Variable E : eenv.
    Lemma eblock_nil n cur l : eblock im fi tb E (S n) cur l [] = ONext l.
    Proof. reflexivity. Qed.
    Lemma eblock_step n cur l c r o : eexec im fi tb E n cur l c = o ->
      eblock im fi tb E (S n) cur l (c :: r) =
      match o with ONext l' => eblock im fi tb E n cur l' r | OCont l' => OCont l' | OBrk l' => OBrk l'
                 | ORet v => ORet v | OErr e => OErr e end.
    Proof.
      intros <-.
      change (eblock im fi tb E (S n) cur l (c :: r)) with
        (match eexec im fi tb E n cur l c with ONext l' => eblock im fi tb E n cur l' r | o => o end).
      destruct (eexec im fi tb E n cur l c); reflexivity.
    Qed.
    Lemma eexec_if n cur l c a b v : rbind (eeval im fi tb E n cur l c) etruth = v ->
      eexec im fi tb E (S n) cur l (SIf c a b) =
      match v with Ok true => eblock im fi tb E n cur l a | Ok false => eblock im fi tb E n cur l b | Err e => OErr e end.
    Proof. intros <-. reflexivity. Qed.
    Lemma eexec_for n cur l i body :
      eexec im fi tb E (S n) cur l (SForRules i body) =
      for_rules (fun k r l' => eblock im fi tb E n (Some r) (eupd i (VZ (Z.of_nat k)) l') body) (en_rules E) 0%nat l.
    Proof. reflexivity. Qed.
  End Eqs.
End Tie.

Ltac is_atomic_e c :=
  lazymatch c with SIf _ _ _ => fail | SForRules _ _ => fail | _ => idtac end.

Ltac lze t :=
  let v := eval lazy -[for_rules Z.of_nat Z.ltb Z.eqb Z.to_nat length add_eff] in t in v.

Ltac ebstep :=
  lazymatch goal with
  | |- context [eblock ?im ?fi ?tb ?E (S ?n) ?cur ?l []] => rewrite (eblock_nil im fi tb E n cur l)
  | |- context [eblock ?im ?fi ?tb ?E (S ?n) ?cur ?l (?c :: ?r)] =>
      tryif is_atomic_e c then
        (let o := lze (eexec im fi tb E n cur l c) in rewrite (eblock_step im fi tb E n cur l c r o eq_refl))
      else rewrite (eblock_step im fi tb E n cur l c r _ eq_refl)
  end; cbv beta iota.

Ltac eestep :=
  lazymatch goal with
  | |- context [eexec ?im ?fi ?tb ?E (S ?n) ?cur ?l (SIf ?c ?a ?b)] =>
      let v := lze (rbind (eeval im fi tb E n cur l c) etruth) in rewrite (eexec_if im fi tb E n cur l c a b v eq_refl)
  | |- context [eexec ?im ?fi ?tb ?E (S ?n) ?cur ?l (SForRules ?i ?body)] =>
      rewrite (eexec_for im fi tb E n cur l i body)
  end; cbv beta iota.

Ltac estep := first [eestep | ebstep].

(* the body of the rule loop and the statements after it, read off the regenerated program *)
Definition loop_body : list est :=
  Eval lazy in
    match nth_error enforce_kernel_gen 7 with Some (SIf _ [SForRules _ b] _) => b | _ => [] end.
Definition tail_stmts : list est := Eval lazy in skipn 8 enforce_kernel_gen.

Definition L (n : nat) (s : effset) (ei i res eft : ev) : list (N * ev) :=
  [(1, VSet s); (2, VZ (Z.of_nat n)); (3, ei); (4, i); (5, res); (6, eft); (7, VNone); (8, VNone)].

Section Main.
  Variable im : effset -> eff.
  Variable fi : effset -> eff.
  Variable tb : eff -> option bool.

  (* one round of the loop *)
  Lemma body_step E n m k r s i0 res0 eft0 :
    eblock im fi tb E (20 + m) (Some r) (eupd 4 (VZ (Z.of_nat k)) (L n s (VZ (-1)) i0 res0 eft0)) loop_body =
    match out_of r with
    | BadSize => OErr 2
    | BadType => OErr 3
    | NoMatch => OCont (L n (add_eff Indet s) (VZ (-1)) (VZ (Z.of_nat k)) (VRes (rr_res r)) eft0)
    | Match c =>
        let s' := add_eff (eff_of c) s in
        let eft' := match rr_eft r with Some x => VStr (Some x) | None => eft0 end in
        match im s' with
        | Indet => ONext (L n s' (VZ (-1)) (VZ (Z.of_nat k)) (VRes (rr_res r)) eft')
        | _ => OBrk (L n s' (VZ (Z.of_nat k)) (VZ (Z.of_nat k)) (VRes (rr_res r)) eft')
        end
    end.
  Proof.
    destruct r as [sz res eft]. unfold out_of, L, loop_body. cbn [Nat.add rr_size_ok rr_res rr_eft].
    destruct sz; [|lazy; reflexivity].
    destruct res as [[|]|[|]|t]; destruct eft as [[| |]|]; cbn [negb eff_of];
      try (lazy -[Z.of_nat add_eff]; reflexivity);
      (lazy -[Z.of_nat add_eff]; destruct (im (add_eff _ s)); reflexivity).
  Qed.

  Lemma loop_walk E n m : forall rs k s i0 res0 eft0,
    exists i' res' eft',
      for_rules (fun k r l' => eblock im fi tb E (20 + m) (Some r) (eupd 4 (VZ (Z.of_nat k)) l') loop_body) rs k
        (L n s (VZ (-1)) i0 res0 eft0) =
      match walk im (map out_of rs) k s with
      | Err c => OErr c
      | Ok (s', None) => ONext (L n s' (VZ (-1)) i' res' eft')
      | Ok (s', Some j) => ONext (L n s' (VZ (Z.of_nat j)) i' res' eft')
      end.
  Proof.
    induction rs as [|r rs IH]; intros k s i0 res0 eft0.
    - simpl. eexists _, _, _. reflexivity.
    - cbn [for_rules map]. rewrite body_step. destruct (out_of r) as [|c| |]; cbn [walk].
      + apply IH.
      + cbv zeta. destruct (im (add_eff (eff_of c) s)) eqn:Him.
        * eexists _, _, _. reflexivity.
        * apply IH.
        * eexists _, _, _. reflexivity.
      + exists i0, res0, eft0. reflexivity.
      + exists i0, res0, eft0. reflexivity.
  Qed.

  Lemma walk_index : forall outs k s s' j, walk im outs k s = Ok (s', Some j) -> (k <= j < k + length outs)%nat.
  Proof.
    induction outs as [|o outs IH]; intros k s s' j H; simpl in H; [discriminate|].
    destruct o as [|c| |]; try discriminate.
    - apply IH in H. simpl. lia.
    - destruct (im (add_eff (eff_of c) s)); try (inversion H; subst; simpl; lia).
      apply IH in H. simpl. lia.
  Qed.

  Lemma neg1_eqb j : (Z.of_nat j =? -1)%Z = false.
  Proof. apply Z.eqb_neq. lia. Qed.
  Lemma of_nat_ltb0' j : (Z.of_nat j <? 0)%Z = false.
  Proof. apply Z.ltb_ge. lia. Qed.

  (* after the loop: final effect, decision, explanation *)
  Lemma tail_none en mo ar he rules er m s i res eft :
    eblock im fi tb {| en_enabled := en; en_model_ok := mo; en_arity_ok := ar; en_has_eval := he; en_rules := rules; en_empty_res := er |}
      (20 + m) None (L (length rules) s (VZ (-1)) i res eft) tail_stmts =
    match tb (fi s) with Some b => ORet (VPair (VB b) (VRule None)) | None => OErr ERuntime end.
  Proof.
    unfold L, tail_stmts. cbn [Nat.add]. estep. estep.
    destruct (tb (fi s)) as [b|]; cbv beta iota; [|reflexivity].
    repeat estep. reflexivity.
  Qed.

  Lemma tail_some en mo ar he rules er m s j i res eft : (j < length rules)%nat ->
    eblock im fi tb {| en_enabled := en; en_model_ok := mo; en_arity_ok := ar; en_has_eval := he; en_rules := rules; en_empty_res := er |}
      (20 + m) None (L (length rules) s (VZ (Z.of_nat j)) i res eft) tail_stmts =
    match tb (fi s) with Some b => ORet (VPair (VB b) (VRule (Some j))) | None => OErr ERuntime end.
  Proof.
    intro Hj. unfold L, tail_stmts. cbn [Nat.add]. estep. estep.
    destruct (tb (fi s)) as [b|]; cbv beta iota; [|reflexivity].
    assert (Hlt : (Z.of_nat j <? Z.of_nat (length rules))%Z = true) by (apply Z.ltb_lt; lia).
    estep. estep. estep. rewrite neg1_eqb, Hlt. cbv beta iota.
    estep. rewrite of_nat_ltb0', Hlt, Nat2Z.id. cbv beta iota. repeat estep. reflexivity.
  Qed.

  Definition mkenv en ar he rules er : eenv :=
    {| en_enabled := en; en_model_ok := true; en_arity_ok := ar; en_has_eval := he; en_rules := rules; en_empty_res := er |}.

  Lemma zero_eqb_len {A} (x : A) l : (0 =? Z.of_nat (length (x :: l)))%Z = false.
  Proof. apply Z.eqb_neq. simpl length. lia. Qed.

  Theorem kernel_is_model en ar he rules er : (he = false \/ rules <> []) ->
    erun im fi tb (mkenv en ar he rules er) EFUEL enforce_kernel_locals enforce_kernel_gen =
    enforce_ex im fi tb {| enabled := en; arity_ok := ar |} (map out_of rules) (truthy er).
  Proof.
    intro Hpre. unfold erun, EFUEL, mkenv, enforce_ex. cbn [enabled arity_ok].
    let b := eval lazy in enforce_kernel_gen in change enforce_kernel_gen with b.
    let b := eval lazy in (map (fun x : N => (x, VNone)) enforce_kernel_locals) in
      change (map (fun x : N => (x, VNone)) enforce_kernel_locals) with b.
    destruct en; cbn [negb]; [|repeat estep; reflexivity].
    destruct ar; cbn [negb]; [|repeat estep; reflexivity].
    do 14 estep. estep.
    destruct rules as [|r0 rs].
    - (* empty policy: the matcher judged once against empty rule fields *)
      destruct Hpre as [->|H]; [|contradiction]. cbn [length map]. change (Z.of_nat 0) with 0%Z.
      destruct er as [[|]|[|]|[|]]; cbn [truthy rbind fst snd]; unfold empty_set; repeat (estep; try (change (0 =? 0)%Z with true; cbv beta iota));
        match goal with |- context [tb (fi ?x)] => destruct (tb (fi x)) as [b|] end; cbv beta iota;
        repeat (estep; try (change (-1 =? -1)%Z with true; cbv beta iota)); reflexivity.
    - estep. estep. rewrite zero_eqb_len. cbv beta iota. estep. estep.
      destruct (loop_walk
                  {| en_enabled := true; en_model_ok := true; en_arity_ok := true; en_has_eval := he; en_rules := r0 :: rs; en_empty_res := er |}
                  (length (r0 :: rs)) 32 (r0 :: rs) 0%nat empty_set VNone VNone VNone) as (i' & res' & eft' & HL).
      change (20 + 32)%nat with 52%nat in HL. unfold L, loop_body in HL.
      match type of HL with ?lhs = _ =>
        match goal with |- context [for_rules ?F ?rs ?k ?l] => change (for_rules F rs k l) with lhs end end.
      rewrite HL. clear HL.
      set (outs := map out_of (r0 :: rs)).
      assert (Hne : match outs with [] => Ok (add_eff (if truthy er then Allow else Indet) empty_set, @None nat) | _ => walk im outs 0 empty_set end
                    = walk im outs 0 empty_set) by (subst outs; reflexivity).
      rewrite Hne. clear Hne.
      destruct (walk im outs 0 empty_set) as [[s' [j|]]|c] eqn:Hw; cbv beta iota; cbn [rbind fst snd].
      + pose proof (walk_index _ _ _ _ _ Hw) as Hj. subst outs. rewrite map_length in Hj.
        estep.
        pose proof (tail_some true true true he (r0 :: rs) er 32 s' j i' res' eft') as HT.
        change (20 + 32)%nat with 52%nat in HT. unfold L, tail_stmts in HT.
        match type of HT with _ -> ?lhs = _ =>
          match goal with |- context [eblock ?a ?b ?c ?d ?e ?f ?g ?h] => change (eblock a b c d e f g h) with lhs end end.
        rewrite HT by lia. destruct (tb (fi s')); reflexivity.
      + estep.
        pose proof (tail_none true true true he (r0 :: rs) er 32 s' i' res' eft') as HT.
        change (20 + 32)%nat with 52%nat in HT. unfold L, tail_stmts in HT.
        match type of HT with ?lhs = _ =>
          match goal with |- context [eblock ?a ?b ?c ?d ?e ?f ?g ?h] => change (eblock a b c d e f g h) with lhs end end.
        rewrite HT. destruct (tb (fi s')); reflexivity.
      + reflexivity.
  Qed.

End Main.

(* ------------------------------------------------------------------ with the effectors regenerated from casbin/effect/*.py *)
From PyCasbin Require Import EnforceInst EnforceProofs EnforceTie.
From PyCasbinGen Require Import EffectorsGen.

(* the kernel run with the effector class that get_effector selects for the effect expression s *)
Definition src_enforce_ex (s : str) (en ar he : bool) (rules : list rulerec) (er : rvalue) : result (bool * option nat) :=
  match get_effector s with
  | None => Err EUnsupportedEffect
  | Some cl => erun (intermediate_gen cl) (final_gen cl) effect_to_bool_gen (mkenv en ar he rules er) EFUEL
                 enforce_kernel_locals enforce_kernel_gen
  end.

Theorem src_kernel_is_enforce_ex_str s en ar he rules er : (he = false \/ rules <> []) ->
  src_enforce_ex s en ar he rules er = enforce_ex_str s {| enabled := en; arity_ok := ar |} (map out_of rules) (truthy er).
Proof.
  intro H. unfold src_enforce_ex, enforce_ex_str, EnforceInst.enforce_ex_gen.
  destruct (get_effector s); [|reflexivity]. apply kernel_is_model. exact H.
Qed.

(* C01 of the source: for each documented effect expression the regenerated kernel decides by the declared effect
   combination of exactly the matching rules (or raises the error the first offending rule causes) *)
Theorem src_decision_is_spec s e : In (s, e) documented ->
  forall he rules er, rules <> [] ->
  src_enforce_ex s true true he rules er =
  match error_before_decision e (map out_of rules) with
  | Some c => Err c
  | None => Ok (spec_decision e (map out_of rules), spec_explain e (map out_of rules))
  end.
Proof.
  intros H he rules er Hne. rewrite src_kernel_is_enforce_ex_str by (right; exact Hne).
  apply decision_is_spec; [exact H|]. destruct rules; [contradiction | discriminate].
Qed.

Theorem src_empty_policy s e : In (s, e) documented -> forall er,
  src_enforce_ex s true true false [] er = Ok (match e with DO => true | _ => truthy er end, None).
Proof. intros H er. rewrite src_kernel_is_enforce_ex_str by (left; reflexivity). apply empty_policy. exact H. Qed.

Theorem src_disabled_allows s e : In (s, e) documented -> forall ar he rules er, (he = false \/ rules <> []) ->
  src_enforce_ex s false ar he rules er = Ok (true, None).
Proof. intros H ar he rules er Hp. rewrite src_kernel_is_enforce_ex_str by exact Hp. apply (disabled_allows_str s e H). reflexivity. Qed.

Theorem src_arity_raises s e : In (s, e) documented -> forall he rules er, (he = false \/ rules <> []) ->
  src_enforce_ex s true false he rules er = Err EArity.
Proof. intros H he rules er Hp. rewrite src_kernel_is_enforce_ex_str by exact Hp. apply (arity_raises_str s e H); reflexivity. Qed.

Example src_kernel_example :
  src_enforce_ex PRIORITY_EFFECT true true false
    [ {| rr_size_ok := true; rr_res := RBool false; rr_eft := Some EAllow |};
      {| rr_size_ok := true; rr_res := RBool true; rr_eft := Some EOther |};
      {| rr_size_ok := true; rr_res := RFloat true; rr_eft := Some EDeny |};
      {| rr_size_ok := true; rr_res := RBool true; rr_eft := Some EAllow |} ] (RBool false) = Ok (false, Some 2%nat).
Proof. vm_compute. reflexivity. Qed.
