(* EnforceTie.v — ties the effector code regenerated from casbin/effect/*.py to the reference
   semantics, and lifts the loop theorems to the model that the oracle runs. *)
From Coq Require Import List NArith Bool.
From PyCasbin Require Import Base Effect Enforce EnforceProofs EnforceInst.
From PyCasbinGen Require Import EffectorsGen.
Import ListNotations.

(* kernel-checked: the translated Python computes the reference effectors on all 8 effect sets,
   for each of the five documented effect expressions *)
Lemma gen_effectors_ok : forall s e, In (s, e) documented ->
  exists c, get_effector s = Some c
    /\ (forall st, intermediate_gen c st = intermediate_ref e st)
    /\ (forall st, final_gen c st = final_ref e st).
Proof.
  intros s e H. unfold documented in H. simpl in H.
  repeat (destruct H as [H|H]; [inversion H; subst; clear H;
    eexists; split; [vm_compute; reflexivity|];
    split; intros [[] [] []]; reflexivity|]).
  contradiction.
Qed.

Lemma effect_to_bool_ok : forall x, effect_to_bool_gen x = eff_bool x.
Proof. intros []; reflexivity. Qed.

Lemma enforce_ex_str_is_ref : forall s e, In (s, e) documented ->
  forall c outs em, enforce_ex_str s c outs em = enforce_ex_ref e c outs em.
Proof.
  intros s e H c outs em. destruct (gen_effectors_ok s e H) as [cl [Hg [Hi Hf]]].
  unfold enforce_ex_str, enforce_ex_gen, enforce_ex_ref. rewrite Hg.
  replace effect_to_bool_gen with eff_bool.
  - apply enforce_ex_ext; assumption.
  - (* both are closed terms of a finite function type; compare pointwise via eta *)
    unfold effect_to_bool_gen, eff_bool. reflexivity.
Qed.

Lemma decision_is_spec : forall s e, In (s, e) documented ->
  forall outs em, outs <> [] ->
  enforce_ex_str s on outs em =
  match error_before_decision e outs with
  | Some c => Err c
  | None => Ok (spec_decision e outs, spec_explain e outs)
  end.
Proof.
  intros s e H outs em Hne. rewrite (enforce_ex_str_is_ref s e H). apply enforce_ex_ref_char. exact Hne.
Qed.

Lemma empty_policy : forall s e, In (s, e) documented -> forall em,
  enforce_ex_str s on [] em = Ok (match e with DO => true | _ => em end, None).
Proof. intros s e H em. rewrite (enforce_ex_str_is_ref s e H). apply enforce_ex_ref_empty. Qed.

Lemma disabled_allows_str : forall s e, In (s, e) documented -> forall c outs em,
  enabled c = false -> enforce_ex_str s c outs em = Ok (true, None).
Proof. intros s e H c outs em Hc. rewrite (enforce_ex_str_is_ref s e H). apply disabled_allows. exact Hc. Qed.

Lemma arity_raises_str : forall s e, In (s, e) documented -> forall c outs em,
  enabled c = true -> arity_ok c = false -> enforce_ex_str s c outs em = Err EArity.
Proof. intros s e H c outs em H1 H2. rewrite (enforce_ex_str_is_ref s e H). apply arity_raises; assumption. Qed.
