(* Expr.v — C02: the Casbin matcher expression language as an AST, its values, and the evaluator
   [eval_expr] that IS the specification of "the expression is true of request and rule".
   Also: the token type shared by the Casbin-side and Python-side token languages, the unparser
   [tokens_of] and the grammar predicate [gram] (DESIGN §5/C02).  No proofs here. *)
From Coq Require Import List NArith Bool.
From PyCasbin Require Import Base Effect.
Import ListNotations.
Local Open Scope N_scope.

(* error codes beyond Base.v (mirrored in harness/props/c02.py) *)
Definition EFuncUndef : N := 31.   (* simpleeval.FunctionNotDefined *)
Definition ELimit : N := 40.       (* input outside the modelled domain of a function / parser *)

Inductive cmpop := CEq | CNe | CLt | CLe | CGt | CGe.

(* run-time values of the fragment.  Objects compare by identity (their id). *)
Inductive value :=
| UStr (s : str)
| UInt (n : N)
| UBool (b : bool)
| UObj (id : N) (attrs : list (str * value)).

Inductive expr :=
| EOr (a b : expr)
| EAnd (a b : expr)
| ENot (a : expr)
| ECmp (op : cmpop) (a b : expr)
| EIn (a : expr) (items : list expr) (brk : bool)     (* brk = true: [..]  false: (..) *)
| ECall (f : str) (args : list expr)
| EEval (sfx f : str)                                   (* eval(p<sfx>.f) *)
| EPar (e : expr)
| EReq (sfx f : str) (attrs : list str)                 (* r<sfx>.f.attr... *)
| EPol (sfx f : str)                                    (* p<sfx>.f *)
| EVar (x : str) (attrs : list str)                    (* Python-side name (r_sub, True, ...) *)
| EStr (dq : bool) (s : str)                            (* dq = true: "..."  false: '...' *)
| EInt (ds : str).                                      (* decimal digits *)

(* ---------- characters ---------- *)
Definition is_digit (c : N) : bool := (48 <=? c) && (c <=? 57).
Definition is_alpha (c : N) : bool :=
  ((65 <=? c) && (c <=? 90)) || ((97 <=? c) && (c <=? 122)) || (c =? 95).
Definition is_word (c : N) : bool := is_alpha c || is_digit c.     (* ASCII \w *)

Fixpoint N_of_digits_acc (acc : N) (ds : str) : N :=
  match ds with [] => acc | d :: r => N_of_digits_acc (acc * 10 + (d - 48)) r end.
Definition N_of_digits (ds : str) : N := N_of_digits_acc 0 ds.

(* ---------- Python semantics of the operators on the fragment ---------- *)
Definition truthy (v : value) : bool :=
  match v with
  | UStr s => match s with [] => false | _ => true end
  | UInt n => negb (n =? 0)
  | UBool b => b
  | UObj _ _ => true
  end.

Definition num_of (v : value) : option N :=
  match v with UInt n => Some n | UBool b => Some (if b then 1 else 0) | _ => None end.

(* == : never raises; bool is an int; str/int/object of different kinds are unequal *)
Definition val_eq (a b : value) : bool :=
  match a, b with
  | UStr x, UStr y => str_eqb x y
  | UObj i _, UObj j _ => i =? j
  | _, _ => match num_of a, num_of b with Some x, Some y => x =? y | _, _ => false end
  end.

Fixpoint str_ltb (a b : str) : bool :=
  match a, b with
  | _, [] => false
  | [], _ :: _ => true
  | x :: a', y :: b' => if x <? y then true else if y <? x then false else str_ltb a' b'
  end.

Definition ord_cmp {A} (lt : A -> A -> bool) (op : cmpop) (x y : A) : bool :=
  match op with
  | CLt => lt x y | CLe => negb (lt y x) | CGt => lt y x | CGe => negb (lt x y)
  | CEq | CNe => false
  end.

(* < <= > >= : str/str lexicographic by code point, numbers numeric, anything else TypeError *)
Definition val_cmp (op : cmpop) (a b : value) : result bool :=
  match op with
  | CEq => Ok (val_eq a b)
  | CNe => Ok (negb (val_eq a b))
  | _ =>
      match a, b with
      | UStr x, UStr y => Ok (ord_cmp str_ltb op x y)
      | _, _ => match num_of a, num_of b with
                | Some x, Some y => Ok (ord_cmp N.ltb op x y)
                | _, _ => Err EType
                end
      end
  end.

Fixpoint assoc {A} (k : str) (l : list (str * A)) : option A :=
  match l with [] => None | (k', v) :: r => if str_eqb k k' then Some v else assoc k r end.

(* simpleeval._eval_attribute on our values: getattr, then the index fallback, else
   AttributeDoesNotExist.  (Attribute names are assumed not to be attributes of Python's own
   str/int/bool and not to start with "_" / "func_".) *)
Fixpoint get_attrs (attrs : list str) (v : value) : result value :=
  match attrs with
  | [] => Ok v
  | a :: r => match v with
              | UObj _ al => match assoc a al with Some v' => get_attrs r v' | None => Err EAttr end
              | _ => Err EAttr
              end
  end.

(* "True"/"False" *)
Definition s_True : str := [84; 114; 117; 101].
Definition s_False : str := [70; 97; 108; 115; 101].

Section Eval.
  Variable lreq : str -> str -> result value.     (* r<sfx>.f *)
  Variable lpol : str -> str -> result value.     (* p<sfx>.f *)
  Variable lname : str -> result value.           (* a Python-side name *)
  Variable levl : str -> str -> result value.     (* value of the sub-expression stored in p<sfx>.f *)
  Variable fns : str -> option (list value -> result value).

  Definition name_value (x : str) : result value :=
    if str_eqb x s_True then Ok (UBool true)
    else if str_eqb x s_False then Ok (UBool false)
    else lname x.

  (* simpleeval: BoolOp returns operands; Compare evaluates left then right; Call looks the
     function up before evaluating the arguments (left to right). *)
  Fixpoint eval_expr (e : expr) : result value :=
    let eval_list :=
        (fix el (l : list expr) : result (list value) :=
           match l with
           | [] => Ok []
           | x :: r => rbind (eval_expr x) (fun v => rbind (el r) (fun vs => Ok (v :: vs)))
           end) in
    match e with
    | EOr a b => rbind (eval_expr a) (fun va => if truthy va then Ok va else eval_expr b)
    | EAnd a b => rbind (eval_expr a) (fun va => if truthy va then eval_expr b else Ok va)
    | ENot a => rbind (eval_expr a) (fun va => Ok (UBool (negb (truthy va))))
    | ECmp op a b =>
        rbind (eval_expr a) (fun va => rbind (eval_expr b) (fun vb =>
        rbind (val_cmp op va vb) (fun r => Ok (UBool r))))
    | EIn a items _ =>
        rbind (eval_expr a) (fun va => rbind (eval_list items) (fun vs =>
        Ok (UBool (existsb (val_eq va) vs))))
    | ECall f args =>
        match fns f with
        | None => Err EFuncUndef
        | Some fn => rbind (eval_list args) fn
        end
    | EEval sfx f => levl sfx f
    | EPar e' => eval_expr e'
    | EReq sfx f attrs => rbind (lreq sfx f) (get_attrs attrs)
    | EPol sfx f => lpol sfx f
    | EVar x attrs => rbind (name_value x) (get_attrs attrs)
    | EStr _ s => Ok (UStr s)
    | EInt ds => Ok (UInt (N_of_digits ds))
    end.
End Eval.

(* core_enforcer.py:461-470 (result typing): bool decides; float only via division (not in the
   fragment); everything else, int included, raises "matcher result should be bool, int or float" *)
Definition outcome_of_value (eft : option str) (r : result value) : result outcome :=
  match r with
  | Err c => Err c
  | Ok (UBool false) => Ok NoMatch
  | Ok (UBool true) =>
      Ok (Match (match eft with
                 | None => EAllow                                    (* no p_eft column: 482 *)
                 | Some s => if str_eqb s [97; 108; 108; 111; 119] then EAllow          (* "allow" *)
                             else if str_eqb s [100; 101; 110; 121] then EDeny           (* "deny" *)
                             else EOther
                 end))
  | Ok _ => Err EMatcherType
  end.

(* decision from the per-rule results, in terms of C01's spec: an error is visible only if no
   earlier rule already decided (the loop breaks at line 484-486) *)
Fixpoint first_err (e : effector) (outs : list (result outcome)) : option N :=
  match outs with
  | [] => None
  | Err c :: _ => Some c
  | Ok o :: r => if deciding e o then None else first_err e r
  end.
Fixpoint oks (outs : list (result outcome)) : list outcome :=
  match outs with [] => [] | Ok o :: r => o :: oks r | Err _ :: r => oks r end.
Definition decide (e : effector) (outs : list (result outcome)) : result bool :=
  match first_err e outs with
  | Some c => Err c
  | None => Ok (spec_decision e (oks outs))
  end.

(* ---------- the function table: role functions, two built-ins on simple inputs, a fixed family
   of user-registered functions (Python twins in harness/props/c02.py) ---------- *)
Fixpoint reach (fuel : nat) (edges : list (str * str)) (frontier : list str) (target : str) : bool :=
  match fuel with
  | O => false                                              (* _has_link: level <= 0 *)
  | S k =>
      match frontier with
      | [] => false
      | _ => if mem str_eqb target frontier then true
             else reach k edges
                    (flat_map (fun e => if mem str_eqb (fst e) frontier then [snd e] else []) edges)
                    target
      end
  end.

(* grouping rules of one g-type: [a; b] or [a; b; dom] *)
Definition edges_of (rules : list (list str)) (dom : option str) : list (str * str) :=
  flat_map (fun r => match r, dom with
                     | [a; b], None => [(a, b)]
                     | [a; b; d], Some d' => if str_eqb d d' then [(a, b)] else []
                     | _, _ => []
                     end) rules.

Definition g_fn (rules : list (list str)) (args : list value) : result value :=
  match args with
  | [UStr a; UStr b] => Ok (UBool (reach 10 (edges_of rules None) [a] b))
  | [UStr a; UStr b; UStr d] => Ok (UBool (reach 10 (edges_of rules (Some d)) [a] b))
  | _ => Err ELimit
  end.

Fixpoint find_char (c : N) (s : str) : option nat :=
  match s with [] => None | x :: r => if x =? c then Some O else option_map S (find_char c r) end.

(* util.key_match (builtin_operators.py:25-36) *)
Definition key_match (k1 k2 : str) : bool :=
  match find_char 42 k2 with
  | None => str_eqb k1 k2
  | Some i => if Nat.ltb i (length k1) then str_eqb (firstn i k1) (firstn i k2)
              else str_eqb k1 (firstn i k2)
  end.

Fixpoint is_prefix (p s : str) : bool :=
  match p, s with
  | [], _ => true
  | x :: p', y :: s' => (x =? y) && is_prefix p' s'
  | _, [] => false
  end.

(* characters with no special meaning in a Python regex: letters, digits, '/', '_', '-', ' ' *)
Definition plain_re_char (c : N) : bool := is_word c || (c =? 47) || (c =? 45) || (c =? 32).

Definition n_keyMatch : str := [107; 101; 121; 77; 97; 116; 99; 104].
Definition n_regexMatch : str := [114; 101; 103; 101; 120; 77; 97; 116; 99; 104].
Definition n_eqf : str := [101; 113; 102].
Definition n_second : str := [115; 101; 99; 111; 110; 100].
Definition n_longer : str := [108; 111; 110; 103; 101; 114].
Definition n_idf : str := [105; 100; 102].

Definition fn_table (gs : list (str * list (list str))) (user : list str) (f : str)
  : option (list value -> result value) :=
  match assoc f gs with
  | Some rules => Some (g_fn rules)
  | None =>
      if str_eqb f n_keyMatch then
        Some (fun args => match args with
                          | [UStr a; UStr b] => Ok (UBool (key_match a b))
                          | _ => Err ELimit end)
      else if str_eqb f n_regexMatch then
        Some (fun args => match args with
                          | [UStr a; UStr b] => if forallb plain_re_char b then Ok (UBool (is_prefix b a))
                                                else Err ELimit
                          | _ => Err ELimit end)
      else if negb (mem str_eqb f user) then None
      else if str_eqb f n_eqf then
        Some (fun args => match args with [a; b] => Ok (UBool (val_eq a b)) | _ => Err EType end)
      else if str_eqb f n_second then
        Some (fun args => match args with [_; b] => Ok b | _ => Err EType end)
      else if str_eqb f n_longer then
        Some (fun args => match args with
                          | [UStr a; UStr b] => Ok (UBool (Nat.ltb (length b) (length a)))
                          | _ => Err EType end)
      else if str_eqb f n_idf then
        Some (fun args => match args with [a] => Ok a | _ => Err EType end)
      else None
  end.

(* ---------- tokens (both token languages share one type) ---------- *)
Inductive tok :=
| TAnd | TOr | TNot                                   (* && || !            (Casbin side) *)
| TCmp (c : cmpop) | TIn | TLP | TRP | TLB | TRB | TComma
| TReq (sfx f : str) (attrs : list str)               (* r<sfx>.f.attr...   (Casbin side) *)
| TPol (sfx f : str)                                  (* p<sfx>.f           (Casbin side) *)
| TEval (sfx f : str)                                 (* eval(p<sfx>.f)     (Casbin side) *)
| TStr (dq : bool) (s : str) | TInt (ds : str) | TId (s : str)
| TDotted (x : str) (attrs : list str)                (* x.attr...  (after escaping) *)
| TEvalE (x : str)                                    (* eval(x)    (after escaping) *)
| TKAnd | TKOr | TKNot | TDot.                        (* and or not .       (Python side) *)

Fixpoint sep_commas (l : list (list tok)) : list tok :=
  match l with
  | [] => []
  | [x] => x
  | x :: r => x ++ TComma :: sep_commas r
  end.

Fixpoint tokens_of (e : expr) : list tok :=
  match e with
  | EOr a b => tokens_of a ++ TOr :: tokens_of b
  | EAnd a b => tokens_of a ++ TAnd :: tokens_of b
  | ENot a => TNot :: tokens_of a
  | ECmp op a b => tokens_of a ++ TCmp op :: tokens_of b
  | EIn a items brk =>
      tokens_of a ++ TIn :: (if brk then TLB else TLP) :: sep_commas (map tokens_of items)
                  ++ [if brk then TRB else TRP]
  | ECall f args => TId f :: TLP :: sep_commas (map tokens_of args) ++ [TRP]
  | EEval sfx f => [TEval sfx f]
  | EPar e' => TLP :: tokens_of e' ++ [TRP]
  | EReq sfx f attrs => [TReq sfx f attrs]
  | EPol sfx f => [TPol sfx f]
  | EVar x attrs => [TDotted x attrs]
  | EStr dq s => [TStr dq s]
  | EInt ds => [TInt ds]
  end.

(* ---------- the grammar of DESIGN §5/C02 as a predicate on the AST ----------
   level 0: e (or)   1: and   2: !a | c   3: c (comparison / in / atom)   4: a (atom)   5: t (term) *)
Fixpoint gram (lvl : nat) (e : expr) : bool :=
  match e with
  | EOr a b => Nat.leb lvl 0 && gram 0 a && gram 0 b
  | EAnd a b => Nat.leb lvl 1 && gram 1 a && gram 1 b
  | ENot a => Nat.leb lvl 2 && gram 4 a
  | ECmp _ a b => Nat.leb lvl 3 && gram 5 a && gram 5 b
  | EIn a items brk =>
      Nat.leb lvl 3 && gram 5 a && forallb (gram 5) items
      && Nat.leb (if brk then 1 else 2) (length items)        (* (x) is not a tuple *)
  | ECall _ args => (Nat.leb lvl 4 || Nat.eqb lvl 5) && forallb (gram 5) args
  | EEval _ _ => Nat.leb lvl 4 || Nat.eqb lvl 5
  | EPar e' => (Nat.leb lvl 4 || Nat.eqb lvl 5) && gram 0 e'
  | EReq _ _ _ | EPol _ _ | EStr _ _ | EInt _ => Nat.eqb lvl 5
  | EVar _ _ => false                                       (* not a Casbin-side construct *)
  end.
Definition grammatical (e : expr) : bool := gram 0 e.

(* ---------- wire decoding (harness -> oracle) ---------- *)
Definition cmpop_of_N (n : N) : option cmpop :=
  match n with 0 => Some CEq | 1 => Some CNe | 2 => Some CLt | 3 => Some CLe | 4 => Some CGt
          | 5 => Some CGe | _ => None end.

Definition as_strs (v : val) : option (list str) := as_listof as_str v.

Fixpoint expr_of_val (v : val) : option expr :=
  let list_of :=
      (fix lo (l : list val) : option (list expr) :=
         match l with
         | [] => Some []
         | x :: r => match expr_of_val x, lo r with
                     | Some e, Some es => Some (e :: es)
                     | _, _ => None
                     end
         end) in
  match v with
  | VL (VN tag :: args) =>
      match N.to_nat tag, args with
      | 0%nat, [a; b] => match expr_of_val a, expr_of_val b with
                         | Some a, Some b => Some (EOr a b) | _, _ => None end
      | 1%nat, [a; b] => match expr_of_val a, expr_of_val b with
                         | Some a, Some b => Some (EAnd a b) | _, _ => None end
      | 2%nat, [a] => option_map ENot (expr_of_val a)
      | 3%nat, [VN op; a; b] => match cmpop_of_N op, expr_of_val a, expr_of_val b with
                                | Some op, Some a, Some b => Some (ECmp op a b) | _, _, _ => None end
      | 4%nat, [a; VL items; brk] => match expr_of_val a, list_of items, as_bool brk with
                                     | Some a, Some items, Some brk => Some (EIn a items brk)
                                     | _, _, _ => None end
      | 5%nat, [f; VL a] => match as_str f, list_of a with
                            | Some f, Some a => Some (ECall f a) | _, _ => None end
      | 6%nat, [sfx; f] => match as_str sfx, as_str f with
                           | Some sfx, Some f => Some (EEval sfx f) | _, _ => None end
      | 7%nat, [a] => option_map EPar (expr_of_val a)
      | 8%nat, [sfx; f; attrs] => match as_str sfx, as_str f, as_strs attrs with
                                  | Some sfx, Some f, Some attrs => Some (EReq sfx f attrs)
                                  | _, _, _ => None end
      | 9%nat, [sfx; f] => match as_str sfx, as_str f with
                           | Some sfx, Some f => Some (EPol sfx f) | _, _ => None end
      | 10%nat, [x; attrs] => match as_str x, as_strs attrs with
                              | Some x, Some attrs => Some (EVar x attrs) | _, _ => None end
      | 11%nat, [dq; s] => match as_bool dq, as_str s with
                           | Some dq, Some s => Some (EStr dq s) | _, _ => None end
      | 12%nat, [ds] => option_map EInt (as_str ds)
      | _, _ => None
      end
  | _ => None
  end.

Fixpoint value_of_val (v : val) : option value :=
  let attrs_of :=
      (fix ao (l : list val) : option (list (str * value)) :=
         match l with
         | [] => Some []
         | VL [k; x] :: r => match as_str k, value_of_val x, ao r with
                             | Some k, Some x, Some r => Some ((k, x) :: r)
                             | _, _, _ => None
                             end
         | _ => None
         end) in
  match v with
  | VL [VN 0; s] => option_map UStr (as_str s)
  | VL [VN 1; VN n] => Some (UInt n)
  | VL [VN 2; b] => option_map UBool (as_bool b)
  | VL [VN 3; VN id; VL al] => option_map (UObj id) (attrs_of al)
  | _ => None
  end.
