(* FContLang.v — a small language for the container methods of FastPolicy (casbin/model/policy_fast.py: __contains__, append,
   remove, __get_policy; C19).  translators/fastcontainer.py renders them into this syntax on every run (coq/gen/FastContGen.v):
   every statement must be, as a syntax tree, one of the recognised steps; FContTie.v proves that the interpreter run on the
   regenerated methods computes Fast.fp_contains / fp_append / fp_remove / fp_iter - the container the C19 theorems are about.

   Each step's meaning, in Fast.v's vocabulary (trusted reading; cache_key_order = [k0; k1], the index is a dict of dicts of
   sets, modelled as association lists in insertion order):
   - if not isinstance(item, (list, tuple)) or any(x >= len(item) for x in order): B     items are lists; B when a key position
     lies beyond the item;
   - keys = [item[x] for x in order]            the two key values (IndexError when a position lies beyond the item);
   - exists = in_cache(self._cache, keys)       Fast.in_cache (in_cache is compared with its recognised body); `not exists` holds
     for None and for the empty set;
   - return tuple(item) in exists;  exists.remove(tuple(policy))      membership / removal by value in the bucket - which IS the
     set stored in the index (an alias: the removal is visible there, Fast.set_bucket; KeyError when absent);
   - cache = self._cache;  for key in keys[:-1]: B;  if key not in cache: cache[key] = dict();  cache = cache[key]
     a cursor walking down the index: at the root, a missing first key gets an empty dict AT THE END of the insertion order, then
     the cursor moves below it (two keys: one round);
   - if keys[-1] not in cache: cache[keys[-1]] = set();  cache[keys[-1]].add(tuple(item))     below the first key: a missing
     second key gets an empty set at the end, then set.add (no duplicate, Fast.add_to_bucket);
   - __get_policy: the current filter's rules when one is set (an alias of a stored bucket, or a detached empty set), otherwise
     all rules in the nested insertion order (Fast.all_rules). *)
From Coq Require Import List NArith Bool.
From PyCasbin Require Import Base Policy Fast.
Import ListNotations.
Local Open Scope N_scope.

Inductive cstmt : Type :=
| CIfNotSeqOrKeyBeyond (a : list cstmt)
| CReturnBool (b : bool)
| CKeys | CLookup
| CIfNotExists (a : list cstmt)
| CReturnIn
| CRemoveFromExists
| CCursorRoot
| CForKeysButLast (body : list cstmt)
| CIfKeyMissing (body : list cstmt)
| CNewDict | CDescend
| CIfLastMissing (body : list cstmt)
| CNewSet | CAddToBucket
| CIfFilterSet (a b : list cstmt)
| CReturnFilterList | CReturnAllList.

Inductive cval := CVB (b : bool) | CVL (l : list rule) | CVNone.
Record cstate := { c_p : fpol; c_keys : option (name * name); c_exists : option bucket; c_cursor : list name; c_key : name }.
Inductive cout := COk (st : cstate) | CRet (p : fpol) (v : cval) | CErr (p : fpol) (e : N).

Section Interp.
  Variables k0 k1 : nat.
  Variable item : rule.

  Definition mkC p keys ex cur key : cstate := {| c_p := p; c_keys := keys; c_exists := ex; c_cursor := cur; c_key := key |}.
  Definition with_cache (st : cstate) (c : cache) : cstate :=
    mkC (mkFP c (fp_filter (c_p st))) (c_keys st) (c_exists st) (c_cursor st) (c_key st).

  Fixpoint cexec (n : nat) (st : cstate) (c : cstmt) {struct n} : cout :=
    match n with
    | O => CErr (c_p st) ESyntax
    | S n' =>
      let p := c_p st in
      let ch := fp_cache p in
      match c with
      | CIfNotSeqOrKeyBeyond a =>
          match nth_error item k0, nth_error item k1 with
          | Some _, Some _ => COk st
          | _, _ => cblock n' st a
          end
      | CReturnBool b => CRet p (CVB b)
      | CKeys => match keys_of k0 k1 item with
                 | Some ab => COk (mkC p (Some ab) (c_exists st) (c_cursor st) (c_key st))
                 | None => CErr p EIndex
                 end
      | CLookup => match c_keys st with
                   | Some (a, b) => COk (mkC p (c_keys st) (in_cache ch a b) (c_cursor st) (c_key st))
                   | None => CErr p ESyntax
                   end
      | CIfNotExists a => match c_exists st with
                          | None | Some [] => cblock n' st a
                          | Some (_ :: _) => COk st
                          end
      | CReturnIn => match c_exists st with
                     | Some l => CRet p (CVB (mem rule_eqb item l))
                     | None => CErr p EType
                     end
      | CRemoveFromExists =>
          match c_keys st, c_exists st with
          | Some (a, b), Some l =>
              match remove_first rule_eqb item l with
              | Some l' => COk (mkC (mkFP (set_bucket ch a b l') (fp_filter p)) (c_keys st) (Some l') (c_cursor st) (c_key st))
              | None => CErr p EKeyError
              end
          | _, _ => CErr p ESyntax
          end
      | CCursorRoot => COk (mkC p (c_keys st) (c_exists st) [] (c_key st))
      | CForKeysButLast body =>
          match c_keys st with
          | Some (a, _) => cblock n' (mkC p (c_keys st) (c_exists st) (c_cursor st) a) body      (* keys[:-1] = [a] *)
          | None => CErr p ESyntax
          end
      | CIfKeyMissing body =>
          match c_cursor st with
          | [] => match aget (c_key st) ch with None => cblock n' st body | Some _ => COk st end
          | _ => CErr p ESyntax
          end
      | CNewDict =>
          match c_cursor st with
          | [] => COk (with_cache st (aupd (c_key st) (fun _ => []) ch))
          | _ => CErr p ESyntax
          end
      | CDescend => COk (mkC p (c_keys st) (c_exists st) (c_cursor st ++ [c_key st]) (c_key st))
      | CIfLastMissing body =>
          match c_cursor st, c_keys st with
          | [x], Some (_, b) => match aget b (odef [] (aget x ch)) with None => cblock n' st body | Some _ => COk st end
          | _, _ => CErr p ESyntax
          end
      | CNewSet =>
          match c_cursor st, c_keys st with
          | [x], Some (_, b) => COk (with_cache st (aupd x (fun o => aupd b (fun _ => []) (odef [] o)) ch))
          | _, _ => CErr p ESyntax
          end
      | CAddToBucket =>
          match c_cursor st, c_keys st with
          | [x], Some (_, b) => COk (with_cache st (aupd x (fun o => aupd b (fun ob => add_to_bucket item (odef [] ob)) (odef [] o)) ch))
          | _, _ => CErr p ESyntax
          end
      | CIfFilterSet a b => match fp_filter p with FNone => cblock n' st b | _ => cblock n' st a end
      | CReturnFilterList => CRet p (CVL (match fp_filter p with FAlias a b => bk ch a b | _ => [] end))
      | CReturnAllList => CRet p (CVL (all_rules ch))
      end
    end
  with cblock (n : nat) (st : cstate) (b : list cstmt) {struct n} : cout :=
    match n with
    | O => CErr (c_p st) ESyntax
    | S n' =>
      match b with
      | [] => COk st
      | c :: r => match cexec n' st c with COk st' => cblock n' st' r | o => o end
      end
    end.

  (* (container afterwards, value or error); falling off the end returns None *)
  Definition crun (n : nat) (body : list cstmt) (p : fpol) : fpol * result cval :=
    match cblock n (mkC p None None [] 0) body with
    | COk st => (c_p st, Ok CVNone)
    | CRet p' v => (p', Ok v)
    | CErr p' e => (p', Err e)
    end.
End Interp.
