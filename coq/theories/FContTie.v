(* FContTie.v — C19: FastPolicy.__contains__, append, remove and __get_policy regenerated from casbin/model/policy_fast.py on
   this run (coq/gen/FastContGen.v), executed by the interpreter of FContLang.v, compute Fast.fp_contains / fp_append /
   fp_remove / fp_iter - container afterwards, returned value and errors. *)
From Coq Require Import List NArith Bool Lia.
From PyCasbin Require Import Base Policy Fast FContLang.
From PyCasbinGen Require Import FastContGen.
Import ListNotations.
Local Open Scope N_scope.

Section AssocMore.
  Context {V : Type}.
  Lemma aupd_absent k (f : option V -> V) l : aget k l = None -> aupd k f l = l ++ [(k, f None)].
  Proof.
    induction l as [|[k' v] l IH]; cbn [aget aupd app]; [reflexivity|].
    destruct (k =? k'); [discriminate|]. intro H. rewrite (IH H). reflexivity.
  Qed.
  Lemma aupd_present k (f g : option V -> V) l v : aget k l = Some v -> f (Some v) = g (Some v) -> aupd k f l = aupd k g l.
  Proof.
    induction l as [|[k' v'] l IH]; cbn [aget aupd]; [discriminate|].
    destruct (k =? k').
    - intros H E. inversion H; subst. rewrite E. reflexivity.
    - intros H E. rewrite (IH H E). reflexivity.
  Qed.
  Lemma aupd_aupd k (f g : option V -> V) l : aupd k f (aupd k g l) = aupd k (fun o => f (Some (g o))) l.
  Proof.
    induction l as [|[k' v] l IH]; cbn [aupd].
    - rewrite N.eqb_refl. reflexivity.
    - destruct (k =? k') eqn:E; cbn [aupd]; rewrite E; [reflexivity|]. rewrite IH. reflexivity.
  Qed.
  Lemma aget_aupd_same' k (f : option V -> V) l : aget k (aupd k f l) = Some (f (aget k l)).
  Proof.
    induction l as [|[k' v] l IH]; cbn [aget aupd].
    - rewrite N.eqb_refl. reflexivity.
    - destruct (k =? k') eqn:E; cbn [aget]; rewrite E; [reflexivity|exact IH].
  Qed.
End AssocMore.

Ltac ccbn := cbn [cblock cexec mkC with_cache c_p c_keys c_exists c_cursor c_key fp_cache fp_filter].

Theorem tie_fp_contains k0 k1 p item :
  crun k0 k1 item 20 fp_contains_gen p = (p, Ok (CVB (fp_contains k0 k1 p item))).
Proof.
  unfold crun, fp_contains_gen, fp_contains, keys_of. ccbn.
  destruct (nth_error item k0) as [a|] eqn:E0; [|reflexivity].
  destruct (nth_error item k1) as [b|] eqn:E1; [|reflexivity].
  ccbn. unfold keys_of. rewrite E0, E1. ccbn. unfold bk.
  destruct (in_cache (fp_cache p) a b) as [[|x l]|]; ccbn; reflexivity.
Qed.

Definition cres_bool (x : fpol * result bool) : fpol * result cval :=
  (fst x, match snd x with Ok b => Ok (CVB b) | Err e => Err e end).
Definition cres_unit (x : fpol * result unit) : fpol * result cval :=
  (fst x, match snd x with Ok _ => Ok CVNone | Err e => Err e end).

Theorem tie_fp_remove k0 k1 p item :
  crun k0 k1 item 20 fp_remove_gen p = cres_bool (fp_remove k0 k1 p item).
Proof.
  unfold crun, fp_remove_gen, fp_remove, cres_bool. ccbn.
  destruct (keys_of k0 k1 item) as [[a b]|]; [|reflexivity]. ccbn.
  destruct (in_cache (fp_cache p) a b) as [[|x l]|]; ccbn; try reflexivity.
  destruct (remove_first rule_eqb item (x :: l)) as [l'|]; ccbn; reflexivity.
Qed.

Theorem tie_fp_append k0 k1 p item :
  crun k0 k1 item 20 fp_append_gen p = cres_unit (fp_append k0 k1 p item).
Proof.
  unfold crun, fp_append_gen, fp_append, cres_unit. ccbn.
  destruct (keys_of k0 k1 item) as [[a b]|]; [|reflexivity]. ccbn. cbn [app].
  set (addf := fun ob : option bucket => add_to_bucket item (odef [] ob)).
  set (F := fun o : option lvl2 => aupd b addf (odef [] o)).
  destruct (aget a (fp_cache p)) as [l2|] eqn:Ea; ccbn; cbn [app].
  - rewrite Ea. cbn [odef].
    destruct (aget b l2) as [bk0|] eqn:Eb; ccbn; [reflexivity|].
    cbn [fst snd]. do 2 f_equal.
    rewrite aupd_aupd. apply (aupd_present a _ _ _ l2 Ea). cbn [odef].
    rewrite aupd_aupd. rewrite (aupd_absent b _ l2 Eb). rewrite (aupd_absent b _ l2 Eb). reflexivity.
  - rewrite aget_aupd_same'. rewrite ?Ea. cbn [odef aget]. ccbn. cbn [fst snd]. do 2 f_equal.
    rewrite !aupd_aupd. rewrite !(aupd_absent a _ _ Ea). unfold F. cbn [odef aupd]. rewrite N.eqb_refl. reflexivity.
Qed.

Theorem tie_fp_get_policy k0 k1 p item :
  crun k0 k1 item 20 fp_get_policy_gen p = (p, Ok (CVL (fp_iter p))).
Proof.
  unfold crun, fp_get_policy_gen, fp_iter. ccbn. destruct (fp_filter p); ccbn; reflexivity.
Qed.

Print Assumptions tie_fp_contains.
Print Assumptions tie_fp_remove.
Print Assumptions tie_fp_append.
Print Assumptions tie_fp_get_policy.
