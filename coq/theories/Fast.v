(* Fast.v — model of the indexed rule container behind FastEnforcer (C19):
     casbin/model/policy_fast.py   in_cache, FastPolicy, fast_policy_filter
     casbin/model/model_fast.py    FastModel.add_def / clear_policy
     casbin/fast_enforcer.py       FastEnforcer.enforce
   and of the generic rule-store code of casbin/model/policy.py running ON that container (the
   container protocol: `in`, append, remove, iteration, len, index, item assignment).
   Mirrors the code AFTER the repairs recorded for C19 (c1bddbe, c54ee53, 9f401c2 and
   fixes/C19-short-request-falls-back.diff).  No proofs here.

   The index has exactly two levels (FastPolicy.__get_policy hard-codes `for v in cache.values()
   for v1 in v.values() for v2 in v1`): cache_key_order = [k0; k1].  A Python dict is an
   association list in insertion order (keys are never deleted by this code); the innermost Python
   `set` of tuples is a duplicate-free list in insertion order — the REAL iteration order of a set
   is unspecified, so everything that comes out of an iteration is compared as a set/sorted by the
   correspondence check, and nothing proved here about the order inside a bucket is claimed of the
   implementation (see FastProofs.v, priority effector). *)
From Coq Require Import List NArith Bool Arith.
From PyCasbin Require Import Base Effect Enforce Policy RoleGraph Mgmt MgmtWire.
Import ListNotations.
Local Open Scope N_scope.

(* ---------- dict as association list ---------- *)
Section Assoc.
  Context {V : Type}.
  (* d.get(k) *)
  Fixpoint aget (k : name) (l : list (name * V)) : option V :=
    match l with
    | [] => None
    | (k', v) :: r => if k =? k' then Some v else aget k r
    end.
  (* d[k] = f(d.get(k)): an existing key keeps its position, a new key goes to the end *)
  Fixpoint aupd (k : name) (f : option V -> V) (l : list (name * V)) : list (name * V) :=
    match l with
    | [] => [(k, f None)]
    | (k', v) :: r => if k =? k' then (k', f (Some v)) :: r else (k', v) :: aupd k f r
    end.
End Assoc.

Definition odef {A} (d : A) (o : option A) : A := match o with Some a => a | None => d end.

Definition bucket := list rule.                 (* Set[Sequence[str]] *)
Definition lvl2 := list (name * bucket).        (* Dict[str, Set] *)
Definition cache := list (name * lvl2).         (* Dict[str, Dict[str, Set]] *)

(* _current_filter: None | THE set object stored at [a][b] (aliased: later append/remove on that
   bucket show through) | a fresh empty set (`value or set()` when the bucket is missing OR empty) *)
Inductive ffilter := FNone | FAlias (a b : name) | FDetached.

Record fpol := mkFP { fp_cache : cache; fp_filter : ffilter }.

(* policy_fast.py:19-25 in_cache(cache, [a; b]) *)
Definition in_cache (c : cache) (a b : name) : option bucket :=
  match aget a c with
  | Some l2 => aget b l2
  | None => None
  end.
Definition bk (c : cache) (a b : name) : bucket := odef [] (in_cache c a b).

(* every stored rule, in iteration order of the nested dicts (policy_fast.py:91) *)
Definition flat2 (l2 : lvl2) : list rule := flat_map snd l2.
Definition all_rules (c : cache) : list rule := flat_map (fun e => flat2 (snd e)) c.

Section Order.
  Variables k0 k1 : nat.                        (* self._cache_key_order = [k0, k1] *)

  (* FastPolicy.__init__ (33-36) *)
  Definition fp_new : fpol := mkFP [] FNone.

  (* keys = [item[x] for x in self._cache_key_order]; None = IndexError *)
  Definition keys_of (item : rule) : option (name * name) :=
    match nth_error item k0, nth_error item k1 with
    | Some a, Some b => Some (a, b)
    | _, _ => None
    end.

  (* __get_policy (87-91) *)
  Definition fp_iter (p : fpol) : list rule :=
    match fp_filter p with
    | FNone => all_rules (fp_cache p)
    | FAlias a b => bk (fp_cache p) a b
    | FDetached => []
    end.

  (* __len__ (41-42) *)
  Definition fp_len (p : fpol) : nat := length (fp_iter p).

  (* __contains__ (44-51, repaired): a key position past the end of the item -> False; a missing or
     empty bucket -> False; the filter is NOT consulted *)
  Definition fp_contains (p : fpol) (item : rule) : bool :=
    match keys_of item with
    | None => false
    | Some (a, b) => mem rule_eqb item (bk (fp_cache p) a b)
    end.

  (* __getitem__ (53-57): position in the CURRENT iteration; KeyError past the end *)
  Definition fp_getitem (p : fpol) (i : nat) : result rule :=
    match nth_error (fp_iter p) i with
    | Some r => Ok r
    | None => Err EKeyError
    end.

  (* index (63-67): ValueError when absent from the current iteration *)
  Definition fp_index (p : fpol) (item : rule) : result nat :=
    match index_of rule_eqb item (fp_iter p) with
    | Some i => Ok i
    | None => Err EValue
    end.

  Definition add_to_bucket (item : rule) (l : bucket) : bucket :=
    if mem rule_eqb item l then l else l ++ [item].           (* set.add *)

  (* append (69-80): keys first (IndexError before anything is touched), missing dict levels are
     created, then set.add *)
  Definition fp_append (p : fpol) (item : rule) : fpol * result unit :=
    match keys_of item with
    | None => (p, Err EIndex)
    | Some (a, b) =>
        (mkFP (aupd a (fun o => aupd b (fun ob => add_to_bucket item (odef [] ob)) (odef [] o)) (fp_cache p))
              (fp_filter p), Ok tt)
    end.

  Definition set_bucket (c : cache) (a b : name) (l : bucket) : cache :=
    aupd a (fun o => aupd b (fun _ => l) (odef [] o)) c.

  (* remove (82-89): missing or empty bucket -> True and nothing happens; otherwise set.remove
     (KeyError when the tuple is not in a non-empty bucket); always True *)
  Definition fp_remove (p : fpol) (item : rule) : fpol * result bool :=
    match keys_of item with
    | None => (p, Err EIndex)
    | Some (a, b) =>
        match in_cache (fp_cache p) a b with
        | None | Some [] => (p, Ok true)
        | Some l =>
            match remove_first rule_eqb item l with
            | None => (p, Err EKeyError)
            | Some l' => (mkFP (set_bucket (fp_cache p) a b l') (fp_filter p), Ok true)
            end
        end
    end.

  (* __setitem__ (59-61): self.remove(self[index]); self.append(item) — a failing append leaves
     the old rule removed *)
  Definition fp_setitem (p : fpol) (i : nat) (item : rule) : fpol * result unit :=
    match fp_getitem p i with
    | Err c => (p, Err c)
    | Ok old =>
        match fp_remove p old with
        | (p1, Err c) => (p1, Err c)
        | (p1, Ok _) => fp_append p1 item
        end
    end.

  (* apply_filter (93-95): value = in_cache(...); self._current_filter = value or set() *)
  Definition fp_apply_filter (p : fpol) (a b : name) : fpol :=
    mkFP (fp_cache p)
         (match in_cache (fp_cache p) a b with
          | Some (_ :: _) => FAlias a b
          | _ => FDetached
          end).
  (* clear_filter (97-98) *)
  Definition fp_clear_filter (p : fpol) : fpol := mkFP (fp_cache p) FNone.

  (* fast_policy_filter (101-107): try: apply_filter; yield  finally: clear_filter.  The body is a
     state transformer with a result; an exception of the body still clears the filter *)
  Definition fp_with_filter {A} (p : fpol) (a b : name) (body : fpol -> fpol * result A)
    : fpol * result A :=
    let '(p1, r) := body (fp_apply_filter p a b) in (fp_clear_filter p1, r).

  (* ---------- casbin/model/policy.py running on the container (no priority column) ---------- *)
  (* has_policy (106-113) *)
  Definition f_has (p : fpol) (r : rule) : bool := fp_contains p r.

  (* add_policy (115-147): `if not has_policy: policy.append(rule) else: return False` *)
  Definition f_add (p : fpol) (r : rule) : fpol * result bool :=
    if f_has p r then (p, Ok false)
    else match fp_append p r with
         | (p', Ok _) => (p', Ok true)
         | (p', Err c) => (p', Err c)
         end.

  (* add_policies (149-159) *)
  Fixpoint f_batch_addable (p : fpol) (seen : list rule) (rules : list rule) : bool :=
    match rules with
    | [] => true
    | r :: rest => negb (f_has p r) && negb (mem rule_eqb r seen) && f_batch_addable p (r :: seen) rest
    end.
  Fixpoint f_add_all (p : fpol) (rules : list rule) : fpol * result bool :=
    match rules with
    | [] => (p, Ok true)
    | r :: rest => match f_add p r with
                   | (p', Ok _) => f_add_all p' rest
                   | (p', Err c) => (p', Err c)
                   end
    end.
  Definition f_add_many (p : fpol) (rules : list rule) : fpol * result bool :=
    if f_batch_addable p [] rules then f_add_all p rules else (p, Ok false).

  (* remove_policy (219-226) *)
  Definition f_remove (p : fpol) (r : rule) : fpol * result bool :=
    if negb (f_has p r) then (p, Ok false)
    else match fp_remove p r with
         | (p', Ok _) => (p', Ok (negb (f_has p' r)))
         | (p', Err c) => (p', Err c)
         end.

  (* remove_policies (228-238): whole batch checked first, then policy.remove(rule) one by one *)
  Fixpoint f_remove_each (p : fpol) (rules : list rule) : fpol * result bool :=
    match rules with
    | [] => (p, Ok true)
    | r :: rest => match fp_remove p r with
                   | (p', Ok _) => f_remove_each p' rest
                   | (p', Err c) => (p', Err c)
                   end
    end.
  Definition f_remove_many (p : fpol) (rules : list rule) : fpol * result bool :=
    if forallb (f_has p) rules && nodupb rule_eqb rules then f_remove_each p rules else (p, Ok false).

  (* remove_filtered_policy (273-291): one pass over the iteration collects the matching rules
     (an IndexError of the filter aborts before anything is removed), then each is removed *)
  Definition f_remove_filtered (p : fpol) (i : nat) (vs : list name) : fpol * result bool :=
    match split_filtered (fp_iter p) i vs with
    | Err c => (p, Err c)
    | Ok (_, gone) =>
        match f_remove_each p gone with
        | (p', Ok _) => (p', Ok (negb (match gone with [] => true | _ => false end)))
        | (p', Err c) => (p', Err c)
        end
    end.

  (* update_policy (161-184) *)
  Definition f_update (p : fpol) (old new : rule) : fpol * result bool :=
    if negb (f_has p old) then (p, Ok false)
    else match fp_index p old with
         | Err c => (p, Err c)
         | Ok idx =>
             if f_has p new then (p, Ok false)
             else match fp_setitem p idx new with
                  | (p', Ok _) => (p', Ok true)
                  | (p', Err c) => (p', Err c)
                  end
         end.

  (* update_policies (186-217) *)
  Fixpoint f_olds_ok (p : fpol) (seen : list rule) (olds : list rule) : bool :=
    match olds with
    | [] => true
    | o :: rest => f_has p o && negb (mem rule_eqb o seen) && f_olds_ok p (o :: seen) rest
    end.
  Fixpoint f_write_all (p : fpol) (olds news : list rule) : fpol * result bool :=
    match olds, news with
    | o :: ro, n :: rn =>
        match fp_index p o with
        | Err c => (p, Err c)
        | Ok idx => match fp_setitem p idx n with
                    | (p', Ok _) => f_write_all p' ro rn
                    | (p', Err c) => (p', Err c)
                    end
        end
    | _, _ => (p, Ok true)
    end.
  Definition f_update_many (p : fpol) (olds news : list rule) : fpol * result bool :=
    if negb (Nat.eqb (length olds) (length news)) then (p, Ok false)
    else if negb (f_olds_ok p [] olds) then (p, Ok false)
    else if negb (f_batch_addable p [] news) then (p, Ok false)
    else f_write_all p olds news.

  (* FastModel.clear_policy (32-35): a brand-new container with the same key order *)
  Definition fm_clear (_ : fpol) : fpol := fp_new.

  (* ---------- FastEnforcer.enforce (fast_enforcer.py:37-48, repaired) ---------- *)
  (* `if self._cache_key_order is None or any(x >= len(rvals) for x in order)`: a request that does not
     reach a cache-key position takes the ordinary path (no filter; the enabled / request-size checks
     of enforce_ex answer).  Otherwise keys = [rvals[x] for x in order] and the ordinary decision
     procedure runs over the filtered iteration.  [s] supplies what the matcher reads besides the
     rule (role links, enabled flag). *)
  Definition fe_enforce (k : mkind) (s : mstate) (p : fpol) (req : rule) : fpol * result bool :=
    let c := {| enabled := m_enabled s; arity_ok := Nat.eqb (length req) (r_arity k) |} in
    let em := rule_matches k s req (empty_rule k) in
    match nth_error req k0, nth_error req k1 with
    | Some a, Some b =>
        fp_with_filter p a b (fun p1 =>
          let outs := map (rule_outcome k s req) (fp_iter p1) in
          (p1, enforce (intermediate_ref (k_eff k)) (final_ref (k_eff k)) eff_bool c outs em))
    | _, _ =>
        (p, enforce (intermediate_ref (k_eff k)) (final_ref (k_eff k)) eff_bool c
                    (map (rule_outcome k s req) (fp_iter p)) em)
    end.

  (* the plain enforcer holding the rules [l] (Mgmt.enforce_ex_m, decision only) *)
  Definition plain_enforce (k : mkind) (s : mstate) (l : store) (req : rule) : result bool :=
    let c := {| enabled := m_enabled s; arity_ok := Nat.eqb (length req) (r_arity k) |} in
    enforce (intermediate_ref (k_eff k)) (final_ref (k_eff k)) eff_bool c
            (map (rule_outcome k s req) l) (rule_matches k s req (empty_rule k)).

  (* the guard of known finding C19/empty-key-request: the request's key fields select an empty
     bucket while the policy is not empty, and the matcher accepts the all-empty rule *)
  Definition empty_rule_quirk (k : mkind) (s : mstate) (p : fpol) (req : rule) : bool :=
    match nth_error req k0, nth_error req k1 with
    | Some a, Some b =>
        match bk (fp_cache p) a b, all_rules (fp_cache p) with
        | [], _ :: _ => rule_matches k s req (empty_rule k)
        | _, _ => false
        end
    | _, _ => false
    end.

  (* ---------- operation alphabets run by the oracle ---------- *)
  (* container level *)
  Inductive cop :=
  | CAppend (r : rule) | CRemove (r : rule) | CContains (r : rule) | CIter | CLen
  | CGetAtIndexOf (r : rule)            (* self[self.index(r)] *)
  | CSetAtIndexOf (o n : rule)          (* self[self.index(o)] = n *)
  | CGetPast (d : nat)                  (* self[len(self) + d] *)
  | CSetPast (d : nat) (n : rule)       (* self[len(self) + d] = n *)
  | CApply (a b : name) | CClear
  | CWith (a b : name) (body : cop)     (* with fast_policy_filter(self, a, b): body *)
  | CNew.                               (* FastModel.clear_policy *)

  Definition unit_res (x : fpol * result unit) : fpol * val :=
    (fst x, vres (fun _ => VL []) (snd x)).

  Fixpoint cstep (p : fpol) (o : cop) : fpol * val :=
    match o with
    | CAppend r => unit_res (fp_append p r)
    | CRemove r => let '(p', x) := fp_remove p r in (p', vres vbool x)
    | CContains r => (p, ok (vbool (fp_contains p r)))
    | CIter => (p, ok (vrules (fp_iter p)))
    | CLen => (p, ok (vnat (fp_len p)))
    | CGetAtIndexOf r =>
        (p, vres vrule (rbind (fp_index p r) (fp_getitem p)))
    | CSetAtIndexOf o n =>
        match fp_index p o with
        | Err c => (p, verr c)
        | Ok i => unit_res (fp_setitem p i n)
        end
    | CGetPast d => (p, vres vrule (fp_getitem p (fp_len p + d)))
    | CSetPast d n => unit_res (fp_setitem p (fp_len p + d) n)
    | CApply a b => (fp_apply_filter p a b, ok (VL []))
    | CClear => (fp_clear_filter p, ok (VL []))
    | CWith a b body =>
        let '(p1, v) := cstep (fp_apply_filter p a b) body in (fp_clear_filter p1, v)
    | CNew => (fm_clear p, ok (VL []))
    end.

  (* observation after each call: [result; current iteration; len] *)
  Fixpoint crun (p : fpol) (ops : list cop) : list val :=
    match ops with
    | [] => []
    | o :: rest =>
        let '(p', v) := cstep p o in
        VL [v; vrules (fp_iter p'); vnat (fp_len p')] :: crun p' rest
    end.

  (* enforcer level (no adapter, no watcher, no role definition): management calls + decisions *)
  Inductive eop :=
  | EAdd (r : rule) | EAddMany (rs : list rule) | ERemove (r : rule) | ERemoveMany (rs : list rule)
  | ERemoveFiltered (i : nat) (vs : list name) | EUpdate (o n : rule) | EUpdateMany (os ns : list rule)
  | EClearPolicy | EEnable (b : bool) | EEnforce (req : rule) | EHas (r : rule).

  Definition bool_res (x : fpol * result bool) : fpol * val := (fst x, vres vbool (snd x)).

  Definition estep (k : mkind) (s : mstate) (p : fpol) (o : eop) : mstate * fpol * val :=
    match o with
    | EAdd r => let '(p', v) := bool_res (f_add p r) in (s, p', v)
    | EAddMany rs => let '(p', v) := bool_res (f_add_many p rs) in (s, p', v)
    | ERemove r => let '(p', v) := bool_res (f_remove p r) in (s, p', v)
    | ERemoveMany rs => let '(p', v) := bool_res (f_remove_many p rs) in (s, p', v)
    | ERemoveFiltered i vs => let '(p', v) := bool_res (f_remove_filtered p i vs) in (s, p', v)
    | EUpdate o n => let '(p', v) := bool_res (f_update p o n) in (s, p', v)
    | EUpdateMany os ns => let '(p', v) := bool_res (f_update_many p os ns) in (s, p', v)
    | EClearPolicy => (s, fm_clear p, ok (VL []))
    | EEnable b => (set_flags s (m_auto_save s) (m_auto_build s) (m_auto_notify s) b, p, ok (VL []))
    | EEnforce req => let '(p', v) := bool_res (fe_enforce k s p req) in (s, p', v)
    | EHas r => (s, p, ok (vbool (f_has p r)))
    end.

  (* observation: [result; all rules (the filter must be clear between calls: the iteration is the
     whole policy)] *)
  Fixpoint erun (k : mkind) (s : mstate) (p : fpol) (ops : list eop) : list val :=
    match ops with
    | [] => []
    | o :: rest =>
        let '(s', p', v) := estep k s p o in
        VL [v; vrules (fp_iter p')] :: erun k s' p' rest
    end.
End Order.

(* ---------- wire ---------- *)
Fixpoint as_cop_fuel (fuel : nat) (v : val) : option cop :=
  match fuel with
  | O => None
  | S f =>
      match v with
      | VL [VN 1; r] => option_map CAppend (as_rule r)
      | VL [VN 2; r] => option_map CRemove (as_rule r)
      | VL [VN 3; r] => option_map CContains (as_rule r)
      | VL [VN 4] => Some CIter
      | VL [VN 5] => Some CLen
      | VL [VN 6; r] => option_map CGetAtIndexOf (as_rule r)
      | VL [VN 7; o; n] => match as_rule o, as_rule n with
                           | Some o, Some n => Some (CSetAtIndexOf o n) | _, _ => None end
      | VL [VN 8; VN d] => Some (CGetPast (N.to_nat d))
      | VL [VN 9; VN d; n] => option_map (CSetPast (N.to_nat d)) (as_rule n)
      | VL [VN 10; VN a; VN b] => Some (CApply a b)
      | VL [VN 11] => Some CClear
      | VL [VN 12; VN a; VN b; body] => option_map (CWith a b) (as_cop_fuel f body)
      | VL [VN 13] => Some CNew
      | _ => None
      end
  end.
Definition as_cop : val -> option cop := as_cop_fuel 8.

Definition as_eop (v : val) : option eop :=
  match v with
  | VL [VN 1; VN 0; r] => option_map EAdd (as_rule r)
  | VL [VN 2; VN 0; rs] => option_map EAddMany (as_rules rs)
  | VL [VN 3; VN 0; r] => option_map ERemove (as_rule r)
  | VL [VN 4; VN 0; rs] => option_map ERemoveMany (as_rules rs)
  | VL [VN 5; VN 0; VN i; vs] => option_map (ERemoveFiltered (N.to_nat i)) (as_names vs)
  | VL [VN 6; o; n] => match as_rule o, as_rule n with Some o, Some n => Some (EUpdate o n) | _, _ => None end
  | VL [VN 7; o; n] => match as_rules o, as_rules n with Some o, Some n => Some (EUpdateMany o n) | _, _ => None end
  | VL [VN 30] => Some EClearPolicy
  | VL [VN 38; b] => option_map EEnable (as_bool b)
  | VL [VN 50; r] => option_map EEnforce (as_rule r)
  | VL [VN 54; VN 0; r] => option_map EHas (as_rule r)
  | _ => None
  end.

(* tag 1: [k0; k1; container ops]             -> observations of FastPolicy
   tag 2: [kind; k0; k1; enforcer ops]        -> observations of FastEnforcer (kinds without g/g2/priority)
   tag 3: [kind; k0; k1; enabled; rules; req] -> [fast decision; plain decision; empty_rule_quirk]
          (rules are appended to a fresh index in the given order; the plain side holds the same list) *)
Definition oracle_C19 (tag : N) (v : val) : val :=
  match tag, v with
  | 1, VL [VN a; VN b; ops] =>
      match as_listof as_cop ops with
      | Some ops => VL (crun (N.to_nat a) (N.to_nat b) fp_new ops)
      | None => vbad
      end
  | 2, VL [kd; VN a; VN b; ops] =>
      match as_kind kd, as_listof as_eop ops with
      | Some k, Some ops =>
          if k_g k || k_g2 k || k_prio k || k_dom k then vbad
          else VL (erun (N.to_nat a) (N.to_nat b) k (init k []) fp_new ops)
      | _, _ => vbad
      end
  | 3, VL [kd; VN a; VN b; en; rules; req] =>
      match as_kind kd, as_bool en, as_rules rules, as_rule req with
      | Some k, Some en, Some rules, Some req =>
          if k_g k || k_g2 k || k_prio k || k_dom k then vbad
          else
            let k0 := N.to_nat a in let k1 := N.to_nat b in
            let s := set_flags (init k []) true true true en in
            let p := fold_left (fun p r => fst (fp_append k0 k1 p r)) rules fp_new in
            VL [vres vbool (snd (fe_enforce k0 k1 k s p req));
                vres vbool (plain_enforce k s rules req);
                vbool (empty_rule_quirk k0 k1 k s p req)]
      | _, _, _, _ => vbad
      end
  | _, _ => vbad
  end.
