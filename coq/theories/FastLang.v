(* FastLang.v — a small language for the CONTROL SKELETON of FastEnforcer.enforce (casbin/fast_enforcer.py) and of the filter
   it puts around the ordinary decision procedure (casbin/model/policy_fast.py: fast_policy_filter, FastPolicy.apply_filter,
   clear_filter).  translators/fastenforce.py renders the Python source into this syntax on every run (coq/gen/FastGen.v):
   every statement must be, as a syntax tree, one of the recognised steps; FastTie.v proves that the interpreter run on the
   regenerated programs computes Fast.fe_enforce - the function the C19 theorems (FastEnforcer decides like Enforcer) are about.

   Each step's meaning, in Fast.v's vocabulary (trusted reading; cache_key_order = [k0; k1] as in Fast.v):
   - `if self._cache_key_order is None or any(x >= len(rvals) for x in self._cache_key_order):`   some key position lies
     beyond the request (the order itself is given);
   - result, _ = self.enforce_ex( *rvals)        the ordinary decision procedure (Enforce.enforce with the effector of the
     model's kind) over the rules the container's iteration currently hands out (Fast.fp_iter);
   - keys = [rvals[x] for x in self._cache_key_order]   the two key values of the request;
   - with fast_policy_filter(<p's container>, * keys): B    fast_policy_filter is checked to be `try: policy.apply_filter( *keys);
     yield finally: policy.clear_filter()`: apply (HApply), B, then clear (HClear) whether or not B raised;
   - apply_filter: value = in_cache(self._cache, keys); self._current_filter = value or set()      Fast.fp_apply_filter (the
     stored bucket itself when it exists and is non-empty, otherwise a fresh empty set); clear_filter: Fast.fp_clear_filter;
     in_cache is checked to be the recognised recursive lookup (for two keys: Fast.in_cache);
   - return result. *)
From Coq Require Import List NArith Bool.
From PyCasbin Require Import Base Effect Enforce Policy RoleGraph Mgmt Fast.
Import ListNotations.
Local Open Scope N_scope.

Inductive hstmt : Type :=
| HIfKeyBeyondRequest (a b : list hstmt)
| HEnforceEx
| HKeys
| HWithFilter (body : list hstmt)
| HReturnResult.

Inductive afstmt := AFLookup | AFSetFilter.      (* the two statements of apply_filter *)

Record hstate := { h_pol : fpol; h_keys : option (name * name); h_res : option (result bool) }.

Section Interp.
  Variables k0 k1 : nat.
  Variable k : mkind.
  Variable s : mstate.
  Variable req : rule.
  Variable apply_body : list afstmt.      (* FastPolicy.apply_filter, as regenerated *)

  Definition decide (p : fpol) : result bool :=
    let c := {| enabled := m_enabled s; arity_ok := Nat.eqb (length req) (r_arity k) |} in
    enforce (intermediate_ref (k_eff k)) (final_ref (k_eff k)) eff_bool c
            (map (rule_outcome k s req) (fp_iter p)) (rule_matches k s req (empty_rule k)).

  (* apply_filter( *keys) run on the regenerated two statements: None = outside the language *)
  Definition run_apply (p : fpol) (a b : name) : option fpol :=
    match apply_body with
    | [AFLookup; AFSetFilter] =>
        let value := in_cache (fp_cache p) a b in
        Some (mkFP (fp_cache p) (match value with Some (_ :: _) => FAlias a b | _ => FDetached end))
    | _ => None
    end.

  Fixpoint hexec (n : nat) (st : hstate) (c : hstmt) {struct n} : option hstate :=
    match n with
    | O => None
    | S n' =>
      match c with
      | HIfKeyBeyondRequest a b =>
          match nth_error req k0, nth_error req k1 with
          | Some _, Some _ => hblock n' st b
          | _, _ => hblock n' st a
          end
      | HEnforceEx => Some {| h_pol := h_pol st; h_keys := h_keys st; h_res := Some (decide (h_pol st)) |}
      | HKeys => match nth_error req k0, nth_error req k1 with
                 | Some a, Some b => Some {| h_pol := h_pol st; h_keys := Some (a, b); h_res := h_res st |}
                 | _, _ => None
                 end
      | HWithFilter body =>
          match h_keys st with
          | None => None
          | Some (a, b) =>
              match run_apply (h_pol st) a b with
              | None => None
              | Some p1 =>
                  match hblock n' {| h_pol := p1; h_keys := h_keys st; h_res := h_res st |} body with
                  | Some st' => Some {| h_pol := fp_clear_filter (h_pol st'); h_keys := h_keys st'; h_res := h_res st' |}
                  | None => None
                  end
              end
          end
      | HReturnResult => Some st
      end
    end
  with hblock (n : nat) (st : hstate) (b : list hstmt) {struct n} : option hstate :=
    match n with
    | O => None
    | S n' =>
      match b with
      | [] => Some st
      | c :: r => match hexec n' st c with Some st' => hblock n' st' r | None => None end
      end
    end.

  Definition hrun (n : nat) (body : list hstmt) (p : fpol) : option (fpol * result bool) :=
    match hblock n {| h_pol := p; h_keys := None; h_res := None |} body with
    | Some st => match h_res st with Some r => Some (h_pol st, r) | None => None end
    | None => None
    end.
End Interp.
