(* FastProofs.v — the two-level index of FastPolicy refines the abstract duplicate-free rule set,
   and FastEnforcer decides like the plain enforcer (C19). *)
From Coq Require Import List NArith Bool Arith Lia Permutation.
From PyCasbin Require Import Base Effect Enforce EnforceProofs Policy PolicyProofs RoleGraph Mgmt Fast.
Import ListNotations.
Local Open Scope N_scope.

(* ====================================================================== association lists *)
Section AssocFacts.
  Context {V : Type}.

  Lemma aget_aupd_same k f (l : list (name * V)) : aget k (aupd k f l) = Some (f (aget k l)).
  Proof.
    induction l as [|[k' v] l IH]; simpl.
    - rewrite N.eqb_refl. reflexivity.
    - destruct (k =? k') eqn:E; simpl; rewrite E; [reflexivity|exact IH].
  Qed.

  Lemma aget_aupd_other k k' f (l : list (name * V)) : k' <> k -> aget k' (aupd k f l) = aget k' l.
  Proof.
    intro Hne. induction l as [|[k2 v] l IH]; simpl.
    - destruct (k' =? k) eqn:E; [apply N.eqb_eq in E; contradiction|reflexivity].
    - destruct (k =? k2) eqn:E; simpl.
      + apply N.eqb_eq in E. subst k2.
        destruct (k' =? k) eqn:E2; [apply N.eqb_eq in E2; contradiction|reflexivity].
      + destruct (k' =? k2); [reflexivity|exact IH].
  Qed.

  Lemma aget_In k v (l : list (name * V)) : aget k l = Some v -> In (k, v) l.
  Proof.
    induction l as [|[k' v'] l IH]; simpl; [discriminate|].
    destruct (k =? k') eqn:E.
    - apply N.eqb_eq in E. subst. intro H. inversion H; subst. left. reflexivity.
    - intro H. right. exact (IH H).
  Qed.

  Lemma In_aget k v (l : list (name * V)) : NoDup (map fst l) -> In (k, v) l -> aget k l = Some v.
  Proof.
    induction l as [|[k' v'] l IH]; simpl; intros Hnd Hin; [contradiction|].
    inversion Hnd as [|? ? Hk Hnd']; subst. destruct Hin as [H|H].
    - inversion H; subst. rewrite N.eqb_refl. reflexivity.
    - destruct (k =? k') eqn:E; [|exact (IH Hnd' H)].
      apply N.eqb_eq in E. subst k'. exfalso. apply Hk. apply (in_map fst) in H. exact H.
  Qed.

  Lemma keys_aupd k f (l : list (name * V)) x :
    In x (map fst (aupd k f l)) -> x = k \/ In x (map fst l).
  Proof.
    induction l as [|[k' v] l IH]; simpl.
    - intros [H|[]]. left. symmetry. exact H.
    - destruct (k =? k') eqn:E; simpl.
      + intros [H|H]; [right; left; exact H|right; right; exact H].
      + intros [H|H]; [right; left; exact H|]. destruct (IH H) as [H1|H1]; [left|right; right]; assumption.
  Qed.

  Lemma NoDup_keys_aupd k f (l : list (name * V)) :
    NoDup (map fst l) -> NoDup (map fst (aupd k f l)).
  Proof.
    induction l as [|[k' v] l IH]; simpl; intro Hnd.
    - constructor; [intros []|constructor].
    - inversion Hnd as [|? ? Hk Hnd']; subst. destruct (k =? k') eqn:E; simpl.
      + constructor; assumption.
      + constructor; [|exact (IH Hnd')]. intro H. destruct (keys_aupd _ _ _ _ H) as [H1|H1].
        * subst k'. rewrite N.eqb_refl in E. discriminate.
        * contradiction.
  Qed.

  Lemma Forall_vals_aupd (Q : V -> Prop) k f (l : list (name * V)) :
    Forall (fun e => Q (snd e)) l ->
    (forall o, (forall v, o = Some v -> Q v) -> Q (f o)) ->
    Forall (fun e => Q (snd e)) (aupd k f l).
  Proof.
    intros Hl Hf. induction l as [|[k' v] l IH]; simpl.
    - constructor; [|constructor]. simpl. apply Hf. intros v H. discriminate.
    - inversion Hl as [|? ? Hv Hl']; subst. destruct (k =? k'); constructor; simpl in *; auto.
      apply Hf. intros v0 H. inversion H; subst. exact Hv.
  Qed.
End AssocFacts.

(* ====================================================================== the index *)
Definition cupd (c : cache) (a b : name) (g : bucket -> bucket) : cache :=
  aupd a (fun o => aupd b (fun ob => g (odef [] ob)) (odef [] o)) c.

Lemma in_cache_cupd c a b g a' b' :
  in_cache (cupd c a b g) a' b'
  = if (a' =? a) && (b' =? b) then Some (g (bk c a b)) else in_cache c a' b'.
Proof.
  unfold in_cache, cupd, bk, in_cache.
  destruct (a' =? a) eqn:Ea.
  - apply N.eqb_eq in Ea. subst a'. rewrite aget_aupd_same. simpl.
    destruct (b' =? b) eqn:Eb.
    + apply N.eqb_eq in Eb. subst b'. rewrite aget_aupd_same. destruct (aget a c); reflexivity.
    + rewrite aget_aupd_other by (intro; subst; rewrite N.eqb_refl in Eb; discriminate).
      destruct (aget a c); reflexivity.
  - simpl. rewrite aget_aupd_other by (intro; subst; rewrite N.eqb_refl in Ea; discriminate). reflexivity.
Qed.

Lemma bk_cupd c a b g a' b' :
  bk (cupd c a b g) a' b' = if (a' =? a) && (b' =? b) then g (bk c a b) else bk c a' b'.
Proof.
  unfold bk at 1. rewrite in_cache_cupd. destruct ((a' =? a) && (b' =? b)); reflexivity.
Qed.

Definition wf_keys (c : cache) : Prop :=
  NoDup (map fst c) /\ Forall (fun e => NoDup (map fst (snd e))) c.

Lemma wf_keys_cupd c a b g : wf_keys c -> wf_keys (cupd c a b g).
Proof.
  intros [H1 H2]. split.
  - apply NoDup_keys_aupd. exact H1.
  - unfold cupd. apply (Forall_vals_aupd (fun l2 : lvl2 => NoDup (map fst l2))); [exact H2|].
    intros o Ho. apply NoDup_keys_aupd. destruct o as [l2|]; simpl; [apply Ho; reflexivity|constructor].
Qed.

Lemma bk_entry (c : cache) a (l2 : lvl2) b (l : bucket) :
  wf_keys c -> In (a, l2) c -> In (b, l) l2 -> bk c a b = l.
Proof.
  intros [H1 H2] He Hb. unfold bk, in_cache.
  assert (X1 : aget a c = Some l2) by (apply In_aget; assumption).
  rewrite Forall_forall in H2. specialize (H2 _ He). simpl in H2.
  assert (X2 : aget b l2 = Some l) by (apply In_aget; assumption).
  rewrite X1, X2. reflexivity.
Qed.

Lemma all_rules_bk c r : wf_keys c -> (In r (all_rules c) <-> exists a b, In r (bk c a b)).
Proof.
  intros Hw. unfold all_rules, flat2. rewrite in_flat_map. split.
  - intros [[a l2] [He Hr]]. simpl in Hr. rewrite in_flat_map in Hr. destruct Hr as [[b l] [Hb Hr]].
    simpl in Hr. exists a, b. rewrite (bk_entry c a l2 b l Hw He Hb). exact Hr.
  - intros [a [b Hr]]. unfold bk, in_cache in Hr. destruct (aget a c) as [l2|] eqn:Ea; [|contradiction].
    destruct (aget b l2) as [l|] eqn:Eb; [|contradiction]. simpl in Hr.
    exists (a, l2). split; [apply aget_In; exact Ea|]. simpl. rewrite in_flat_map.
    exists (b, l). split; [apply aget_In; exact Eb|exact Hr].
Qed.

(* a flat_map over entries that own disjoint sets of elements is duplicate-free *)
Section Keyed.
  Context {A B K : Type} (f : A -> list B) (key : A -> K) (own : B -> K -> Prop).
  Hypothesis own_fun : forall z k1 k2, own z k1 -> own z k2 -> k1 = k2.

  Lemma NoDup_flat_map_keyed (l : list A) :
    NoDup (map key l) ->
    (forall x, In x l -> NoDup (f x)) ->
    (forall x z, In x l -> In z (f x) -> own z (key x)) ->
    NoDup (flat_map f l).
  Proof.
    induction l as [|x l IH]; simpl; intros Hk Hn Ho; [constructor|].
    inversion Hk as [|? ? Hx Hk']; subst.
    apply NoDup_app_disjoint.
    - apply Hn. left. reflexivity.
    - apply IH; [exact Hk'|intros; apply Hn; right; assumption|intros y z Hy Hz; apply Ho; [right|]; assumption].
    - intros z Hz Hz'. rewrite in_flat_map in Hz'. destruct Hz' as [y [Hy Hzy]].
      assert (E : key x = key y).
      { apply (own_fun z); [apply Ho; [left; reflexivity|exact Hz]|apply Ho; [right; exact Hy|exact Hzy]]. }
      apply Hx. rewrite E. apply in_map. exact Hy.
  Qed.
End Keyed.

Section Order.
  Variables k0 k1 : nat.
  Notation keys_of := (keys_of k0 k1).

  (* the representation invariant of the index *)
  Definition Inv (c : cache) : Prop :=
    wf_keys c
    /\ (forall a b r, In r (bk c a b) -> keys_of r = Some (a, b))
    /\ (forall a b, NoDup (bk c a b)).

  Lemma Inv_empty : Inv [].
  Proof.
    split; [split; constructor|]. split; [intros a b r []|intros a b; constructor].
  Qed.

  (* ---- bucket_exact: a bucket holds exactly the stored rules whose key fields are its keys ---- *)
  Theorem bucket_exact c a b r :
    Inv c -> (In r (bk c a b) <-> In r (all_rules c) /\ keys_of r = Some (a, b)).
  Proof.
    intros [Hw [Hk Hn]]. split.
    - intro H. split; [apply all_rules_bk; [exact Hw|]; eauto|exact (Hk _ _ _ H)].
    - intros [H E]. apply (all_rules_bk c r Hw) in H. destruct H as [a' [b' H]].
      pose proof (Hk _ _ _ H) as E'. rewrite E in E'. inversion E'; subst. exact H.
  Qed.

  Lemma stored_has_keys c r : Inv c -> In r (all_rules c) -> exists a b, keys_of r = Some (a, b).
  Proof.
    intros [Hw [Hk Hn]] H. apply (all_rules_bk c r Hw) in H. destruct H as [a [b H]]. eauto.
  Qed.

  Lemma NoDup_all_rules c : Inv c -> NoDup (all_rules c).
  Proof.
    intros [[H1 H2] [Hk Hn]]. pose proof H2 as H2'. unfold all_rules.
    apply (NoDup_flat_map_keyed (fun e : name * lvl2 => flat2 (snd e)) fst
             (fun (r : rule) (a : name) => nth_error r k0 = Some a)).
    - intros z x y Hx Hy. congruence.
    - exact H1.
    - intros [a l2] He. simpl. unfold flat2.
      rewrite Forall_forall in H2. pose proof (H2 _ He) as Hl2. simpl in Hl2.
      apply (NoDup_flat_map_keyed (fun e : name * bucket => snd e) fst
               (fun (r : rule) (b : name) => nth_error r k1 = Some b)).
      + intros z x y Hx Hy. congruence.
      + exact Hl2.
      + intros [b l] Hb. simpl. specialize (Hn a b).
        rewrite (bk_entry c a l2 b l (conj H1 H2') He Hb) in Hn. exact Hn.
      + intros [b l] z Hb Hz. simpl in *.
        assert (Hin : In z (bk c a b)).
        { rewrite (bk_entry c a l2 b l (conj H1 H2') He Hb). exact Hz. }
        specialize (Hk _ _ _ Hin). unfold Fast.keys_of in Hk.
        destruct (nth_error z k0), (nth_error z k1); inversion Hk; reflexivity.
    - intros [a l2] z He Hz. simpl in *. unfold flat2 in Hz. rewrite in_flat_map in Hz.
      destruct Hz as [[b l] [Hb Hz]]. simpl in Hz.
      rewrite Forall_forall in H2. pose proof (H2 _ He) as Hl2. simpl in Hl2.
      assert (Hin : In z (bk c a b)).
      { rewrite (bk_entry c a l2 b l (conj H1 H2') He Hb). exact Hz. }
      specialize (Hk _ _ _ Hin). unfold Fast.keys_of in Hk.
      destruct (nth_error z k0), (nth_error z k1); inversion Hk; reflexivity.
  Qed.

  (* ---- updating one bucket ---- *)
  Lemma Inv_cupd c a b g :
    Inv c ->
    (forall r, In r (g (bk c a b)) -> keys_of r = Some (a, b)) ->
    NoDup (g (bk c a b)) ->
    Inv (cupd c a b g).
  Proof.
    intros [Hw [Hk Hn]] Hg Hgn. split; [apply wf_keys_cupd; exact Hw|]. split.
    - intros a' b' r. rewrite bk_cupd. destruct ((a' =? a) && (b' =? b)) eqn:E.
      + apply andb_true_iff in E. destruct E as [E1 E2]. apply N.eqb_eq in E1, E2. subst. apply Hg.
      + apply Hk.
    - intros a' b'. rewrite bk_cupd. destruct ((a' =? a) && (b' =? b)); [exact Hgn|apply Hn].
  Qed.

  Lemma all_rules_cupd c a b g r :
    Inv c -> Inv (cupd c a b g) ->
    (In r (all_rules (cupd c a b g))
     <-> In r (g (bk c a b)) \/ (In r (all_rules c) /\ keys_of r <> Some (a, b))).
  Proof.
    intros Hi Hi'. destruct Hi as [Hw [Hk Hn]]. destruct Hi' as [Hw' [Hk' Hn']].
    rewrite (all_rules_bk _ r Hw'). split.
    - intros [a' [b' H]]. rewrite bk_cupd in H. destruct ((a' =? a) && (b' =? b)) eqn:E; [left; exact H|].
      right. split; [apply all_rules_bk; [exact Hw|]; eauto|]. rewrite (Hk _ _ _ H). intro E'. inversion E'; subst.
      rewrite !N.eqb_refl in E. discriminate.
    - intros [H|[H Hne]].
      + exists a, b. rewrite bk_cupd, !N.eqb_refl. exact H.
      + apply (all_rules_bk c r Hw) in H. destruct H as [a' [b' H]]. exists a', b'. rewrite bk_cupd.
        destruct ((a' =? a) && (b' =? b)) eqn:E; [|exact H].
        apply andb_true_iff in E. destruct E as [E1 E2]. apply N.eqb_eq in E1, E2. subst.
        exfalso. apply Hne. exact (Hk _ _ _ H).
  Qed.

  Lemma In_add_to_bucket item l r : In r (add_to_bucket item l) <-> r = item \/ In r l.
  Proof.
    unfold add_to_bucket. destruct (mem rule_eqb item l) eqn:E.
    - apply mem_rule_In in E. split; [auto|]. intros [H|H]; subst; assumption.
    - rewrite in_app_iff. simpl. split; [intros [H|[H|[]]]; auto|intros [H|H]; auto].
  Qed.

  Lemma NoDup_add_to_bucket item l : NoDup l -> NoDup (add_to_bucket item l).
  Proof.
    intro H. unfold add_to_bucket. destruct (mem rule_eqb item l) eqn:E; [exact H|].
    apply NoDup_app_snoc; [exact H|]. apply has_policy_false. exact E.
  Qed.

  (* ====================================================================== container operations *)
  (* `rule in policy` is membership in the stored set (whatever the filter) *)
  Theorem contains_spec p r :
    Inv (fp_cache p) -> (fp_contains k0 k1 p r = true <-> In r (all_rules (fp_cache p))).
  Proof.
    intro Hi. unfold fp_contains. destruct (keys_of r) as [[a b]|] eqn:E.
    - rewrite mem_rule_In. rewrite (bucket_exact _ a b r Hi). tauto.
    - split; [discriminate|]. intro H. destruct (stored_has_keys _ _ Hi H) as [a [b E']]. congruence.
  Qed.

  Corollary contains_is_has_policy p r :
    Inv (fp_cache p) -> fp_contains k0 k1 p r = has_policy (all_rules (fp_cache p)) r.
  Proof.
    intro Hi. destruct (has_policy (all_rules (fp_cache p)) r) eqn:E.
    - apply contains_spec; [exact Hi|]. apply has_policy_In. exact E.
    - destruct (fp_contains k0 k1 p r) eqn:E2; [|reflexivity].
      apply (contains_spec p r Hi) in E2. apply has_policy_In in E2. congruence.
  Qed.

  (* append: adds the rule to the set, keeps everything else, keeps the filter *)
  Theorem append_spec p item a b :
    Inv (fp_cache p) -> keys_of item = Some (a, b) ->
    exists p', fp_append k0 k1 p item = (p', Ok tt)
      /\ Inv (fp_cache p') /\ fp_filter p' = fp_filter p
      /\ forall r, In r (all_rules (fp_cache p')) <-> r = item \/ In r (all_rules (fp_cache p)).
  Proof.
    intros Hi E. unfold fp_append. rewrite E. eexists. split; [reflexivity|]. simpl.
    change (aupd a _ (fp_cache p)) with (cupd (fp_cache p) a b (add_to_bucket item)).
    assert (Hi' : Inv (cupd (fp_cache p) a b (add_to_bucket item))).
    { apply Inv_cupd; [exact Hi| |].
      - intros r Hr. apply In_add_to_bucket in Hr. destruct Hr as [Hr|Hr]; [subst; exact E|].
        destruct Hi as [_ [Hk _]]. exact (Hk _ _ _ Hr).
      - apply NoDup_add_to_bucket. destruct Hi as [_ [_ Hn]]. apply Hn. }
    split; [exact Hi'|]. split; [reflexivity|]. intro r.
    rewrite (all_rules_cupd _ a b _ r Hi Hi'), In_add_to_bucket, (bucket_exact _ a b r Hi).
    split.
    - intros [[H|[H _]]|[H _]]; auto.
    - intros [H|H]; [auto|]. destruct (stored_has_keys _ _ Hi H) as [a' [b' E']].
      destruct (N.eq_dec a' a) as [Ha|Ha]; [destruct (N.eq_dec b' b) as [Hb|Hb]|].
      + subst. left. right. split; assumption.
      + right. split; [exact H|]. rewrite E'. intro X. inversion X. contradiction.
      + right. split; [exact H|]. rewrite E'. intro X. inversion X. contradiction.
  Qed.

  Theorem append_short p item :
    keys_of item = None -> fp_append k0 k1 p item = (p, Err EIndex).
  Proof. intro E. unfold fp_append. rewrite E. reflexivity. Qed.

  (* remove of a stored rule: deletes exactly that rule, answers True *)
  Theorem remove_spec p item :
    Inv (fp_cache p) -> In item (all_rules (fp_cache p)) ->
    exists p', fp_remove k0 k1 p item = (p', Ok true)
      /\ Inv (fp_cache p') /\ fp_filter p' = fp_filter p
      /\ forall r, In r (all_rules (fp_cache p')) <-> In r (all_rules (fp_cache p)) /\ r <> item.
  Proof.
    intros Hi Hin. destruct (stored_has_keys _ _ Hi Hin) as [a [b E]].
    assert (Hb : In item (bk (fp_cache p) a b)) by (apply bucket_exact; [exact Hi|split; assumption]).
    unfold fp_remove. rewrite E. unfold bk in Hb.
    destruct (in_cache (fp_cache p) a b) as [l|] eqn:El; [|contradiction]. simpl in Hb.
    destruct l as [|x l0]; [contradiction|]. set (l := x :: l0) in *.
    assert (Hnl : NoDup l).
    { destruct Hi as [_ [_ Hn]]. specialize (Hn a b). unfold bk in Hn. rewrite El in Hn. exact Hn. }
    rewrite (remove_first_spec l item Hnl).
    assert (Hm : has_policy l item = true) by (apply has_policy_In; exact Hb). rewrite Hm.
    exists (mkFP (cupd (fp_cache p) a b (fun _ => filter (neqb item) l)) (fp_filter p)).
    split; [reflexivity|]. cbn [fp_cache fp_filter].
    assert (Hbk : bk (fp_cache p) a b = l) by (unfold bk; rewrite El; reflexivity).
    assert (Hi' : Inv (cupd (fp_cache p) a b (fun _ => filter (neqb item) l))).
    { apply Inv_cupd; [exact Hi| |].
      - intros r Hr. apply filter_In in Hr. destruct Hr as [Hr _].
        destruct Hi as [_ [Hk _]]. apply (Hk a b). rewrite Hbk. exact Hr.
      - apply NoDup_filter. exact Hnl. }
    split; [exact Hi'|]. split; [reflexivity|]. intro r.
    rewrite (all_rules_cupd _ a b _ r Hi Hi'). rewrite filter_In. unfold neqb.
    split.
    - intros [[H1 H2]|[H1 H2]].
      + split; [apply (bucket_exact _ a b r Hi); rewrite Hbk; exact H1|].
        intro; subst. rewrite rule_eqb_refl in H2. discriminate.
      + split; [exact H1|]. intro; subst. contradiction.
    - intros [H1 H2]. destruct (stored_has_keys _ _ Hi H1) as [a' [b' E']].
      destruct (N.eq_dec a' a) as [Ha|Ha]; [destruct (N.eq_dec b' b) as [Hb'|Hb']|].
      + subst. left. split.
        * rewrite <- Hbk. apply bucket_exact; [exact Hi|split; assumption].
        * apply negb_true_iff. apply rule_eqb_neq. exact H2.
      + right. split; [exact H1|]. rewrite E'. intro X. inversion X. contradiction.
      + right. split; [exact H1|]. rewrite E'. intro X. inversion X. contradiction.
  Qed.

  (* remove of an absent rule never changes anything (True, or KeyError from set.remove, or
     IndexError for a rule too short for the key positions) *)
  Theorem remove_absent p item :
    Inv (fp_cache p) -> ~ In item (all_rules (fp_cache p)) ->
    exists res, fp_remove k0 k1 p item = (p, res).
  Proof.
    intros Hi Hn. unfold fp_remove. destruct (keys_of item) as [[a b]|] eqn:E; [|eauto].
    destruct (in_cache (fp_cache p) a b) as [l|] eqn:El; [|eauto]. destruct l as [|x l0]; [eauto|].
    set (l := x :: l0) in *.
    destruct (remove_first rule_eqb item l) as [l'|] eqn:Er; [|eauto]. exfalso. apply Hn.
    assert (Hnl : NoDup l).
    { destruct Hi as [_ [_ Hn']]. specialize (Hn' a b). unfold bk in Hn'. rewrite El in Hn'. exact Hn'. }
    rewrite (remove_first_spec l item Hnl) in Er. destruct (has_policy l item) eqn:Hm; [|discriminate].
    apply has_policy_In in Hm. apply (bucket_exact _ a b item Hi). unfold bk. rewrite El. exact Hm.
  Qed.

  (* iteration and len without a filter: the whole set, each rule once *)
  Theorem iter_unfiltered p : fp_filter p = FNone -> fp_iter p = all_rules (fp_cache p).
  Proof. intro H. unfold fp_iter. rewrite H. reflexivity. Qed.

  (* iteration under the filter chosen by apply_filter: exactly the bucket *)
  Theorem iter_filtered p a b : fp_iter (fp_apply_filter p a b) = bk (fp_cache p) a b.
  Proof.
    unfold fp_iter, fp_apply_filter, bk. simpl.
    destruct (in_cache (fp_cache p) a b) as [[|x l]|] eqn:E; simpl; try reflexivity.
    unfold bk. rewrite E. reflexivity.
  Qed.

  Theorem filtered_view_exact p a b r :
    Inv (fp_cache p) ->
    (In r (fp_iter (fp_apply_filter p a b)) <-> In r (all_rules (fp_cache p)) /\ keys_of r = Some (a, b)).
  Proof. intro Hi. rewrite iter_filtered. apply bucket_exact. exact Hi. Qed.

  Theorem len_is_size p : fp_len p = length (fp_iter p).
  Proof. reflexivity. Qed.

  (* the context manager always leaves the filter cleared, also when the body raises *)
  Theorem with_filter_clears {A} p a b (body : fpol -> fpol * result A) :
    fp_filter (fst (fp_with_filter p a b body)) = FNone.
  Proof. unfold fp_with_filter. destruct (body (fp_apply_filter p a b)). reflexivity. Qed.

  (* index / item access / item assignment through index *)
  Lemma index_getitem p old :
    In old (fp_iter p) -> exists i, fp_index p old = Ok i /\ fp_getitem p i = Ok old.
  Proof.
    intro H. unfold fp_index, fp_getitem. apply index_of_has in H. destruct H as [i Hi]. rewrite Hi.
    exists i. split; [reflexivity|].
    assert (Hn : nth_error (fp_iter p) i = Some old).
    { clear -Hi. revert i Hi. induction (fp_iter p) as [|x l IH]; simpl; intros i Hi; [discriminate|].
      destruct (rule_eqb old x) eqn:E.
      - apply rule_eqb_eq in E. subst. inversion Hi; subst. reflexivity.
      - destruct (index_of rule_eqb old l) as [j|] eqn:Ej; [|discriminate]. inversion Hi; subst. simpl.
        apply IH. reflexivity. }
    rewrite Hn. reflexivity.
  Qed.

  Theorem setitem_spec p old new i a b :
    Inv (fp_cache p) -> fp_getitem p i = Ok old -> In old (all_rules (fp_cache p)) ->
    keys_of new = Some (a, b) ->
    exists p', fp_setitem k0 k1 p i new = (p', Ok tt)
      /\ Inv (fp_cache p') /\ fp_filter p' = fp_filter p
      /\ forall r, In r (all_rules (fp_cache p'))
                   <-> r = new \/ (In r (all_rules (fp_cache p)) /\ r <> old).
  Proof.
    intros Hi Hg Hin E. unfold fp_setitem. rewrite Hg.
    destruct (remove_spec p old Hi Hin) as [p1 [H1 [Hi1 [Hf1 Hm1]]]]. rewrite H1.
    destruct (append_spec p1 new a b Hi1 E) as [p2 [H2 [Hi2 [Hf2 Hm2]]]]. rewrite H2.
    exists p2. split; [reflexivity|]. split; [exact Hi2|]. split; [congruence|].
    intro r. rewrite Hm2, Hm1. reflexivity.
  Qed.
End Order.

(* ====================================================================== policy.py on the container
   simulates policy.py on the plain list: same answers, same set of rules *)
Definition same_set (l1 l2 : list rule) : Prop := forall r, In r l1 <-> In r l2.

Lemma forallb_same_set (f : rule -> bool) l1 l2 : same_set l1 l2 -> forallb f l1 = forallb f l2.
Proof.
  intro H. destruct (forallb f l2) eqn:E.
  - rewrite forallb_forall in *. intros x Hx. apply E. apply H. exact Hx.
  - destruct (forallb f l1) eqn:E1; [|reflexivity]. rewrite forallb_forall in E1.
    assert (X : forallb f l2 = true) by (apply forallb_forall; intros x Hx; apply E1; apply H; exact Hx).
    congruence.
Qed.

Lemma forallb_pointwise {A} (f g : A -> bool) l : (forall x, f x = g x) -> forallb f l = forallb g l.
Proof. intro H. induction l as [|x l IH]; simpl; [reflexivity|]. rewrite H, IH. reflexivity. Qed.

Definition is_nil {A} (l : list A) : bool := match l with [] => true | _ => false end.

Lemma filter_nil_same_set (f : rule -> bool) l1 l2 :
  same_set l1 l2 -> is_nil (filter f l1) = is_nil (filter f l2).
Proof.
  intro H.
  assert (X : forall l, is_nil (filter f l) = forallb (fun x => negb (f x)) l).
  { induction l as [|x l IH]; simpl; [reflexivity|]. destruct (f x); simpl; [reflexivity|exact IH]. }
  rewrite !X. apply forallb_same_set. exact H.
Qed.

Lemma In_replace_rule old new l x :
  In old l -> (In x (replace_rule old new l) <-> x = new \/ (In x l /\ x <> old)).
Proof.
  intro Ho. unfold replace_rule. rewrite in_map_iff. split.
  - intros [y [Hy Hin]]. destruct (rule_eqb y old) eqn:E.
    + left. symmetry. exact Hy.
    + right. subst x. split; [exact Hin|]. apply rule_eqb_neq. exact E.
  - intros [H|[H1 H2]].
    + exists old. rewrite rule_eqb_refl. split; [symmetry; exact H|exact Ho].
    + exists x. apply rule_eqb_neq in H2. rewrite H2. split; [reflexivity|exact H1].
Qed.

Lemma split_filtered_err_code : forall l i vs c, split_filtered l i vs = Err c -> c = EIndex.
Proof.
  induction l as [|x l IH]; intros i vs c H; simpl in H; [discriminate|].
  destruct (filter_match x i vs) as [b|]; [|inversion H; reflexivity].
  destruct (split_filtered l i vs) as [[k g]|c'] eqn:E; [destruct b; discriminate|].
  inversion H; subst. exact (IH _ _ _ E).
Qed.

Section Sim.
  Variables k0 k1 : nat.
  Notation keys_of := (keys_of k0 k1).

  (* a rule the index can store: both key positions exist *)
  Definition wf (r : rule) : Prop := keys_of r <> None.

  (* the index [p] (no filter pending) and the plain list [l] hold the same duplicate-free set *)
  Definition R (p : fpol) (l : store) : Prop :=
    fp_filter p = FNone /\ Inv k0 k1 (fp_cache p) /\ NoDup l /\ same_set (all_rules (fp_cache p)) l.

  Lemma R_new : R fp_new [].
  Proof. split; [reflexivity|]. split; [apply Inv_empty|]. split; [constructor|]. intro r. reflexivity. Qed.

  Lemma R_iter p l : R p l -> fp_iter p = all_rules (fp_cache p).
  Proof. intros [Hf _]. apply iter_unfiltered. exact Hf. Qed.

  Theorem R_permutation p l : R p l -> Permutation (fp_iter p) l.
  Proof.
    intros HR. rewrite (R_iter p l HR). destruct HR as [_ [Hi [Hn Hs]]].
    apply NoDup_Permutation; [apply (NoDup_all_rules k0 k1); exact Hi|exact Hn|exact Hs].
  Qed.

  Lemma R_has p l r : R p l -> f_has k0 k1 p r = has_policy l r.
  Proof.
    intros [_ [Hi [_ Hs]]]. unfold f_has. rewrite (contains_is_has_policy k0 k1 p r Hi).
    destruct (has_policy l r) eqn:E.
    - apply has_policy_In. apply Hs. apply has_policy_In. exact E.
    - apply has_policy_false. intro H. apply Hs in H. apply has_policy_In in H. congruence.
  Qed.

  Lemma R_stored_wf p l r : R p l -> In r l -> wf r.
  Proof.
    intros [_ [Hi [_ Hs]]] H. apply Hs in H. destruct (stored_has_keys k0 k1 _ _ Hi H) as [a [b E]].
    unfold wf. rewrite E. discriminate.
  Qed.

  (* ---- add ---- *)
  Theorem sim_add p l r : R p l -> wf r ->
    exists p', f_add k0 k1 p r = (p', Ok (snd (add_policy None l r))) /\ R p' (fst (add_policy None l r)).
  Proof.
    intros HR Hw. unfold f_add, add_policy. rewrite (R_has p l r HR).
    destruct (has_policy l r) eqn:E; simpl; [exists p; split; [reflexivity|exact HR]|].
    unfold wf in Hw. destruct (keys_of r) as [[a b]|] eqn:Ek; [|contradiction].
    destruct HR as [Hf [Hi [Hn Hs]]].
    destruct (append_spec k0 k1 p r a b Hi Ek) as [p' [H1 [Hi' [Hf' Hm]]]]. rewrite H1.
    exists p'. split; [reflexivity|]. split; [congruence|]. split; [exact Hi'|]. split.
    - apply NoDup_app_snoc; [exact Hn|]. apply has_policy_false. exact E.
    - intro x. rewrite Hm, in_app_iff. simpl. rewrite (Hs x). intuition congruence.
  Qed.

  (* ---- remove ---- *)
  Lemma R_after_remove p l r p' :
    R p l -> Inv k0 k1 (fp_cache p') -> fp_filter p' = fp_filter p ->
    (forall x, In x (all_rules (fp_cache p')) <-> In x (all_rules (fp_cache p)) /\ x <> r) ->
    R p' (filter (neqb r) l).
  Proof.
    intros [Hf [Hi [Hn Hs]]] Hi' Hf' Hm. split; [congruence|]. split; [exact Hi'|]. split.
    - apply NoDup_filter. exact Hn.
    - intro x. rewrite Hm, filter_In, (Hs x). unfold neqb. split.
      + intros [H1 H2]. split; [exact H1|]. apply negb_true_iff. apply rule_eqb_neq. exact H2.
      + intros [H1 H2]. split; [exact H1|]. apply negb_true_iff in H2. apply rule_eqb_neq. exact H2.
  Qed.

  Theorem sim_remove p l r : R p l ->
    exists p', f_remove k0 k1 p r = (p', Ok (snd (remove_policy l r))) /\ R p' (fst (remove_policy l r)).
  Proof.
    intros HR. pose proof HR as [Hf [Hi [Hn Hs]]]. rewrite (remove_policy_spec l r Hn).
    unfold f_remove, spec_remove. rewrite (R_has p l r HR).
    destruct (has_policy l r) eqn:E; simpl; [|exists p; split; [reflexivity|exact HR]].
    assert (Hin : In r (all_rules (fp_cache p))) by (apply Hs; apply has_policy_In; exact E).
    destruct (remove_spec k0 k1 p r Hi Hin) as [p' [H1 [Hi' [Hf' Hm]]]]. rewrite H1.
    pose proof (R_after_remove p l r p' HR Hi' Hf' Hm) as HR'.
    exists p'. split; [|exact HR']. rewrite (R_has p' _ r HR').
    assert (X : has_policy (filter (neqb r) l) r = false).
    { apply has_policy_false. rewrite filter_In. unfold neqb. rewrite rule_eqb_refl. intros [_ H]. discriminate. }
    rewrite X. reflexivity.
  Qed.

  (* ---- batch add ---- *)
  Lemma sim_batch_addable p l : R p l -> forall rs seen,
    f_batch_addable k0 k1 p seen rs = batch_addable l seen rs.
  Proof.
    intros HR rs. induction rs as [|r rs IH]; intro seen; [reflexivity|].
    simpl. rewrite (R_has p l r HR), IH. reflexivity.
  Qed.

  Lemma sim_add_all : forall rs p l, R p l -> Forall wf rs ->
    exists p', f_add_all k0 k1 p rs = (p', Ok true) /\ R p' (add_all None l rs).
  Proof.
    induction rs as [|r rs IH]; intros p l HR Hw; simpl.
    - exists p. split; [reflexivity|exact HR].
    - inversion Hw as [|? ? Hr Hrs]; subst.
      destruct (sim_add p l r HR Hr) as [p1 [H1 HR1]]. rewrite H1.
      apply IH; assumption.
  Qed.

  Theorem sim_add_many p l rs : R p l -> Forall wf rs ->
    exists p', f_add_many k0 k1 p rs = (p', Ok (snd (add_policies None l rs)))
               /\ R p' (fst (add_policies None l rs)).
  Proof.
    intros HR Hw. unfold f_add_many, add_policies. rewrite (sim_batch_addable p l HR).
    destruct (batch_addable l [] rs); simpl.
    - apply sim_add_all; assumption.
    - exists p. split; [reflexivity|exact HR].
  Qed.

  (* ---- batch remove ---- *)
  Lemma sim_remove_each : forall rs p l, R p l -> Forall (fun r => In r l) rs -> NoDup rs ->
    exists p', f_remove_each k0 k1 p rs = (p', Ok true) /\ R p' (remove_present l rs).
  Proof.
    induction rs as [|r rs IH]; intros p l HR Hin Hnd; simpl.
    - exists p. split; [reflexivity|exact HR].
    - inversion Hin as [|? ? Hr Hrs]; subst. inversion Hnd as [|? ? Hnr Hnd']; subst.
      pose proof HR as [Hf [Hi [Hn Hs]]].
      assert (Hra : In r (all_rules (fp_cache p))) by (apply Hs; exact Hr).
      destruct (remove_spec k0 k1 p r Hi Hra) as [p1 [H1 [Hi1 [Hf1 Hm1]]]]. rewrite H1.
      rewrite (remove_first_spec l r Hn).
      assert (Hh : has_policy l r = true) by (apply has_policy_In; exact Hr). rewrite Hh.
      apply IH; [exact (R_after_remove p l r p1 HR Hi1 Hf1 Hm1)| |exact Hnd'].
      rewrite Forall_forall in *. intros x Hx. rewrite filter_In. split; [apply Hrs; exact Hx|].
      unfold neqb. apply negb_true_iff. apply rule_eqb_neq. intro; subst. contradiction.
  Qed.

  Theorem sim_remove_many p l rs : R p l ->
    exists p', f_remove_many k0 k1 p rs = (p', Ok (snd (remove_policies l rs)))
               /\ R p' (fst (remove_policies l rs)).
  Proof.
    intros HR. unfold f_remove_many, remove_policies.
    rewrite (forallb_pointwise (f_has k0 k1 p) (has_policy l) rs (fun r => R_has p l r HR)).
    destruct (forallb (has_policy l) rs) eqn:E1; simpl; [|exists p; split; [reflexivity|exact HR]].
    destruct (nodupb rule_eqb rs) eqn:E2; simpl; [|exists p; split; [reflexivity|exact HR]].
    apply sim_remove_each; [exact HR| |apply nodupb_NoDup; exact E2].
    rewrite forallb_forall in E1. apply Forall_forall. intros x Hx. apply has_policy_In. apply E1. exact Hx.
  Qed.

  (* ---- filtered removal ---- *)
  Theorem sim_remove_filtered p l i vs : R p l ->
    match remove_filtered l i vs with
    | Ok (l', b) => exists p', f_remove_filtered k0 k1 p i vs = (p', Ok b) /\ R p' l'
    | Err c => f_remove_filtered k0 k1 p i vs = (p, Err c)
    end.
  Proof.
    intros HR. pose proof HR as [Hf [Hi [Hn Hs]]].
    unfold remove_filtered, f_remove_filtered. rewrite (R_iter p l HR).
    set (P := fun r : rule => match filter_match r i vs with Some _ => true | None => false end).
    pose proof (forallb_same_set P _ _ Hs) as HP.
    destruct (forallb P l) eqn:E.
    - destruct (split_filtered_total l i vs E) as [k [g Hkg]]. rewrite Hkg.
      destruct (split_filtered_total _ i vs HP) as [k' [g' Hkg']]. rewrite Hkg'.
      destruct (split_filtered_spec _ _ _ _ _ Hkg) as [Hg Hk].
      destruct (split_filtered_spec _ _ _ _ _ Hkg') as [Hg' Hk'].
      assert (Hin : Forall (fun r => In r l) g').
      { apply Forall_forall. intros x Hx. subst g'. apply filter_In in Hx. apply Hs. tauto. }
      assert (Hnd : NoDup g').
      { subst g'. apply NoDup_filter. apply (NoDup_all_rules k0 k1). exact Hi. }
      destruct (sim_remove_each g' p l HR Hin Hnd) as [p' [H1 HR']]. rewrite H1.
      exists p'. split.
      + f_equal. f_equal. f_equal. subst g g'.
        change (is_nil (filter (fm_true i vs) (all_rules (fp_cache p))) = is_nil (filter (fm_true i vs) l)).
        apply filter_nil_same_set. exact Hs.
      + replace k with (remove_present l g'); [exact HR'|].
        rewrite (remove_present_spec g' l Hn). subst k. apply filter_ext_in. intros x Hx.
        unfold notin. f_equal. subst g'.
        destruct (fm_true i vs x) eqn:Ef.
        * apply mem_rule_In. apply filter_In. split; [apply Hs; exact Hx|exact Ef].
        * destruct (mem rule_eqb x (filter (fm_true i vs) (all_rules (fp_cache p)))) eqn:Em; [|reflexivity].
          apply mem_rule_In in Em. apply filter_In in Em. destruct Em as [_ Em]. congruence.
    - destruct (split_filtered_err l i vs E) as [c Hc]. rewrite Hc.
      destruct (split_filtered_err _ i vs HP) as [c' Hc']. rewrite Hc'.
      rewrite (split_filtered_err_code _ _ _ _ Hc), (split_filtered_err_code _ _ _ _ Hc'). reflexivity.
  Qed.

  (* ---- update ---- *)
  Theorem sim_update p l old new : R p l -> wf new ->
    exists p', f_update k0 k1 p old new = (p', Ok (snd (spec_update l old new)))
               /\ R p' (fst (spec_update l old new)).
  Proof.
    intros HR Hw. pose proof HR as [Hf [Hi [Hn Hs]]].
    unfold f_update, spec_update. rewrite !(R_has p l _ HR).
    destruct (has_policy l old) eqn:Eo; simpl; [|exists p; split; [reflexivity|exact HR]].
    assert (Hol : In old l) by (apply has_policy_In; exact Eo).
    assert (Hoa : In old (all_rules (fp_cache p))) by (apply Hs; exact Hol).
    assert (Hoi : In old (fp_iter p)) by (rewrite (R_iter p l HR); exact Hoa).
    destruct (index_getitem p old Hoi) as [idx [Hx Hg]]. rewrite Hx.
    destruct (has_policy l new) eqn:En; simpl; [exists p; split; [reflexivity|exact HR]|].
    unfold wf in Hw. destruct (keys_of new) as [[a b]|] eqn:Ek; [|contradiction].
    destruct (setitem_spec k0 k1 p old new idx a b Hi Hg Hoa Ek) as [p' [H1 [Hi' [Hf' Hm]]]]. rewrite H1.
    exists p'. split; [reflexivity|]. split; [congruence|]. split; [exact Hi'|]. split.
    - pose proof (update_keeps_nodup l old new Hn) as X. unfold spec_update in X. rewrite Eo, En in X. exact X.
    - intro x. rewrite Hm, (In_replace_rule old new l x Hol), (Hs x). reflexivity.
  Qed.
End Sim.

(* ====================================================================== update_policies *)
Lemma index_of_nth : forall (l : list rule) r i, index_of rule_eqb r l = Some i -> nth_error l i = Some r.
Proof.
  induction l as [|x l IH]; simpl; intros r i Hi; [discriminate|].
  destruct (rule_eqb r x) eqn:E.
  - apply rule_eqb_eq in E. subst. inversion Hi; subst. reflexivity.
  - destruct (index_of rule_eqb r l) as [j|] eqn:Ej; [|discriminate]. inversion Hi; subst. simpl.
    apply IH. exact Ej.
Qed.

Lemma indices_of_nth : forall olds (l : store) idxs,
  indices_of l olds = Some idxs -> Forall2 (fun o i => nth_error l i = Some o) olds idxs.
Proof.
  induction olds as [|o olds IH]; simpl; intros l idxs H.
  - inversion H. constructor.
  - destruct (index_of rule_eqb o l) as [i|] eqn:Ei; [|discriminate].
    destruct (indices_of l olds) as [r|] eqn:Er; [|discriminate]. inversion H; subst.
    constructor; [apply index_of_nth; exact Ei|apply IH; exact Er].
Qed.

Lemma indices_of_some : forall olds (l : store),
  forallb (has_policy l) olds = true -> exists idxs, indices_of l olds = Some idxs.
Proof.
  induction olds as [|o olds IH]; simpl; intros l H; [eauto|].
  apply andb_true_iff in H. destruct H as [H1 H2]. apply has_policy_In in H1. apply index_of_has in H1.
  destruct H1 as [i Hi]. rewrite Hi. destruct (IH l H2) as [r Hr]. rewrite Hr. eauto.
Qed.

Lemma indices_of_none : forall olds (l : store),
  forallb (has_policy l) olds = false -> indices_of l olds = None.
Proof.
  induction olds as [|o olds IH]; simpl; intros l H; [discriminate|].
  destruct (has_policy l o) eqn:Eo; simpl in H.
  - rewrite (IH l H). destruct (index_of rule_eqb o l); reflexivity.
  - apply has_policy_false in Eo. destruct (index_of rule_eqb o l) as [i|] eqn:Ei; [|reflexivity].
    exfalso. apply Eo. apply index_of_has. eauto.
Qed.

Lemma nth_error_set_nth_other {A} (n : A) : forall l i j, i <> j -> nth_error (set_nth i n l) j = nth_error l j.
Proof.
  induction l as [|y l IH]; intros i j Hne; destruct i as [|i]; simpl; try reflexivity.
  - destruct j as [|j]; [contradiction|reflexivity].
  - destruct j as [|j]; [reflexivity|]. simpl. apply IH. intro; subst. contradiction.
Qed.

Lemma set_nth_mem (n o : rule) : forall l i, NoDup l -> nth_error l i = Some o ->
  forall x, In x (set_nth i n l) <-> x = n \/ (In x l /\ x <> o).
Proof.
  induction l as [|y l IH]; intros i Hnd Hi x; destruct i as [|i]; simpl in Hi; try discriminate.
  - inversion Hi; subst y. inversion Hnd as [|? ? Hy Hnd']; subst. simpl. split.
    + intros [H|H]; [left; symmetry; exact H|right]. split; [right; exact H|]. intro; subst. contradiction.
    + intros [H|[[H|H] Hne]]; [left; symmetry; exact H| |right; exact H]. subst. contradiction.
  - inversion Hnd as [|? ? Hy Hnd']; subst. simpl. rewrite (IH i Hnd' Hi x).
    assert (Hyo : y <> o) by (intro; subst; apply Hy; eapply nth_error_In; exact Hi).
    split.
    + intros [H|[H|[H1 H2]]]; [right; split; [left; exact H|subst; exact Hyo]|left; exact H|right; split; [right; exact H1|exact H2]].
    + intros [H|[[H|H] Hne]]; [right; left; exact H|left; exact H|right; right; split; assumption].
  Qed.

Lemma write_all_set : forall olds idxs news (l : store),
  NoDup l -> Forall2 (fun o i => nth_error l i = Some o) olds idxs -> NoDup olds ->
  length news = length olds -> NoDup news -> (forall n, In n news -> ~ In n l) ->
  forall x, In x (write_all l idxs news) <-> (In x l /\ ~ In x olds) \/ In x news.
Proof.
  induction olds as [|o ro IH]; intros idxs news l Hl Hf Ho Hlen Hn Hd x.
  - inversion Hf; subst. destruct news; [|discriminate]. simpl. tauto.
  - inversion Hf as [|? i ? ri Hi Hf']; subst. destruct news as [|n rn]; [discriminate|].
    inversion Ho as [|? ? Hor Ho']; subst. inversion Hn as [|? ? Hnr Hn']; subst.
    assert (Hnl : ~ In n l) by (apply Hd; left; reflexivity).
    cbn [write_all].
    assert (Hsub : forall y, In y ro -> In y l).
    { clear -Hf'. induction Hf' as [|y j ys js Hy _ IHf]; intros z Hz; [contradiction|].
      destruct Hz as [Hz|Hz]; [subst; eapply nth_error_In; exact Hy|apply IHf; exact Hz]. }
    rewrite (IH ri rn (set_nth i n l)).
    + rewrite (set_nth_mem n o l i Hl Hi x). simpl.
      assert (F1 : x = n -> ~ In x ro) by (intros -> H; apply Hnl; apply Hsub; exact H).
      assert (F2 : x = n <-> n = x) by (split; intro; subst; reflexivity).
      assert (F3 : x = o <-> o = x) by (split; intro; subst; reflexivity).
      tauto.
    + apply set_nth_nodup; assumption.
    + clear -Hf' Hi Hor Hl. induction Hf' as [|y j ys js Hy _ IHf]; constructor.
      * rewrite nth_error_set_nth_other; [exact Hy|]. intro; subst j. rewrite Hi in Hy. inversion Hy; subst.
        apply Hor. left. reflexivity.
      * apply IHf. intro H. apply Hor. right. exact H.
    + exact Ho'.
    + simpl in Hlen. lia.
    + exact Hn'.
    + intros m Hm Hin. apply set_nth_in in Hin. destruct Hin as [Hin|Hin].
      * subst. contradiction.
      * apply (Hd m); [right; exact Hm|exact Hin].
Qed.

Section SimMany.
  Variables k0 k1 : nat.
  Notation keys_of := (keys_of k0 k1).
  Notation wf := (wf k0 k1).
  Notation R := (R k0 k1).

  Lemma f_olds_ok_spec p l : R p l -> forall olds seen,
    f_olds_ok k0 k1 p seen olds
    = forallb (has_policy l) olds && forallb (fun r => negb (mem rule_eqb r seen)) olds && nodupb rule_eqb olds.
  Proof.
    intros HR. induction olds as [|r rs IH]; intro seen; [reflexivity|].
    cbn [f_olds_ok forallb nodupb]. rewrite IH, forallb_notmem_cons, (R_has k0 k1 p l r HR).
    destruct (has_policy l r), (mem rule_eqb r seen), (mem rule_eqb r rs),
      (forallb (has_policy l) rs), (forallb (fun r0 => negb (mem rule_eqb r0 seen)) rs),
      (nodupb rule_eqb rs); reflexivity.
  Qed.

  Lemma f_write_all_set : forall olds news p,
    Inv k0 k1 (fp_cache p) -> fp_filter p = FNone ->
    Forall (fun o => In o (all_rules (fp_cache p))) olds -> NoDup olds ->
    length news = length olds -> Forall wf news -> NoDup news ->
    (forall n, In n news -> ~ In n (all_rules (fp_cache p))) ->
    exists p', f_write_all k0 k1 p olds news = (p', Ok true)
      /\ Inv k0 k1 (fp_cache p') /\ fp_filter p' = FNone
      /\ forall x, In x (all_rules (fp_cache p'))
                   <-> (In x (all_rules (fp_cache p)) /\ ~ In x olds) \/ In x news.
  Proof.
    induction olds as [|o ro IH]; intros news p Hi Hf Hin Ho Hlen Hw Hn Hd.
    - destruct news; [|discriminate]. exists p. simpl. split; [reflexivity|]. split; [exact Hi|].
      split; [exact Hf|]. intro x. tauto.
    - destruct news as [|n rn]; [discriminate|].
      inversion Hin as [|? ? Hoa Hin']; subst. inversion Ho as [|? ? Hor Ho']; subst.
      inversion Hw as [|? ? Hwn Hw']; subst. inversion Hn as [|? ? Hnr Hn']; subst.
      assert (Hna : ~ In n (all_rules (fp_cache p))) by (apply Hd; left; reflexivity).
      cbn [f_write_all].
      assert (Hoi : In o (fp_iter p)) by (rewrite (iter_unfiltered p Hf); exact Hoa).
      destruct (index_getitem p o Hoi) as [idx [Hx Hg]]. rewrite Hx.
      unfold FastProofs.wf in Hwn. destruct (keys_of n) as [[a b]|] eqn:Ek; [|contradiction].
      destruct (setitem_spec k0 k1 p o n idx a b Hi Hg Hoa Ek) as [p1 [H1 [Hi1 [Hf1 Hm1]]]]. rewrite H1.
      destruct (IH rn p1) as [p' [H2 [Hi' [Hf' Hm']]]]; try assumption.
      + congruence.
      + rewrite Forall_forall in *. intros y Hy. apply Hm1. right. split; [apply Hin'; exact Hy|].
        intro; subst. contradiction.
      + simpl in Hlen. lia.
      + intros m Hm Hma. apply Hm1 in Hma. destruct Hma as [Hma|[Hma _]].
        * subst. contradiction.
        * apply (Hd m); [right; exact Hm|exact Hma].
      + exists p'. split; [exact H2|]. split; [exact Hi'|]. split; [exact Hf'|]. intro x.
        rewrite Hm', Hm1. simpl.
        assert (F1 : x = n -> ~ In x ro).
        { intros -> H. apply Hna. rewrite Forall_forall in Hin'. apply Hin'. exact H. }
        assert (F2 : x = n <-> n = x) by (split; intro; subst; reflexivity).
        assert (F3 : x = o <-> o = x) by (split; intro; subst; reflexivity).
        tauto.
  Qed.

  Theorem sim_update_many p l olds news : R p l -> Forall wf news ->
    exists p' l' b, update_policies None l olds news = Ok (l', b)
                    /\ f_update_many k0 k1 p olds news = (p', Ok b) /\ R p' l'.
  Proof.
    intros HR Hw. pose proof HR as [Hf [Hi [Hn Hs]]].
    unfold update_policies, f_update_many.
    destruct (negb (Nat.eqb (length olds) (length news))) eqn:El; [exists p, l, false; auto|].
    rewrite (f_olds_ok_spec p l HR olds []).
    assert (Hseen : forall rs, forallb (fun r : rule => negb (mem rule_eqb r [])) rs = true)
      by (induction rs as [|x rs IHr]; [reflexivity|exact IHr]).
    rewrite Hseen, andb_true_r. rewrite (sim_batch_addable k0 k1 p l HR).
    destruct (nodupb rule_eqb olds) eqn:Eo; cbn [negb];
      [|rewrite andb_false_r; exists p, l, false; auto].
    rewrite andb_true_r.
    destruct (forallb (has_policy l) olds) eqn:Eh; cbn [negb].
    2:{ rewrite (indices_of_none olds l Eh). exists p, l, false. auto. }
    destruct (indices_of_some olds l Eh) as [idxs Hidx]. rewrite Hidx.
    destruct (batch_addable l [] news) eqn:Eb; cbn [negb]; [|exists p, l, false; auto].
    rewrite batch_addable_spec in Eb. apply andb_true_iff in Eb. destruct Eb as [Eb Hnn].
    apply andb_true_iff in Eb. destruct Eb as [Habs _].
    apply negb_false_iff in El. apply Nat.eqb_eq in El.
    assert (Hdis : forall n, In n news -> ~ In n l).
    { intros n Hin. rewrite forallb_forall in Habs. specialize (Habs n Hin).
      apply negb_true_iff in Habs. apply has_policy_false. exact Habs. }
    assert (Hol : Forall (fun o => In o (all_rules (fp_cache p))) olds).
    { apply Forall_forall. intros o Hoin. rewrite forallb_forall in Eh. apply Hs. apply has_policy_In.
      apply Eh. exact Hoin. }
    destruct (f_write_all_set olds news p Hi Hf Hol (nodupb_NoDup _ Eo) (eq_sym El) Hw (nodupb_NoDup _ Hnn))
      as [p' [H1 [Hi' [Hf' Hm]]]].
    { intros n Hin Ha. apply (Hdis n Hin). apply Hs. exact Ha. }
    exists p', (write_all l idxs news), true. split; [reflexivity|]. split; [exact H1|].
    split; [exact Hf'|]. split; [exact Hi'|]. split.
    - apply write_all_nodup; [exact Hn|apply nodupb_NoDup; exact Hnn|exact Hdis].
    - intro x. rewrite Hm.
      rewrite (write_all_set olds idxs news l Hn (indices_of_nth _ _ _ Hidx) (nodupb_NoDup _ Eo)
                 (eq_sym El) (nodupb_NoDup _ Hnn) Hdis x).
      rewrite (Hs x). reflexivity.
  Qed.
End SimMany.

(* ====================================================================== histories *)
Section History.
  Variables k0 k1 : nat.
  Notation keys_of := (keys_of k0 k1).
  Notation wf := (wf k0 k1).
  Notation R := (R k0 k1).

  (* policy.py on the plain list, with the answers (Policy.v; the store part is PolicyProofs.sstep) *)
  Definition pstep (l : store) (o : sop) : store * result bool :=
    match o with
    | SAdd r => (fst (add_policy None l r), Ok (snd (add_policy None l r)))
    | SAddMany rs => (fst (add_policies None l rs), Ok (snd (add_policies None l rs)))
    | SRemove r => (fst (remove_policy l r), Ok (snd (remove_policy l r)))
    | SRemoveMany rs => (fst (remove_policies l rs), Ok (snd (remove_policies l rs)))
    | SRemoveFiltered i vs => match remove_filtered l i vs with Ok (l', b) => (l', Ok b) | Err c => (l, Err c) end
    | SUpdate o n => match update_policy None l o n with Ok (l', b) => (l', Ok b) | Err c => (l, Err c) end
    | SUpdateMany os ns => match update_policies None l os ns with Ok (l', b) => (l', Ok b) | Err c => (l, Err c) end
    end.

  (* policy.py on the index *)
  Definition fstep (p : fpol) (o : sop) : fpol * result bool :=
    match o with
    | SAdd r => f_add k0 k1 p r
    | SAddMany rs => f_add_many k0 k1 p rs
    | SRemove r => f_remove k0 k1 p r
    | SRemoveMany rs => f_remove_many k0 k1 p rs
    | SRemoveFiltered i vs => f_remove_filtered k0 k1 p i vs
    | SUpdate o n => f_update k0 k1 p o n
    | SUpdateMany os ns => f_update_many k0 k1 p os ns
    end.

  (* every rule a call may store reaches both key positions *)
  Definition wf_op (o : sop) : Prop :=
    match o with
    | SAdd r => wf r
    | SAddMany rs => Forall wf rs
    | SUpdate _ n => wf n
    | SUpdateMany _ ns => Forall wf ns
    | _ => True
    end.

  Lemma pstep_store l o : fst (pstep l o) = sstep l o.
  Proof.
    destruct o as [r|rs|r|rs|i vs|o n|os ns]; simpl; try reflexivity.
    - destruct (remove_filtered l i vs) as [[l' b]|c]; reflexivity.
    - destruct (update_policy None l o n) as [[l' b]|c]; reflexivity.
    - destruct (update_policies None l os ns) as [[l' b]|c]; reflexivity.
  Qed.

  Theorem sim_step p l o : R p l -> wf_op o ->
    exists p', fstep p o = (p', snd (pstep l o)) /\ R p' (fst (pstep l o)).
  Proof.
    intros HR Hw. destruct o as [r|rs|r|rs|i vs|o n|os ns]; simpl in *.
    - apply sim_add; assumption.
    - apply sim_add_many; assumption.
    - apply sim_remove; assumption.
    - apply sim_remove_many; assumption.
    - pose proof (sim_remove_filtered k0 k1 p l i vs HR) as H.
      destruct (remove_filtered l i vs) as [[l' b]|c]; [exact H|]. exists p. split; [exact H|exact HR].
    - destruct HR as [Hf [Hi [Hn Hs]]]. rewrite (update_policy_spec l o n Hn).
      destruct (spec_update l o n) as [l' b] eqn:E.
      destruct (sim_update k0 k1 p l o n (conj Hf (conj Hi (conj Hn Hs))) Hw) as [p' [H1 H2]].
      rewrite E in H1, H2. exists p'. split; assumption.
    - destruct (sim_update_many k0 k1 p l os ns HR Hw) as [p' [l' [b [H1 [H2 H3]]]]].
      rewrite H1. exists p'. split; assumption.
  Qed.

  Fixpoint prun (l : store) (ops : list sop) : store * list (result bool) :=
    match ops with
    | [] => (l, [])
    | o :: rest => let '(l', r) := pstep l o in let '(l'', rs) := prun l' rest in (l'', r :: rs)
    end.
  Fixpoint frun (p : fpol) (ops : list sop) : fpol * list (result bool) :=
    match ops with
    | [] => (p, [])
    | o :: rest => let '(p', r) := fstep p o in let '(p'', rs) := frun p' rest in (p'', r :: rs)
    end.

  (* every management history: same answers call by call, same set of rules at the end *)
  Theorem history_simulation : forall ops p l, R p l -> Forall wf_op ops ->
    snd (frun p ops) = snd (prun l ops) /\ R (fst (frun p ops)) (fst (prun l ops)).
  Proof.
    induction ops as [|o ops IH]; intros p l HR Hw; simpl; [split; [reflexivity|exact HR]|].
    inversion Hw as [|? ? Ho Hops]; subst.
    destruct (sim_step p l o HR Ho) as [p' [H1 HR']]. rewrite H1.
    destruct (pstep l o) as [l' r] eqn:Ep. simpl in *.
    destruct (IH p' l' HR' Hops) as [Hres HRf].
    destruct (frun p' ops) as [p'' rs]. destruct (prun l' ops) as [l'' rs']. simpl in *.
    split; [f_equal; exact Hres|exact HRf].
  Qed.

  (* ---- the index never hides a rule and never resurrects one ---- *)
  Theorem never_hides p l r : R p l -> In r l ->
    exists a b, keys_of r = Some (a, b) /\ In r (fp_iter (fp_apply_filter p a b)) /\ In r (fp_iter p).
  Proof.
    intros HR Hin. pose proof HR as [Hf [Hi [Hn Hs]]]. apply Hs in Hin.
    destruct (stored_has_keys k0 k1 _ _ Hi Hin) as [a [b E]]. exists a, b. split; [exact E|]. split.
    - apply (filtered_view_exact k0 k1 p a b r Hi). split; assumption.
    - rewrite (R_iter k0 k1 p l HR). exact Hin.
  Qed.

  Theorem never_resurrects p l r : R p l -> ~ In r l ->
    ~ In r (fp_iter p) /\ (forall a b, ~ In r (fp_iter (fp_apply_filter p a b))) /\ fp_contains k0 k1 p r = false.
  Proof.
    intros HR Hn. pose proof HR as [Hf [Hi [Hnd Hs]]]. split; [|split].
    - rewrite (R_iter k0 k1 p l HR). intro H. apply Hn. apply Hs. exact H.
    - intros a b H. apply (filtered_view_exact k0 k1 p a b r Hi) in H. apply Hn. apply Hs. tauto.
    - destruct (fp_contains k0 k1 p r) eqn:E; [|reflexivity]. apply (contains_spec k0 k1 p r Hi) in E.
      exfalso. apply Hn. apply Hs. exact E.
  Qed.

  (* the filtered view after ANY history, exactly *)
  Theorem history_view_exact : forall ops, Forall wf_op ops ->
    forall r a b, In r (fp_iter (fp_apply_filter (fst (frun fp_new ops)) a b))
                  <-> In r (fst (prun [] ops)) /\ keys_of r = Some (a, b).
  Proof.
    intros ops Hw r a b. destruct (history_simulation ops fp_new [] (R_new k0 k1) Hw) as [_ HR].
    destruct HR as [Hf [Hi [Hn Hs]]]. rewrite (filtered_view_exact k0 k1 _ a b r Hi), (Hs r). reflexivity.
  Qed.
End History.

(* ====================================================================== decisions *)
Lemma nth_error_fld (r : rule) i a : nth_error r i = Some a -> fld r i = a.
Proof. intro H. unfold fld. apply nth_error_nth. exact H. Qed.

(* cache-key positions the matcher compares by equality with the request field at the SAME position *)
Definition admissible (k : mkind) (x : nat) : bool :=
  negb (k_prio k)
  && (Nat.eqb x (i_act k) || (Nat.eqb x (i_obj k) && negb (k_g2 k))
      || (Nat.eqb x (i_sub k) && negb (k_g k)) || (Nat.eqb x (i_dom k) && k_dom k)).

Lemma matcher_key k s req r x :
  admissible k x = true -> rule_matches k s req r = true -> fld req x = fld r x.
Proof.
  intros Ha Hm. unfold admissible in Ha. apply andb_true_iff in Ha. destruct Ha as [Hp Ha].
  unfold rule_matches in Hm. unfold i_act, i_obj, i_dom, i_sub in *.
  destruct k as [dom g g2 eft prio eff ad w]. simpl in *. destruct prio; [discriminate|]. clear Hp.
  repeat (apply andb_true_iff in Hm; let H := fresh "Hm" in destruct Hm as [Hm H]).
  repeat rewrite orb_true_iff in Ha.
  destruct Ha as [[[Ha|Ha]|Ha]|Ha].
  - apply Nat.eqb_eq in Ha. subst x. destruct dom; apply N.eqb_eq; assumption.
  - apply andb_true_iff in Ha. destruct Ha as [Ha Hg2]. apply Nat.eqb_eq in Ha. subst x.
    destruct g2; [discriminate|]. destruct dom; apply N.eqb_eq; assumption.
  - apply andb_true_iff in Ha. destruct Ha as [Ha Hg]. apply Nat.eqb_eq in Ha. subst x.
    destruct g; [discriminate|]. apply N.eqb_eq; assumption.
  - apply andb_true_iff in Ha. destruct Ha as [Ha Hd]. apply Nat.eqb_eq in Ha. subst x.
    destruct dom; [|discriminate]. apply N.eqb_eq; assumption.
Qed.

Lemma outcome_not_bad k s req r : length r = p_arity k -> is_bad (rule_outcome k s req r) = false.
Proof.
  intro H. unfold rule_outcome. rewrite H, Nat.eqb_refl. simpl.
  destruct (rule_matches k s req r); [|reflexivity].
  destruct (k_eft k); [|reflexivity].
  destruct (fld r (i_eft k) =? A_ALLOW); [reflexivity|]. destruct (fld r (i_eft k) =? A_DENY); reflexivity.
Qed.

Lemma all_nomatch_decision e outs :
  (forall o, In o outs -> o = NoMatch) ->
  spec_decision e outs = match e with DO => true | _ => false end.
Proof.
  intro H.
  assert (X : forall f, f NoMatch = false -> existsb f outs = false).
  { intros f Hf. induction outs as [|o outs IH]; [reflexivity|]. simpl.
    rewrite (H o (or_introl eq_refl)), Hf. apply IH. intros o' Ho'. apply H. right. exact Ho'. }
  destruct e; simpl; rewrite ?(X is_allow eq_refl), ?(X is_deny eq_refl); try reflexivity.
  induction outs as [|o outs IH]; [reflexivity|]. simpl. rewrite (H o (or_introl eq_refl)).
  apply IH; [intros o' Ho'; apply H; right; exact Ho'|].
  intros f Hf. specialize (X f Hf). simpl in X. rewrite (H o (or_introl eq_refl)), Hf in X. exact X.
Qed.

Lemma existsb_bucket (oc : rule -> outcome) (f : outcome -> bool) (B l : list rule) :
  f NoMatch = false ->
  (forall r, In r B -> In r l) -> (forall r, In r l -> ~ In r B -> oc r = NoMatch) ->
  (forall r, {In r B} + {~ In r B}) ->
  existsb f (map oc l) = existsb f (map oc B).
Proof.
  intros Hf H1 H2 Hdec. destruct (existsb f (map oc B)) eqn:E.
  - apply existsb_exists in E. destruct E as [o [Ho Hfo]]. apply in_map_iff in Ho. destruct Ho as [r [Hr Hin]].
    apply existsb_exists. exists o. split; [|exact Hfo]. apply in_map_iff. exists r. split; [exact Hr|apply H1; exact Hin].
  - destruct (existsb f (map oc l)) eqn:E2; [|reflexivity].
    apply existsb_exists in E2. destruct E2 as [o [Ho Hfo]]. apply in_map_iff in Ho. destruct Ho as [r [Hr Hin]].
    destruct (Hdec r) as [Hb|Hb].
    + assert (X : existsb f (map oc B) = true).
      { apply existsb_exists. exists o. split; [|exact Hfo]. apply in_map_iff. exists r. split; assumption. }
      congruence.
    + rewrite (H2 r Hin Hb) in Hr. subst o. congruence.
Qed.

Lemma In_rule_dec (r : rule) (l : list rule) : {In r l} + {~ In r l}.
Proof.
  destruct (has_policy l r) eqn:E; [left; apply has_policy_In; exact E|right; apply has_policy_false; exact E].
Qed.

(* the decision over a sub-list B of l outside which every rule is a NoMatch equals the decision over l,
   for the order-insensitive effectors — except when B is empty and l is not and the matcher accepts
   the all-empty rule *)
Lemma enforce_bucket_eq (e : effector) (c : cfg) (oc : rule -> outcome) (em : bool) (B l : list rule) :
  e <> PR ->
  (forall r, In r B -> In r l) ->
  (forall r, In r l -> ~ In r B -> oc r = NoMatch) ->
  (forall r, In r l -> is_bad (oc r) = false) ->
  (B = [] -> l <> [] -> em = false) ->
  enforce (intermediate_ref e) (final_ref e) eff_bool c (map oc B) em
  = enforce (intermediate_ref e) (final_ref e) eff_bool c (map oc l) em.
Proof.
  intros He H1 H2 H3 H4. rewrite !enforce_is_fst_enforce_ex.
  destruct c as [en ar]. destruct en.
  2:{ rewrite !disabled_allows by reflexivity. reflexivity. }
  destruct ar.
  2:{ rewrite !arity_raises by reflexivity. reflexivity. }
  change {| enabled := true; arity_ok := true |} with on.
  change (enforce_ex (intermediate_ref e) (final_ref e) eff_bool on) with (enforce_ex_ref e on).
  assert (Hnb : forall L, (forall r, In r L -> In r l) -> no_bad (map oc L) = true).
  { intros L HL. unfold no_bad. apply forallb_forall. intros o Ho. apply in_map_iff in Ho.
    destruct Ho as [r [Hr Hin]]. subst o. rewrite (H3 r (HL r Hin)). reflexivity. }
  destruct l as [|x l'] eqn:El.
  - destruct B as [|y B']; [reflexivity|]. exfalso. apply (H1 y). left. reflexivity.
  - rewrite <- El in *.
    assert (Hl : map oc l <> []) by (rewrite El; discriminate).
    rewrite (enforce_ex_ref_char e (map oc l) em Hl).
    rewrite (no_bad_no_error e _ (Hnb l (fun r H => H))).
    destruct B as [|y B'] eqn:EB.
    + simpl map. rewrite enforce_ex_ref_empty.
      assert (Hem : em = false) by (apply H4; [reflexivity|rewrite El; discriminate]).
      rewrite (all_nomatch_decision e (map oc l)).
      * subst em. destruct e; reflexivity.
      * intros o Ho. apply in_map_iff in Ho. destruct Ho as [r [Hr Hin]]. subst o. apply H2; [exact Hin|intros []].
    + rewrite <- EB in *.
      assert (HB : map oc B <> []) by (rewrite EB; discriminate).
      rewrite (enforce_ex_ref_char e (map oc B) em HB).
      rewrite (no_bad_no_error e _ (Hnb B H1)).
      f_equal.
      assert (X : forall f, f NoMatch = false -> existsb f (map oc l) = existsb f (map oc B)).
      { intros f Hf. apply existsb_bucket; try assumption. intro r. apply In_rule_dec. }
      destruct e; simpl; rewrite ?(X is_allow eq_refl), ?(X is_deny eq_refl); try reflexivity. contradiction.
Qed.

Lemma admissible_lt k x : admissible k x = true -> (x < r_arity k)%nat.
Proof.
  unfold admissible, r_arity, i_act, i_obj, i_dom, i_sub. intro Ha.
  apply andb_true_iff in Ha. destruct Ha as [Hp Ha]. destruct (k_prio k); [discriminate|].
  repeat rewrite orb_true_iff in Ha.
  destruct Ha as [[[Ha|Ha]|Ha]|Ha]; try (apply andb_true_iff in Ha; destruct Ha as [Ha Hx]);
    apply Nat.eqb_eq in Ha; subst x; destruct (k_dom k); try discriminate; lia.
Qed.

Section Decide.
  Variables k0 k1 : nat.
  Notation keys_of := (keys_of k0 k1).
  Notation R := (R k0 k1).

  Lemma outside_nomatch k s req r a b a' b' :
    admissible k k0 = true -> admissible k k1 = true ->
    nth_error req k0 = Some a -> nth_error req k1 = Some b ->
    keys_of r = Some (a', b') -> (a', b') <> (a, b) -> length r = p_arity k ->
    rule_outcome k s req r = NoMatch.
  Proof.
    intros A0 A1 Ha Hb Hk Hne Hlen. unfold rule_outcome. rewrite Hlen, Nat.eqb_refl. simpl.
    destruct (rule_matches k s req r) eqn:Em; [|reflexivity]. exfalso. apply Hne.
    unfold Fast.keys_of in Hk. destruct (nth_error r k0) as [x|] eqn:E0; [|discriminate].
    destruct (nth_error r k1) as [y|] eqn:E1; [|discriminate]. inversion Hk; subst.
    pose proof (matcher_key k s req r k0 A0 Em) as M0. pose proof (matcher_key k s req r k1 A1 Em) as M1.
    rewrite (nth_error_fld _ _ _ Ha), (nth_error_fld _ _ _ E0) in M0.
    rewrite (nth_error_fld _ _ _ Hb), (nth_error_fld _ _ _ E1) in M1. congruence.
  Qed.

  (* the indexed path: the request reaches both key positions *)
  Lemma decide_equal_keyed k s p l req a b :
    R p l ->
    admissible k k0 = true -> admissible k k1 = true -> k_eff k <> PR ->
    (forall r, In r l -> length r = p_arity k) ->
    nth_error req k0 = Some a -> nth_error req k1 = Some b ->
    empty_rule_quirk k0 k1 k s p req = false ->
    fe_enforce k0 k1 k s p req = (p, plain_enforce k s l req).
  Proof.
    intros HR A0 A1 He Hlen Ha Hb Hq. pose proof HR as [Hf [Hi [Hn Hs]]].
    unfold fe_enforce, plain_enforce, fp_with_filter. rewrite Ha, Hb. cbv zeta. cbn [fst snd].
    rewrite (iter_filtered p a b). f_equal.
    - destruct p as [c f]. simpl in *. subst f. reflexivity.
    - apply enforce_bucket_eq.
      + exact He.
      + intros r Hr. apply Hs. apply (bucket_exact k0 k1 _ a b r Hi) in Hr. tauto.
      + intros r Hr Hnb. pose proof Hr as Hr'. apply Hs in Hr'.
        destruct (stored_has_keys k0 k1 _ _ Hi Hr') as [a' [b' E]].
        apply (outside_nomatch k s req r a b a' b'); try assumption.
        * intro X. inversion X; subst. apply Hnb. apply (bucket_exact k0 k1 _ a b r Hi). split; assumption.
        * apply Hlen. exact Hr.
      + intros r Hr. apply outcome_not_bad. apply Hlen. exact Hr.
      + intros HB Hl. unfold empty_rule_quirk in Hq. rewrite Ha, Hb, HB in Hq.
        destruct (all_rules (fp_cache p)) as [|x rest] eqn:Ea; [|exact Hq].
        exfalso. destruct l as [|y l']; [apply Hl; reflexivity|].
        assert (X : In y []) by (apply Hs; left; reflexivity). exact X.
  Qed.

  (* a request that does not reach a cache-key position takes the ordinary path and behaves exactly like
     the plain enforcer whatever rules it holds: True when enforcement is disabled, "invalid request
     size" otherwise (an admissible key position lies inside the request definition) *)
  Theorem short_request_like_plain k s p l req :
    admissible k k0 = true -> admissible k k1 = true ->
    nth_error req k0 = None \/ nth_error req k1 = None ->
    fe_enforce k0 k1 k s p req = (p, plain_enforce k s l req).
  Proof.
    intros A0 A1 Hs.
    assert (Har : Nat.eqb (length req) (r_arity k) = false).
    { apply Nat.eqb_neq. pose proof (admissible_lt k k0 A0). pose proof (admissible_lt k k1 A1).
      destruct Hs as [H1|H1]; apply nth_error_None in H1; lia. }
    assert (X : forall outs outs' em,
      enforce (intermediate_ref (k_eff k)) (final_ref (k_eff k)) eff_bool
              {| enabled := m_enabled s; arity_ok := Nat.eqb (length req) (r_arity k) |} outs em
      = enforce (intermediate_ref (k_eff k)) (final_ref (k_eff k)) eff_bool
              {| enabled := m_enabled s; arity_ok := Nat.eqb (length req) (r_arity k) |} outs' em).
    { intros outs outs' em. rewrite !enforce_is_fst_enforce_ex, Har. destruct (m_enabled s).
      - rewrite !arity_raises by reflexivity. reflexivity.
      - rewrite !disabled_allows by reflexivity. reflexivity. }
    unfold fe_enforce, plain_enforce. cbv zeta.
    destruct (nth_error req k0) as [a|] eqn:E0; [destruct (nth_error req k1) as [b|] eqn:E1|].
    - destruct Hs; discriminate.
    - f_equal. apply X.
    - f_equal. apply X.
  Qed.

  (* FastEnforcer.enforce = Enforcer.enforce, for every request *)
  Theorem decide_equal k s p l req :
    R p l ->
    admissible k k0 = true -> admissible k k1 = true -> k_eff k <> PR ->
    (forall r, In r l -> length r = p_arity k) ->
    empty_rule_quirk k0 k1 k s p req = false ->
    fe_enforce k0 k1 k s p req = (p, plain_enforce k s l req).
  Proof.
    intros HR A0 A1 He Hlen Hq.
    destruct (nth_error req k0) as [a|] eqn:E0; [destruct (nth_error req k1) as [b|] eqn:E1|].
    - exact (decide_equal_keyed k s p l req a b HR A0 A1 He Hlen E0 E1 Hq).
    - apply short_request_like_plain; auto.
    - apply short_request_like_plain; auto.
  Qed.

  (* after any management history from the empty policy *)
  Corollary decide_equal_after_history k s ops req :
    Forall (wf_op k0 k1) ops ->
    admissible k k0 = true -> admissible k k1 = true -> k_eff k <> PR ->
    (forall r, In r (fst (prun [] ops)) -> length r = p_arity k) ->
    empty_rule_quirk k0 k1 k s (fst (frun k0 k1 fp_new ops)) req = false ->
    snd (fe_enforce k0 k1 k s (fst (frun k0 k1 fp_new ops)) req) = plain_enforce k s (fst (prun [] ops)) req.
  Proof.
    intros Hw A0 A1 He Hlen Hq.
    destruct (history_simulation k0 k1 ops fp_new [] (R_new k0 k1) Hw) as [_ HR].
    rewrite (decide_equal k s _ _ req HR A0 A1 He Hlen Hq). reflexivity.
  Qed.
End Decide.

(* plain_enforce is the decision of the Mgmt model's enforcer *)
Lemma plain_is_mgmt k s req :
  plain_enforce k s (m_p s) req = rbind (snd (enforce_ex_m k s req)) (fun p => Ok (fst p)).
Proof. reflexivity. Qed.

(* ====================================================================== the refuted parts *)
Definition K_ACL : mkind := mkKind false false false false false AO true 0.
Definition K_EFT_PR : mkind := mkKind false false false true false PR true 0.
Definition s_on (k : mkind) : mstate := init k [].
Definition s_off (k : mkind) : mstate := set_flags (init k []) true true true false.

(* known finding C19/empty-key-request: all hypotheses of decide_equal except the guard *)
Theorem empty_key_request_refuted :
  exists k s p l req a b,
    R 2 1 p l /\ admissible k 2 = true /\ admissible k 1 = true /\ k_eff k <> PR
    /\ (forall r, In r l -> length r = p_arity k)
    /\ nth_error req 2 = Some a /\ nth_error req 1 = Some b
    /\ empty_rule_quirk 2 1 k s p req = true
    /\ snd (fe_enforce 2 1 k s p req) = Ok true /\ plain_enforce k s l req = Ok false.
Proof.
  exists K_ACL, (s_on K_ACL), (fst (f_add 2 1 fp_new [1003; 1008; 1009])), [[1003; 1008; 1009]], [0; 0; 0], 0, 0.
  split.
  { assert (Hw : wf 2 1 [1003; 1008; 1009]) by (unfold wf; vm_compute; discriminate).
    destruct (sim_add 2 1 fp_new [] [1003; 1008; 1009] (R_new 2 1) Hw) as [p' [H1 H2]].
    rewrite H1. exact H2. }
  repeat split; try (vm_compute; reflexivity); try discriminate.
  intros r [H|[]]. subst. reflexivity.
Qed.

(* the priority effector is order-sensitive and the index does not keep the plain order: an update
   rewrites in place in the list but moves the rule to the end of its bucket (and the real bucket is a
   hash set whose order is unspecified anyway) *)
Definition pr_X : rule := [1003; 1008; 1009; 1010].        (* alice data1 read maybe *)
Definition pr_D : rule := [1003; 1008; 1009; A_DENY].
Definition pr_A : rule := [1003; 1008; 1009; A_ALLOW].
Definition pr_ops : list sop := [SAdd pr_X; SAdd pr_D; SUpdate pr_X pr_A].

Theorem priority_order_refuted :
  Forall (wf_op 2 1) pr_ops /\ admissible K_EFT_PR 2 = true /\ admissible K_EFT_PR 1 = true
  /\ snd (frun 2 1 fp_new pr_ops) = snd (prun [] pr_ops)
  /\ fst (prun [] pr_ops) = [pr_A; pr_D]
  /\ fp_iter (fp_apply_filter (fst (frun 2 1 fp_new pr_ops)) 1009 1008) = [pr_D; pr_A]
  /\ plain_enforce K_EFT_PR (s_on K_EFT_PR) (fst (prun [] pr_ops)) [1003; 1008; 1009] = Ok true
  /\ snd (fe_enforce 2 1 K_EFT_PR (s_on K_EFT_PR) (fst (frun 2 1 fp_new pr_ops)) [1003; 1008; 1009]) = Ok false.
Proof.
  split.
  { repeat constructor; unfold wf; vm_compute; discriminate. }
  repeat split; vm_compute; reflexivity.
Qed.

(* a sample history used by the non-vacuity examples of Props/C19.v *)
Definition ex_ops : list sop :=
  [SAdd [1003; 1008; 1009]; SAddMany [[1004; 1008; 1009]; [1003; 1008; 1012]]; SAdd [1003; 1008; 1009];
   SUpdate [1004; 1008; 1009] [1004; 1011; 1009]; SRemoveMany [[1003; 1008; 1012]];
   SUpdateMany [[1003; 1008; 1009]] [[1006; 1008; 1009]]; SRemoveFiltered 1 [1011]].

