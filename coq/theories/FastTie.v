(* FastTie.v — C19: FastEnforcer.enforce and the filter steps regenerated from casbin/fast_enforcer.py and
   casbin/model/policy_fast.py on this run (coq/gen/FastGen.v), executed by the interpreter of FastLang.v, compute
   Fast.fe_enforce - for every key order [k0; k1], kind of model, enforcer state, container state and request. *)
From Coq Require Import List NArith Bool.
From PyCasbin Require Import Base Effect Enforce Policy RoleGraph Mgmt Fast FastLang.
From PyCasbinGen Require Import FastGen.
Import ListNotations.
Local Open Scope N_scope.

Definition HFUEL : nat := 12.

Definition run_fast_enforce (k0 k1 : nat) (k : mkind) (s : mstate) (p : fpol) (req : rule) : option (fpol * result bool) :=
  hrun k0 k1 k s req apply_filter_gen HFUEL fast_enforce_gen p.

Theorem tie_fe_enforce k0 k1 k s p req :
  run_fast_enforce k0 k1 k s p req = Some (fe_enforce k0 k1 k s p req).
Proof.
  unfold run_fast_enforce, hrun, HFUEL, fe_enforce, fp_with_filter.
  let b := eval lazy in fast_enforce_gen in change fast_enforce_gen with b.
  let b := eval lazy in apply_filter_gen in change apply_filter_gen with b.
  cbn [hblock hexec h_pol h_keys h_res].
  destruct (nth_error req k0) as [a|]; [destruct (nth_error req k1) as [b|]|];
    cbn [hblock hexec h_pol h_keys h_res run_apply]; reflexivity.
Qed.
