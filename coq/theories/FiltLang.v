(* FiltLang.v — a small language for the pure decision functions of casbin/persist/adapters/filtered_file_adapter.py:
   filter_line, filter_words and the `is_empty_filter` expression of FilteredFileAdapter.load_filtered_policy.
   translators/filterline.py renders the Python source into this syntax on every run (coq/gen/FilterGen.v); FilterTie.v
   proves that the interpreter run on the regenerated programs computes Filtered.filter_line / filter_words /
   is_empty_filter - the functions the C12 theorems are about.

   Values: strings, lists of strings, lists of lists of strings (the filter [P, G]), booleans, naturals, None.
   Meaning fixed by the interpreter (trusted): truthiness (a string / list is true when non-empty); `and` / `or` /
   `not` are translated only where Python uses their truth value and yield booleans, short-circuiting; x[i] raises
   IndexError out of range; `for i, v in enumerate(l)` visits in order, `break` leaves the loop; all(<c> for x in l)
   stops at the first false; s.split(",") is Csv.split_on, s.strip() is Csv.strip (both compared with CPython by the
   C10 / C12 checks). *)
From Coq Require Import List NArith Bool Arith.
From PyCasbin Require Import Base Csv.
Import ListNotations.
Local Open Scope N_scope.

Inductive fv := FS (s : str) | FL (l : list str) | FLL (l : list (list str)) | FB (b : bool) | FI (n : nat) | FNone.

Inductive fex : Type :=
| FVar (x : N)
| FStr (s : str) | FNil | FBool (b : bool) | FInt (n : nat)
| FIsNone (a : fex)                       (* a == None *)
| FSplitComma (a : fex)                   (* a.split(",") *)
| FLen (a : fex)
| FEq (a b : fex) | FNe (a b : fex) | FLt (a b : fex)
| FAdd (a b : fex)
| FIdx (a i : fex)
| FStrip (a : fex)
| FNot (a : fex) | FOr (a b : fex) | FAnd (a b : fex)
| FIfExp (c a b : fex)                    (* a if c else b *)
| FAll (x : N) (it : fex) (c : fex)       (* all(c for x in it) *)
| FCall (f : N) (args : list fex).

Inductive fst_ : Type :=
| FAssign (x : N) (e : fex)
| FIf (c : fex) (a b : list fst_)
| FForEnum (i v : N) (it : fex) (body : list fst_)
| FBreak
| FReturn (e : fex).

Definition flocals := list (N * fv).
Inductive fout := FNext (l : flocals) | FBrk (l : flocals) | FRet (v : fv) | FErr (c : N).

(* equality of variable identifiers: its own constant so that proofs can compute on identifiers while N.eqb on DATA stays folded *)
Definition fkeyb (a b : N) : bool :=
  match a, b with N0, N0 => true | Npos p, Npos q => Pos.eqb p q | _, _ => false end.

Fixpoint flookup (x : N) (l : flocals) : option fv :=
  match l with [] => None | (y, v) :: r => if fkeyb x y then Some v else flookup x r end.
Fixpoint fupd (x : N) (v : fv) (l : flocals) : flocals :=
  match l with
  | [] => [(x, v)]
  | (y, w) :: r => if fkeyb x y then (y, v) :: r else (y, w) :: fupd x v r
  end.

Definition ftruth (v : fv) : bool :=
  match v with
  | FS s => match s with [] => false | _ => true end
  | FL l => match l with [] => false | _ => true end
  | FLL l => match l with [] => false | _ => true end
  | FB b => b
  | FI n => negb (Nat.eqb n 0)
  | FNone => false
  end.

Definition felems (v : fv) : result (list fv) :=
  match v with
  | FL l => Ok (map FS l)
  | FLL l => Ok (map FL l)
  | _ => Err EType
  end.

(* all(f x for x in l), left to right, stopping at the first false *)
Fixpoint all_list (f : fv -> result bool) (l : list fv) : result bool :=
  match l with
  | [] => Ok true
  | x :: r => match f x with Ok true => all_list f r | Ok false => Ok false | Err c => Err c end
  end.

Fixpoint fargs (ev : fex -> result fv) (es : list fex) : result (list fv) :=
  match es with
  | [] => Ok []
  | e :: r => match ev e with Ok v => match fargs ev r with Ok vs => Ok (v :: vs) | Err c => Err c end | Err c => Err c end
  end.

Section Interp.
  (* the functions that may be called (filter_words from filter_line) *)
  Variable calls : N -> list fv -> result fv.

  Fixpoint feval (n : nat) (l : flocals) (e : fex) {struct n} : result fv :=
    match n with
    | O => Err EFuel
    | S n' =>
      let ev := feval n' l in
      match e with
      | FVar x => match flookup x l with Some v => Ok v | None => Err EName end
      | FStr s => Ok (FS s)
      | FNil => Ok (FL [])
      | FBool b => Ok (FB b)
      | FInt k => Ok (FI k)
      | FIsNone a => rbind (ev a) (fun v => Ok (FB (match v with FNone => true | _ => false end)))
      | FSplitComma a => rbind (ev a) (fun v => match v with FS s => Ok (FL (split_on c_comma s)) | _ => Err EAttr end)
      | FLen a => rbind (ev a) (fun v => match v with
                                         | FS s => Ok (FI (length s)) | FL s => Ok (FI (length s)) | FLL s => Ok (FI (length s))
                                         | _ => Err EType end)
      | FEq a b => rbind (ev a) (fun va => rbind (ev b) (fun vb =>
                     match va, vb with
                     | FS x, FS y => Ok (FB (str_eqb x y))
                     | FI x, FI y => Ok (FB (Nat.eqb x y))
                     | _, _ => Err 90
                     end))
      | FNe a b => rbind (ev a) (fun va => rbind (ev b) (fun vb =>
                     match va, vb with
                     | FS x, FS y => Ok (FB (negb (str_eqb x y)))
                     | FI x, FI y => Ok (FB (negb (Nat.eqb x y)))
                     | _, _ => Err 90
                     end))
      | FLt a b => rbind (ev a) (fun va => rbind (ev b) (fun vb =>
                     match va, vb with FI x, FI y => Ok (FB (Nat.ltb x y)) | _, _ => Err EType end))
      | FAdd a b => rbind (ev a) (fun va => rbind (ev b) (fun vb =>
                     match va, vb with FI x, FI y => Ok (FI (x + y)) | _, _ => Err EType end))
      | FIdx a i => rbind (ev a) (fun va => rbind (ev i) (fun vi =>
                     match va, vi with
                     | FL s, FI k => match nth_error s k with Some x => Ok (FS x) | None => Err EIndex end
                     | FLL s, FI k => match nth_error s k with Some x => Ok (FL x) | None => Err EIndex end
                     | _, _ => Err EType
                     end))
      | FStrip a => rbind (ev a) (fun v => match v with FS s => Ok (FS (strip s)) | _ => Err EAttr end)
      | FNot a => rbind (ev a) (fun v => Ok (FB (negb (ftruth v))))
      | FOr a b => rbind (ev a) (fun v => if ftruth v then Ok (FB true) else rbind (ev b) (fun w => Ok (FB (ftruth w))))
      | FAnd a b => rbind (ev a) (fun v => if ftruth v then rbind (ev b) (fun w => Ok (FB (ftruth w))) else Ok (FB false))
      | FIfExp c a b => rbind (ev c) (fun v => if ftruth v then ev a else ev b)
      | FAll x it c =>
          rbind (ev it) (fun vi => rbind (felems vi) (fun xs =>
            rbind (all_list (fun xv => rbind (feval n' (fupd x xv l) c) (fun w => Ok (ftruth w))) xs) (fun b => Ok (FB b))))
      | FCall f args => rbind (fargs ev args) (calls f)
      end
    end.

  Fixpoint for_enum (f : nat -> fv -> flocals -> fout) (xs : list fv) (k : nat) (l : flocals) : fout :=
    match xs with
    | [] => FNext l
    | x :: r => match f k x l with
                | FNext l' => for_enum f r (S k) l'
                | FBrk l' => FNext l'
                | o => o
                end
    end.

  Fixpoint fexec (n : nat) (l : flocals) (c : fst_) {struct n} : fout :=
    match n with
    | O => FErr EFuel
    | S n' =>
      match c with
      | FAssign x e => match feval n' l e with Ok v => FNext (fupd x v l) | Err c => FErr c end
      | FIf c a b =>
          match feval n' l c with
          | Ok v => if ftruth v then fblock n' l a else fblock n' l b
          | Err c => FErr c
          end
      | FForEnum i v it body =>
          match rbind (feval n' l it) felems with
          | Ok xs => for_enum (fun k x l' => fblock n' (fupd v x (fupd i (FI k) l')) body) xs 0%nat l
          | Err c => FErr c
          end
      | FBreak => FBrk l
      | FReturn e => match feval n' l e with Ok v => FRet v | Err c => FErr c end
      end
    end
  with fblock (n : nat) (l : flocals) (b : list fst_) {struct n} : fout :=
    match n with
    | O => FErr EFuel
    | S n' =>
      match b with
      | [] => FNext l
      | c :: r => match fexec n' l c with FNext l' => fblock n' l' r | o => o end
      end
    end.

  (* a function called with positional arguments; falling off the end returns None *)
  Definition frun (n : nat) (params locals : list N) (body : list fst_) (args : list fv) : result fv :=
    if negb (Nat.eqb (length params) (length args)) then Err EType else
    match fblock n (combine params args ++ map (fun x => (x, FNone)) locals) body with
    | FRet v => Ok v
    | FNext _ => Ok FNone
    | FBrk _ => Err ESyntax
    | FErr c => Err c
    end.
End Interp.

Definition no_calls (f : N) (args : list fv) : result fv := Err EName.
