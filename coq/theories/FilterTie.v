(* FilterTie.v — C12: filter_words, filter_line and the is_empty_filter expression regenerated from
   casbin/persist/adapters/filtered_file_adapter.py on this run (coq/gen/FilterGen.v), executed by the interpreter of
   FiltLang.v, compute Filtered.filter_words / filter_line / is_empty_filter for every line and every filter. *)
From Coq Require Import List NArith Bool Lia Arith.
From PyCasbin Require Import Base Csv Filtered FiltLang.
From PyCasbinGen Require Import FilterGen.
Import ListNotations.
Local Open Scope N_scope.

Definition FFUEL : nat := 40.

Definition run_words (line flt : list str) : result fv :=
  frun no_calls FFUEL filter_words_params filter_words_locals filter_words_gen [FL line; FL flt].

(* what filter_line may call: filter_words, as regenerated *)
Definition calls_line (f : N) (args : list fv) : result fv :=
  if fkeyb f fn_filter_words then frun no_calls FFUEL filter_words_params filter_words_locals filter_words_gen args
  else Err EName.

Definition run_line (line : str) (P G : list str) : result fv :=
  frun calls_line FFUEL filter_line_params filter_line_locals filter_line_gen [FS line; FLL [P; G]].

Definition run_is_empty (P G : list str) : result fv :=
  feval no_calls FFUEL [(fe_filter_value, FLL [P; G])] is_empty_filter_gen.

(* ------------------------------------------------------------------ stepping equations *)
Section Steps.
  Variable calls : N -> list fv -> result fv.

  Lemma fblock_nil n l : fblock calls (S n) l [] = FNext l.
  Proof. reflexivity. Qed.
  Lemma fblock_step n l c r o : fexec calls n l c = o ->
    fblock calls (S n) l (c :: r) =
    match o with FNext l' => fblock calls n l' r | FBrk l' => FBrk l' | FRet v => FRet v | FErr e => FErr e end.
  Proof.
    intros <-. change (fblock calls (S n) l (c :: r)) with (match fexec calls n l c with FNext l' => fblock calls n l' r | o => o end).
    destruct (fexec calls n l c); reflexivity.
  Qed.
  Lemma fexec_if n l c a b v : feval calls n l c = v ->
    fexec calls (S n) l (FIf c a b) =
    match v with Ok w => if ftruth w then fblock calls n l a else fblock calls n l b | Err e => FErr e end.
  Proof. intros <-. reflexivity. Qed.
  Lemma fexec_for n l i v it body xs : rbind (feval calls n l it) felems = Ok xs ->
    fexec calls (S n) l (FForEnum i v it body) =
    for_enum (fun k x l' => fblock calls n (fupd v x (fupd i (FI k) l')) body) xs 0%nat l.
  Proof.
    intro H. change (fexec calls (S n) l (FForEnum i v it body)) with
      (match rbind (feval calls n l it) felems with
       | Ok xs => for_enum (fun k x l' => fblock calls n (fupd v x (fupd i (FI k) l')) body) xs 0%nat l
       | Err c => FErr c end).
    rewrite H. reflexivity.
  Qed.
End Steps.

Ltac f_atomic c := lazymatch c with FIf _ _ _ => fail | FForEnum _ _ _ _ => fail | _ => idtac end.
Ltac flz t := let v := eval lazy -[N.eqb str_eqb list_eqb strip split_on length Nat.ltb Nat.eqb Nat.add all_list map for_enum
                                   calls_line str skipn nth_error] in t in v.
Ltac fbstep :=
  lazymatch goal with
  | |- context [fblock ?cl (S ?n) ?s []] => rewrite (fblock_nil cl n s)
  | |- context [fblock ?cl (S ?n) ?s (?c :: ?r)] =>
      tryif f_atomic c then (let o := flz (fexec cl n s c) in rewrite (fblock_step cl n s c r o eq_refl))
      else rewrite (fblock_step cl n s c r _ eq_refl)
  end; cbv beta iota; cbn [nth_error ftruth].
Ltac festep :=
  lazymatch goal with
  | |- context [fexec ?cl (S ?n) ?s (FIf ?c ?a ?b)] =>
      let v := flz (feval cl n s c) in rewrite (fexec_if cl n s c a b v eq_refl)
  end; cbv beta iota; cbn [nth_error ftruth].
Ltac fstep := first [festep | fbstep].
(* step while no conditional is waiting for a case analysis *)
Ltac fsteps :=
  repeat (lazymatch goal with
          | |- context [if _ then fblock _ _ _ _ else fblock _ _ _ _] => fail
          | _ => fstep
          end).

Ltac f_inner :=
  match goal with
  | |- context [match ?x with _ => _ end] =>
      lazymatch x with
      | context [match _ with _ => _ end] => fail
      | fblock _ _ _ _ => fail
      | fexec _ _ _ _ => fail
      | for_enum _ _ _ _ => fail
      | _ => destruct x eqn:?
      end
  | |- context [if ?x then _ else _] =>
      lazymatch x with
      | context [match _ with _ => _ end] => fail
      | context [if _ then _ else _] => fail
      | _ => destruct x eqn:?
      end
  end.

(* ------------------------------------------------------------------ all(not x.strip() for x in l) *)
Lemma flookup_fupd_same x v : forall l, flookup x (fupd x v l) = Some v.
Proof.
  assert (R : fkeyb x x = true) by (destruct x; simpl; [reflexivity | apply Pos.eqb_refl]).
  induction l as [|[y w] r IH]; simpl.
  - rewrite R. reflexivity.
  - destruct (fkeyb x y) eqn:E; simpl; rewrite E; [reflexivity | exact IH].
Qed.

Lemma all_blank_loop calls n x loc : forall l,
  all_list (fun xv => rbind (feval calls (3 + n) (fupd x xv loc) (FNot (FStrip (FVar x)))) (fun w => Ok (ftruth w))) (map FS l)
  = Ok (all_blankp l).
Proof.
  induction l as [|s r IH]; [reflexivity|].
  cbn [map all_list]. cbn [feval Nat.add rbind]. rewrite flookup_fupd_same. cbn [rbind ftruth].
  unfold all_blankp. cbn [forallb]. unfold blankp at 1, nonempty.
  destruct (strip s); cbn [negb andb]; [exact IH | reflexivity].
Qed.

(* ------------------------------------------------------------------ filter_words *)
Definition WBODY : list fst_ :=
  Eval lazy in match nth_error filter_words_gen 2 with Some (FForEnum _ _ _ b) => b | _ => [] end.

Definition mkW (line FLT : list str) (skip : bool) (i v : fv) : flocals :=
  [(1, FL line); (2, FL FLT); (3, FB skip); (4, i); (5, v)].

Lemma words_body n line FLT k v i0 v0 x : nth_error line (k + 1) = Some x ->
  fblock no_calls (12 + n) (fupd 5 (FS v) (fupd 4 (FI k) (mkW line FLT false i0 v0))) WBODY =
  if nonempty v && nonempty (strip v) && negb (str_eqb (strip v) (strip x))
  then FBrk (mkW line FLT true (FI k) (FS v)) else FNext (mkW line FLT false (FI k) (FS v)).
Proof.
  intro Hx. unfold WBODY, mkW, nonempty. cbn [Nat.add].
  fstep. fstep. rewrite Hx. cbv beta iota.
  destruct v as [|c r]; cbn [andb]; cbv beta iota.
  - repeat fstep. reflexivity.
  - destruct (strip (c :: r)) as [|c2 r2] eqn:E; cbn [andb]; cbv beta iota.
    + repeat fstep. reflexivity.
    + cbn [rbind ftruth]. destruct (str_eqb (c2 :: r2) (strip x)); cbn [negb]; cbv beta iota; repeat fstep; reflexivity.
Qed.

Lemma skipn_nth {A} : forall (l : list A) k, (k < length l)%nat ->
  exists x, nth_error l k = Some x /\ skipn k l = x :: skipn (S k) l.
Proof.
  induction l as [|a r IH]; intros k H; simpl in H; [lia|].
  destruct k; [exists a; split; reflexivity|].
  destruct (IH k ltac:(lia)) as (x & H1 & H2). exists x. split; [exact H1 | exact H2].
Qed.

Lemma words_loop n line FLT : forall flt k i0 v0,
  (k + length flt + 1 <= length line)%nat ->
  exists i1 v1,
    for_enum (fun k x l' => fblock no_calls (12 + n) (fupd 5 x (fupd 4 (FI k) l')) WBODY) (map FS flt) k (mkW line FLT false i0 v0)
    = FNext (mkW line FLT (words_differ flt (skipn (k + 1) line)) i1 v1).
Proof.
  induction flt as [|v r IH]; intros k i0 v0 H.
  - exists i0, v0. reflexivity.
  - cbn [length] in H. cbn [map for_enum].
    destruct (skipn_nth line (k + 1) ltac:(lia)) as (x & Hn & Hs).
    rewrite (words_body n line FLT k v i0 v0 x Hn). rewrite Hs. cbn [words_differ].
    destruct (nonempty v && nonempty (strip v) && negb (str_eqb (strip v) (strip x))); cbn [orb].
    + exists (FI k), (FS v). reflexivity.
    + destruct (IH (S k) (FI k) (FS v) ltac:(lia)) as (i1 & v1 & HL).
      exists i1, v1. replace (S (k + 1)) with (S k + 1)%nat by lia. exact HL.
Qed.

Theorem tie_filter_words line flt : run_words line flt = Ok (FB (Filtered.filter_words line flt)).
Proof.
  unfold run_words, frun, FFUEL, Filtered.filter_words.
  let b := eval lazy in filter_words_gen in change filter_words_gen with b.
  let b := eval lazy in (combine filter_words_params [FL line; FL flt] ++ map (fun x : N => (x, FNone)) filter_words_locals) in
    change (combine filter_words_params [FL line; FL flt] ++ map (fun x : N => (x, FNone)) filter_words_locals) with b.
  change (negb (Nat.eqb (length filter_words_params) (length [FL line; FL flt]))) with false. cbv beta iota.
  fstep. fstep.
  destruct (Nat.ltb (length line) (length flt + 1)) eqn:E; cbv beta iota.
  - repeat fstep. reflexivity.
  - apply Nat.ltb_ge in E.
    fstep. fstep. fstep.
    match goal with |- context [fexec ?cl (S ?n) ?s (FForEnum ?i ?v ?it ?body)] =>
      rewrite (fexec_for cl n s i v it body (map FS flt) eq_refl) end.
    destruct (words_loop 22 line flt flt 0%nat FNone FNone ltac:(simpl; lia)) as (i1 & v1 & HL).
    change (12 + 22)%nat with 34%nat in HL. unfold WBODY, mkW in HL.
    match type of HL with ?lhs = _ =>
      match goal with |- context [for_enum ?F ?t ?k ?s] => change (for_enum F t k s) with lhs end end.
    rewrite HL. cbv beta iota. repeat fstep.
    change (skipn (0 + 1) line) with (tl line). destruct line; reflexivity.
Qed.

(* ------------------------------------------------------------------ filter_line *)
Lemma split_on_nonnil sep : forall s, split_on sep s <> [].
Proof.
  induction s as [|c r IH]; simpl; [discriminate|].
  destruct (c =? sep); [discriminate|]. destruct (split_on sep r); discriminate.
Qed.

Theorem tie_filter_line line P G : run_line line P G = Ok (FB (Filtered.filter_line line P G)).
Proof.
  unfold run_line, frun, FFUEL, Filtered.filter_line.
  let b := eval lazy in filter_line_gen in change filter_line_gen with b.
  let b := eval lazy in (combine filter_line_params [FS line; FLL [P; G]] ++ map (fun x : N => (x, FNone)) filter_line_locals) in
    change (combine filter_line_params [FS line; FLL [P; G]] ++ map (fun x : N => (x, FNone)) filter_line_locals) with b.
  change (negb (Nat.eqb (length filter_line_params) (length [FS line; FLL [P; G]]))) with false. cbv beta iota.
  unfold c_comma.
  fsteps.
  pose proof (split_on_nonnil 44 line) as Hne.
  destruct (split_on 44 line) as [|p0 ps] eqn:Ep; [contradiction|]. clear Hne.
  change (Nat.eqb (length (p0 :: ps)) 0) with false. cbv beta iota.
  fsteps. cbn [hd].
  unfold s_g, s_p, c_g, c_p.
  destruct (str_eqb (strip p0) [103]); cbv beta iota.
  - (* "g" *)
    fsteps.
    destruct G as [|g0 gr]; cbn [isnil orb]; cbv beta iota.
    + repeat fstep. reflexivity.
    + cbn [negb ftruth rbind felems].
      match goal with |- context [all_list ?F (map FS ?l)] =>
        let H := fresh in
        pose proof (all_blank_loop calls_line 32 5 [(1, FS line); (2, FLL [P; g0 :: gr]); (3, FL (p0 :: ps)); (4, FL []); (5, FNone)] l) as H;
        cbn [Nat.add] in H;
        match type of H with ?lhs = _ => change (all_list F (map FS l)) with lhs end; rewrite H; clear H
      end.
      cbn [rbind ftruth]. destruct (all_blankp (g0 :: gr)); cbv beta iota.
      * repeat fstep. reflexivity.
      * repeat fstep. unfold calls_line. change (fkeyb fn_filter_words fn_filter_words) with true. cbv beta iota.
        fold (run_words (p0 :: ps) (g0 :: gr)). rewrite tie_filter_words. reflexivity.
  - fsteps.
    destruct (str_eqb (strip p0) [112]); cbv beta iota.
    + repeat fstep. unfold calls_line. change (fkeyb fn_filter_words fn_filter_words) with true. cbv beta iota.
      fold (run_words (p0 :: ps) P). rewrite tie_filter_words. reflexivity.
    + repeat fstep. unfold calls_line. change (fkeyb fn_filter_words fn_filter_words) with true. cbv beta iota.
      fold (run_words (p0 :: ps) []). rewrite tie_filter_words. reflexivity.
Qed.

(* ------------------------------------------------------------------ is_empty_filter *)
Lemma all_list_ext f g : (forall x, f x = g x) -> forall l, all_list f l = all_list g l.
Proof. intros H l. induction l as [|x r IH]; simpl; [reflexivity|]. rewrite H, IH. reflexivity. Qed.

Definition blank_fun (xv : fv) : result bool := match xv with FS s => Ok (blankp s) | _ => Err EAttr end.
Lemma all_blank_fun : forall l, all_list blank_fun (map FS l) = Ok (all_blankp l).
Proof.
  induction l as [|s r IH]; [reflexivity|]. cbn [map all_list blank_fun]. unfold all_blankp. cbn [forallb].
  destruct (blankp s); [exact IH | reflexivity].
Qed.

Theorem tie_is_empty_filter P G : run_is_empty P G = Ok (FB (Filtered.is_empty_filter P G)).
Proof.
  unfold run_is_empty, FFUEL, Filtered.is_empty_filter.
  let b := eval lazy in is_empty_filter_gen in change is_empty_filter_gen with b.
  match goal with |- ?l = _ => let v := flz l in change l with v end.
  change (map FL [P; G]) with [FL P; FL G].
  cbn [all_list rbind ftruth felems negb].
  repeat match goal with |- context [all_list ?F (map FS ?l)] =>
    lazymatch F with blank_fun => fail | _ => idtac end;
    rewrite (all_list_ext F blank_fun ltac:(intros []; reflexivity) (map FS l))
  end.
  rewrite !all_blank_fun.
  destruct P as [|p0 pr]; destruct G as [|g0 gr]; cbn [isnil andb orb]; cbv beta iota;
    repeat (match goal with |- context [all_blankp ?l] => destruct (all_blankp l) end; cbv beta iota);
    reflexivity.
Qed.
