(* Filtered.v — model of filtered loading (C12), on top of Csv.v.
   Mirrors
     casbin/persist/adapters/filtered_file_adapter.py   FilteredFileAdapter (32-90), filter_line (93-109),
                                                        filter_words (112-121)
     casbin/core_enforcer.py   load_policy (219-252), load_filtered_policy (254-268),
                               load_increment_filtered_policy (270-278), is_filtered (280-283),
                               save_policy (285-290), build_role_links (316-322)
     casbin/model/policy.py    build_role_links (39-48);  casbin/model/assertion.py build_role_links (34-49)
   plus the SPEC vocabulary of the property (rule_kept, stored_rules, subset_rules).  No proofs here. *)
From Coq Require Import List NArith Bool Arith.
From PyCasbin Require Import Base Csv.
Import ListNotations.
Local Open Scope N_scope.

(* ---------- the filter ---------- *)
Definition blankp (x : str) : bool := negb (nonempty (strip x)).          (* not x.strip() *)
Definition all_blankp (f : list str) : bool := forallb blankp f.          (* all(not x.strip() for x in f) *)
Definition isnil {A} (l : list A) : bool := match l with [] => true | _ => false end.

(* filtered_file_adapter.py:53-56, filter_value = [P, G] *)
Definition is_empty_filter (P G : list str) : bool :=
  (isnil P && isnil G)                                        (* all(not f for f in filter_value) *)
  || ((if isnil P then true else all_blankp P) && (if isnil G then true else all_blankp G)).

(* the loop of filter_words (115-119): some position has a non-blank value that differs *)
Fixpoint words_differ (flt : list str) (fields : list str) : bool :=
  match flt with
  | [] => false
  | v :: fr =>
      match fields with
      | [] => false                       (* line[i + 1] out of range: excluded by the length test *)
      | x :: xr =>
          (nonempty v && nonempty (strip v) && negb (str_eqb (strip v) (strip x)))
          || words_differ fr xr
      end
  end.

(* filter_words(line, filter): True = skip the line *)
Definition filter_words (line : list str) (flt : list str) : bool :=
  if (length line <? length flt + 1)%nat then true        (* 113-114: the length clause *)
  else words_differ flt (tl line).

Definition s_p : str := [c_p].
Definition s_g : str := [c_g].

(* filter_line(line, [P, G]): True = skip the line.  Naive split at EVERY comma (line 97). *)
Definition filter_line (line : str) (P G : list str) : bool :=
  let p := split_on c_comma line in
  let k := strip (hd [] p) in
  if str_eqb k s_g then
    if isnil G || all_blankp G then false                    (* 102-104 *)
    else filter_words p G
  else if str_eqb k s_p then filter_words p P                (* 106-107 *)
  else filter_words p [].                                    (* filter_slice = [] : never skipped *)

(* load_filtered_policy_file (68-78): trimmed non-empty lines that the filter does not skip *)
Definition kept_lines (text : str) (P G : list str) : list str :=
  filter (fun l => nonempty l && negb (filter_line l P G)) (file_lines text).

(* like Csv.load_lines but also returns the model reached when a line raises (the Python
   mutates the model object it was given) *)
Fixpoint load_lines_p (ls : list str) (m : model) : model * option N :=
  match ls with
  | [] => (m, None)
  | l :: r => match load_policy_line l m with
              | Err e => (m, Some e)
              | Ok m' => load_lines_p r m'
              end
  end.

(* FilteredFileAdapter.load_filtered_policy(model, filter) with filter.P, filter.G both set.
   Returns (new value of self.filtered, model object afterwards, exception). *)
Definition adapter_load_filtered (text : str) (flag : bool) (P G : list str) (m : model)
  : bool * model * option N :=
  if is_empty_filter P G then
    (* 57-58 -> load_policy (38-42): self.filtered = False, then the whole file; any exception is
       turned into RuntimeError("invalid filter type") by the bare except of line 59 *)
    match load_lines_p (file_lines text) m with
    | (m', None) => (false, m', None)
    | (m', Some _) => (false, m', Some ERuntime)
    end
  else
    match load_lines_p (kept_lines text P G) m with
    | (m', None) => (true, m', None)                         (* 62-63 *)
    | (m', Some e) => (flag, m', Some e)                     (* flag untouched when the loop raises *)
    end.

(* ---------- role links: the rules handed to each role manager, in order ---------- *)
Definition links_t := list (str * list (list str)).

Fixpoint count_of (counts : list (str * nat)) (key : str) : nat :=
  match counts with
  | [] => 2%nat
  | (k, n) :: r => if str_eqb k key then n else count_of r key
  end.

(* Assertion.build_role_links: rm.add_link of the first `count` fields of each rule; a short rule
   raises after the earlier ones were added *)
Fixpoint link_rules (count : nat) (pol : list (list str)) : list (list str) * bool :=
  match pol with
  | [] => ([], true)
  | r :: rest =>
      if (length r <? count)%nat then ([], false)
      else let (ls, ok) := link_rules count rest in (firstn count r :: ls, ok)
  end.

(* Enforcer.build_role_links: every rm cleared, then Policy.build_role_links over model["g"] in
   dict order; stops at the first raising assertion *)
Fixpoint build_links (counts : list (str * nat)) (gasts : list ast) : links_t * bool :=
  match gasts with
  | [] => ([], true)
  | a :: rest =>
      let (ls, ok) := link_rules (count_of counts (a_key a)) (a_pol a) in
      if ok then let (more, ok2) := build_links counts rest in ((a_key a, ls) :: more, ok2)
      else ((a_key a, ls) :: map (fun a' => (a_key a', [])) rest, false)
  end.

Definition g_asts (m : model) : list ast := filter (fun a => a_sec a =? c_g) m.

(* ---------- the enforcer + adapter ---------- *)
Record state := { s_file : str; s_flag : bool; s_mdl : model; s_links : links_t }.

Inductive op :=
| OLoad                                  (* e.load_policy() *)
| OFiltered (P G : list str)             (* e.load_filtered_policy(Filter(P, G)) *)
| OIncr (P G : list str)                 (* e.load_increment_filtered_policy(Filter(P, G)) *)
| OSave.                                 (* e.save_policy() *)

Section Enforcer.
  Variable counts : list (str * nat).    (* number of "_" of each role definition *)

  Definition links_of (m : model) : links_t * bool := build_links counts (g_asts m).

  (* new Enforcer(model, FilteredFileAdapter(path)): filtered = True, nothing loaded *)
  Definition init_state (file : str) (m : model) : state :=
    {| s_file := file; s_flag := true; s_mdl := clear_policy m;
       s_links := map (fun a => (a_key a, [])) (g_asts m) |}.

  (* core_enforcer.py:219-252 (the adapter's load_policy clears the flag first) *)
  Definition e_load_policy (st : state) : state * result unit :=
    match load_file (s_file st) (clear_policy (s_mdl st)) with
    | Err e =>
        ({| s_file := s_file st; s_flag := false; s_mdl := s_mdl st; s_links := s_links st |}, Err e)
    | Ok m' =>
        let (lk, ok) := links_of m' in
        if ok then ({| s_file := s_file st; s_flag := false; s_mdl := m'; s_links := lk |}, Ok tt)
        else (* except: self.build_role_links() on the OLD model, then re-raise *)
          ({| s_file := s_file st; s_flag := false; s_mdl := s_mdl st;
              s_links := fst (links_of (s_mdl st)) |}, Err EGroupArity)
    end.

  Definition after_adapter (st : state) (r : bool * model * option N) : state * result unit :=
    let '(flag', m', err) := r in
    match err with
    | Some e =>
        ({| s_file := s_file st; s_flag := flag'; s_mdl := m'; s_links := s_links st |}, Err e)
    | None =>
        let (lk, ok) := links_of m' in
        ({| s_file := s_file st; s_flag := flag'; s_mdl := m'; s_links := lk |},
         if ok then Ok tt else Err EGroupArity)
    end.

  (* 254-268: clear, adapter, (sort), init_rm_map, build_role_links *)
  Definition e_load_filtered (st : state) (P G : list str) : state * result unit :=
    after_adapter st (adapter_load_filtered (s_file st) (s_flag st) P G (clear_policy (s_mdl st))).

  (* 270-278: no clear *)
  Definition e_load_incr (st : state) (P G : list str) : state * result unit :=
    after_adapter st (adapter_load_filtered (s_file st) (s_flag st) P G (s_mdl st)).

  (* 285-290 + FilteredFileAdapter.save_policy (84-88) *)
  Definition e_save (st : state) : state * result unit :=
    if s_flag st then (st, Err EFilteredSave)
    else ({| s_file := save_file (s_mdl st); s_flag := s_flag st; s_mdl := s_mdl st;
             s_links := s_links st |}, Ok tt).

  Definition step (st : state) (o : op) : state * result unit :=
    match o with
    | OLoad => e_load_policy st
    | OFiltered P G => e_load_filtered st P G
    | OIncr P G => e_load_incr st P G
    | OSave => e_save st
    end.

  (* the trace of a run: (state before, operation, state after, outcome) per step *)
  Fixpoint run (st : state) (ops : list op) : list (state * op * state * result unit) :=
    match ops with
    | [] => []
    | o :: r => let (st', res) := step st o in (st, o, st', res) :: run st' r
    end.
End Enforcer.

(* ---------- the property's vocabulary ---------- *)

(* "leading fields equal every non-blank value of the filter" — plus the code's length clause:
   a filter longer than the rule drops the rule even when the extra positions are blank *)
Fixpoint values_match (F : list str) (fs : list str) : bool :=
  match F with
  | [] => true
  | v :: fr =>
      match fs with
      | [] => false
      | x :: xr => (is_blank v || str_eqb (strip v) x) && values_match fr xr
      end
  end.

(* which stored rules a filter keeps: only the policy types p and g are filtered; a G filter
   that is empty or all blank keeps every g rule (no length clause then) *)
Definition rule_kept (P G : list str) (key : str) (fs : list str) : bool :=
  if str_eqb key s_g then forallb is_blank G || values_match G fs
  else if str_eqb key s_p then values_match P fs
  else true.

(* the rules the complete store (the file) holds for assertion a / the filtered subset of them *)
Definition stored_rules (text : str) (a : ast) : list (list str) := spec_rules (file_lines text) a.
Definition subset_rules (text : str) (P G : list str) (a : ast) : list (list str) :=
  filter (rule_kept P G (a_key a)) (stored_rules text a).
Definition with_rules (f : ast -> list (list str)) (m : model) : model :=
  map (fun a => {| a_sec := a_sec a; a_key := a_key a; a_pol := a_pol a ++ f a |}) m.

(* "the loaded policy is a partial view of the store" as a history (ghost) variable: set by a
   filtered load with a non-empty filter and by any load that raised half-way, cleared by a full
   load_policy or an empty-filter load that succeeded *)
Definition ghost_next (partial : bool) (o : op) (r : result unit) : bool :=
  match o, r with
  | OLoad, Ok _ => false
  | OLoad, Err _ => partial                 (* load_policy works on a copy: the view is unchanged *)
  | OFiltered P G, Ok _ => negb (is_empty_filter P G)
  | OFiltered P G, Err c =>
      if c =? EGroupArity then negb (is_empty_filter P G)   (* raised after the adapter was done *)
      else true                                            (* cleared, then only partly reloaded *)
  | OIncr P G, Ok _ => negb (is_empty_filter P G)
  | OIncr P G, Err c =>
      if c =? EGroupArity then negb (is_empty_filter P G)
      else partial                                         (* the view only grew *)
  | OSave, _ => partial
  end.

(* the ghost value before each step of a trace *)
Fixpoint ghosts (partial : bool) (tr : list (state * op * state * result unit)) : list bool :=
  match tr with
  | [] => []
  | (_, o, _, r) :: rest => partial :: ghosts (ghost_next partial o r) rest
  end.

Definition is_load (o : op) : bool := match o with OSave => false | _ => true end.

(* every non-blank filter value equals (trimmed) the field at its position *)
Definition matches (F fields : list str) : Prop :=
  forall i, (i < length F)%nat ->
    is_blank (nth i F []) = true \/ strip (nth i F []) = strip (nth i fields []).

(* m' has the same policy types as m and every rule list of m is a prefix of the one in m' *)
Definition grows (m m' : model) : Prop :=
  Forall2 (fun a a' => a_sec a' = a_sec a /\ a_key a' = a_key a /\ exists x, a_pol a' = a_pol a ++ x) m m'.

(* one step of a trace respects the store: while the flag is set a save attempt raises and changes
   nothing; and the file only ever changes by a save performed with the flag cleared *)
Definition step_safe (x : state * op * state * result unit) : Prop :=
  let '(s, o, s', r) := x in
  (s_flag s = true -> o = OSave -> r = Err EFilteredSave /\ s' = s)
  /\ (s_file s' <> s_file s -> o = OSave /\ s_flag s = false /\ r = Ok tt).

(* no load operation of the trace raised *)
Definition loads_ok (tr : list (state * op * state * result unit)) : Prop :=
  Forall (fun x => let '(_, o, _, r) := x in is_load o = true -> r = Ok tt) tr.

(* before this step: a partial view implies the flag *)
Definition guarded (x : (state * op * state * result unit) * bool) : Prop :=
  let '((s, _, _, _), partial) := x in partial = true -> s_flag s = true.

(* the links of exactly the g rules of m: each rule's first `count` fields, per role definition *)
Definition links_spec (counts : list (str * nat)) (m : model) : links_t :=
  map (fun a => (a_key a, map (firstn (count_of counts (a_key a))) (a_pol a))) (g_asts m).

(* lines on which the filter's naive comma split and the loader's bracket-aware split coincide:
   no bracket at all and a non-blank first field (comments and empty lines are fine) *)
Definition no_brackets (l : str) : bool := forallb (fun c => negb (is_open c) && negb (is_close c)) l.
Definition plain_ok (l : str) : bool :=
  negb (nonempty l) || is_comment l
  || (no_brackets l && negb (is_blank (hd [] (split_on c_comma l)))).
Definition plain_text (text : str) : bool := forallb plain_ok (file_lines text).

(* ---------- oracle ---------- *)
Definition as_strs : val -> option (list str) := as_listof as_str.
Definition as_op (v : val) : option op :=
  match v with
  | VL [VN 0] => Some OLoad
  | VL [VN 1; p; g] => match as_strs p, as_strs g with Some p, Some g => Some (OFiltered p g) | _, _ => None end
  | VL [VN 2; p; g] => match as_strs p, as_strs g with Some p, Some g => Some (OIncr p g) | _, _ => None end
  | VL [VN 3] => Some OSave
  | _ => None
  end.
Definition as_count (v : val) : option (str * nat) :=
  match v with
  | VL [k; VN n] => match as_str k with Some k => Some (k, N.to_nat n) | None => None end
  | _ => None
  end.
Definition vlinks (l : links_t) : val := vlist (vpair vstr vrules) l.
Definition vunit (u : unit) : val := VL [].
Definition vstate (st : state) : val :=
  VL [vbool (s_flag st); vmodel (s_mdl st); vlinks (s_links st); vstr (s_file st)].

Definition oracle_C12 (tag : N) (v : val) : val :=
  match tag, v with
  (* run a trace from a fresh enforcer: [counts; file; model; ops] -> per step [outcome; state after] *)
  | 1, VL [cs; f; m; ops] =>
      match as_listof as_count cs, as_str f, as_model m, as_listof as_op ops with
      | Some cs, Some f, Some m, Some ops =>
          vlist (fun x => let '(_, _, st', r) := x in VL [vres vunit r; vstate st'])
                (run cs (init_state f m) ops)
      | _, _, _, _ => vbad
      end
  | 2, VL [l; p; g] =>
      match as_str l, as_strs p, as_strs g with
      | Some l, Some p, Some g => vbool (filter_line l p g)
      | _, _, _ => vbad
      end
  (* spec: [text; P; G; model] -> [plain_text; model + subset_rules; model + stored_rules; empty filter; in line grammar] *)
  | 3, VL [t; p; g; m] =>
      match as_str t, as_strs p, as_strs g, as_model m with
      | Some t, Some p, Some g, Some m =>
          VL [vbool (plain_text t); vmodel (with_rules (subset_rules t p g) m);
              vmodel (with_rules (stored_rules t) m); vbool (is_empty_filter p g);
              vbool (forallb line_ok (file_lines t))]
      | _, _, _, _ => vbad
      end
  | 4, VL [p; g; k; fs] =>
      match as_strs p, as_strs g, as_str k, as_strs fs with
      | Some p, Some g, Some k, Some fs => vbool (rule_kept p g k fs)
      | _, _, _, _ => vbad
      end
  | _, _ => vbad
  end.
