(* FilteredProofs.v — lemmas about Filtered.v (C12) *)
From Coq Require Import List NArith Bool Arith Lia.
From PyCasbin Require Import Base Csv CsvProofs Filtered.
Import ListNotations.
Local Open Scope N_scope.

(* ------------------------------------------------------------------ blanks *)
Lemma blankp_is_blank : forall x, blankp x = is_blank x.
Proof.
  intro x. unfold blankp. rewrite is_blank_strip. destruct (strip x); reflexivity.
Qed.

Lemma all_blankp_forallb : forall f, all_blankp f = forallb is_blank f.
Proof.
  intro f. unfold all_blankp. induction f as [|x f IH]; [reflexivity|]. simpl.
  rewrite blankp_is_blank, IH. reflexivity.
Qed.

Lemma g_unfiltered_test : forall G, isnil G || all_blankp G = forallb is_blank G.
Proof. intros [|x G]; [reflexivity|]. cbn [isnil orb]. apply all_blankp_forallb. Qed.

Lemma is_empty_filter_spec : forall P G,
  is_empty_filter P G = forallb is_blank P && forallb is_blank G.
Proof.
  intros P G. unfold is_empty_filter. rewrite !all_blankp_forallb.
  destruct P as [|p P]; destruct G as [|g G]; simpl; reflexivity.
Qed.

Lemma nonempty_false : forall s : str, nonempty s = false <-> s = [].
Proof. intros [|c r]; simpl; split; congruence. Qed.

(* the test of filter_words' loop body, as a boolean *)
Lemma differ_cond : forall v x,
  nonempty v && nonempty (strip v) && negb (str_eqb (strip v) (strip x))
  = negb (is_blank v || str_eqb (strip v) (strip x)).
Proof.
  intros v x. destruct (is_blank v) eqn:B.
  - apply strip_blank_iff in B. rewrite B. simpl. rewrite andb_false_r. reflexivity.
  - pose proof (strip_notblank v B) as Hs. simpl orb.
    destruct v as [|c r]; [discriminate|]. destruct (strip (c :: r)) eqn:E; [congruence|]. reflexivity.
Qed.

Lemma str_eqb_eq : forall a b : str, str_eqb a b = true <-> a = b.
Proof. exact list_eqb_N_eq. Qed.

(* ------------------------------------------------------------------ kept_iff *)

Lemma words_differ_iff : forall F fields, (length F <= length fields)%nat ->
  (words_differ F fields = false <-> matches F fields).
Proof.
  induction F as [|v F IH]; intros fields Hl.
  - split; [intros _ i Hi; simpl in Hi; lia | reflexivity].
  - destruct fields as [|x fields]; [simpl in Hl; lia|]. simpl in Hl.
    cbn [words_differ]. rewrite differ_cond. rewrite orb_false_iff. rewrite negb_false_iff.
    rewrite (IH fields) by lia. rewrite orb_true_iff. rewrite str_eqb_eq. split.
    + intros [H0 Hm] i Hi. destruct i as [|i]; [exact H0|]. simpl. apply Hm. simpl in Hi. lia.
    + intro Hm. split.
      * apply (Hm 0%nat). simpl. lia.
      * intros i Hi. apply (Hm (S i)). simpl. lia.
Qed.

Lemma split_on_nonempty : forall sep s, split_on sep s <> [].
Proof.
  intros sep [|c r]; simpl; [discriminate|]. destruct (c =? sep); [discriminate|].
  destruct (split_on sep r); discriminate.
Qed.

Lemma filter_words_iff : forall k0 rest F,
  filter_words (k0 :: rest) F = false <-> (length F <= length rest)%nat /\ matches F rest.
Proof.
  intros k0 rest F. unfold filter_words. simpl length. simpl tl.
  destruct (S (length rest) <? length F + 1)%nat eqn:E.
  - apply Nat.ltb_lt in E. split; [discriminate | intros [H _]; lia].
  - apply Nat.ltb_ge in E. rewrite words_differ_iff by lia. split; [intro H; split; [lia | exact H] | tauto].
Qed.

(* the exact characterisation of the lines that load_filtered_policy keeps: with
   parts = line.split(","), key = parts[0].strip(), fields = parts[1:] *)
Theorem kept_iff : forall l P G,
  let parts := split_on c_comma l in
  let key := strip (hd [] parts) in
  let fields := tl parts in
  filter_line l P G = false <->
    (key = s_g /\ (forallb is_blank G = true \/ ((length G <= length fields)%nat /\ matches G fields)))
    \/ (key = s_p /\ (length P <= length fields)%nat /\ matches P fields)
    \/ (key <> s_g /\ key <> s_p).
Proof.
  intros l P G parts key fields. unfold filter_line. fold parts. fold key.
  pose proof (split_on_nonempty c_comma l) as Hne. fold parts in Hne.
  destruct parts as [|k0 rest] eqn:Ep; [congruence|]. simpl in fields. subst fields.
  rewrite g_unfiltered_test.
  destruct (str_eqb key s_g) eqn:Eg.
  - apply str_eqb_eq in Eg. destruct (forallb is_blank G) eqn:Bg.
    + split; [intros _; left; split; [exact Eg | left; reflexivity] | reflexivity].
    + rewrite filter_words_iff. split.
      * intro H. left. split; [exact Eg | right; exact H].
      * intros [[_ [H|H]]|[[H _]|[H _]]]; try discriminate; try exact H; try congruence.
        rewrite Eg in H. discriminate.
  - assert (Hg : key <> s_g) by (intro H; apply str_eqb_eq in H; congruence).
    destruct (str_eqb key s_p) eqn:Epp.
    + apply str_eqb_eq in Epp. rewrite filter_words_iff. split.
      * intro H. right. left. split; [exact Epp | exact H].
      * intros [[H _]|[[_ H]|[_ H]]]; first [congruence | exact H].
    + assert (Hp : key <> s_p) by (intro H; apply str_eqb_eq in H; congruence).
      split; [intros _; right; right; split; assumption | intros _; reflexivity].
Qed.

(* ------------------------------------------------------------------ plain lines *)
Lemma no_brackets_cons : forall c r, no_brackets (c :: r) = true ->
  is_open c = false /\ is_close c = false /\ no_brackets r = true.
Proof.
  intros c r H. unfold no_brackets in H. simpl in H. apply andb_true_iff in H. destruct H as [H1 H2].
  apply andb_true_iff in H1. destruct H1 as [A B]. apply negb_true_iff in A. apply negb_true_iff in B. auto.
Qed.

Lemma split_top_no_brackets : forall l, no_brackets l = true -> split_top l 0 = split_on c_comma l.
Proof.
  induction l as [|c r IH]; intro H; [reflexivity|].
  destruct (no_brackets_cons c r H) as [A [B C]]. cbn [split_top split_on]. rewrite A, B.
  rewrite IH by exact C. simpl Nat.eqb. rewrite andb_true_r. destruct (c =? c_comma); [reflexivity|].
  unfold cons_hd. destruct (split_on c_comma r); reflexivity.
Qed.

Lemma no_underflow_no_brackets : forall l d, no_brackets l = true -> no_underflow l d = true.
Proof.
  induction l as [|c r IH]; intros d H; [reflexivity|].
  destruct (no_brackets_cons c r H) as [A [B C]]. cbn [no_underflow]. rewrite A, B. apply IH. exact C.
Qed.

Lemma plain_line_ok : forall l, plain_ok l = true -> line_ok l = true.
Proof.
  intros l H. destruct l as [|c r]; [reflexivity|]. unfold plain_ok in H. unfold line_ok.
  cbn [nonempty negb orb is_comment] in H.
  destruct (c =? c_hash); [reflexivity|]. cbn [orb] in H |- *.
  apply andb_true_iff in H. destruct H as [H1 H2].
  destruct (no_brackets_cons c r H1) as [A _]. rewrite A.
  rewrite no_underflow_no_brackets by exact H1. rewrite split_top_no_brackets by exact H1.
  rewrite H2. reflexivity.
Qed.

(* filter_words against trimmed fields *)
Lemma words_differ_values : forall F rest, (length F <= length rest)%nat ->
  words_differ F rest = negb (values_match F (map strip rest)).
Proof.
  induction F as [|v F IH]; intros rest Hl; [reflexivity|].
  destruct rest as [|x rest]; [simpl in Hl; lia|]. simpl in Hl. cbn [words_differ values_match map].
  rewrite differ_cond. rewrite IH by lia. rewrite negb_andb. reflexivity.
Qed.

Lemma values_match_short : forall F fs, (length fs < length F)%nat -> values_match F fs = false.
Proof.
  induction F as [|v F IH]; intros fs Hl; [simpl in Hl; lia|].
  destruct fs as [|x fs]; [reflexivity|]. simpl in Hl. cbn [values_match]. rewrite IH by lia.
  apply andb_false_r.
Qed.

Lemma filter_words_values : forall k0 rest F,
  filter_words (k0 :: rest) F = negb (values_match F (map strip rest)).
Proof.
  intros k0 rest F. unfold filter_words. simpl length. simpl tl.
  destruct (S (length rest) <? length F + 1)%nat eqn:E.
  - apply Nat.ltb_lt in E. rewrite values_match_short; [reflexivity|]. rewrite map_length. lia.
  - apply Nat.ltb_ge in E. apply words_differ_values. lia.
Qed.

(* on a line where both splits agree, the filter decides by the rule the loader produces *)
Lemma filter_line_rule : forall l P G key fs, no_brackets l = true ->
  spec_fields l = key :: fs -> filter_line l P G = negb (rule_kept P G key fs).
Proof.
  intros l P G key fs Hnb Hf. unfold spec_fields in Hf. rewrite split_top_no_brackets in Hf by exact Hnb.
  unfold filter_line, rule_kept. destruct (split_on c_comma l) as [|k0 rest] eqn:Ep; [discriminate|].
  simpl in Hf. inversion Hf; subst. simpl hd. rewrite g_unfiltered_test.
  destruct (str_eqb (strip k0) s_g).
  - destruct (forallb is_blank G); [reflexivity|]. simpl orb. apply filter_words_values.
  - destruct (str_eqb (strip k0) s_p); [apply filter_words_values | reflexivity].
Qed.

(* ------------------------------------------------------------------ the loaded subset *)
Lemma names_key : forall key a, names key a = true -> a_key a = key.
Proof.
  intros key a H. unfold names in H. apply ast_is_id in H. unfold ast_id in H. congruence.
Qed.

Lemma spec_rules_cons : forall l ls a,
  spec_rules (l :: ls) a = spec_rules [l] a ++ spec_rules ls a.
Proof. intros. unfold spec_rules. simpl. rewrite app_nil_r. reflexivity. Qed.

Lemma spec_rules_filter : forall P G ls a, forallb plain_ok ls = true ->
  spec_rules (filter (fun l => nonempty l && negb (filter_line l P G)) ls) a
  = filter (rule_kept P G (a_key a)) (spec_rules ls a).
Proof.
  intros P G. induction ls as [|l ls IH]; intros a H; [reflexivity|].
  simpl in H. apply andb_true_iff in H. destruct H as [Hl Hls].
  rewrite (spec_rules_cons l ls). rewrite filter_app. rewrite <- IH by exact Hls. clear IH.
  cbn [filter]. unfold plain_ok in Hl.
  destruct (nonempty l) eqn:En.
  - simpl negb in Hl. simpl orb in Hl. destruct (is_comment l) eqn:Ec.
    + (* a comment contributes nothing, kept or not *)
      assert (Z : spec_rules [l] a = []).
      { unfold spec_rules. simpl. rewrite En, Ec. reflexivity. }
      rewrite Z. simpl. destruct (negb (filter_line l P G)); [|reflexivity].
      rewrite spec_rules_cons. rewrite Z. reflexivity.
    + simpl orb in Hl. apply andb_true_iff in Hl. destruct Hl as [Hnb _].
      assert (Z : spec_rules [l] a =
                  match spec_fields l with key :: fs => if names key a then [fs] else [] | [] => [] end).
      { unfold spec_rules. simpl. rewrite En, Ec. simpl. apply app_nil_r. }
      destruct (spec_fields l) as [|key fs] eqn:Ef.
      * rewrite Z. simpl. destruct (negb (filter_line l P G)); [|reflexivity].
        rewrite spec_rules_cons, Z. reflexivity.
      * rewrite (filter_line_rule l P G key fs Hnb Ef). rewrite negb_involutive. simpl andb.
        rewrite Z. destruct (names key a) eqn:En2.
        -- rewrite (names_key key a En2). simpl filter.
           destruct (rule_kept P G key fs); [|reflexivity].
           rewrite spec_rules_cons, Z. reflexivity.
        -- simpl filter. destruct (rule_kept P G key fs); [|reflexivity].
           rewrite spec_rules_cons, Z. reflexivity.
  - simpl andb. assert (Z : spec_rules [l] a = []).
    { unfold spec_rules. simpl. rewrite En. reflexivity. }
    rewrite Z. reflexivity.
Qed.

Lemma load_lines_p_ok : forall ls m m', load_lines ls m = Ok m' -> load_lines_p ls m = (m', None).
Proof.
  induction ls as [|l ls IH]; intros m m' H; simpl in *.
  - inversion H. reflexivity.
  - destruct (load_policy_line l m); [apply IH; exact H | discriminate].
Qed.

Lemma forallb_filter : forall {A} (f g : A -> bool) l, forallb f l = true -> forallb f (filter g l) = true.
Proof.
  intros A f g. induction l as [|x l IH]; intro H; [reflexivity|]. simpl in *.
  apply andb_true_iff in H. destruct H as [H1 H2]. destruct (g x); [simpl; rewrite H1|]; apply IH; exact H2.
Qed.

Lemma forallb_impl : forall {A} (f g : A -> bool) l, (forall x, f x = true -> g x = true) ->
  forallb f l = true -> forallb g l = true.
Proof.
  intros A f g. induction l as [|x l IH]; intros Hi H; [reflexivity|]. simpl in *.
  apply andb_true_iff in H. destruct H as [H1 H2]. rewrite (Hi x H1). apply IH; assumption.
Qed.

Lemma spec_load_with_rules : forall ls m, spec_load ls m = with_rules (spec_rules ls) m.
Proof. reflexivity. Qed.

(* the complete store: what a full load brings in *)
Theorem full_load_is_store : forall text m, plain_text text = true -> NoDup (map ast_id m) ->
  load_file text m = Ok (with_rules (stored_rules text) m).
Proof.
  intros text m Hp Hnd. rewrite load_file_grammar; [reflexivity | exact Hnd|].
  eapply forallb_impl; [apply plain_line_ok | exact Hp].
Qed.

(* a filtered load brings in exactly the kept rules, in store order, after what is there *)
Theorem filtered_load_is_subset_exactly : forall text flag P G m,
  plain_text text = true -> NoDup (map ast_id m) -> is_empty_filter P G = false ->
  adapter_load_filtered text flag P G m = (true, with_rules (subset_rules text P G) m, None).
Proof.
  intros text flag P G m Hp Hnd He. unfold adapter_load_filtered. rewrite He.
  assert (Hk : load_lines (kept_lines text P G) m = Ok (spec_load (kept_lines text P G) m)).
  { apply load_lines_grammar; [exact Hnd|]. unfold kept_lines. apply forallb_filter.
    eapply forallb_impl; [apply plain_line_ok | exact Hp]. }
  rewrite (load_lines_p_ok _ _ _ Hk). f_equal. f_equal.
  unfold spec_load, with_rules, subset_rules, stored_rules, kept_lines. apply map_ext. intro a.
  rewrite spec_rules_filter by exact Hp. reflexivity.
Qed.

Theorem empty_filter_load_is_full : forall text flag P G m,
  plain_text text = true -> NoDup (map ast_id m) -> is_empty_filter P G = true ->
  adapter_load_filtered text flag P G m = (false, with_rules (stored_rules text) m, None).
Proof.
  intros text flag P G m Hp Hnd He. unfold adapter_load_filtered. rewrite He.
  pose proof (full_load_is_store text m Hp Hnd) as Hf. unfold load_file in Hf.
  rewrite (load_lines_p_ok _ _ _ Hf). reflexivity.
Qed.

(* ------------------------------------------------------------------ enforcer level *)
Section Enf.
  Variable counts : list (str * nat).

  Lemma after_adapter_fields : forall st fl m' err st' r,
    after_adapter counts st (fl, m', err) = (st', r) ->
    s_file st' = s_file st /\ s_flag st' = fl /\ s_mdl st' = m'.
  Proof.
    intros st fl m' err st' r H. unfold after_adapter in H. destruct err as [e|].
    - inversion H; subst. simpl. auto.
    - destruct (links_of counts m') as [lk ok]. inversion H; subst. simpl. auto.
  Qed.

  Theorem e_filtered_subset : forall st P G,
    plain_text (s_file st) = true -> NoDup (map ast_id (s_mdl st)) -> is_empty_filter P G = false ->
    let st' := fst (e_load_filtered counts st P G) in
    s_mdl st' = with_rules (subset_rules (s_file st) P G) (clear_policy (s_mdl st))
    /\ s_flag st' = true /\ s_file st' = s_file st.
  Proof.
    intros st P G Hp Hnd He. unfold e_load_filtered.
    rewrite filtered_load_is_subset_exactly; [| exact Hp | rewrite clear_ids; exact Hnd | exact He].
    destruct (after_adapter counts st _) as [st' r] eqn:E. simpl.
    destruct (after_adapter_fields _ _ _ _ _ _ E) as [A [B C]]. auto.
  Qed.

  (* incremental filtered loading appends the further subset to every policy type's rules *)
  Theorem incremental_keeps_loaded : forall st P G,
    plain_text (s_file st) = true -> NoDup (map ast_id (s_mdl st)) -> is_empty_filter P G = false ->
    let st' := fst (e_load_incr counts st P G) in
    s_mdl st' = with_rules (subset_rules (s_file st) P G) (s_mdl st)
    /\ s_flag st' = true /\ s_file st' = s_file st.
  Proof.
    intros st P G Hp Hnd He. unfold e_load_incr.
    rewrite filtered_load_is_subset_exactly by assumption.
    destruct (after_adapter counts st _) as [st' r] eqn:E. simpl.
    destruct (after_adapter_fields _ _ _ _ _ _ E) as [A [B C]]. auto.
  Qed.

  (* no guard at all: whatever the file, an incremental load only ever appends lines' rules *)
  Lemma load_policy_line_grows : forall l m m', load_policy_line l m = Ok m' ->
    Forall2 (fun a a' => a_sec a' = a_sec a /\ a_key a' = a_key a /\ exists x, a_pol a' = a_pol a ++ x) m m'.
  Proof.
    intros l m m' H. unfold load_policy_line in H. destruct (parse_line l) as [[[key fs]|]|e]; try discriminate.
    - inversion H; subst. clear H. induction m as [|a r IH]; simpl; [constructor|].
      destruct (ast_is (hd 0 key) key a).
      + constructor.
        * simpl. repeat split. exists [fs]. reflexivity.
        * clear IH. induction r as [|b r IH]; constructor; [|exact IH].
          repeat split. exists []. rewrite app_nil_r. reflexivity.
      + constructor; [|exact IH]. repeat split. exists []. rewrite app_nil_r. reflexivity.
    - inversion H; subst. clear H. induction m' as [|b r IH]; constructor; [|exact IH].
      repeat split. exists []. rewrite app_nil_r. reflexivity.
  Qed.


  Lemma grows_refl : forall m, grows m m.
  Proof.
    induction m as [|a r IH]; constructor; [|exact IH]. repeat split. exists []. rewrite app_nil_r. reflexivity.
  Qed.

  Lemma grows_trans : forall m1 m2 m3, grows m1 m2 -> grows m2 m3 -> grows m1 m3.
  Proof.
    intros m1 m2 m3 H. revert m3. induction H as [|a b r1 r2 [S1 [K1 [x Hx]]] H IH]; intros m3 H3.
    - inversion H3. constructor.
    - inversion H3 as [|b' c r2' r3 [S2 [K2 [y Hy]]] H3']; subst. constructor.
      + repeat split; try congruence. exists (x ++ y). rewrite Hy, Hx. rewrite app_assoc. reflexivity.
      + apply IH. exact H3'.
  Qed.

  Lemma load_lines_p_grows : forall ls m, grows m (fst (load_lines_p ls m)).
  Proof.
    induction ls as [|l ls IH]; intro m; simpl; [apply grows_refl|].
    destruct (load_policy_line l m) as [m'|e] eqn:E; [|apply grows_refl].
    eapply grows_trans; [exact (load_policy_line_grows l m m' E) | apply IH].
  Qed.

  Theorem incremental_never_drops : forall st P G,
    grows (s_mdl st) (s_mdl (fst (e_load_incr counts st P G))).
  Proof.
    intros st P G. unfold e_load_incr, adapter_load_filtered.
    destruct (is_empty_filter P G).
    - pose proof (load_lines_p_grows (file_lines (s_file st)) (s_mdl st)) as Hg.
      destruct (load_lines_p (file_lines (s_file st)) (s_mdl st)) as [m' [e|]]; simpl in Hg.
      + simpl. exact Hg.
      + unfold after_adapter. destruct (links_of counts m'). simpl. exact Hg.
    - pose proof (load_lines_p_grows (kept_lines (s_file st) P G) (s_mdl st)) as Hg.
      destruct (load_lines_p (kept_lines (s_file st) P G) (s_mdl st)) as [m' [e|]]; simpl in Hg.
      + simpl. exact Hg.
      + unfold after_adapter. destruct (links_of counts m'). simpl. exact Hg.
  Qed.

  (* ---- the flag ---- *)
  Theorem full_load_clears_flag : forall st, s_flag (fst (e_load_policy counts st)) = false.
  Proof.
    intro st. unfold e_load_policy. destruct (load_file (s_file st) (clear_policy (s_mdl st))); [|reflexivity].
    destruct (links_of counts a) as [lk ok]. destruct ok; reflexivity.
  Qed.

  Lemma adapter_empty_flag : forall text flag P G m, is_empty_filter P G = true ->
    fst (fst (adapter_load_filtered text flag P G m)) = false.
  Proof.
    intros text flag P G m He. unfold adapter_load_filtered. rewrite He.
    destruct (load_lines_p (file_lines text) m) as [m' [e|]]; reflexivity.
  Qed.

  Lemma after_adapter_flag : forall st x, s_flag (fst (after_adapter counts st x)) = fst (fst x).
  Proof.
    intros st [[fl m'] err]. unfold after_adapter. destruct err; [reflexivity|].
    destruct (links_of counts m'). reflexivity.
  Qed.

  Theorem empty_filter_clears_flag : forall st P G, is_empty_filter P G = true ->
    s_flag (fst (e_load_filtered counts st P G)) = false
    /\ s_flag (fst (e_load_incr counts st P G)) = false.
  Proof.
    intros st P G He. unfold e_load_filtered, e_load_incr. rewrite !after_adapter_flag.
    rewrite !adapter_empty_flag by exact He. auto.
  Qed.

  Theorem filtered_load_sets_flag : forall st P G st', is_empty_filter P G = false ->
    (e_load_filtered counts st P G = (st', Ok tt) \/ e_load_incr counts st P G = (st', Ok tt)) ->
    s_flag st' = true.
  Proof.
    intros st P G st' He H.
    assert (X : forall m, after_adapter counts st (adapter_load_filtered (s_file st) (s_flag st) P G m) = (st', Ok tt) ->
                          s_flag st' = true).
    { intros m Hm. unfold adapter_load_filtered in Hm. rewrite He in Hm.
      destruct (load_lines_p (kept_lines (s_file st) P G) m) as [m' [e|]].
      - simpl in Hm. inversion Hm.
      - destruct (after_adapter_fields _ _ _ _ _ _ Hm) as [_ [B _]]. exact B. }
    destruct H as [H|H]; eapply X; exact H.
  Qed.

  (* ---- save ---- *)
  Theorem save_refused_while_filtered : forall st, s_flag st = true ->
    step counts st OSave = (st, Err EFilteredSave).
  Proof. intros st H. simpl. unfold e_save. rewrite H. reflexivity. Qed.

  Theorem only_unfiltered_save_writes : forall st o st' r, step counts st o = (st', r) ->
    s_file st' <> s_file st -> o = OSave /\ s_flag st = false /\ r = Ok tt.
  Proof.
    intros st o st' r H Hf. destruct o as [|P G|P G|]; simpl in H.
    - exfalso. apply Hf. unfold e_load_policy in H.
      destruct (load_file (s_file st) (clear_policy (s_mdl st))); [|inversion H; reflexivity].
      destruct (links_of counts a) as [lk ok]. destruct ok; inversion H; reflexivity.
    - exfalso. apply Hf. unfold e_load_filtered in H.
      destruct (adapter_load_filtered (s_file st) (s_flag st) P G (clear_policy (s_mdl st))) as [[fl m'] err].
      exact (proj1 (after_adapter_fields _ _ _ _ _ _ H)).
    - exfalso. apply Hf. unfold e_load_incr in H.
      destruct (adapter_load_filtered (s_file st) (s_flag st) P G (s_mdl st)) as [[fl m'] err].
      exact (proj1 (after_adapter_fields _ _ _ _ _ _ H)).
    - unfold e_save in H. destruct (s_flag st) eqn:E.
      + inversion H; subst. congruence.
      + inversion H; subst. auto.
  Qed.


  (* every trace of loads and save attempts, from any state *)
  Theorem never_overwrites : forall ops st, Forall step_safe (run counts st ops).
  Proof.
    induction ops as [|o ops IH]; intro st; simpl; [constructor|].
    destruct (step counts st o) as [st' r] eqn:E. constructor; [|apply IH].
    unfold step_safe. split.
    - intros Hf Ho. subst o. rewrite (save_refused_while_filtered st Hf) in E. inversion E; subst. auto.
    - intro Hc. eapply only_unfiltered_save_writes; eassumption.
  Qed.

  (* ---- the ghost "partial view" ---- *)

  Lemma step_flag_ok : forall st o st', step counts st o = (st', Ok tt) ->
    forall partial, (partial = true -> s_flag st = true) ->
    ghost_next partial o (Ok tt) = true -> s_flag st' = true.
  Proof.
    intros st o st' H partial Hinv Hg. destruct o as [|P G|P G|]; simpl in Hg.
    - discriminate.
    - apply negb_true_iff in Hg. eapply filtered_load_sets_flag; [exact Hg | left; exact H].
    - apply negb_true_iff in Hg. eapply filtered_load_sets_flag; [exact Hg | right; exact H].
    - simpl in H. unfold e_save in H. destruct (s_flag st) eqn:E; [discriminate|].
      discriminate (Hinv Hg).
  Qed.

  Theorem partial_view_guarded : forall ops st partial,
    (partial = true -> s_flag st = true) -> loads_ok (run counts st ops) ->
    Forall guarded (combine (run counts st ops) (ghosts partial (run counts st ops))).
  Proof.
    induction ops as [|o ops IH]; intros st partial Hinv Hok; [constructor|].
    simpl in Hok |- *. destruct (step counts st o) as [st' r] eqn:E. simpl in Hok |- *.
    inversion Hok as [|? ? Hr Hok']; subst. constructor; [exact Hinv|].
    apply IH; [|exact Hok'].
    intro Hg. destruct (is_load o) eqn:El.
    - rewrite (Hr eq_refl) in E, Hg. eapply step_flag_ok; eassumption.
    - destruct o; try discriminate. simpl in Hg. simpl in E. unfold e_save in E.
      destruct (s_flag st) eqn:Ef.
      + inversion E; subst. exact Ef.
      + discriminate (Hinv Hg).
  Qed.

  (* ---- links ---- *)
  Lemma link_rules_ok : forall c pol ls, link_rules c pol = (ls, true) -> ls = map (firstn c) pol.
  Proof.
    induction pol as [|r pol IH]; intros ls H; simpl in H.
    - inversion H. reflexivity.
    - destruct (length r <? c)%nat; [discriminate|]. destruct (link_rules c pol) as [ls0 ok].
      inversion H; subst. simpl. f_equal. apply IH. reflexivity.
  Qed.


  Lemma build_links_ok : forall gs lk, build_links counts gs = (lk, true) ->
    lk = map (fun a => (a_key a, map (firstn (count_of counts (a_key a))) (a_pol a))) gs.
  Proof.
    induction gs as [|a gs IH]; intros lk H; simpl in H.
    - inversion H. reflexivity.
    - destruct (link_rules (count_of counts (a_key a)) (a_pol a)) as [ls ok] eqn:E.
      destruct ok; [|inversion H].
      destruct (build_links counts gs) as [more ok2]. inversion H; subst. simpl. f_equal.
      + f_equal. apply link_rules_ok. exact E.
      + apply IH. reflexivity.
  Qed.

  Lemma after_adapter_links : forall st x st', after_adapter counts st x = (st', Ok tt) ->
    s_links st' = links_spec counts (s_mdl st').
  Proof.
    intros st [[fl m'] err] st' H. unfold after_adapter in H. destruct err; [discriminate|].
    destruct (links_of counts m') as [lk ok] eqn:E. destruct ok; [|discriminate].
    inversion H; subst. simpl. apply build_links_ok. exact E.
  Qed.

  (* after every successful load the role managers hold exactly the loaded g rules' links *)
  Theorem links_from_subset : forall st o st', is_load o = true -> step counts st o = (st', Ok tt) ->
    s_links st' = links_spec counts (s_mdl st').
  Proof.
    intros st o st' Hl H. destruct o as [|P G|P G|]; simpl in H; try discriminate.
    - unfold e_load_policy in H. destruct (load_file (s_file st) (clear_policy (s_mdl st))); [|discriminate].
      destruct (links_of counts a) as [lk ok] eqn:E. destruct ok; [|discriminate].
      inversion H; subst. simpl. apply build_links_ok. exact E.
    - eapply after_adapter_links. exact H.
    - eapply after_adapter_links. exact H.
  Qed.
End Enf.

(* ------------------------------------------------------------------ the witness of the known finding *)
(* file: "p, alice, d, r\np, bob, d), r" ; model p (3 fields) ; g = _, _ *)
Definition w_file : str :=
  [112;44;32;97;108;105;99;101;44;32;100;44;32;114;10;112;44;32;98;111;98;44;32;100;41;44;32;114].
Definition w_model : model :=
  [ {| a_sec := c_p; a_key := s_p; a_pol := [] |}; {| a_sec := c_g; a_key := s_g; a_pol := [] |} ].
Definition w_alice : str := [97;108;105;99;101].
Definition w_ops : list op := [OFiltered [w_alice] []; OLoad; OSave].

(* filtered load of alice's rule, then a full reload that raises on the second line: the view is
   still partial, yet the flag is cleared and the save goes through, shrinking the store *)
Theorem partial_view_guard_refuted :
  exists counts file m ops,
    let tr := run counts (init_state file m) ops in
    exists s o s' r, nth_error tr 2 = Some (s, o, s', r)
      /\ nth_error (ghosts true tr) 2 = Some true
      /\ o = OSave /\ r = Ok tt /\ s_flag s = false
      /\ s_file s' <> s_file s /\ (length (s_file s') < length (s_file s))%nat.
Proof.
  exists [], w_file, w_model, w_ops. vm_compute. do 4 eexists.
  repeat split; try reflexivity; [discriminate | apply Nat.leb_le; reflexivity].
Qed.

(* file: "p, f(a,b), c" ; filter P = ["", "c"] : the stored rule [f(a,b); c] has "c" in second
   position, yet filter_line compares the filter with the naive pieces [" f(a"; "b)"; " c"] and
   drops the line *)
Definition w2_file : str := [112;44;32;102;40;97;44;98;41;44;32;99].
Definition w2_P : list str := [[]; [99]].

Theorem subset_exactly_refuted :
  exists text P G m,
    NoDup (map ast_id m) /\ is_empty_filter P G = false
    /\ forallb line_ok (file_lines text) = true
    /\ map a_pol (with_rules (subset_rules text P G) m) = [[[[102;40;97;44;98;41]; [99]]]; []]
    /\ map a_pol (snd (fst (adapter_load_filtered text true P G m))) = [[]; []].
Proof.
  exists w2_file, w2_P, [], w_model. split.
  - repeat constructor; simpl; intuition discriminate.
  - vm_compute. repeat split; reflexivity.
Qed.
