(* FlagLang.v — a small language for the CONTROL SKELETONS behind C12: the flag machine of FilteredFileAdapter
   (casbin/persist/adapters/filtered_file_adapter.py: load_policy, load_filtered_policy, save_policy) and the Enforcer methods
   that drive it (casbin/core_enforcer.py: load_filtered_policy, load_increment_filtered_policy, save_policy, is_filtered).
   translators/filtered.py renders the Python source into this syntax on every run (coq/gen/FilteredGen.v): every statement
   must be, as a syntax tree, one of the recognised steps below; FlagTie.v proves that the interpreter run on the regenerated
   programs computes Filtered.adapter_load_filtered / e_load_filtered / e_load_incr / e_save - the functions the C12 theorems
   (exactly the subset; never overwrites the store) are about.

   Each step's meaning, in Filtered.v's vocabulary (trusted reading):
   - `if not os.path.isfile(self._file_path): raise RuntimeError(..)`   the store exists (a missing store is the check's
     store-unavailable stratum): no effect;
   - self.filtered = b                                   the adapter's flag;
   - self._load_policy_file(model)                       Filtered.load_lines_p over every line of the file (the body is tied
     by AdapterTie.v); the model object is changed in place, an exception leaves what was loaded so far;
   - `if filter == None: return self.load_policy(model)` the filter object is given: not taken;
   - the try block (accepted only in its exact shape, also read by translators/filterline.py): when is_empty_filter holds the
     adapter's own load_policy runs and the method returns; ANY exception inside the block becomes RuntimeError (bare except);
   - self.load_filtered_policy_file(model, filter_value, persist.load_policy_line)   load_lines_p over Filtered.kept_lines (the
     method body is checked to be the recognised loop: decode, strip, skip empty, skip when filter_line says so, else hand
     the line to the loader; filter_line is tied by FilterTie.v, load_policy_line by LineTie.v);
   - `if self.filtered: raise RuntimeError("cannot save a filtered policy")`, self._save_policy_file(model) (tied by AdapterTie.v);
   Enforcer level: self.model.clear_policy(); the `hasattr(self.adapter, "is_filtered")` refusal (the adapter has it);
   self.adapter.load_filtered_policy(self.model, filter) = the adapter program; the two sorts and print_policy have no effect
   on these models; self.init_rm_map() + self.build_role_links() under auto_build (on) = Filtered.links_of the model, an
   exception keeping what was linked; `if self.is_filtered(): raise`; self.adapter.save_policy(self.model); the watcher is
   absent. *)
From Coq Require Import List NArith Bool.
From PyCasbin Require Import Base Csv Filtered.
Import ListNotations.
Local Open Scope N_scope.

Inductive gstmt : Type :=
| GCheckFile
| GSetFlag (b : bool)
| GLoadAll
| GIfNoneFilter
| GTryEmpty
| GLoadKept
| GRaiseIfFlag
| GSaveAll
(* enforcer level *)
| GClearPolicy
| GNeedsFilteredAdapter
| GAdapterLoadFiltered
| GSort | GPrint
| GInitRmMap
| GIfAutoBuild (body : list gstmt)
| GBuildRoleLinks
| GRaiseIfFiltered
| GAdapterSave
| GWatcher.

Definition gstate := Filtered.state.
Inductive gout := GNext (s : gstate) | GRet (s : gstate) | GRaise (s : gstate) (c : N).

Definition set_mdl (s : gstate) (m : model) : gstate := {| s_file := s_file s; s_flag := s_flag s; s_mdl := m; s_links := s_links s |}.
Definition set_flag (s : gstate) (b : bool) : gstate := {| s_file := s_file s; s_flag := b; s_mdl := s_mdl s; s_links := s_links s |}.

Section Interp.
  Variable counts : list (str * nat).
  Variables P G : list str.
  (* the adapter's own load_policy / load_filtered_policy / save_policy, as regenerated *)
  Variable ad_load ad_filtered ad_save : list gstmt.

  Fixpoint gexec (n : nat) (s : gstate) (c : gstmt) {struct n} : gout :=
    match n with
    | O => GRaise s EFuel
    | S n' =>
      match c with
      | GCheckFile | GIfNoneFilter | GSort | GPrint | GNeedsFilteredAdapter | GWatcher => GNext s
      | GSetFlag b => GNext (set_flag s b)
      | GLoadAll => match load_lines_p (file_lines (s_file s)) (s_mdl s) with
                    | (m', None) => GNext (set_mdl s m')
                    | (m', Some e) => GRaise (set_mdl s m') e
                    end
      | GTryEmpty =>
          if is_empty_filter P G then
            match gblock n' s ad_load with
            | GNext s' | GRet s' => GRet s'
            | GRaise s' _ => GRaise s' ERuntime
            end
          else GNext s
      | GLoadKept => match load_lines_p (kept_lines (s_file s) P G) (s_mdl s) with
                     | (m', None) => GNext (set_mdl s m')
                     | (m', Some e) => GRaise (set_mdl s m') e
                     end
      | GRaiseIfFlag | GRaiseIfFiltered => if s_flag s then GRaise s EFilteredSave else GNext s
      | GSaveAll => GNext {| s_file := save_file (s_mdl s); s_flag := s_flag s; s_mdl := s_mdl s; s_links := s_links s |}
      | GClearPolicy => GNext (set_mdl s (clear_policy (s_mdl s)))
      | GAdapterLoadFiltered => match gblock n' s ad_filtered with GRet s' => GNext s' | o => o end
      | GInitRmMap => GNext {| s_file := s_file s; s_flag := s_flag s; s_mdl := s_mdl s;
                               s_links := map (fun a => (a_key a, [])) (g_asts (s_mdl s)) |}
      | GIfAutoBuild body => gblock n' s body
      | GBuildRoleLinks =>
          let (lk, ok) := build_links counts (g_asts (s_mdl s)) in
          let s' := {| s_file := s_file s; s_flag := s_flag s; s_mdl := s_mdl s; s_links := lk |} in
          if ok then GNext s' else GRaise s' EGroupArity
      | GAdapterSave => match gblock n' s ad_save with GRet s' => GNext s' | o => o end
      end
    end
  with gblock (n : nat) (s : gstate) (b : list gstmt) {struct n} : gout :=
    match n with
    | O => GRaise s EFuel
    | S n' =>
      match b with
      | [] => GNext s
      | c :: r => match gexec n' s c with GNext s' => gblock n' s' r | o => o end
      end
    end.

  Definition grun (n : nat) (body : list gstmt) (s : gstate) : gstate * result unit :=
    match gblock n s body with
    | GNext s' | GRet s' => (s', Ok tt)
    | GRaise s' c => (s', Err c)
    end.
End Interp.
