(* FlagTie.v — C12: the control skeletons regenerated from filtered_file_adapter.py and core_enforcer.py on this run
   (coq/gen/FilteredGen.v), executed by the interpreter of FlagLang.v, compute Filtered.adapter_load_filtered and the enforcer
   steps e_load_filtered / e_load_incr / e_save - for every file, flag, filter, model and role-link state. *)
From Coq Require Import List NArith Bool.
From PyCasbin Require Import Base Csv Filtered FlagLang.
From PyCasbinGen Require Import FilteredGen.
Import ListNotations.
Local Open Scope N_scope.

Definition GFUEL : nat := 20.

Definition run_g (counts : list (str * nat)) (P G : list str) (body : list gstmt) (st : state) : state * result unit :=
  grun counts P G ad_load_policy_gen ad_load_filtered_policy_gen ad_save_policy_gen GFUEL body st.

Ltac gstart :=
  unfold run_g, grun, GFUEL;
  repeat match goal with |- context [?g] =>
    lazymatch g with
    | ad_load_policy_gen => let b := eval lazy in g in change g with b
    | ad_load_filtered_policy_gen => let b := eval lazy in g in change g with b
    | ad_save_policy_gen => let b := eval lazy in g in change g with b
    | en_load_filtered_policy_gen => let b := eval lazy in g in change g with b
    | en_load_increment_filtered_policy_gen => let b := eval lazy in g in change g with b
    | en_save_policy_gen => let b := eval lazy in g in change g with b
    end end.

(* FilteredFileAdapter.load_filtered_policy(model, filter) *)
Theorem tie_adapter_load_filtered counts P G file flag m links :
  run_g counts P G ad_load_filtered_policy_gen {| s_file := file; s_flag := flag; s_mdl := m; s_links := links |} =
  let '(flag', m', err) := adapter_load_filtered file flag P G m in
  ({| s_file := file; s_flag := flag'; s_mdl := m'; s_links := links |}, match err with None => Ok tt | Some e => Err e end).
Proof.
  gstart. unfold adapter_load_filtered.
  cbn [gblock gexec set_flag set_mdl s_file s_flag s_mdl s_links].
  destruct (is_empty_filter P G).
  - cbn [gblock gexec set_flag set_mdl s_file s_flag s_mdl s_links].
    destruct (load_lines_p (file_lines file) m) as [m' [e|]]; reflexivity.
  - cbn [gblock gexec set_flag set_mdl s_file s_flag s_mdl s_links].
    destruct (load_lines_p (kept_lines file P G) m) as [m' [e|]]; reflexivity.
Qed.

(* Enforcer.load_filtered_policy(filter) *)
Theorem tie_e_load_filtered counts P G st :
  run_g counts P G en_load_filtered_policy_gen st = e_load_filtered counts st P G.
Proof.
  destruct st as [file flag m links]. gstart. unfold e_load_filtered, after_adapter, adapter_load_filtered, links_of.
  cbn [gblock gexec set_flag set_mdl s_file s_flag s_mdl s_links].
  destruct (is_empty_filter P G); cbn [gblock gexec set_flag set_mdl s_file s_flag s_mdl s_links].
  - destruct (load_lines_p (file_lines file) (clear_policy m)) as [m' [e|]]; [reflexivity|].
    cbn [gblock gexec set_flag set_mdl s_file s_flag s_mdl s_links].
    destruct (build_links counts (g_asts m')) as [lk [|]]; reflexivity.
  - destruct (load_lines_p (kept_lines file P G) (clear_policy m)) as [m' [e|]]; [reflexivity|].
    cbn [gblock gexec set_flag set_mdl s_file s_flag s_mdl s_links].
    destruct (build_links counts (g_asts m')) as [lk [|]]; reflexivity.
Qed.

(* Enforcer.load_increment_filtered_policy(filter) *)
Theorem tie_e_load_incr counts P G st :
  run_g counts P G en_load_increment_filtered_policy_gen st = e_load_incr counts st P G.
Proof.
  destruct st as [file flag m links]. gstart. unfold e_load_incr, after_adapter, adapter_load_filtered, links_of.
  cbn [gblock gexec set_flag set_mdl s_file s_flag s_mdl s_links].
  destruct (is_empty_filter P G); cbn [gblock gexec set_flag set_mdl s_file s_flag s_mdl s_links].
  - destruct (load_lines_p (file_lines file) m) as [m' [e|]]; [reflexivity|].
    cbn [gblock gexec set_flag set_mdl s_file s_flag s_mdl s_links].
    destruct (build_links counts (g_asts m')) as [lk [|]]; reflexivity.
  - destruct (load_lines_p (kept_lines file P G) m) as [m' [e|]]; [reflexivity|].
    cbn [gblock gexec set_flag set_mdl s_file s_flag s_mdl s_links].
    destruct (build_links counts (g_asts m')) as [lk [|]]; reflexivity.
Qed.

(* Enforcer.save_policy() *)
Theorem tie_e_save counts P G st : run_g counts P G en_save_policy_gen st = e_save st.
Proof.
  destruct st as [file flag m links]. gstart. unfold e_save.
  cbn [gblock gexec set_flag set_mdl s_file s_flag s_mdl s_links].
  destruct flag; reflexivity.
Qed.
