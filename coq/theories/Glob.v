(* Glob.v — model of casbin/util/builtin_operators.py range_match (l.244-287) and glob_match
   (l.290-356, WITH the repair fixes/C13-glob-star.diff applied), the unrepaired glob_match kept
   for the refutation witness, and the denotational shell-glob language [glob_lang].
   Strings are suffix lists: (string[string_index:], pattern[pattern_index:]) is the loop state —
   the recursion of l.326 is itself on exactly these two suffixes.  No proofs here. *)
From Coq Require Import List NArith Bool.
From PyCasbin Require Import Base PatBase.
Import ListNotations.
Local Open Scope N_scope.

(* ---------------------------------------------------------------- range_match *)
(* result: Err EFuel | Ok None (= -1) | Ok (Some rest) (= the returned pattern_index, as suffix) *)

(* one character of a class, with its backslash escape resolved (l.261-265 / l.274-278);
   None = "backslash is the last character" (return -1) *)
Definition class_char (c : N) (r : str) : option (N * str) :=
  if c =? cBSL then match r with [] => None | c' :: r' => Some (c', r') end
  else Some (c, r).

Fixpoint rloop (fuel : nat) (neg : bool) (t : N) (ok : bool) (p : str) : result (option str) :=
  match fuel with
  | O => Err EFuel
  | S n =>
    let fin (r : str) : result (option str) :=            (* l.284-287: ok == negate -> -1 *)
      Ok (if Bool.eqb ok neg then None else Some r) in
    match p with
    | [] => fin []                                        (* l.255-256 *)
    | c :: p1 =>
      if c =? cRBR then fin p1                            (* l.259-260 *)
      else
        match class_char c p1 with
        | None => Ok None                                 (* l.262-263 *)
        | Some (c1, r) =>
          match r with
          | d :: e :: r2 =>
            if (d =? cDASH) && negb (e =? cRBR) then      (* l.266-271 *)
              match class_char e r2 with
              | None => Ok None                           (* l.275-276 *)
              | Some (c2, r3) => rloop n neg t (ok || ((c1 <=? t) && (t <=? c2))) r3   (* l.279-280 *)
              end
            else rloop n neg t (ok || (c1 =? t)) r        (* l.281-282 *)
          | _ => rloop n neg t (ok || (c1 =? t)) r
          end
        end
    end
  end.

(* p = pattern[pattern_index:] just after the '[' *)
Definition range_match (p : str) (t : N) : result (option str) :=
  match p with
  | [] => Ok None                                         (* l.248-249 *)
  | c :: p1 =>
    let neg := (c =? cBANG) || (c =? cCARET) in           (* l.250-252 *)
    rloop (S (length p)) neg t false (if neg then p1 else p)
  end.

(* ---------------------------------------------------------------- glob_match (repaired) *)
Fixpoint skip_stars (p : str) : str :=                    (* l.312-313 (repaired: peek) *)
  match p with
  | c :: p' => if c =? cSTAR then skip_stars p' else p
  | [] => []
  end.

Fixpoint has_slash (s : str) : bool :=                    (* string.find("/", i) != -1 *)
  match s with [] => false | x :: s' => (x =? cSLASH) || has_slash s' end.

(* string[string.find("/", i):]  (the suffix that STARTS with the first '/') *)
Fixpoint from_slash (s : str) : option str :=
  match s with
  | [] => None
  | x :: s' => if x =? cSLASH then Some s else from_slash s'
  end.

(* l.325-330 followed by the repaired "return False" *)
Fixpoint star_try (f : str -> result bool) (s : str) : result bool :=
  match s with
  | [] => Ok false
  | x :: s' =>
    match f s with
    | Err e => Err e
    | Ok true => Ok true
    | Ok false => if x =? cSLASH then Ok false else star_try f s'
    end
  end.

Fixpoint glob_fuel (fuel : nat) (s p : str) : result bool :=
  match fuel with
  | O => Err EFuel
  | S n =>
    match p with
    | [] => Ok (is_nil s)                                 (* l.295-296, l.300-301 *)
    | c :: p1 =>
      if c =? cQM then                                    (* l.304-310 *)
        match s with
        | [] => Ok false
        | x :: s' => if x =? cSLASH then Ok false else glob_fuel n s' p1
        end
      else if c =? cSTAR then                             (* l.311-331 *)
        let p2 := skip_stars p1 in
        match p2 with
        | [] => Ok (negb (has_slash s))                   (* l.315-316 *)
        | d :: _ =>
          if d =? cSLASH then                             (* l.318-323 repaired: stay on the '/' *)
            match from_slash s with
            | None => Ok false
            | Some s' => glob_fuel n s' p2
            end
          else star_try (fun s0 => glob_fuel n s0 p2) s   (* l.325-331 repaired: return False *)
        end
      else if c =? cLBR then                              (* l.332-341 *)
        match s with
        | [] => Ok false
        | x :: s' =>
          if x =? cSLASH then Ok false
          else match range_match p1 x with
               | Err e => Err e
               | Ok None => Ok false
               | Ok (Some p') => glob_fuel n s' p'
               end
        end
      else
        let cp := if c =? cBSL                            (* l.342-347 *)
                  then match p1 with [] => (cBSL, []) | d :: p2 => (d, p2) end
                  else (c, p1) in
        match s with                                      (* l.350-356 *)
        | [] => Ok false
        | x :: s' => if fst cp =? x then glob_fuel n s' (snd cp) else Ok false
        end
    end
  end.

Definition glob_match (s p : str) : result bool := glob_fuel (S (length p)) s p.

(* ---------------------------------------------------------------- glob_match as it is in the unrepaired tree
   (the character after the run of '*' is CONSUMED into c and never compared).  State after the
   star loop: c = last character read, p' = pattern[pattern_index:]. *)
Fixpoint eat_stars (c : N) (p : str) : N * str :=         (* l.312-314 original *)
  match p with
  | [] => (c, [])
  | d :: p' => if c =? cSTAR then eat_stars d p' else (c, p)
  end.

(* the original falls out of the inner while with `continue`: the main loop goes on at
   (string[string_index:], pattern[pattern_index:]) — modelled by [k] *)
Fixpoint star_try0 (f : str -> result bool) (k : str -> result bool) (s : str) : result bool :=
  match s with
  | [] => k []
  | x :: s' =>
    match f s with
    | Err e => Err e
    | Ok true => Ok true
    | Ok false => if x =? cSLASH then k s else star_try0 f k s'
    end
  end.

Fixpoint glob0_fuel (fuel : nat) (s p : str) : result bool :=
  match fuel with
  | O => Err EFuel
  | S n =>
    match p with
    | [] => Ok (is_nil s)
    | c :: p1 =>
      if c =? cQM then
        match s with
        | [] => Ok false
        | x :: s' => if x =? cSLASH then Ok false else glob0_fuel n s' p1
        end
      else if c =? cSTAR then
        let cp := eat_stars c p1 in
        let p2 := snd cp in
        match p2 with
        | [] => Ok (negb (has_slash s))
        | _ :: _ =>
          let go (s1 : str) := star_try0 (fun s0 => glob0_fuel n s0 p2) (fun s0 => glob0_fuel n s0 p2) s1 in
          if fst cp =? cSLASH then
            match from_slash s with
            | None => Ok false
            | Some [] => Ok false
            | Some (_ :: s') => go s'
            end
          else go s
        end
      else if c =? cLBR then
        match s with
        | [] => Ok false
        | x :: s' =>
          if x =? cSLASH then Ok false
          else match range_match p1 x with
               | Err e => Err e
               | Ok None => Ok false
               | Ok (Some p') => glob0_fuel n s' p'
               end
        end
      else
        let cp := if c =? cBSL
                  then match p1 with [] => (cBSL, []) | d :: p2 => (d, p2) end
                  else (c, p1) in
        match s with
        | [] => Ok false
        | x :: s' => if fst cp =? x then glob0_fuel n s' (snd cp) else Ok false
        end
    end
  end.

Definition glob_match_unrepaired (s p : str) : result bool := glob0_fuel (S (length p)) s p.

(* ---------------------------------------------------------------- the denotational language *)
Definition plain (c : N) : bool :=
  negb ((c =? cSTAR) || (c =? cQM) || (c =? cLBR) || (c =? cBSL)).

(* pattern -> string -> Prop.  '*' = any '/'-free string, '?' = one non-'/' character,
   '[' class = one non-'/' character accepted by the class (the class grammar itself is
   [range_match], characterised for documented-form classes by [class_doc] below),
   '\c' = the character c, a trailing '\' = itself, anything else = itself. *)
Inductive glob_lang : str -> str -> Prop :=
| GL_nil : glob_lang [] []
| GL_star : forall p s1 s2, no_slash s1 -> glob_lang p s2 -> glob_lang (cSTAR :: p) (s1 ++ s2)
| GL_any : forall p x s, x <> cSLASH -> glob_lang p s -> glob_lang (cQM :: p) (x :: s)
| GL_class : forall p p' x s, x <> cSLASH -> range_match p x = Ok (Some p') ->
    glob_lang p' s -> glob_lang (cLBR :: p) (x :: s)
| GL_esc : forall c p s, glob_lang p s -> glob_lang (cBSL :: c :: p) (c :: s)
| GL_esc_end : glob_lang [cBSL] [cBSL]
| GL_lit : forall c p s, plain c = true -> glob_lang p s -> glob_lang (c :: p) (c :: s).

(* documented-form bracket classes: [items] / [!items] / [^items], items = single characters and
   ranges lo-hi built from ordinary characters *)
Inductive citem := CSingle (c : N) | CRange (lo hi : N).
Definition class_ordinary (c : N) : bool :=
  negb ((c =? cRBR) || (c =? cBSL) || (c =? cDASH) || (c =? cBANG) || (c =? cCARET)).
Definition citem_ok (i : citem) : bool :=
  match i with CSingle c => class_ordinary c | CRange lo hi => class_ordinary lo && class_ordinary hi end.
Definition citem_text (i : citem) : str :=
  match i with CSingle c => [c] | CRange lo hi => [lo; cDASH; hi] end.
Definition citem_has (t : N) (i : citem) : bool :=
  match i with CSingle c => c =? t | CRange lo hi => (lo <=? t) && (t <=? hi) end.
(* the text after '[' of a documented class, up to and including the closing ']' *)
Definition class_text (neg : bool) (items : list citem) : str :=
  (if neg then [cBANG] else []) ++ flat_map citem_text items ++ [cRBR].

(* ---------------------------------------------------------------- executable spec (for the harness):
   a direct denotational matcher, independent of glob_fuel's control flow *)
Fixpoint star_den (f : str -> bool) (s : str) : bool :=
  f s || match s with [] => false | x :: s' => negb (x =? cSLASH) && star_den f s' end.

Fixpoint gspec_fuel (fuel : nat) (p s : str) : bool :=
  match fuel with
  | O => false
  | S n =>
    match p with
    | [] => is_nil s
    | c :: p1 =>
      if c =? cSTAR then star_den (gspec_fuel n p1) s
      else if c =? cQM then
        match s with [] => false | x :: s' => negb (x =? cSLASH) && gspec_fuel n p1 s' end
      else if c =? cLBR then
        match s with
        | [] => false
        | x :: s' => negb (x =? cSLASH) &&
                     match range_match p1 x with Ok (Some p') => gspec_fuel n p' s' | _ => false end
        end
      else if c =? cBSL then
        match p1 with
        | [] => match s with [x] => x =? cBSL | _ => false end
        | d :: p2 => match s with [] => false | x :: s' => (x =? d) && gspec_fuel n p2 s' end
        end
      else match s with [] => false | x :: s' => (x =? c) && gspec_fuel n p1 s' end
    end
  end.
Definition gspec (p s : str) : bool := gspec_fuel (S (length p)) p s.
