(* GlobLang.v — the language of translators/globmatch.py (C13): glob_match of casbin/util/builtin_operators.py.
   IdxLang's values and locals; expressions add s.find("c", i), s[i:], True/False, a call to range_match (executed by
   IdxLang's interpreter on the regenerated range_match) and the recursive call to glob_match itself; statements add
   `while <cond>:` and `continue`.  Fuel-recursive; a call to glob_match runs the same body with one unit less fuel. *)
From Coq Require Import List NArith ZArith Bool.
From PyCasbin Require Import Base IdxLang.
Import ListNotations.
Local Open Scope N_scope.

Inductive gex :=
| GVar (x : N) | GInt (z : Z) | GStr (s : str) | GBool (b : bool)
| GLen (a : gex) | GIdx (a i : gex) | GSliceFrom (a i : gex)
| GFind (a : gex) (needle : str) (start : gex)
| GEq (a b : gex) | GNe (a b : gex)
| GAnd (a b : gex) | GOr (a b : gex) | GAdd (a b : gex)
| GCallRange (pat idx ch : gex)
| GCallSelf (s p : gex).

Inductive gst :=
| GAssign (x : N) (e : gex)
| GAug (x : N) (e : gex)
| GIf (c : gex) (a b : list gst)
| GWhile (c : gex) (body : list gst)
| GBreak | GContinue
| GReturn (e : gex).

Inductive gout := GNext (l : xlocals) | GBrk (l : xlocals) | GCont (l : xlocals) | GRet (v : xv) | GErr (c : N).

(* s.find(needle, start) for a one-character needle: index of the first occurrence at or after start, or -1 *)
Fixpoint find_from (c : N) (s : str) (i : nat) (pos : nat) : Z :=
  match s with
  | [] => (-1)%Z
  | x :: r => if (i <=? pos)%nat && (x =? c) then Z.of_nat pos else find_from c r i (S pos)
  end.

Record gdefs := { g_params : list N; g_locals : list N; g_body : list gst;
                  r_params : list N; r_locals : list N; r_body : list xst }.

Section Interp.
Variable D : gdefs.

Definition call_range (pat : str) (i : Z) (ch : str) : result xv :=
  xrun (38 + (length pat - Z.to_nat i)) (r_params D) (r_locals D) (r_body D) [XS pat; XZ i; XS ch].

Definition truthy (v : xv) : result bool :=
  match v with XB b => Ok b | _ => Err 90 end.

Fixpoint geval (n : nat) (l : xlocals) (e : gex) {struct n} : result xv :=
  match n with
  | O => Err EFuel
  | S n' =>
    let ev := geval n' l in
    match e with
    | GVar x => match xlookup x l with Some v => Ok v | None => Err EName end
    | GInt z => Ok (XZ z)
    | GStr s => Ok (XS s)
    | GBool b => Ok (XB b)
    | GLen a => rbind (ev a) (fun v => match v with XS s => Ok (XZ (Z.of_nat (length s))) | _ => Err EType end)
    | GIdx a i => rbind (ev a) (fun va => rbind (ev i) (fun vi =>
                    match va, vi with
                    | XS s, XZ z => if (z <? 0)%Z then Err 90
                                    else match nth_error s (Z.to_nat z) with Some c => Ok (XS [c]) | None => Err EIndex end
                    | _, _ => Err EType
                    end))
    | GSliceFrom a i => rbind (ev a) (fun va => rbind (ev i) (fun vi =>
                    match va, vi with
                    | XS s, XZ z => if (z <? 0)%Z then Err 90 else Ok (XS (skipn (Z.to_nat z) s))
                    | _, _ => Err EType
                    end))
    | GFind a needle st => rbind (ev a) (fun va => rbind (ev st) (fun vi =>
                    match va, vi, needle with
                    | XS s, XZ z, [c] => if (z <? 0)%Z then Err 90 else Ok (XZ (find_from c s (Z.to_nat z) 0))
                    | _, _, _ => Err EType
                    end))
    | GEq a b => rbind (ev a) (fun va => rbind (ev b) (fun vb => rbind (xeq va vb) (fun r => Ok (XB r))))
    | GNe a b => rbind (ev a) (fun va => rbind (ev b) (fun vb => rbind (xeq va vb) (fun r => Ok (XB (negb r)))))
    | GAnd a b => rbind (ev a) (fun va => match va with XB false => Ok (XB false) | XB true => ev b | _ => Err 90 end)
    | GOr a b => rbind (ev a) (fun va => match va with XB true => Ok (XB true) | XB false => ev b | _ => Err 90 end)
    | GAdd a b => rbind (ev a) (fun va => rbind (ev b) (fun vb =>
                    match va, vb with XZ x, XZ y => Ok (XZ (x + y)) | _, _ => Err EType end))
    | GCallRange p i c => rbind (ev p) (fun vp => rbind (ev i) (fun vi => rbind (ev c) (fun vc =>
                    match vp, vi, vc with
                    | XS pat, XZ z, XS ch => if (z <? 0)%Z then Err 90 else call_range pat z ch
                    | _, _, _ => Err EType
                    end)))
    | GCallSelf a b => rbind (ev a) (fun va => rbind (ev b) (fun vb =>
                    match gblock n' (combine (g_params D) [va; vb] ++ map (fun x => (x, XNone)) (g_locals D)) (g_body D) with
                    | GRet v => Ok v
                    | GNext _ => Ok XNone
                    | GBrk _ | GCont _ => Err ESyntax
                    | GErr c => Err c
                    end))
    end
  end
with gexec (n : nat) (l : xlocals) (c : gst) {struct n} : gout :=
  match n with
  | O => GErr EFuel
  | S n' =>
    match c with
    | GAssign x e => match geval n' l e with Ok v => GNext (xupd x v l) | Err c => GErr c end
    | GAug x e =>
        match xlookup x l, geval n' l e with
        | Some (XZ a), Ok (XZ b) => GNext (xupd x (XZ (a + b)) l)
        | _, Err c => GErr c
        | _, _ => GErr 90
        end
    | GIf c a b =>
        match geval n' l c with
        | Ok (XB true) => gblock n' l a
        | Ok (XB false) => gblock n' l b
        | Ok _ => GErr 90
        | Err e => GErr e
        end
    | GWhile c body =>
        match geval n' l c with
        | Ok (XB true) =>
            match gblock n' l body with
            | GNext l' | GCont l' => gexec n' l' (GWhile c body)
            | GBrk l' => GNext l'
            | o => o
            end
        | Ok (XB false) => GNext l
        | Ok _ => GErr 90
        | Err e => GErr e
        end
    | GBreak => GBrk l
    | GContinue => GCont l
    | GReturn e => match geval n' l e with Ok v => GRet v | Err c => GErr c end
    end
  end
with gblock (n : nat) (l : xlocals) (b : list gst) {struct n} : gout :=
  match n with
  | O => GErr EFuel
  | S n' =>
    match b with
    | [] => GNext l
    | c :: r => match gexec n' l c with GNext l' => gblock n' l' r | o => o end
    end
  end.

Definition grun (n : nat) (args : list xv) : result xv :=
  match gblock n (combine (g_params D) args ++ map (fun x => (x, XNone)) (g_locals D)) (g_body D) with
  | GRet v => Ok v
  | GNext _ => Ok XNone
  | GBrk _ | GCont _ => Err ESyntax
  | GErr c => Err c
  end.
End Interp.
