(* GlobProofs.v — glob_match (repaired) decides exactly the denotational shell-glob language,
   with fuel proved sufficient; documented-form classes; the unrepaired function is refuted. *)
From Coq Require Import List NArith Bool Arith Lia.
From PyCasbin Require Import Base PatBase Glob.
Import ListNotations.
Local Open Scope N_scope.

(* ---------------------------------------------------------------- range_match: total, returns a suffix *)
Lemma class_char_len : forall c r c' r',
  class_char c r = Some (c', r') -> (length r' <= length r)%nat.
Proof.
  intros c r c' r'. unfold class_char. destruct (c =? cBSL).
  - destruct r; intro H; inversion H; subst. simpl. lia.
  - intro H; inversion H; subst. lia.
Qed.

Lemma rloop_ok : forall n neg t ok p, (length p < n)%nat ->
  exists r, rloop n neg t ok p = Ok r /\ (forall p', r = Some p' -> (length p' <= length p)%nat).
Proof.
  induction n as [|n IH]; intros neg t ok p Hn; [lia|].
  cbn [rloop]. destruct p as [|c p1].
  - eexists; split; [reflexivity|]. intros p'. destruct (Bool.eqb ok neg); intro H; inversion H; subst. lia.
  - simpl in Hn. destruct (c =? cRBR).
    + eexists; split; [reflexivity|]. intros p'. destruct (Bool.eqb ok neg); intro H; inversion H; subst. simpl; lia.
    + destruct (class_char c p1) as [[c1 r]|] eqn:E.
      2:{ eexists; split; [reflexivity|]. intros p' H; discriminate. }
      apply class_char_len in E.
      assert (Hgen : forall ok', exists r0, rloop n neg t ok' r = Ok r0 /\
                 (forall p', r0 = Some p' -> (length p' <= length (c :: p1))%nat)).
      { intro ok'. destruct (IH neg t ok' r) as [r0 [H1 H2]]; [lia|].
        exists r0; split; [exact H1|]. intros p' Hp. apply H2 in Hp. simpl; lia. }
      destruct r as [|d [|e r2]]; try apply Hgen.
      destruct ((d =? cDASH) && negb (e =? cRBR)); [|apply Hgen].
      destruct (class_char e r2) as [[c2 r3]|] eqn:E2.
      2:{ eexists; split; [reflexivity|]. intros p' H; discriminate. }
      apply class_char_len in E2. simpl in E.
      destruct (IH neg t (ok || ((c1 <=? t) && (t <=? c2))) r3) as [r0 [H1 H2]]; [lia|].
      exists r0; split; [exact H1|]. intros p' Hp. apply H2 in Hp. simpl; lia.
Qed.

Lemma range_match_ok : forall p t,
  exists r, range_match p t = Ok r /\ (forall p', r = Some p' -> (length p' <= length p)%nat).
Proof.
  intros p t. unfold range_match. destruct p as [|c p1].
  - eexists; split; [reflexivity|]. intros p' H; discriminate.
  - destruct ((c =? cBANG) || (c =? cCARET)).
    + destruct (rloop_ok (S (length (c :: p1))) true t false p1) as [r [H1 H2]]; [simpl; lia|].
      exists r; split; [exact H1|]. intros p' Hp. apply H2 in Hp. simpl; lia.
    + destruct (rloop_ok (S (length (c :: p1))) false t false (c :: p1)) as [r [H1 H2]]; [simpl; lia|].
      exists r; split; [exact H1|]. exact H2.
Qed.

(* ---------------------------------------------------------------- string facts *)
Lemma no_slash_nil : no_slash [].
Proof. intros x H; inversion H. Qed.

Lemma no_slash_cons : forall x s, no_slash (x :: s) <-> x <> cSLASH /\ no_slash s.
Proof.
  intros x s; split.
  - intro H; split; [apply H; left; reflexivity|]. intros y Hy; apply H; right; exact Hy.
  - intros [H1 H2] y [Hy|Hy]; [subst; exact H1|apply H2; exact Hy].
Qed.

Lemma no_slash_app : forall a b, no_slash (a ++ b) <-> no_slash a /\ no_slash b.
Proof.
  intros a b; split.
  - intro H; split; intros x Hx; apply H; apply in_or_app; [left|right]; exact Hx.
  - intros [H1 H2] x Hx. apply in_app_or in Hx. destruct Hx; [apply H1|apply H2]; assumption.
Qed.

Lemma has_slash_false : forall s, has_slash s = false <-> no_slash s.
Proof.
  induction s as [|x s IH]; simpl.
  - split; [intros _; apply no_slash_nil|reflexivity].
  - rewrite no_slash_cons, orb_false_iff, IH, N.eqb_neq. reflexivity.
Qed.

Lemma from_slash_none : forall s, from_slash s = None <-> no_slash s.
Proof.
  induction s as [|x s IH]; simpl.
  - split; [intros _; apply no_slash_nil|reflexivity].
  - rewrite no_slash_cons. destruct (N.eqb_spec x cSLASH) as [E|E].
    + split; [discriminate|]. intros [H _]; contradiction.
    + rewrite IH. tauto.
Qed.

Lemma from_slash_some : forall s s', from_slash s = Some s' ->
  exists s1 s2, s = s1 ++ s' /\ no_slash s1 /\ s' = cSLASH :: s2.
Proof.
  induction s as [|x s IH]; simpl; intros s' H; [discriminate|].
  destruct (N.eqb_spec x cSLASH) as [E|E].
  - inversion H; subst. exists [], s. repeat split. apply no_slash_nil.
  - destruct (IH _ H) as [s1 [s2 [H1 [H2 H3]]]]. exists (x :: s1), s2. subst.
    repeat split. apply no_slash_cons; split; assumption.
Qed.

Lemma first_slash_unique : forall s1 t1 a b,
  s1 ++ cSLASH :: a = t1 ++ cSLASH :: b -> no_slash s1 -> no_slash t1 -> s1 = t1 /\ a = b.
Proof.
  induction s1 as [|x s1 IH]; intros [|y t1] a b H Hs Ht; simpl in H.
  - inversion H; split; reflexivity.
  - inversion H; subst. apply no_slash_cons in Ht. destruct Ht as [Ht _]; contradiction.
  - inversion H; subst. apply no_slash_cons in Hs. destruct Hs as [Hs _]; contradiction.
  - inversion H; subst. apply no_slash_cons in Hs. apply no_slash_cons in Ht.
    destruct (IH t1 a b H2) as [E1 E2]; try tauto. subst; split; reflexivity.
Qed.

(* ---------------------------------------------------------------- inversion of the language *)
Lemma plain_not : forall c, plain c = true ->
  c <> cSTAR /\ c <> cQM /\ c <> cLBR /\ c <> cBSL.
Proof.
  intros c H. unfold plain in H. apply negb_true_iff in H.
  repeat (apply orb_false_iff in H; destruct H as [H ?]).
  repeat split; apply N.eqb_neq; assumption.
Qed.

Lemma plain_yes : forall c, c <> cSTAR -> c <> cQM -> c <> cLBR -> c <> cBSL -> plain c = true.
Proof.
  intros c H1 H2 H3 H4. unfold plain.
  apply N.eqb_neq in H1, H2, H3, H4. rewrite H1, H2, H3, H4. reflexivity.
Qed.

Lemma gl_nil_inv : forall s, glob_lang [] s <-> s = [].
Proof. intro s; split; intro H; [inversion H; reflexivity|subst; constructor]. Qed.

Lemma gl_star_inv : forall p s, glob_lang (cSTAR :: p) s <->
  exists s1 s2, s = s1 ++ s2 /\ no_slash s1 /\ glob_lang p s2.
Proof.
  intros p s; split.
  - intro H. inversion H; subst.
    + exists s1, s2; auto.
    + apply plain_not in H2. destruct H2 as [H2 _]; contradiction.
  - intros [s1 [s2 [E [H1 H2]]]]; subst. constructor; assumption.
Qed.

Lemma gl_any_inv : forall p s, glob_lang (cQM :: p) s <->
  exists x s', s = x :: s' /\ x <> cSLASH /\ glob_lang p s'.
Proof.
  intros p s; split.
  - intro H. inversion H; subst.
    + exists x, s0; auto.
    + apply plain_not in H2. destruct H2 as [_ [H2 _]]; contradiction.
  - intros [x [s' [E [H1 H2]]]]; subst. constructor; assumption.
Qed.

Lemma gl_class_inv : forall p s, glob_lang (cLBR :: p) s <->
  exists x s' p', s = x :: s' /\ x <> cSLASH /\ range_match p x = Ok (Some p') /\ glob_lang p' s'.
Proof.
  intros p s; split.
  - intro H. inversion H; subst.
    + exists x, s0, p'; auto.
    + apply plain_not in H2. destruct H2 as [_ [_ [H2 _]]]; contradiction.
  - intros [x [s' [p' [E [H1 [H2 H3]]]]]]; subst. econstructor; eassumption.
Qed.

Lemma gl_esc_inv : forall d p s, glob_lang (cBSL :: d :: p) s <->
  exists s', s = d :: s' /\ glob_lang p s'.
Proof.
  intros d p s; split.
  - intro H. inversion H; subst.
    + exists s0; auto.
    + apply plain_not in H2. destruct H2 as [_ [_ [_ H2]]]; contradiction.
  - intros [s' [E H]]; subst. constructor; assumption.
Qed.

Lemma gl_esc_end_inv : forall s, glob_lang [cBSL] s <-> s = [cBSL].
Proof.
  intro s; split.
  - intro H. inversion H; subst; [reflexivity|].
    apply plain_not in H2. destruct H2 as [_ [_ [_ H2]]]; contradiction.
  - intro; subst; constructor.
Qed.

Lemma gl_lit_inv : forall c p s, plain c = true ->
  (glob_lang (c :: p) s <-> exists s', s = c :: s' /\ glob_lang p s').
Proof.
  intros c p s Hc. pose proof (plain_not c Hc) as [N1 [N2 [N3 N4]]]. split.
  - intro H. inversion H; subst;
      try (exfalso; first [apply N1; reflexivity | apply N2; reflexivity | apply N3; reflexivity | apply N4; reflexivity]).
    eexists; split; [reflexivity|eassumption].
  - intros [s' [E H]]; subst. constructor; assumption.
Qed.

Lemma gl_head_nonempty : forall d p, d <> cSTAR -> ~ glob_lang (d :: p) [].
Proof. intros d p Hd H. inversion H; subst. contradiction. Qed.

Lemma gl_star_star : forall p s, glob_lang (cSTAR :: cSTAR :: p) s <-> glob_lang (cSTAR :: p) s.
Proof.
  intros p s. split; intro H.
  - apply gl_star_inv in H. destruct H as [s1 [s2 [E [H1 H2]]]].
    apply gl_star_inv in H2. destruct H2 as [s3 [s4 [E2 [H3 H4]]]]. subst.
    rewrite app_assoc. constructor; [apply no_slash_app; split; assumption|assumption].
  - change s with ([] ++ s). constructor; [apply no_slash_nil|assumption].
Qed.

Lemma gl_skip_stars : forall p s, glob_lang (cSTAR :: p) s <-> glob_lang (cSTAR :: skip_stars p) s.
Proof.
  induction p as [|c p IH]; intro s; simpl; [reflexivity|].
  destruct (N.eqb_spec c cSTAR) as [E|E]; [|reflexivity].
  subst. rewrite gl_star_star. apply IH.
Qed.

Lemma skip_stars_len : forall p, (length (skip_stars p) <= length p)%nat.
Proof.
  induction p as [|c p IH]; simpl; [lia|]. destruct (c =? cSTAR); simpl; lia.
Qed.

Lemma skip_stars_head : forall p d r, skip_stars p = d :: r -> d <> cSTAR.
Proof.
  induction p as [|c p IH]; simpl; intros d r H; [discriminate|].
  destruct (N.eqb_spec c cSTAR) as [E|E]; [eapply IH; eassumption|].
  inversion H; subst; assumption.
Qed.

(* ---------------------------------------------------------------- the inner loop of the '*' branch *)
Lemma star_try_spec : forall (f : str -> result bool) (P : str -> Prop),
  (forall s0, exists b, f s0 = Ok b /\ (b = true <-> P s0)) ->
  forall s, exists b, star_try f s = Ok b /\
    (b = true <-> exists s1 s2, s = s1 ++ s2 /\ no_slash s1 /\ s2 <> [] /\ P s2).
Proof.
  intros f P Hf. induction s as [|x s IH]; simpl.
  - exists false; split; [reflexivity|]. split; [discriminate|].
    intros [s1 [s2 [E [_ [Hn _]]]]]. destruct s1; destruct s2; simpl in E; try discriminate. contradiction.
  - destruct (Hf (x :: s)) as [b [Hb Hbi]]. rewrite Hb. destruct b.
    + exists true; split; [reflexivity|]. split; [|reflexivity]. intros _.
      exists [], (x :: s). repeat split; [apply no_slash_nil|discriminate|apply Hbi; reflexivity].
    + assert (Hnot : ~ P (x :: s)) by (intro HP; apply Hbi in HP; discriminate).
      destruct (N.eqb_spec x cSLASH) as [E|E].
      * exists false; split; [reflexivity|]. split; [discriminate|].
        intros [s1 [s2 [Es [Hs1 [Hn HP]]]]]. destruct s1 as [|y s1]; simpl in Es.
        -- subst s2. contradiction.
        -- inversion Es; subst. apply no_slash_cons in Hs1. destruct Hs1 as [Hs1 _]. contradiction.
      * destruct IH as [b [Hb' Hbi']]. exists b; split; [exact Hb'|].
        rewrite Hbi'. split.
        -- intros [s1 [s2 [Es [Hs1 [Hn HP]]]]]. exists (x :: s1), s2. subst.
           repeat split; try assumption. apply no_slash_cons; split; assumption.
        -- intros [s1 [s2 [Es [Hs1 [Hn HP]]]]]. destruct s1 as [|y s1]; simpl in Es.
           ++ subst s2. contradiction.
           ++ inversion Es; subst. apply no_slash_cons in Hs1. destruct Hs1 as [_ Hs1].
              exists s1, s2. repeat split; assumption.
Qed.

(* ---------------------------------------------------------------- main theorem *)
Lemma is_nil_true : forall (s : str), is_nil s = true <-> s = [].
Proof. destruct s; simpl; split; intro H; try reflexivity; discriminate. Qed.

Lemma glob_fuel_spec : forall n p s, (length p < n)%nat ->
  exists b, glob_fuel n s p = Ok b /\ (b = true <-> glob_lang p s).
Proof.
  induction n as [|n IH]; intros p s Hn; [lia|].
  cbn [glob_fuel]. destruct p as [|c p1].
  - exists (is_nil s); split; [reflexivity|]. rewrite is_nil_true, gl_nil_inv. reflexivity.
  - simpl in Hn.
    destruct (N.eqb_spec c cQM) as [Eq|Nq].
    { subst c. destruct s as [|x s'].
      - exists false; split; [reflexivity|]. split; [discriminate|].
        intro H. apply gl_any_inv in H. destruct H as [x [s' [E _]]]; discriminate.
      - destruct (N.eqb_spec x cSLASH) as [Ex|Nx].
        + exists false; split; [reflexivity|]. split; [discriminate|].
          intro H. apply gl_any_inv in H. destruct H as [x' [s'' [E [Hx _]]]]. inversion E; subst. contradiction.
        + destruct (IH p1 s') as [b [Hb Hbi]]; [lia|]. exists b; split; [exact Hb|].
          rewrite Hbi, gl_any_inv. split.
          * intro H. exists x, s'. auto.
          * intros [x' [s'' [E [_ H]]]]. inversion E; subst. exact H. }
    destruct (N.eqb_spec c cSTAR) as [Es|Ns].
    { subst c. pose proof (skip_stars_len p1) as Hlen.
      destruct (skip_stars p1) as [|d p3] eqn:Esk.
      - exists (negb (has_slash s)); split; [reflexivity|].
        rewrite gl_skip_stars, Esk, gl_star_inv, negb_true_iff, has_slash_false. split.
        + intro H. exists s, []. rewrite app_nil_r. repeat split; [exact H|constructor].
        + intros [s1 [s2 [E [H1 H2]]]]. apply gl_nil_inv in H2. subst. rewrite app_nil_r. exact H1.
      - pose proof (skip_stars_head _ _ _ Esk) as Hd.
        destruct (N.eqb_spec d cSLASH) as [Ed|Nd].
        + subst d. destruct (from_slash s) as [s'|] eqn:Ef.
          * destruct (from_slash_some _ _ Ef) as [s1 [s2 [E1 [E2 E3]]]].
            destruct (IH (cSLASH :: p3) s') as [b [Hb Hbi]]; [simpl in *; lia|].
            exists b; split; [exact Hb|]. rewrite Hbi, (gl_skip_stars p1), Esk, gl_star_inv. split.
            -- intro H. exists s1, s'. auto.
            -- intros [t1 [t2 [E [H1 H2]]]].
               assert (Hp : plain cSLASH = true) by reflexivity.
               pose proof H2 as H2'. apply (gl_lit_inv _ _ _ Hp) in H2'. destruct H2' as [t3 [Et _]].
               subst t2 s'. rewrite E1 in E.
               destruct (first_slash_unique _ _ _ _ E E2 H1) as [_ E4]. subst. exact H2.
          * exists false; split; [reflexivity|]. split; [discriminate|].
            rewrite (gl_skip_stars p1), Esk, gl_star_inv. intros [t1 [t2 [E [H1 H2]]]].
            assert (Hp : plain cSLASH = true) by reflexivity.
            apply (gl_lit_inv _ _ _ Hp) in H2. destruct H2 as [t3 [Et _]]. subst.
            apply from_slash_none in Ef. apply no_slash_app in Ef. destruct Ef as [_ Ef].
            apply no_slash_cons in Ef. destruct Ef as [Ef _]. exfalso; apply Ef; reflexivity.
        + destruct (star_try_spec (fun s0 => glob_fuel n s0 (d :: p3)) (glob_lang (d :: p3))) with (s := s)
            as [b [Hb Hbi]].
          { intro s0. apply IH. simpl in *; lia. }
          exists b; split; [exact Hb|]. rewrite Hbi, (gl_skip_stars p1), Esk, gl_star_inv. split.
          * intros [s1 [s2 [E [H1 [_ H2]]]]]. exists s1, s2. auto.
          * intros [s1 [s2 [E [H1 H2]]]]. exists s1, s2. repeat split; try assumption.
            intro Hs2; subst s2. exact (gl_head_nonempty _ _ Hd H2). }
    destruct (N.eqb_spec c cLBR) as [El|Nl].
    { subst c. destruct s as [|x s'].
      - exists false; split; [reflexivity|]. split; [discriminate|].
        intro H. apply gl_class_inv in H. destruct H as [x [s' [p' [E _]]]]; discriminate.
      - destruct (N.eqb_spec x cSLASH) as [Ex|Nx].
        + exists false; split; [reflexivity|]. split; [discriminate|].
          intro H. apply gl_class_inv in H. destruct H as [x' [s'' [p' [E [Hx _]]]]]. inversion E; subst. contradiction.
        + destruct (range_match_ok p1 x) as [r [Hr Hrl]]. rewrite Hr. destruct r as [p'|].
          * destruct (IH p' s') as [b [Hb Hbi]]; [specialize (Hrl p' eq_refl); lia|].
            exists b; split; [exact Hb|]. rewrite Hbi, gl_class_inv. split.
            -- intro H. exists x, s', p'. auto.
            -- intros [x' [s'' [p'' [E [_ [Hr' H]]]]]]. inversion E; subst. rewrite Hr in Hr'.
               inversion Hr'; subst. exact H.
          * exists false; split; [reflexivity|]. split; [discriminate|].
            intro H. apply gl_class_inv in H. destruct H as [x' [s'' [p'' [E [_ [Hr' _]]]]]].
            inversion E; subst. rewrite Hr in Hr'. discriminate. }
    destruct (N.eqb_spec c cBSL) as [Eb|Nb].
    { subst c. destruct p1 as [|d p2]; cbn [fst snd].
      - destruct s as [|x s'].
        + exists false; split; [reflexivity|]. split; [discriminate|].
          intro H. apply gl_esc_end_inv in H. discriminate.
        + destruct (N.eqb_spec cBSL x) as [Ex|Nx].
          * subst x. destruct (IH [] s') as [b [Hb Hbi]]; [simpl; lia|].
            exists b; split; [exact Hb|]. rewrite Hbi, gl_nil_inv, gl_esc_end_inv. split.
            -- intro; subst; reflexivity.
            -- intro H; inversion H; reflexivity.
          * exists false; split; [reflexivity|]. split; [discriminate|].
            intro H. apply gl_esc_end_inv in H. inversion H; subst. contradiction.
      - destruct s as [|x s'].
        + exists false; split; [reflexivity|]. split; [discriminate|].
          intro H. apply gl_esc_inv in H. destruct H as [s' [E _]]; discriminate.
        + destruct (N.eqb_spec d x) as [Ex|Nx].
          * subst x. destruct (IH p2 s') as [b [Hb Hbi]]; [simpl in *; lia|].
            exists b; split; [exact Hb|]. rewrite Hbi, gl_esc_inv. split.
            -- intro H. exists s'. auto.
            -- intros [s'' [E H]]. inversion E; subst. exact H.
          * exists false; split; [reflexivity|]. split; [discriminate|].
            intro H. apply gl_esc_inv in H. destruct H as [s'' [E _]]. inversion E; subst. contradiction. }
    pose proof (plain_yes c Ns Nq Nl Nb) as Hp. cbn [fst snd].
    destruct s as [|x s'].
    + exists false; split; [reflexivity|]. split; [discriminate|].
      intro H. apply (gl_lit_inv _ _ _ Hp) in H. destruct H as [s' [E _]]; discriminate.
    + destruct (N.eqb_spec c x) as [Ex|Nx].
      * subst x. destruct (IH p1 s') as [b [Hb Hbi]]; [lia|].
        exists b; split; [exact Hb|]. rewrite Hbi, (gl_lit_inv _ _ _ Hp). split.
        -- intro H. exists s'. auto.
        -- intros [s'' [E H]]. inversion E; subst. exact H.
      * exists false; split; [reflexivity|]. split; [discriminate|].
        intro H. apply (gl_lit_inv _ _ _ Hp) in H. destruct H as [s'' [E _]]. inversion E; subst. contradiction.
Qed.

(* fuel S (length p) suffices: the out-of-fuel branch is never the answer *)
Theorem glob_total : forall s p, exists b, glob_match s p = Ok b.
Proof.
  intros s p. unfold glob_match.
  destruct (glob_fuel_spec (S (length p)) p s) as [b [H _]]; [lia|]. exists b; exact H.
Qed.

Theorem glob_iff : forall s p, glob_match s p = Ok true <-> glob_lang p s.
Proof.
  intros s p. unfold glob_match.
  destruct (glob_fuel_spec (S (length p)) p s) as [b [H Hi]]; [lia|]. rewrite H. rewrite <- Hi.
  split; intro E; [inversion E; reflexivity|subst; reflexivity].
Qed.

Corollary glob_false_iff : forall s p, glob_match s p = Ok false <-> ~ glob_lang p s.
Proof.
  intros s p. destruct (glob_total s p) as [b Hb]. rewrite <- glob_iff, Hb.
  destruct b; split; intro H; try reflexivity; try discriminate.
  - exfalso; apply H; reflexivity.
Qed.

(* ---------------------------------------------------------------- the executable spec is the language *)
Lemma star_den_spec : forall (f : str -> bool) s,
  star_den f s = true <-> exists s1 s2, s = s1 ++ s2 /\ no_slash s1 /\ f s2 = true.
Proof.
  intros f. induction s as [|x s IH]; simpl.
  - rewrite orb_false_r. split.
    + intro H. exists [], []. repeat split; [apply no_slash_nil|exact H].
    + intros [s1 [s2 [E [_ H]]]]. destruct s1; destruct s2; try discriminate. exact H.
  - rewrite orb_true_iff, andb_true_iff, negb_true_iff, N.eqb_neq, IH. split.
    + intros [H|[Hx [s1 [s2 [E [H1 H2]]]]]].
      * exists [], (x :: s). repeat split; [apply no_slash_nil|exact H].
      * exists (x :: s1), s2. subst. repeat split; [apply no_slash_cons; split; assumption|exact H2].
    + intros [s1 [s2 [E [H1 H2]]]]. destruct s1 as [|y s1]; simpl in E.
      * subst s2. left; exact H2.
      * inversion E; subst. apply no_slash_cons in H1. destruct H1 as [Hy H1].
        right; split; [exact Hy|]. exists s1, s2. auto.
Qed.

Lemma gspec_fuel_iff : forall n p s, (length p < n)%nat ->
  (gspec_fuel n p s = true <-> glob_lang p s).
Proof.
  induction n as [|n IH]; intros p s Hn; [lia|].
  cbn [gspec_fuel]. destruct p as [|c p1].
  - rewrite is_nil_true, gl_nil_inv. reflexivity.
  - simpl in Hn.
    destruct (N.eqb_spec c cSTAR) as [Es|Ns].
    { subst c. rewrite star_den_spec, gl_star_inv. split; intros [s1 [s2 [E [H1 H2]]]]; exists s1, s2;
        (repeat split; try assumption); apply (IH p1 s2); try lia; assumption. }
    destruct (N.eqb_spec c cQM) as [Eq|Nq].
    { subst c. rewrite gl_any_inv. destruct s as [|x s'].
      - split; [discriminate|]. intros [x [s' [E _]]]; discriminate.
      - rewrite andb_true_iff, negb_true_iff, N.eqb_neq, (IH p1 s') by lia. split.
        + intros [H1 H2]. exists x, s'. auto.
        + intros [x' [s'' [E [H1 H2]]]]. inversion E; subst. auto. }
    destruct (N.eqb_spec c cLBR) as [El|Nl].
    { subst c. rewrite gl_class_inv. destruct s as [|x s'].
      - split; [discriminate|]. intros [x [s' [p' [E _]]]]; discriminate.
      - rewrite andb_true_iff, negb_true_iff, N.eqb_neq.
        destruct (range_match_ok p1 x) as [r [Hr Hrl]]. rewrite Hr. destruct r as [p'|].
        + rewrite (IH p' s') by (specialize (Hrl p' eq_refl); lia). split.
          * intros [H1 H2]. exists x, s', p'. auto.
          * intros [x' [s'' [p'' [E [H1 [H2 H3]]]]]]. inversion E; subst. rewrite Hr in H2.
            inversion H2; subst. auto.
        + split; [intros [_ H]; discriminate|].
          intros [x' [s'' [p'' [E [H1 [H2 H3]]]]]]. inversion E; subst. rewrite Hr in H2. discriminate. }
    destruct (N.eqb_spec c cBSL) as [Eb|Nb].
    { subst c. destruct p1 as [|d p2].
      - rewrite gl_esc_end_inv. destruct s as [|x [|y s']]; try (split; discriminate).
        rewrite N.eqb_eq. split; intro H; [subst; reflexivity|inversion H; reflexivity].
      - rewrite gl_esc_inv. destruct s as [|x s'].
        + split; [discriminate|]. intros [s' [E _]]; discriminate.
        + rewrite andb_true_iff, N.eqb_eq, (IH p2 s') by (simpl in *; lia). split.
          * intros [H1 H2]. subst. exists s'. auto.
          * intros [s'' [E H]]. inversion E; subst. auto. }
    pose proof (plain_yes c Ns Nq Nl Nb) as Hp. rewrite (gl_lit_inv _ _ _ Hp).
    destruct s as [|x s'].
    + split; [discriminate|]. intros [s' [E _]]; discriminate.
    + rewrite andb_true_iff, N.eqb_eq, (IH p1 s') by lia. split.
      * intros [H1 H2]. subst. exists s'. auto.
      * intros [s'' [E H]]. inversion E; subst. auto.
Qed.

Theorem gspec_iff : forall p s, gspec p s = true <-> glob_lang p s.
Proof. intros p s. unfold gspec. apply gspec_fuel_iff. lia. Qed.

Corollary glob_match_is_gspec : forall s p, glob_match s p = Ok (gspec p s).
Proof.
  intros s p. destruct (glob_total s p) as [b Hb]. rewrite Hb. f_equal.
  destruct b.
  - symmetry. apply gspec_iff. apply glob_iff. exact Hb.
  - destruct (gspec p s) eqn:E; [|reflexivity].
    apply gspec_iff in E. apply glob_iff in E. rewrite Hb in E. discriminate.
Qed.

(* ---------------------------------------------------------------- '*' and '?' never cross '/' *)
Theorem glob_star_never_crosses : forall p s1 s2,
  glob_lang [cSTAR] s1 -> glob_lang p s2 -> glob_lang (cSTAR :: p) (s1 ++ s2) /\ no_slash s1.
Proof.
  intros p s1 s2 H1 H2. apply gl_star_inv in H1. destruct H1 as [a [b [E [Ha Hb]]]].
  apply gl_nil_inv in Hb. subst. rewrite app_nil_r. split; [constructor; assumption|assumption].
Qed.

(* ---------------------------------------------------------------- documented-form classes *)
Lemma ordinary_not : forall c, class_ordinary c = true ->
  c <> cRBR /\ c <> cBSL /\ c <> cDASH /\ c <> cBANG /\ c <> cCARET.
Proof.
  intros c H. unfold class_ordinary in H. apply negb_true_iff in H.
  repeat (apply orb_false_iff in H; destruct H as [H ?]).
  repeat split; apply N.eqb_neq; assumption.
Qed.

Definition head_dash (r : str) : bool := match r with d :: _ => d =? cDASH | [] => false end.

Lemma rloop_single : forall n neg t ok c r, class_ordinary c = true -> head_dash r = false ->
  rloop (S n) neg t ok (c :: r) = rloop n neg t (ok || (c =? t)) r.
Proof.
  intros n neg t ok c r Hc Hr. apply ordinary_not in Hc. destruct Hc as [H1 [H2 _]].
  apply N.eqb_neq in H1, H2. cbn [rloop]. rewrite H1. unfold class_char. rewrite H2.
  destruct r as [|d [|e r2]]; try reflexivity. simpl in Hr. rewrite Hr. reflexivity.
Qed.

Lemma rloop_range : forall n neg t ok lo hi r, class_ordinary lo = true -> class_ordinary hi = true ->
  rloop (S n) neg t ok (lo :: cDASH :: hi :: r) = rloop n neg t (ok || ((lo <=? t) && (t <=? hi))) r.
Proof.
  intros n neg t ok lo hi r Hl Hh. apply ordinary_not in Hl, Hh.
  destruct Hl as [H1 [H2 _]]. destruct Hh as [H3 [H4 _]].
  apply N.eqb_neq in H1, H2, H3, H4. cbn [rloop]. rewrite H1. unfold class_char. rewrite H2.
  rewrite N.eqb_refl, H3, H4. reflexivity.
Qed.

Lemma class_body_head : forall items rest, forallb citem_ok items = true ->
  head_dash (flat_map citem_text items ++ cRBR :: rest) = false.
Proof.
  intros [|[c|lo hi] items] rest H; simpl in *; try reflexivity.
  - apply andb_true_iff in H. destruct H as [H _]. apply ordinary_not in H.
    apply N.eqb_neq. tauto.
  - apply andb_true_iff in H. destruct H as [H _]. apply andb_true_iff in H. destruct H as [H _].
    apply ordinary_not in H. apply N.eqb_neq. tauto.
Qed.

Lemma rloop_doc : forall items n neg t ok rest, forallb citem_ok items = true ->
  (length (flat_map citem_text items ++ cRBR :: rest) < n)%nat ->
  rloop n neg t ok (flat_map citem_text items ++ cRBR :: rest)
  = Ok (if Bool.eqb (ok || existsb (citem_has t) items) neg then None else Some rest).
Proof.
  induction items as [|a items IH]; intros n neg t ok rest Hok Hn.
  - simpl in *. destruct n; [lia|]. cbn [rloop]. rewrite N.eqb_refl. rewrite orb_false_r. reflexivity.
  - simpl in Hok. apply andb_true_iff in Hok. destruct Hok as [Ha Hok].
    destruct n; [lia|]. destruct a as [c|lo hi]; cbn [flat_map citem_text app existsb citem_has] in Hn |- *;
      cbn [length] in Hn.
    + rewrite rloop_single; [|exact Ha|apply class_body_head; exact Hok].
      rewrite IH; [|exact Hok|lia]. rewrite orb_assoc. reflexivity.
    + simpl in Ha. apply andb_true_iff in Ha. destruct Ha as [Hl Hh].
      rewrite rloop_range; [|exact Hl|exact Hh].
      rewrite IH; [|exact Hok|lia]. rewrite orb_assoc. reflexivity.
Qed.

(* [items] / [!items] : exactly the characters in one of the items / in none of them *)
Theorem class_doc : forall neg items rest t, forallb citem_ok items = true ->
  range_match (class_text neg items ++ rest) t
  = Ok (if xorb (existsb (citem_has t) items) neg then Some rest else None).
Proof.
  intros neg items rest t Hok. unfold class_text. rewrite <- !app_assoc. cbn [app].
  destruct neg; cbn [app].
  - unfold range_match. change ((cBANG =? cBANG) || (cBANG =? cCARET)) with true. cbv iota.
    rewrite rloop_doc; [|exact Hok|simpl; lia]. simpl. destruct (existsb (citem_has t) items); reflexivity.
  - unfold range_match. destruct (flat_map citem_text items ++ cRBR :: rest) as [|c p1] eqn:E.
    { destruct (flat_map citem_text items); discriminate. }
    assert (Hc : (c =? cBANG) || (c =? cCARET) = false).
    { destruct items as [|[c0|lo hi] items]; simpl in E, Hok; inversion E; subst; try reflexivity.
      - apply andb_true_iff in Hok. destruct Hok as [H _]. apply ordinary_not in H.
        destruct H as [_ [_ [_ [H1 H2]]]]. apply N.eqb_neq in H1, H2. rewrite H1, H2. reflexivity.
      - apply andb_true_iff in Hok. destruct Hok as [H _]. apply andb_true_iff in H. destruct H as [H _].
        apply ordinary_not in H.
        destruct H as [_ [_ [_ [H1 H2]]]]. apply N.eqb_neq in H1, H2. rewrite H1, H2. reflexivity. }
    rewrite Hc. rewrite <- E. rewrite rloop_doc; [|exact Hok|rewrite E; simpl; lia].
    simpl. destruct (existsb (citem_has t) items); reflexivity.
Qed.

(* ---------------------------------------------------------------- the unrepaired function is NOT the language (F13) *)
Theorem glob_unrepaired_refuted :
  (exists s p, glob_match_unrepaired s p = Ok true /\ ~ glob_lang p s) /\
  (exists s p, glob_match_unrepaired s p = Ok false /\ glob_lang p s).
Proof.
  split.
  - exists [97; 88; 99], [97; 42; 98].          (* glob_match("aXc", "a*b") *)
    split; [vm_compute; reflexivity|]. apply glob_false_iff. vm_compute. reflexivity.
  - exists [97; 47], [97; 42; 47].              (* glob_match("a/", "a*/") *)
    split; [vm_compute; reflexivity|]. apply glob_iff. vm_compute. reflexivity.
Qed.
