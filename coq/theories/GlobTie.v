(* GlobTie.v — C13: glob_match regenerated from casbin/util/builtin_operators.py on this run (coq/gen/GlobMatchGen.v), executed by
   the interpreter of GlobLang.v (its calls to range_match executed by IdxLang's interpreter on the regenerated range_match),
   computes Glob.glob_match: for every string and pattern there is a fuel from which on the run returns exactly the model's
   boolean.  Method: a small logic of "from some fuel on" judgements in continuation-passing style (no existential variables
   are shared between cases), one symbolic execution of the loop body per shape of the pattern, induction on the model's fuel. *)
From Coq Require Import List NArith ZArith Bool Lia Arith.
From PyCasbin Require Import Base PatBase Glob GlobProofs IdxLang GlobLang IdxTie.
From PyCasbinGen Require Import RangeMatchGen GlobMatchGen.
Import ListNotations.
Local Open Scope N_scope.

Definition D : gdefs :=
  {| g_params := glob_match_params; g_locals := glob_match_locals; g_body := glob_match_gen;
     r_params := range_match_params; r_locals := range_match_locals; r_body := range_match_gen |}.

(* ------------------------------------------------------------------ judgements: "for every sufficiently large fuel" *)
Definition evals (l : xlocals) (e : gex) (v : xv) : Prop := exists N, forall n, (N <= n)%nat -> geval D n l e = Ok v.
Definition execs (l : xlocals) (c : gst) (o : gout) : Prop := exists N, forall n, (N <= n)%nat -> gexec D n l c = o.
Definition blocks (l : xlocals) (b : list gst) (o : gout) : Prop := exists N, forall n, (N <= n)%nat -> gblock D n l b = o.
Definition runs (s p : str) (v : xv) : Prop := exists N, forall n, (N <= n)%nat -> grun D n [XS s; XS p] = Ok v.

Definition execsK (l : xlocals) (c : gst) (K : gout -> Prop) : Prop := exists o, execs l c o /\ K o.
Definition blocksK (l : xlocals) (b : list gst) (K : gout -> Prop) : Prop := exists o, blocks l b o /\ K o.

Lemma blocksK_nil l (K : gout -> Prop) : K (GNext l) -> blocksK l [] K.
Proof. intro H. exists (GNext l). split; [|exact H]. exists 1%nat. intros n Hn. destruct n; [lia|reflexivity]. Qed.

Lemma blocksK_cons l c r (K : gout -> Prop) :
  execsK l c (fun o1 => match o1 with GNext l' => blocksK l' r K | _ => K o1 end) -> blocksK l (c :: r) K.
Proof.
  intros (o1 & (N1 & H1) & HK).
  destruct o1 as [l'| | | |].
  - destruct HK as (o & (N2 & H2) & HK). exists o. split; [|exact HK].
    exists (S (max N1 N2)). intros n Hn. destruct n as [|n]; [lia|]. cbn [gblock]. rewrite H1 by lia. apply H2. lia.
  - eexists. split; [|exact HK]. exists (S N1). intros n Hn. destruct n as [|n]; [lia|]. cbn [gblock]. rewrite H1 by lia. reflexivity.
  - eexists. split; [|exact HK]. exists (S N1). intros n Hn. destruct n as [|n]; [lia|]. cbn [gblock]. rewrite H1 by lia. reflexivity.
  - eexists. split; [|exact HK]. exists (S N1). intros n Hn. destruct n as [|n]; [lia|]. cbn [gblock]. rewrite H1 by lia. reflexivity.
  - eexists. split; [|exact HK]. exists (S N1). intros n Hn. destruct n as [|n]; [lia|]. cbn [gblock]. rewrite H1 by lia. reflexivity.
Qed.

Lemma execsK_assign l x e v (K : gout -> Prop) : evals l e v -> K (GNext (xupd x v l)) -> execsK l (GAssign x e) K.
Proof.
  intros (N & H) HK. eexists. split; [|exact HK]. exists (S N). intros n Hn. destruct n as [|n]; [lia|]. cbn [gexec]. rewrite H by lia. reflexivity.
Qed.

Lemma execsK_aug l x e a b (K : gout -> Prop) : xlookup x l = Some (XZ a) -> evals l e (XZ b) -> K (GNext (xupd x (XZ (a + b)) l)) -> execsK l (GAug x e) K.
Proof.
  intros Hx (N & H) HK. eexists. split; [|exact HK]. exists (S N). intros n Hn. destruct n as [|n]; [lia|]. cbn [gexec]. rewrite Hx, H by lia. reflexivity.
Qed.

Lemma execsK_if l c a b bv (K : gout -> Prop) : evals l c (XB bv) -> blocksK l (if bv then a else b) K -> execsK l (GIf c a b) K.
Proof.
  intros (N & H) (o & (N2 & H2) & HK). exists o. split; [|exact HK]. exists (S (max N N2)). intros n Hn. destruct n as [|n]; [lia|].
  cbn [gexec]. rewrite H by lia. destruct bv; apply H2; lia.
Qed.

Lemma execsK_return l e v (K : gout -> Prop) : evals l e v -> K (GRet v) -> execsK l (GReturn e) K.
Proof.
  intros (N & H) HK. eexists. split; [|exact HK]. exists (S N). intros n Hn. destruct n as [|n]; [lia|]. cbn [gexec]. rewrite H by lia. reflexivity.
Qed.

Lemma execsK_break l (K : gout -> Prop) : K (GBrk l) -> execsK l GBreak K.
Proof. intro HK. eexists. split; [|exact HK]. exists 1%nat. intros n Hn. destruct n; [lia|reflexivity]. Qed.
Lemma execsK_continue l (K : gout -> Prop) : K (GCont l) -> execsK l GContinue K.
Proof. intro HK. eexists. split; [|exact HK]. exists 1%nat. intros n Hn. destruct n; [lia|reflexivity]. Qed.

Lemma execsK_of l c o (K : gout -> Prop) : execs l c o -> K o -> execsK l c K.
Proof. intros H HK. exists o. split; assumption. Qed.

(* while: one unfolding *)
Lemma execs_while_false l c body : evals l c (XB false) -> execs l (GWhile c body) (GNext l).
Proof. intros (N & H). exists (S N). intros n Hn. destruct n as [|n]; [lia|]. cbn [gexec]. rewrite H by lia. reflexivity. Qed.

Lemma execs_while_true l c body o : evals l c (XB true) ->
  blocksK l body (fun o1 => match o1 with
                            | GNext l' | GCont l' => execs l' (GWhile c body) o
                            | GBrk l' => o = GNext l'
                            | GRet v => o = GRet v
                            | GErr e => o = GErr e
                            end) ->
  execs l (GWhile c body) o.
Proof.
  intros (N & H) (o1 & (N1 & H1) & HK).
  destruct o1 as [l'|l'|l'|v|e].
  - destruct HK as (N2 & H2). exists (S (max N (max N1 N2))). intros n Hn. destruct n as [|n]; [lia|]. cbn [gexec]. rewrite H, H1 by lia. apply H2. lia.
  - subst o. exists (S (max N N1)). intros n Hn. destruct n as [|n]; [lia|]. cbn [gexec]. rewrite H, H1 by lia. reflexivity.
  - destruct HK as (N2 & H2). exists (S (max N (max N1 N2))). intros n Hn. destruct n as [|n]; [lia|]. cbn [gexec]. rewrite H, H1 by lia. apply H2. lia.
  - subst o. exists (S (max N N1)). intros n Hn. destruct n as [|n]; [lia|]. cbn [gexec]. rewrite H, H1 by lia. reflexivity.
  - subst o. exists (S (max N N1)). intros n Hn. destruct n as [|n]; [lia|]. cbn [gexec]. rewrite H, H1 by lia. reflexivity.
Qed.

(* calls *)
Lemma evals_callself l a b s p v : evals l a (XS s) -> evals l b (XS p) -> runs s p v -> evals l (GCallSelf a b) v.
Proof.
  intros (N1 & H1) (N2 & H2) (N3 & H3). exists (S (max N1 (max N2 N3))). intros n Hn. destruct n as [|n]; [lia|].
  cbn [geval]. rewrite H1, H2 by lia. cbn [rbind]. exact (H3 n ltac:(lia)).
Qed.

Lemma evals_callrange l a b c pat z ch v : evals l a (XS pat) -> evals l b (XZ z) -> evals l c (XS ch) ->
  (z <? 0)%Z = false -> call_range D pat z ch = Ok v -> evals l (GCallRange a b c) v.
Proof.
  intros (N1 & H1) (N2 & H2) (N3 & H3) Hz Hc. exists (S (max N1 (max N2 N3))). intros n Hn. destruct n as [|n]; [lia|].
  cbn [geval]. rewrite H1, H2, H3 by lia. cbn [rbind]. rewrite Hz. exact Hc.
Qed.

(* ------------------------------------------------------------------ atomic evaluation *)
Ltac glz t := let v := eval lazy -[Nat.sub N.eqb N.leb str_eqb list_eqb nth_error skipn find_from length app Z.of_nat Z.to_nat Z.add Z.eqb Z.ltb str D] in t in v.

Ltac ev_atomic :=
  lazymatch goal with
  | |- evals ?l ?e ?v =>
      exists 40%nat; let n := fresh "n" in let Hn := fresh "Hn" in intros n Hn;
      replace n with (40 + (n - 40))%nat by lia; generalize (n - 40)%nat; clear n Hn; intro n;
      cbn [Nat.add];
      lazy -[Nat.sub N.eqb N.leb str_eqb list_eqb nth_error skipn find_from length app Z.of_nat Z.to_nat Z.add Z.eqb Z.ltb str D];
      reflexivity
  end.

Ltac gsimp := repeat (first [progress fix_eqb | progress fix_nth | progress rewrite ?str_eqb_char | progress cbn [negb andb orb rbind] | progress cbv beta iota]).

(* prove [evals l e ?v], instantiating ?v with the simplified value *)
Ltac ev_solve :=
  lazymatch goal with
  | |- evals ?l ?e _ =>
      exists 40%nat; let n := fresh "n" in let Hn := fresh "Hn" in intros n Hn;
      replace n with (40 + (n - 40))%nat by lia; generalize (n - 40)%nat; clear n Hn; intro n;
      cbn [Nat.add];
      lazy -[Nat.sub N.eqb N.leb str_eqb list_eqb nth_error skipn find_from length app Z.of_nat Z.to_nat Z.add Z.eqb Z.ltb str D];
      gsimp; reflexivity
  end.

Ltac ev_solve_with tac :=
  lazymatch goal with
  | |- evals ?l ?e _ =>
      exists 40%nat; let n := fresh "n" in let Hn := fresh "Hn" in intros n Hn;
      replace n with (40 + (n - 40))%nat by lia; generalize (n - 40)%nat; clear n Hn; intro n;
      cbn [Nat.add];
      lazy -[Nat.sub N.eqb N.leb str_eqb list_eqb nth_error skipn find_from length app Z.of_nat Z.to_nat Z.add Z.eqb Z.ltb str D];
      gsimp; tac; gsimp; reflexivity
  end.

Ltac upd_norm :=
  repeat lazymatch goal with
  | |- context [xupd ?x ?v ?l] => let l2 := eval lazy -[Nat.sub N.eqb N.leb str_eqb list_eqb nth_error skipn find_from length app Z.of_nat Z.to_nat Z.add Z.eqb Z.ltb str D] in (xupd x v l) in change (xupd x v l) with l2
  end.

Ltac no_call e := lazymatch e with context [GCallRange] => fail | context [GCallSelf] => fail | _ => idtac end.
Ltac gstep :=
  lazymatch goal with
  | |- blocksK ?l [] ?K => apply blocksK_nil; cbv beta iota
  | |- blocksK ?l (?c :: ?r) ?K => apply blocksK_cons
  | |- execsK ?l (GAssign ?x ?e) ?K =>
      no_call e;
      let Hv := fresh "Hv" in eassert (Hv : evals l e _) by ev_solve;
      lazymatch type of Hv with evals _ _ ?v => apply (execsK_assign l x e v K Hv) end; clear Hv; cbv beta iota; upd_norm
  | |- execsK ?l (GAug ?x ?e) ?K =>
      let Hv := fresh "Hv" in eassert (Hv : evals l e _) by ev_solve;
      let a := glz (xlookup x l) in
      lazymatch a with Some (XZ ?a0) =>
        lazymatch type of Hv with evals _ _ (XZ ?b) => apply (execsK_aug l x e a0 b K eq_refl Hv) end end; clear Hv; cbv beta iota; upd_norm
  | |- execsK ?l (GIf ?c ?a ?b) ?K =>
      no_call c;
      let Hv := fresh "Hv" in eassert (Hv : evals l c _) by ev_solve;
      lazymatch type of Hv with evals _ _ (XB ?bv) => apply (execsK_if l c a b bv K Hv) end; clear Hv; cbv beta iota
  | |- execsK ?l (GReturn ?e) ?K =>
      let Hv := fresh "Hv" in eassert (Hv : evals l e _) by ev_solve;
      lazymatch type of Hv with evals _ _ ?v => apply (execsK_return l e v K Hv) end; clear Hv; cbv beta iota
  | |- execsK ?l GBreak ?K => apply execsK_break; cbv beta iota
  | |- execsK ?l GContinue ?K => apply execsK_continue; cbv beta iota
  end.
Ltac ggo := repeat gstep.

(* ------------------------------------------------------------------ the program *)
Definition GLOOP : list gst :=
  Eval lazy in match nth_error glob_match_gen 5 with Some (GWhile _ b) => b | _ => [] end.
Definition GW : gst := GWhile (GBool true) GLOOP.

Definition mkG (S P : str) (pi si : Z) (cv : xv) : xlocals :=
  [(1, XS S); (2, XS P); (3, XZ (Z.of_nat (length P))); (4, XZ (Z.of_nat (length S))); (5, XZ pi); (6, XZ si); (7, cv)].

Lemma is_nil_len (s : str) : (Z.of_nat (length s) =? 0)%Z = is_nil s.
Proof. destruct s; reflexivity. Qed.

(* the function from its main loop *)
Lemma runs_of_loop s p r :
  (p <> [] -> execs (mkG s p 0 0 XNone) GW (GRet (XB r))) ->
  (p = [] -> r = is_nil s) ->
  runs s p (XB r).
Proof.
  intros HL HN.
  assert (HB : blocksK [(1, XS s); (2, XS p); (3, XNone); (4, XNone); (5, XNone); (6, XNone); (7, XNone)] glob_match_gen (fun o => o = GRet (XB r))).
  { unfold glob_match_gen, gm_string, gm_pattern, gm_pattern_len, gm_string_len, gm_pattern_index, gm_string_index, gm_c.
    destruct p as [|c p1].
    - ggo. rewrite (HN eq_refl). destruct s; reflexivity.
    - ggo. eapply execsK_of; [apply HL; discriminate|]. reflexivity. }
  destruct HB as (o & (N & H) & ->). exists N. intros n Hn. unfold grun. 
  change (gblock D n [(1, XS s); (2, XS p); (3, XNone); (4, XNone); (5, XNone); (6, XNone); (7, XNone)] glob_match_gen) with (gblock D n (combine (g_params D) [XS s; XS p] ++ map (fun x => (x, XNone)) (g_locals D)) (g_body D)) in H.
  rewrite H by lia. reflexivity.
Qed.

(* ------------------------------------------------------------------ data facts *)
Lemma skipn_app_exact (pre s : str) z : z = Z.of_nat (length pre) -> skipn (Z.to_nat z) (pre ++ s) = s.
Proof. intros ->. rewrite Nat2Z.id. induction pre as [|a pre IH]; [reflexivity|exact IH]. Qed.

Lemma find_from_skip c : forall (pre s : str) pos, find_from c (pre ++ s) (pos + length pre) pos = find_from c s (pos + length pre) (pos + length pre).
Proof.
  induction pre as [|a pre IH]; intros s pos.
  - cbn [app length]. rewrite Nat.add_0_r. reflexivity.
  - cbn [app length find_from]. replace (pos + S (length pre) <=? pos)%nat with false by (symmetry; apply Nat.leb_gt; lia).
    cbn [andb]. replace (pos + S (length pre))%nat with (S pos + length pre)%nat by lia. apply IH.
Qed.

Lemma find_from_slash : forall (s : str) i pos, (i <= pos)%nat ->
  find_from cSLASH s i pos = match from_slash s with None => (-1)%Z | Some s' => Z.of_nat (pos + (length s - length s')) end.
Proof.
  induction s as [|x r IH]; intros i pos Hi; [reflexivity|].
  cbn [find_from from_slash]. replace (i <=? pos)%nat with true by (symmetry; apply Nat.leb_le; lia). cbn [andb].
  destruct (x =? cSLASH).
  - f_equal. lia.
  - rewrite (IH i (S pos)) by lia. destruct (from_slash r) as [s'|] eqn:E; [|reflexivity].
    destruct (from_slash_some _ _ E) as (s1 & s2 & H1 & _ & _). subst r. cbn [length]. rewrite !app_length. f_equal. lia.
Qed.

Lemma find_slash (spre s : str) z : z = Z.of_nat (length spre) ->
  find_from 47 (spre ++ s) (Z.to_nat z) 0 =
  match from_slash s with None => (-1)%Z | Some s' => Z.of_nat (length (spre ++ s) - length s') end.
Proof.
  intros ->. rewrite Nat2Z.id. change 47 with cSLASH.
  change (length spre) with (0 + length spre)%nat at 1. rewrite (find_from_skip cSLASH spre s 0). cbn [Nat.add]. rewrite find_from_slash by lia.
  destruct (from_slash s) as [s'|] eqn:E; [|reflexivity].
  destruct (from_slash_some _ _ E) as (s1 & s2 & H1 & _ & _). subst s. rewrite !app_length. f_equal. lia.
Qed.

Fixpoint star_prefix (p : str) : str :=
  match p with c :: p' => if c =? cSTAR then c :: star_prefix p' else [] | [] => [] end.
Lemma star_split p : p = star_prefix p ++ skip_stars p.
Proof. induction p as [|c p IH]; [reflexivity|]. cbn [star_prefix skip_stars]. destruct (c =? cSTAR); [cbn [app]; f_equal; exact IH|reflexivity]. Qed.

Lemma rloop'_suffix t : forall fuel ok p ok' r, rloop' fuel t ok p = Ok (Some (ok', r)) -> exists k, p = k ++ r.
Proof.
  induction fuel as [|n IH]; intros ok p ok' r H; [discriminate|]. cbn [rloop'] in H.
  destruct p as [|c p1]; [inversion H; exists []; reflexivity|].
  destruct (c =? cRBR); [inversion H; subst; exists [c]; reflexivity|].
  destruct (class_char c p1) as [[c1 r1]|] eqn:Ecc; [|discriminate].
  destruct (IdxTie.class_char_len _ _ _ _ Ecc) as (k & Hk & _).
  assert (G : forall ok1, rloop' n t ok1 r1 = Ok (Some (ok', r)) -> exists k0, c :: p1 = k0 ++ r).
  { intros ok1 H1. destruct (IH _ _ _ _ H1) as (k1 & ->). exists (k ++ k1). rewrite <- app_assoc. exact Hk. }
  destruct r1 as [|d [|e r2]]; try (eapply G; exact H).
  destruct ((d =? cDASH) && negb (e =? cRBR)); [|eapply G; exact H].
  destruct (class_char e r2) as [[c2 r3]|] eqn:Ec2; [|discriminate].
  destruct (IdxTie.class_char_len _ _ _ _ Ec2) as (k2 & Hk2 & _).
  destruct (IH _ _ _ _ H) as (k3 & ->). exists (k ++ d :: k2 ++ k3).
  rewrite Hk. rewrite <- !app_assoc. cbn [app]. rewrite Hk2, <- app_assoc. reflexivity.
Qed.

Lemma range_match_suffix p t p' : range_match p t = Ok (Some p') -> exists k, p = k ++ p'.
Proof.
  unfold range_match. destruct p as [|c p1]; [discriminate|]. cbv zeta. rewrite rloop_exit.
  destruct (rloop' _ t false _) as [[[ok' r]|]|] eqn:E; try discriminate.
  destruct (Bool.eqb ok' _); [discriminate|]. intro H; inversion H; subst r.
  destruct (rloop'_suffix _ _ _ _ _ _ E) as (k & Hk).
  destruct ((c =? cBANG) || (c =? cCARET)); [exists (c :: k); rewrite Hk; reflexivity | exists k; exact Hk].
Qed.

(* ------------------------------------------------------------------ the two inner loops of the '*' case *)
Definition STARBLK : list gst := Eval lazy in match nth_error GLOOP 4 with Some (GIf _ a _) => a | _ => [] end.
Definition W1 : gst := Eval lazy in match nth_error STARBLK 0 with Some w => w | None => GBreak end.
Definition W2 : gst := Eval lazy in match nth_error STARBLK 2 with Some w => w | None => GBreak end.

Lemma skip_loop S si cv : forall p1 ppre pi pi', pi = Z.of_nat (length ppre) -> pi' = Z.of_nat (length (ppre ++ star_prefix p1)) ->
  execs (mkG S (ppre ++ p1) pi si cv) W1 (GNext (mkG S (ppre ++ p1) pi' si cv)).
Proof.
  induction p1 as [|d p1 IH]; intros ppre pi pi' Hpi Hpi'; unfold W1, mkG in *.
  - cbn [star_prefix] in Hpi'. rewrite app_nil_r in *. subst pi'. rewrite <- Hpi.
    apply execs_while_false. subst pi. ev_solve.
  - cbn [star_prefix] in Hpi'. change cSTAR with 42 in Hpi'. destruct (d =? 42) eqn:Ed.
    + eapply execs_while_true.
      * subst pi. ev_solve_with ltac:(rewrite ?Ed).
      * subst pi. ggo.
        replace (ppre ++ d :: p1) with ((ppre ++ [d]) ++ p1) by (rewrite <- app_assoc; reflexivity).
        apply IH; [rewrite app_length; cbn [length]; lia|].
        subst pi'. rewrite <- app_assoc. reflexivity.
    + rewrite app_nil_r in Hpi'. subst pi'. rewrite <- Hpi.
      apply execs_while_false. subst pi. ev_solve_with ltac:(rewrite ?Ed).
Qed.

Lemma try_loop P ppre p2 pi cv (F : str -> result bool) :
  pi = Z.of_nat (length ppre) -> P = ppre ++ p2 ->
  (forall s0 r0, F s0 = Ok r0 -> runs s0 p2 (XB r0)) ->
  forall s spre si r, si = Z.of_nat (length spre) -> star_try F s = Ok r ->
  exists o, execs (mkG (spre ++ s) P pi si cv) W2 o /\ (if r then o = GRet (XB true) else exists l', o = GNext l').
Proof.
  intros Hpi HP HF. subst pi P.
  induction s as [|x s' IH]; intros spre si r Hsi Hr; unfold W2, mkG in *; subst si.
  - cbn [star_try] in Hr. inversion Hr; subst r. eexists. split; [apply execs_while_false; rewrite app_nil_r; ev_solve|]. eexists; reflexivity.
  - cbn [star_try] in Hr. destruct (F (x :: s')) as [[|]|e] eqn:EF; [| |discriminate].
    + inversion Hr; subst r. eexists. split; [|reflexivity].
      eapply execs_while_true; [ev_solve|].
      apply blocksK_cons.
      lazymatch goal with |- execsK ?l (GIf ?c ?a ?b) ?K => apply (execsK_if l c a b true K) end.
      * eapply evals_callself; [ev_solve_with ltac:(rewrite skipn_app_exact by reflexivity) | ev_solve_with ltac:(rewrite skipn_app_exact by reflexivity) | exact (HF _ _ EF)].
      * cbv beta iota. ggo. reflexivity.
    + destruct (x =? cSLASH) eqn:Ex.
      * inversion Hr; subst r. eexists. split; [|eexists; reflexivity].
        eapply execs_while_true; [ev_solve|].
        apply blocksK_cons.
        lazymatch goal with |- execsK ?l (GIf ?c ?a ?b) ?K => apply (execsK_if l c a b false K) end.
        -- eapply evals_callself; [ev_solve_with ltac:(rewrite skipn_app_exact by reflexivity) | ev_solve_with ltac:(rewrite skipn_app_exact by reflexivity) | exact (HF _ _ EF)].
        -- cbv beta iota. gstep. gstep.
           lazymatch goal with |- execsK ?l (GIf ?c ?a ?b) ?K => apply (execsK_if l c a b true K) end; [ev_solve_with ltac:(change 47 with cSLASH; rewrite ?Ex)|].
           cbv beta iota. ggo. reflexivity.
      * destruct (IH (spre ++ [x]) (Z.of_nat (length (spre ++ [x]))) r eq_refl Hr) as (o & Ho & Hor).
        exists o. split; [|exact Hor].
        eapply execs_while_true; [ev_solve|].
        apply blocksK_cons.
        lazymatch goal with |- execsK ?l (GIf ?c ?a ?b) ?K => apply (execsK_if l c a b false K) end.
        -- eapply evals_callself; [ev_solve_with ltac:(rewrite skipn_app_exact by reflexivity) | ev_solve_with ltac:(rewrite skipn_app_exact by reflexivity) | exact (HF _ _ EF)].
        -- cbv beta iota. gstep. gstep.
           lazymatch goal with |- execsK ?l (GIf ?c ?a ?b) ?K => apply (execsK_if l c a b false K) end; [ev_solve_with ltac:(change 47 with cSLASH; rewrite ?Ex)|].
           cbv beta iota. ggo.
           rewrite <- app_assoc in Ho. cbn [app] in Ho.
           replace (Z.of_nat (length spre) + 1)%Z with (Z.of_nat (length (spre ++ [x]))) by (rewrite app_length; cbn [length]; lia).
           exact Ho.
Qed.

(* ------------------------------------------------------------------ the main loop *)
Lemma find_neg (spre s : str) z : z = Z.of_nat (length spre) ->
  (find_from 47 (spre ++ s) (Z.to_nat z) 0 =? -1)%Z = negb (has_slash s).
Proof.
  intro Hz. rewrite (find_slash spre s z Hz). destruct (from_slash s) as [s'|] eqn:E.
  - replace (has_slash s) with true.
    + apply Z.eqb_neq. lia.
    + symmetry. destruct (has_slash s) eqn:Eh; [reflexivity|]. apply has_slash_false, from_slash_none in Eh. congruence.
  - apply from_slash_none, has_slash_false in E. rewrite E. reflexivity.
Qed.

Ltac kif b := lazymatch goal with |- execsK ?l (GIf ?c ?a ?b0) ?K => apply (execsK_if l c a b0 b K) end.

Lemma loop_ok : forall fuel spre s ppre p cv r pi si,
  pi = Z.of_nat (length ppre) -> si = Z.of_nat (length spre) -> glob_fuel fuel s p = Ok r ->
  execs (mkG (spre ++ s) (ppre ++ p) pi si cv) GW (GRet (XB r)).
Proof.
  induction fuel as [|n IH]; intros spre s ppre p cv r pi si Hpi Hsi H; [discriminate|].
  assert (RUNS : forall s0 p0 r0, glob_fuel n s0 p0 = Ok r0 -> runs s0 p0 (XB r0)).
  { intros s0 p0 r0 H0. apply runs_of_loop.
    - intros _. exact (IH [] s0 [] p0 XNone r0 0%Z 0%Z eq_refl eq_refl H0).
    - intros ->. destruct n; [discriminate|]. cbn [glob_fuel] in H0. inversion H0; reflexivity. }
  assert (CONT : forall spre' s' ppre' p' S P pi' si' cv', S = spre' ++ s' -> P = ppre' ++ p' ->
            pi' = Z.of_nat (length ppre') -> si' = Z.of_nat (length spre') -> glob_fuel n s' p' = Ok r ->
            execs (mkG S P pi' si' cv') GW (GRet (XB r))).
  { intros spre' s' ppre' p' S P pi' si' cv' -> -> E3 E4 E5. exact (IH _ _ _ _ cv' r _ _ E3 E4 E5). }
  clear IH. subst pi si. cbn [glob_fuel] in H.
  change cQM with 63 in H; change cSTAR with 42 in H; change cLBR with 91 in H; change cBSL with 92 in H; change cSLASH with 47 in H.
  unfold GW, GLOOP, mkG in *.
  eapply execs_while_true; [ev_solve|].
  destruct p as [|c p1].
  { (* end of pattern *)
    rewrite app_nil_r. inversion H; subst r. destruct s as [|x s'].
    - rewrite app_nil_r. ggo. reflexivity.
    - ggo. reflexivity. }
  ggo.
  destruct (c =? 63) eqn:E63; cbv beta iota in H.
  { (* ? *)
    destruct s as [|x s'].
    - rewrite app_nil_r. ggo. inversion H; reflexivity.
    - ggo. destruct (x =? 47) eqn:Ex.
      + ggo. inversion H; reflexivity.
      + ggo. apply (CONT (spre ++ [x]) s' (ppre ++ [c]) p1); try (rewrite <- app_assoc; reflexivity); try (rewrite app_length; cbn [length]; lia). exact H. }
  ggo.
  destruct (c =? 42) eqn:E42; cbv beta iota zeta in H.
  { (* * *)
    replace (ppre ++ c :: p1) with ((ppre ++ [c]) ++ p1) by (rewrite <- app_assoc; reflexivity).
    apply blocksK_cons. eapply execsK_of;
      [exact (skip_loop (spre ++ s) _ _ p1 (ppre ++ [c]) (Z.of_nat (length ppre) + 1)%Z (Z.of_nat (length ((ppre ++ [c]) ++ star_prefix p1)))
               ltac:(rewrite app_length; cbn [length]; lia) eq_refl)|].
    cbv beta iota. unfold mkG.
    pose proof (star_split p1) as Hsp. set (sp := star_prefix p1) in *. set (p2 := skip_stars p1) in *. clearbody sp p2. subst p1.
    rewrite (app_assoc (ppre ++ [c]) sp p2). remember ((ppre ++ [c]) ++ sp) as ppre2 eqn:Hpp2.
    destruct p2 as [|d p2']; cbv beta iota in H.
    - rewrite app_nil_r. ggo. rewrite find_neg by reflexivity. inversion H; reflexivity.
    - ggo.
      destruct (d =? 47) eqn:Ed; cbv beta iota in H.
      + ggo. rewrite (find_slash spre s _ eq_refl).
        destruct (from_slash s) as [s1|] eqn:Efs; cbv beta iota in H.
        * destruct (from_slash_some _ _ Efs) as (k & s2 & Hk & _ & _).
          fix_eqb. cbv beta iota. ggo. apply (CONT (spre ++ k) s1 ppre2 (d :: p2')); try reflexivity.
          -- rewrite Hk, app_assoc. reflexivity.
          -- rewrite Hk, !app_length. f_equal. lia.
          -- exact H.
        * change (-1 =? -1)%Z with true. cbv beta iota. ggo. inversion H; reflexivity.
      + ggo.
        destruct (try_loop (ppre2 ++ d :: p2') ppre2 (d :: p2') (Z.of_nat (length ppre2)) (XS [c]) (fun s0 => glob_fuel n s0 (d :: p2'))
                    eq_refl eq_refl (fun s0 r0 => RUNS s0 (d :: p2') r0) s spre (Z.of_nat (length spre)) r eq_refl H) as (o & Ho & Hor).
        eapply execsK_of; [exact Ho|]. destruct r.
        * subst o. reflexivity.
        * destruct Hor as (l' & ->). ggo. reflexivity. }
  ggo.
  destruct (c =? 91) eqn:E91; cbv beta iota in H.
  { (* [ *)
    destruct s as [|x s'].
    - rewrite app_nil_r. ggo. inversion H; reflexivity.
    - ggo. destruct (x =? 47) eqn:Ex.
      + ggo. inversion H; reflexivity.
      + ggo.
        replace (ppre ++ c :: p1) with ((ppre ++ [c]) ++ p1) by (rewrite <- app_assoc; reflexivity).
        replace (Z.of_nat (length ppre) + 1)%Z with (Z.of_nat (length (ppre ++ [c]))) by (rewrite app_length; cbn [length]; lia).
        set (ppre1 := ppre ++ [c]).
        assert (CR : call_range D (ppre1 ++ p1) (Z.of_nat (length ppre1)) [x] = range_match_result (length (ppre1 ++ p1)) (range_match p1 x)).
        { unfold call_range. rewrite Nat2Z.id. replace (length (ppre1 ++ p1) - length ppre1)%nat with (length p1) by (rewrite app_length; lia).
          exact (tie_range_match ppre1 p1 x). }
        destruct (range_match p1 x) as [[p'|]|e] eqn:Erm; [| |discriminate].
        * destruct (range_match_suffix _ _ _ Erm) as (k & Hk).
          lazymatch goal with |- execsK ?l (GAssign ?x0 ?e0) ?K =>
            apply (execsK_assign l x0 e0 (XZ (Z.of_nat (length (ppre1 ++ p1) - length p'))) K) end.
          -- eapply evals_callrange; [ev_solve | ev_solve | ev_solve | apply Z.ltb_ge; lia | exact CR].
          -- cbv beta iota. upd_norm. ggo.
             apply (CONT (spre ++ [x]) s' (ppre1 ++ k) p'); try (rewrite <- app_assoc; reflexivity); try (rewrite app_length; cbn [length]; lia).
             ++ rewrite Hk, app_assoc. reflexivity.
             ++ subst ppre1. rewrite Hk, !app_length. f_equal. cbn [length]. lia.
             ++ exact H.
        * lazymatch goal with |- execsK ?l (GAssign ?x0 ?e0) ?K => apply (execsK_assign l x0 e0 (XZ (-1)) K) end.
          -- eapply evals_callrange; [ev_solve | ev_solve | ev_solve | apply Z.ltb_ge; lia | exact CR].
          -- cbv beta iota. upd_norm. ggo. inversion H; reflexivity. }
  ggo.
  destruct (c =? 92) eqn:E92; cbv beta iota zeta in H.
  { (* backslash *)
    destruct p1 as [|d p2].
    - cbn [fst snd] in H. destruct s as [|x s'].
      + rewrite app_nil_r. ggo. inversion H; reflexivity.
      + ggo.
        change cBSL with 92 in H. destruct (92 =? x) eqn:Ecx.
        * ggo. apply (CONT (spre ++ [x]) s' (ppre ++ [c]) []); try (rewrite <- app_assoc; reflexivity); try (rewrite app_length; cbn [length]; lia). exact H.
        * ggo. inversion H; reflexivity.
    - cbn [fst snd] in H. destruct s as [|x s'].
      + rewrite app_nil_r. ggo. inversion H; reflexivity.
      + ggo.
        destruct (d =? x) eqn:Ecx.
        * ggo. apply (CONT (spre ++ [x]) s' (ppre ++ [c; d]) p2); try (rewrite <- app_assoc; reflexivity); try (rewrite app_length; cbn [length]; lia). exact H.
        * ggo. inversion H; reflexivity. }
  (* ordinary character *)
  cbn [fst snd] in H. destruct s as [|x s'].
  - rewrite app_nil_r. ggo. inversion H; reflexivity.
  - ggo.
    destruct (c =? x) eqn:Ecx.
    + ggo. apply (CONT (spre ++ [x]) s' (ppre ++ [c]) p1); try (rewrite <- app_assoc; reflexivity); try (rewrite app_length; cbn [length]; lia). exact H.
    + ggo. inversion H; reflexivity.
Qed.

(* ------------------------------------------------------------------ the whole function *)
Theorem tie_glob_match s p :
  exists b, glob_match s p = Ok b /\
  exists N, forall n, (N <= n)%nat -> grun D n [XS s; XS p] = Ok (XB b).
Proof.
  destruct (glob_total s p) as (b & Hb). exists b. split; [exact Hb|].
  unfold glob_match in Hb. apply runs_of_loop.
  - intros _. exact (loop_ok _ [] s [] p XNone b 0%Z 0%Z eq_refl eq_refl Hb).
  - intros ->. cbn [glob_fuel length] in Hb. inversion Hb; reflexivity.
Qed.

Print Assumptions tie_glob_match.
