(* GrpLang.v — a small language for the five grouping wrappers of casbin/management_enforcer.py (add_named_grouping_policy,
   add_named_grouping_policies, remove_named_grouping_policy, remove_named_grouping_policies,
   remove_filtered_named_grouping_policy): the internal call, the condition `self.auto_build_role_links and <result>`, the
   incremental link maintenance, the returned value.  translators/grouping.py renders the Python source into this syntax on every
   run (coq/gen/GroupingGen.v); GrpTie.v proves that the interpreter run on the regenerated wrappers computes Mgmt.g_add /
   g_add_many / g_remove / g_remove_many / g_remove_filtered - the steps through which C04's "role links always reflect the
   grouping policy" is proved.

   Meaning fixed by the interpreter (trusted):
   - the rule a single-rule wrapper works on is `params[0]` when ONE list is given, else `list(params)`: the translator checks
     that the two branches of that test are the same statements on either spelling and renders them once, on "the rule";
   - self._add_policy / _add_policies / _remove_policy / _remove_policies / _remove_filtered_policy_returns_effects("g", ptype, ..)
     are Mgmt.i_add / i_add_many / i_remove / i_remove_many / i_remove_filtered_eff (the methods themselves are regenerated and
     tied by InternalTie.v);
   - self._build_incremental_role_links(op, ptype, rules) - checked by the translator to hand the rules to
     model.build_incremental_role_links with the manager rm_map[ptype] (the conditional map is empty in Mgmt's kinds) - is
     Mgmt.links_add / links_del on that manager (Assertion.build_incremental_role_links is regenerated and tied by LinkTie.v); an
     exception there ends the wrapper with the policy already changed and the links as far as they got;
   - `rules = list(rules)` is a copy; a list is true when non-empty. *)
From Coq Require Import List NArith Bool.
From PyCasbin Require Import Base Policy RoleGraph Mgmt.
Import ListNotations.
Local Open Scope N_scope.

Inductive gcallee := IAdd | IAddMany | IRemove | IRemoveMany | IRemoveFilteredEff.
Inductive garg := GTheRule | GRulesParam | GFilter.        (* what the internal call is given *)
Inductive gsrc := GRulesLocal | GResult.                   (* which rule list goes to the link maintenance *)

Inductive gpst : Type :=
| GRulesInit                                 (* rules = [] *)
| GRulesAppendRule                           (* rules.append(<the rule>) *)
| GRulesCopy                                 (* rules = list(rules) *)
| GCall (m : gcallee) (a : garg)             (* <result> = self._<m>("g", ptype, <a>) *)
| GIfAutoAndResult (add : bool) (src : gsrc) (* if self.auto_build_role_links and <result>: self._build_incremental_role_links(op, ptype, src) *)
| GReturnResult.

Inductive gres := GRB (b : bool) | GRL (l : list rule).
Definition gres_true (r : gres) : bool := match r with GRB b => b | GRL l => match l with [] => false | _ => true end end.
Definition gres_val (r : gres) : val := match r with GRB b => ok (vbool b) | GRL l => ok (vrules l) end.

Record gpstate := { gp_s : mstate; gp_auto0 : bool; gp_rules : list rule; gp_res : option gres; gp_ac : list acall; gp_wc : list wcall }.

Section Interp.
  Variable k : mkind.
  Variable pt : N.
  Variable the_rule : rule.             (* single-rule wrappers *)
  Variable rules_param : list rule.     (* batch wrappers *)
  Variable fi : nat.
  Variable fvs : list name.             (* filtered wrapper *)

  (* Some (Some (state, output)) = finished; Some None = fell off the end; None = outside the language *)
  Fixpoint gprun (st : gpstate) (body : list gpst) : option (mstate * outp) :=
    match body with
    | [] => Some (gp_s st, mkOut (ok (VL [])) (gp_ac st) (gp_wc st))
    | c :: r =>
      match c with
      | GRulesInit => gprun {| gp_s := gp_s st; gp_auto0 := gp_auto0 st; gp_rules := []; gp_res := gp_res st; gp_ac := gp_ac st; gp_wc := gp_wc st |} r
      | GRulesAppendRule => gprun {| gp_s := gp_s st; gp_auto0 := gp_auto0 st; gp_rules := gp_rules st ++ [the_rule]; gp_res := gp_res st;
                                     gp_ac := gp_ac st; gp_wc := gp_wc st |} r
      | GRulesCopy => gprun {| gp_s := gp_s st; gp_auto0 := gp_auto0 st; gp_rules := rules_param; gp_res := gp_res st;
                               gp_ac := gp_ac st; gp_wc := gp_wc st |} r
      | GCall m a =>
          let fin (x : mstate * bool * list acall * list wcall) :=
            let '(s1, b, ac, wc) := x in
            gprun {| gp_s := s1; gp_auto0 := gp_auto0 st; gp_rules := gp_rules st; gp_res := Some (GRB b);
                     gp_ac := gp_ac st ++ ac; gp_wc := gp_wc st ++ wc |} r in
          match m, a with
          | IAdd, GTheRule => fin (i_add k (gp_s st) pt the_rule)
          | IRemove, GTheRule => fin (i_remove k (gp_s st) pt the_rule)
          | IAddMany, GRulesParam => fin (i_add_many k (gp_s st) pt rules_param)
          | IRemoveMany, GRulesParam => fin (i_remove_many k (gp_s st) pt (gp_rules st))
          | IRemoveFilteredEff, GFilter =>
              match i_remove_filtered_eff k (gp_s st) pt fi fvs with
              | Err c => Some (gp_s st, mkOut (verr c) (gp_ac st) (gp_wc st))
              | Ok (s1, gone, ac, wc) =>
                  gprun {| gp_s := s1; gp_auto0 := gp_auto0 st; gp_rules := gp_rules st; gp_res := Some (GRL gone);
                           gp_ac := gp_ac st ++ ac; gp_wc := gp_wc st ++ wc |} r
              end
          | _, _ => None
          end
      | GIfAutoAndResult add src =>
          match gp_res st with
          | None => None
          | Some res =>
              if m_auto_build (gp_s st) && gres_true res then
                let rs := match src with GRulesLocal => gp_rules st | GResult => match res with GRL l => l | GRB _ => [] end end in
                let x := if add then links_add (g_count k pt) (rm_of (gp_s st) pt) rs EGroupArity
                         else links_del (g_count k pt) (rm_of (gp_s st) pt) rs in
                let s' := put_rm (gp_s st) pt (fst x) in
                match snd x with
                | Some e => Some (s', mkOut (verr e) (gp_ac st) (gp_wc st))
                | None => gprun {| gp_s := s'; gp_auto0 := gp_auto0 st; gp_rules := gp_rules st; gp_res := gp_res st;
                                   gp_ac := gp_ac st; gp_wc := gp_wc st |} r
                end
              else gprun st r
          end
      | GReturnResult =>
          match gp_res st with
          | Some res => Some (gp_s st, mkOut (gres_val res) (gp_ac st) (gp_wc st))
          | None => None
          end
      end
    end.

  Definition gwrapper (body : list gpst) (s : mstate) : option (mstate * outp) :=
    gprun {| gp_s := s; gp_auto0 := m_auto_build s; gp_rules := rules_param; gp_res := None; gp_ac := []; gp_wc := [] |} body.
End Interp.
