(* GrpTie.v — C04: the five grouping wrappers regenerated from casbin/management_enforcer.py on this run
   (coq/gen/GroupingGen.v), executed by the interpreter of GrpLang.v, compute Mgmt.g_add / g_add_many / g_remove /
   g_remove_many / g_remove_filtered - for every kind of model, policy type, enforcer state and argument. *)
From Coq Require Import List NArith Bool.
From PyCasbin Require Import Base Policy RoleGraph Mgmt GrpLang.
From PyCasbinGen Require Import GroupingGen.
Import ListNotations.
Local Open Scope N_scope.

Lemma set_store_auto s pt l : m_auto_build (set_store s pt l) = m_auto_build s.
Proof. unfold set_store. destruct (pt =? PT_P); [reflexivity|]. destruct (pt =? PT_G); reflexivity. Qed.

Lemma i_add_auto k s pt r : m_auto_build (fst (fst (fst (i_add k s pt r)))) = m_auto_build s.
Proof.
  unfold i_add. destruct (add_policy _ _ r) as [l' b]. destruct b; cbn [negb]; [|reflexivity].
  destruct (use_adapter k s); cbn [fst]; apply set_store_auto.
Qed.
Lemma i_add_many_auto k s pt rs : m_auto_build (fst (fst (fst (i_add_many k s pt rs)))) = m_auto_build s.
Proof.
  unfold i_add_many. destruct (add_policies _ _ rs) as [l' b]. destruct b; cbn [negb]; [|reflexivity].
  destruct (use_adapter k s); cbn [fst]; apply set_store_auto.
Qed.
Lemma i_remove_auto k s pt r : m_auto_build (fst (fst (fst (i_remove k s pt r)))) = m_auto_build s.
Proof.
  unfold i_remove. destruct (remove_policy _ r) as [l' b]. destruct b; cbn [negb]; [|cbn [fst]; apply set_store_auto].
  destruct (use_adapter k s); cbn [fst]; apply set_store_auto.
Qed.
Lemma i_remove_many_auto k s pt rs : m_auto_build (fst (fst (fst (i_remove_many k s pt rs)))) = m_auto_build s.
Proof.
  unfold i_remove_many. destruct (remove_policies _ rs) as [l' b]. destruct b; cbn [negb]; [|reflexivity].
  destruct (use_adapter k s); cbn [fst]; apply set_store_auto.
Qed.
Lemma i_remove_filtered_eff_auto k s pt i vs s1 gone ac wc :
  i_remove_filtered_eff k s pt i vs = Ok (s1, gone, ac, wc) -> m_auto_build s1 = m_auto_build s.
Proof.
  unfold i_remove_filtered_eff. destruct (remove_filtered_effects _ i vs) as [[l' g]|c]; [|discriminate].
  destruct g; [intro H; inversion H; apply set_store_auto|].
  destruct (use_adapter k s); intro H; inversion H; apply set_store_auto.
Qed.

Ltac gstart g := unfold gwrapper; let b := eval lazy in g in change g with b; cbn [gprun gp_s gp_auto0 gp_rules gp_res gp_ac gp_wc app].

Theorem tie_g_add k s pt r :
  gwrapper k pt r [] 0 [] add_named_grouping_policy_gen s = Some (g_add k s pt r).
Proof.
  gstart add_named_grouping_policy_gen. unfold g_add, after_links.
  pose proof (i_add_auto k s pt r) as HA.
  destruct (i_add k s pt r) as [[[s1 b] ac] wc]. cbn [fst] in HA.
  cbn [gprun gp_s gp_auto0 gp_rules gp_res gp_ac gp_wc app gres_true gres_val]. rewrite HA.
  destruct (m_auto_build s && b); [|reflexivity].
  destruct (links_add (g_count k pt) (rm_of s1 pt) [r] EGroupArity) as [rm' [e|]]; reflexivity.
Qed.

Theorem tie_g_remove k s pt r :
  gwrapper k pt r [] 0 [] remove_named_grouping_policy_gen s = Some (g_remove k s pt r).
Proof.
  gstart remove_named_grouping_policy_gen. unfold g_remove, after_links.
  pose proof (i_remove_auto k s pt r) as HA.
  destruct (i_remove k s pt r) as [[[s1 b] ac] wc]. cbn [fst] in HA.
  cbn [gprun gp_s gp_auto0 gp_rules gp_res gp_ac gp_wc app gres_true gres_val]. rewrite HA.
  destruct (m_auto_build s && b); [|reflexivity].
  destruct (links_del (g_count k pt) (rm_of s1 pt) [r]) as [rm' [e|]]; reflexivity.
Qed.

Theorem tie_g_add_many k s pt rs :
  gwrapper k pt [] rs 0 [] add_named_grouping_policies_gen s = Some (g_add_many k s pt rs).
Proof.
  gstart add_named_grouping_policies_gen. unfold g_add_many, after_links.
  pose proof (i_add_many_auto k s pt rs) as HA.
  destruct (i_add_many k s pt rs) as [[[s1 b] ac] wc]. cbn [fst] in HA.
  cbn [gprun gp_s gp_auto0 gp_rules gp_res gp_ac gp_wc app gres_true gres_val]. rewrite HA.
  destruct (m_auto_build s && b); [|reflexivity].
  destruct (links_add (g_count k pt) (rm_of s1 pt) rs EGroupArity) as [rm' [e|]]; reflexivity.
Qed.

Theorem tie_g_remove_many k s pt rs :
  gwrapper k pt [] rs 0 [] remove_named_grouping_policies_gen s = Some (g_remove_many k s pt rs).
Proof.
  gstart remove_named_grouping_policies_gen. unfold g_remove_many, after_links.
  pose proof (i_remove_many_auto k s pt rs) as HA.
  destruct (i_remove_many k s pt rs) as [[[s1 b] ac] wc]. cbn [fst] in HA.
  cbn [gprun gp_s gp_auto0 gp_rules gp_res gp_ac gp_wc app gres_true gres_val]. rewrite HA.
  destruct (m_auto_build s && b); [|reflexivity].
  destruct (links_del (g_count k pt) (rm_of s1 pt) rs) as [rm' [e|]]; reflexivity.
Qed.

Theorem tie_g_remove_filtered k s pt i vs :
  gwrapper k pt [] [] i vs remove_filtered_named_grouping_policy_gen s = Some (g_remove_filtered k s pt i vs).
Proof.
  gstart remove_filtered_named_grouping_policy_gen. unfold g_remove_filtered, after_links.
  destruct (i_remove_filtered_eff k s pt i vs) as [[[[s1 gone] ac] wc]|c] eqn:E; [|reflexivity].
  pose proof (i_remove_filtered_eff_auto k s pt i vs s1 gone ac wc E) as HA.
  cbn [gprun gp_s gp_auto0 gp_rules gp_res gp_ac gp_wc app gres_true gres_val]. rewrite HA.
  destruct gone as [|g0 gr].
  - rewrite andb_false_r. reflexivity.
  - rewrite andb_true_r. destruct (m_auto_build s); [|reflexivity].
    destruct (links_del (g_count k pt) (rm_of s1 pt) (g0 :: gr)) as [rm' [e|]]; reflexivity.
Qed.
