(* IdxLang.v — a small imperative language for index-based string code with loops: casbin/util/builtin_operators.py
   range_match (the bracket classes of glob_match), and its interpreter.  translators/rangematch.py renders the Python source
   into this syntax on every run (coq/gen/RangeMatchGen.v); IdxTie.v proves that the interpreter run on the regenerated
   program computes Glob.range_match - the function the C13 glob theorems use for `[...]`.

   Meaning fixed by the interpreter (trusted): integers are Z, strings are lists of code points, a character is a string of
   length 1; s[i] raises IndexError when i is past the end (a negative index, which would count from the end, is refused:
   error 90); `and` short-circuits; a == b compares strings with strings and integers with integers or booleans (0 == False,
   1 == True as in Python); a <= b on characters compares code points; `while True:` repeats its body, `break` leaves the
   loop, `return` the function; every iteration of a loop costs one unit of the fuel, exhausted fuel is an error value. *)
From Coq Require Import List NArith ZArith Bool.
From PyCasbin Require Import Base.
Import ListNotations.
Local Open Scope N_scope.

Inductive xv := XS (s : str) | XZ (z : Z) | XB (b : bool) | XNone.

Inductive xex : Type :=
| XVar (x : N) | XInt (z : Z) | XStr (s : str)
| XLen (a : xex)
| XIdx (a i : xex)
| XEq (a b : xex) | XNe (a b : xex) | XLe (a b : xex)
| XAnd (a b : xex) | XOr (a b : xex)
| XAdd (a b : xex).

Inductive xst : Type :=
| XAssign (x : N) (e : xex)
| XAug (x : N) (e : xex)                 (* x += e *)
| XIf (c : xex) (a b : list xst)
| XWhileTrue (body : list xst)
| XBreak
| XReturn (e : xex).

Definition xlocals := list (N * xv).
Inductive xout := XNext (l : xlocals) | XBrk (l : xlocals) | XRet (v : xv) | XErr (c : N).

Definition xkeyb (a b : N) : bool :=
  match a, b with N0, N0 => true | Npos p, Npos q => Pos.eqb p q | _, _ => false end.
Fixpoint xlookup (x : N) (l : xlocals) : option xv :=
  match l with [] => None | (y, v) :: r => if xkeyb x y then Some v else xlookup x r end.
Fixpoint xupd (x : N) (v : xv) (l : xlocals) : xlocals :=
  match l with
  | [] => [(x, v)]
  | (y, w) :: r => if xkeyb x y then (y, v) :: r else (y, w) :: xupd x v r
  end.

Definition xeq (a b : xv) : result bool :=
  match a, b with
  | XS x, XS y => Ok (str_eqb x y)
  | XZ x, XZ y => Ok (x =? y)%Z
  | XZ x, XB y | XB y, XZ x => Ok (x =? (if y then 1 else 0))%Z
  | XB x, XB y => Ok (Bool.eqb x y)
  | _, _ => Err 90
  end.

Fixpoint xeval (n : nat) (l : xlocals) (e : xex) {struct n} : result xv :=
  match n with
  | O => Err EFuel
  | S n' =>
    let ev := xeval n' l in
    match e with
    | XVar x => match xlookup x l with Some v => Ok v | None => Err EName end
    | XInt z => Ok (XZ z)
    | XStr s => Ok (XS s)
    | XLen a => rbind (ev a) (fun v => match v with XS s => Ok (XZ (Z.of_nat (length s))) | _ => Err EType end)
    | XIdx a i => rbind (ev a) (fun va => rbind (ev i) (fun vi =>
                    match va, vi with
                    | XS s, XZ z => if (z <? 0)%Z then Err 90
                                    else match nth_error s (Z.to_nat z) with Some c => Ok (XS [c]) | None => Err EIndex end
                    | _, _ => Err EType
                    end))
    | XEq a b => rbind (ev a) (fun va => rbind (ev b) (fun vb => rbind (xeq va vb) (fun r => Ok (XB r))))
    | XNe a b => rbind (ev a) (fun va => rbind (ev b) (fun vb => rbind (xeq va vb) (fun r => Ok (XB (negb r)))))
    | XLe a b => rbind (ev a) (fun va => rbind (ev b) (fun vb =>
                    match va, vb with
                    | XS [x], XS [y] => Ok (XB (x <=? y))
                    | XZ x, XZ y => Ok (XB (x <=? y)%Z)
                    | _, _ => Err 90
                    end))
    | XAnd a b => rbind (ev a) (fun va => match va with XB false => Ok (XB false) | XB true => ev b | _ => Err 90 end)
    | XOr a b => rbind (ev a) (fun va => match va with XB true => Ok (XB true) | XB false => ev b | _ => Err 90 end)
    | XAdd a b => rbind (ev a) (fun va => rbind (ev b) (fun vb =>
                    match va, vb with XZ x, XZ y => Ok (XZ (x + y)) | _, _ => Err EType end))
    end
  end.

Fixpoint xexec (n : nat) (l : xlocals) (c : xst) {struct n} : xout :=
  match n with
  | O => XErr EFuel
  | S n' =>
    match c with
    | XAssign x e => match xeval n' l e with Ok v => XNext (xupd x v l) | Err c => XErr c end
    | XAug x e =>
        match xlookup x l, xeval n' l e with
        | Some (XZ a), Ok (XZ b) => XNext (xupd x (XZ (a + b)) l)
        | _, Err c => XErr c
        | _, _ => XErr 90
        end
    | XIf c a b =>
        match xeval n' l c with
        | Ok (XB true) => xblock n' l a
        | Ok (XB false) => xblock n' l b
        | Ok _ => XErr 90
        | Err c => XErr c
        end
    | XWhileTrue body =>
        match xblock n' l body with
        | XNext l' => xexec n' l' (XWhileTrue body)
        | XBrk l' => XNext l'
        | o => o
        end
    | XBreak => XBrk l
    | XReturn e => match xeval n' l e with Ok v => XRet v | Err c => XErr c end
    end
  end
with xblock (n : nat) (l : xlocals) (b : list xst) {struct n} : xout :=
  match n with
  | O => XErr EFuel
  | S n' =>
    match b with
    | [] => XNext l
    | c :: r => match xexec n' l c with XNext l' => xblock n' l' r | o => o end
    end
  end.

Definition xrun (n : nat) (params locals : list N) (body : list xst) (args : list xv) : result xv :=
  match xblock n (combine params args ++ map (fun x => (x, XNone)) locals) body with
  | XRet v => Ok v
  | XNext _ => Ok XNone
  | XBrk _ => Err ESyntax
  | XErr c => Err c
  end.
