(* IdxTie.v — C13: range_match regenerated from casbin/util/builtin_operators.py on this run (coq/gen/RangeMatchGen.v),
   executed by the interpreter of IdxLang.v, computes Glob.range_match: called at the position just after a '[' (any prefix
   before it), it returns -1 exactly when the model says None and otherwise the index at which the model's remaining
   suffix starts. *)
From Coq Require Import List NArith ZArith Bool Lia Arith.
From PyCasbin Require Import Base PatBase Glob IdxLang.
From PyCasbinGen Require Import RangeMatchGen.
Import ListNotations.
Local Open Scope N_scope.

(* ------------------------------------------------------------------ the loop of rloop with its exit state exposed *)
Fixpoint rloop' (fuel : nat) (t : N) (ok : bool) (p : str) : result (option (bool * str)) :=
  match fuel with
  | O => Err EFuel
  | S n =>
    match p with
    | [] => Ok (Some (ok, []))
    | c :: p1 =>
      if c =? cRBR then Ok (Some (ok, p1))
      else
        match class_char c p1 with
        | None => Ok None
        | Some (c1, r) =>
          match r with
          | d :: e :: r2 =>
            if (d =? cDASH) && negb (e =? cRBR) then
              match class_char e r2 with
              | None => Ok None
              | Some (c2, r3) => rloop' n t (ok || ((c1 <=? t) && (t <=? c2))) r3
              end
            else rloop' n t (ok || (c1 =? t)) r
          | _ => rloop' n t (ok || (c1 =? t)) r
          end
        end
    end
  end.

Lemma rloop_exit neg t : forall fuel ok p,
  rloop fuel neg t ok p =
  match rloop' fuel t ok p with
  | Ok (Some (ok', r)) => Ok (if Bool.eqb ok' neg then None else Some r)
  | Ok None => Ok None
  | Err e => Err e
  end.
Proof.
  induction fuel as [|n IH]; intros ok p; [reflexivity|].
  destruct p as [|c p1]; [reflexivity|]. cbn [rloop rloop'].
  destruct (c =? cRBR); [reflexivity|].
  destruct (class_char c p1) as [[c1 r]|]; [|reflexivity].
  destruct r as [|d [|e r2]]; try apply IH.
  destruct ((d =? cDASH) && negb (e =? cRBR)); [|apply IH].
  destruct (class_char e r2) as [[c2 r3]|]; [apply IH | reflexivity].
Qed.

(* ------------------------------------------------------------------ stepping equations *)
Lemma xblock_nil n l : xblock (S n) l [] = XNext l.
Proof. reflexivity. Qed.
Lemma xblock_step n l c r o : xexec n l c = o ->
  xblock (S n) l (c :: r) = match o with XNext l' => xblock n l' r | XBrk l' => XBrk l' | XRet v => XRet v | XErr e => XErr e end.
Proof.
  intros <-. change (xblock (S n) l (c :: r)) with (match xexec n l c with XNext l' => xblock n l' r | o => o end).
  destruct (xexec n l c); reflexivity.
Qed.
Lemma xexec_if n l c a b v : xeval n l c = v ->
  xexec (S n) l (XIf c a b) =
  match v with Ok (XB true) => xblock n l a | Ok (XB false) => xblock n l b | Ok _ => XErr 90 | Err e => XErr e end.
Proof. intros <-. reflexivity. Qed.
Lemma xexec_while n l body :
  xexec (S n) l (XWhileTrue body) =
  match xblock n l body with XNext l' => xexec n l' (XWhileTrue body) | XBrk l' => XNext l' | o => o end.
Proof. reflexivity. Qed.

Ltac x_atomic c := lazymatch c with XIf _ _ _ => fail | XWhileTrue _ => fail | _ => idtac end.
Ltac xlz t := let v := eval lazy -[Nat.sub N.eqb N.leb str_eqb list_eqb nth_error length app Z.of_nat Z.to_nat Z.add Z.eqb Z.ltb str] in t in v.
Ltac xbstep :=
  lazymatch goal with
  | |- context [xblock (S ?n) ?s []] => rewrite (xblock_nil n s)
  | |- context [xblock (S ?n) ?s (?c :: ?r)] =>
      tryif x_atomic c then (let o := xlz (xexec n s c) in rewrite (xblock_step n s c r o eq_refl))
      else rewrite (xblock_step n s c r _ eq_refl)
  end; cbv beta iota.
Ltac xestep :=
  lazymatch goal with
  | |- context [xexec (S ?n) ?s (XIf ?c ?a ?b)] =>
      let v := xlz (xeval n s c) in rewrite (xexec_if n s c a b v eq_refl)
  end; cbv beta iota.
Ltac xstep := first [xestep | xbstep].

(* ------------------------------------------------------------------ one iteration, symbolically *)
Definition XBODY : list xst :=
  Eval lazy in match nth_error range_match_gen 5 with Some (XWhileTrue b) => b | _ => [] end.
Definition XTAIL : list xst := Eval lazy in skipn 6 range_match_gen.

Definition okz (ok : bool) : Z := if ok then 1%Z else 0%Z.
Definition mkX (PAT : str) (iz : Z) (t : N) (neg ok : bool) (cv c2v : xv) : xlocals :=
  [(1, XS PAT); (2, XZ iz); (3, XS [t]); (4, XZ (Z.of_nat (length PAT))); (5, XB neg); (6, XZ (okz ok)); (7, cv); (8, c2v)].

Lemma str_eqb_char c k : str_eqb [c] [k] = (c =? k).
Proof. unfold str_eqb. simpl. apply andb_true_r. Qed.

Lemma nth_app_off (pre l : str) k z : z = Z.of_nat (length pre + k) -> nth_error (pre ++ l) (Z.to_nat z) = nth_error l k.
Proof.
  intros ->. rewrite Nat2Z.id. revert k. induction pre as [|a pre IH]; intro k; [reflexivity|]. cbn [length app Nat.add nth_error]. apply IH.
Qed.

Ltac fix_nth :=
  repeat match goal with
  | |- context [nth_error (?pre ++ ?l) (Z.to_nat ?z)] =>
      first [ rewrite (nth_app_off pre l 0 z) by lia | rewrite (nth_app_off pre l 1 z) by lia | rewrite (nth_app_off pre l 2 z) by lia
            | rewrite (nth_app_off pre l 3 z) by lia | rewrite (nth_app_off pre l 4 z) by lia ]
  end; cbn [nth_error].

Ltac fix_eqb :=
  repeat match goal with
  | |- context [(?a =? ?b)%Z] =>
      first [ replace (a =? b)%Z with true by (symmetry; apply Z.eqb_eq; rewrite ?app_length; cbn [length]; lia)
            | replace (a =? b)%Z with false by (symmetry; apply Z.eqb_neq; rewrite ?app_length; cbn [length]; lia) ]
  | |- context [(?a <? ?b)%Z] =>
      first [ replace (a <? b)%Z with false by (symmetry; apply Z.ltb_ge; lia)
            | replace (a <? b)%Z with true by (symmetry; apply Z.ltb_lt; lia) ]
  end.

Ltac xgo := repeat (first [xstep | progress fix_eqb | progress fix_nth | progress rewrite ?str_eqb_char]; cbn [negb andb orb]; cbv beta iota).

Lemma okz_or ok b : okz (ok || b) = if b then 1%Z else okz ok.
Proof. destruct ok, b; reflexivity. Qed.

(* the body of the loop on PAT = pre ++ p at index |pre| *)
Lemma body_iter n pre p t neg ok cv c2v :
  let PAT := pre ++ p in
  let z := Z.of_nat (length pre) in
  xblock (30 + n) (mkX PAT z t neg ok cv c2v) XBODY =
  match p with
  | [] => XBrk (mkX PAT z t neg ok cv c2v)
  | c :: p1 =>
      if c =? cRBR then XBrk (mkX PAT (z + 1)%Z t neg ok (XS [c]) c2v)
      else
        match class_char c p1 with
        | None => XRet (XZ (-1))
        | Some (c1, r) =>
            let z1 := if c =? cBSL then (z + 1 + 1)%Z else (z + 1)%Z in
            match r with
            | d :: e :: r2 =>
                if (d =? cDASH) && negb (e =? cRBR) then
                  match class_char e r2 with
                  | None => XRet (XZ (-1))
                  | Some (c2, r3) =>
                      XNext (mkX PAT (if e =? cBSL then (z1 + 2 + 1)%Z else (z1 + 2)%Z) t neg (ok || ((c1 <=? t) && (t <=? c2))) (XS [c1]) (XS [c2]))
                  end
                else XNext (mkX PAT z1 t neg (ok || (c1 =? t)) (XS [c1]) c2v)
            | _ => XNext (mkX PAT z1 t neg (ok || (c1 =? t)) (XS [c1]) c2v)
            end
        end
  end.
Proof.
  cbv zeta. unfold class_char; unfold XBODY, mkX, cRBR, cBSL, cDASH. cbn [Nat.add].
  destruct p as [|c p1].
  - rewrite app_nil_r. xgo. reflexivity.
  - xgo. destruct (c =? 93) eqn:E93; cbv beta iota.
    + xgo. reflexivity.
    + xgo. destruct (c =? 92) eqn:E92; cbv beta iota.
      * (* backslash *)
        destruct p1 as [|c' r].
        -- xgo. reflexivity.
        -- xgo.
           destruct r as [|d [|e r2]].
           ++ xgo. rewrite okz_or. destruct (c' =? t); reflexivity.
           ++ xgo. rewrite okz_or. destruct (d =? 45); cbn [andb]; cbv beta iota; xgo; destruct (c' =? t); reflexivity.
           ++ xgo. destruct (d =? 45) eqn:Ed; cbn [andb]; cbv beta iota.
              ** xgo. destruct (e =? 93) eqn:Ee; cbn [negb andb]; cbv beta iota.
                 --- xgo. rewrite okz_or. destruct (c' =? t); reflexivity.
                 --- xgo. destruct (e =? 92) eqn:Eb; cbv beta iota.
                     +++ destruct r2 as [|e' r3].
                         *** xgo. reflexivity.
                         *** xgo. rewrite okz_or. destruct ((c' <=? t) && (t <=? e')) eqn:Er; cbv beta iota;
                               destruct (c' <=? t); cbn [andb] in Er |- *; cbv beta iota; xgo; try rewrite Er; try reflexivity;
                               destruct (t <=? e'); try discriminate; reflexivity.
                     +++ xgo. rewrite okz_or. destruct (c' <=? t); cbn [andb]; cbv beta iota; xgo; [destruct (t <=? e)|]; reflexivity.
              ** xgo. rewrite okz_or. destruct (c' =? t); reflexivity.
      * (* plain first character *)
        destruct p1 as [|d [|e r2]].
        -- xgo. rewrite okz_or. destruct (c =? t); reflexivity.
        -- xgo. rewrite okz_or. destruct (d =? 45); cbn [andb]; cbv beta iota; xgo; destruct (c =? t); reflexivity.
        -- xgo. destruct (d =? 45) eqn:Ed; cbn [andb]; cbv beta iota.
           ++ xgo. destruct (e =? 93) eqn:Ee; cbn [negb andb]; cbv beta iota.
              ** xgo. rewrite okz_or. destruct (c =? t); reflexivity.
              ** xgo. destruct (e =? 92) eqn:Eb; cbv beta iota.
                 --- destruct r2 as [|e' r3].
                     +++ xgo. reflexivity.
                     +++ xgo. rewrite okz_or. destruct (c <=? t); cbn [andb]; cbv beta iota; xgo; [destruct (t <=? e')|]; reflexivity.
                 --- xgo. rewrite okz_or. destruct (c <=? t); cbn [andb]; cbv beta iota; xgo; [destruct (t <=? e)|]; reflexivity.
           ++ xgo. rewrite okz_or. destruct (c =? t); reflexivity.
Qed.

(* ------------------------------------------------------------------ the loop *)
Lemma class_char_len c p c1 r : class_char c p = Some (c1, r) ->
  exists k, c :: p = k ++ r /\ length k = if c =? cBSL then 2%nat else 1%nat.
Proof.
  unfold class_char. destruct (c =? cBSL).
  - destruct p as [|c' r']; [discriminate|]. intro H; inversion H; subst. exists [c; c1]. split; reflexivity.
  - intro H; inversion H; subst. exists [c1]. split; reflexivity.
Qed.

Lemma loop_exec t neg : forall fh PAT pre p iz ok cv c2v res,
  PAT = pre ++ p -> iz = Z.of_nat (length pre) ->
  rloop' fh t ok p = Ok res ->
  exists cv' c2v',
  xexec (31 + fh) (mkX PAT iz t neg ok cv c2v) (XWhileTrue XBODY) =
  match res with
  | Some (ok', rest) => XNext (mkX PAT (Z.of_nat (length PAT - length rest)) t neg ok' cv' c2v')
  | None => XRet (XZ (-1))
  end.
Proof.
  induction fh as [|fh IH]; intros PAT pre p iz ok cv c2v res HP Hz Hr; [discriminate|].
  subst PAT iz. change (31 + S fh)%nat with (S (30 + S fh)). rewrite xexec_while, body_iter. cbv zeta.
  cbn [rloop'] in Hr.
  assert (CONT : forall pre' r ok1 z1 cv1 c2v1, pre ++ p = pre' ++ r -> z1 = Z.of_nat (length pre') -> rloop' fh t ok1 r = Ok res ->
     exists cv' c2v',
     match XNext (mkX (pre ++ p) z1 t neg ok1 cv1 c2v1) with
     | XNext l' => xexec (30 + S fh) l' (XWhileTrue XBODY) | XBrk l' => XNext l' | o => o end =
     match res with
     | Some (ok', rest) => XNext (mkX (pre ++ p) (Z.of_nat (length (pre ++ p) - length rest)) t neg ok' cv' c2v')
     | None => XRet (XZ (-1))
     end).
  { intros pre' r ok1 z1 cv1 c2v1 E1 E2 E3. cbv iota. change (30 + S fh)%nat with (31 + fh)%nat.
    exact (IH (pre ++ p) pre' r z1 ok1 cv1 c2v1 res E1 E2 E3). }
  destruct p as [|c p1].
  - inversion Hr; subst res. exists cv, c2v. cbv iota. unfold mkX. repeat f_equal. rewrite app_nil_r. cbn [length]. lia.
  - destruct (c =? cRBR).
    + inversion Hr; subst res. exists (XS [c]), c2v. cbv iota. unfold mkX. repeat f_equal. rewrite app_length. cbn [length]. lia.
    + destruct (class_char c p1) as [[c1 r]|] eqn:Ecc; [|inversion Hr; subst res; exists cv, c2v; reflexivity].
      destruct (class_char_len _ _ _ _ Ecc) as (k & Hk & Hl).
      assert (E1 : pre ++ c :: p1 = (pre ++ k) ++ r) by (rewrite <- app_assoc, <- Hk; reflexivity).
      assert (E2 : (if c =? cBSL then (Z.of_nat (length pre) + 1 + 1)%Z else (Z.of_nat (length pre) + 1)%Z) = Z.of_nat (length (pre ++ k)))
        by (rewrite app_length, Hl; destruct (c =? cBSL); lia).
      destruct r as [|d [|e r2]]; [exact (CONT (pre ++ k) _ _ _ _ _ E1 E2 Hr) | exact (CONT (pre ++ k) _ _ _ _ _ E1 E2 Hr) |].
      destruct ((d =? cDASH) && negb (e =? cRBR)); [|exact (CONT (pre ++ k) _ _ _ _ _ E1 E2 Hr)].
      destruct (class_char e r2) as [[c2 r3]|] eqn:Ec2; [|inversion Hr; subst res; exists cv, c2v; reflexivity].
      destruct (class_char_len _ _ _ _ Ec2) as (k2 & Hk2 & Hl2).
      refine (CONT (pre ++ k ++ d :: k2) _ _ _ _ _ _ _ Hr).
      * rewrite E1, <- !app_assoc. cbn [app]. rewrite Hk2. reflexivity.
      * rewrite E2, !app_length. cbn [length]. rewrite Hl2. destruct (e =? cBSL); lia.
Qed.

(* ------------------------------------------------------------------ the whole function *)
From PyCasbin Require Import GlobProofs.

Lemma rloop'_ok n (neg : bool) t ok p : (length p < n)%nat -> exists res, rloop' n t ok p = Ok res.
Proof.
  intro H. destruct (rloop_ok n neg t ok p H) as (r & Hr & _). rewrite rloop_exit in Hr.
  destruct (rloop' n t ok p) as [res|e]; [exists res; reflexivity | discriminate].
Qed.

Definition range_match_result (total : nat) (r : result (option str)) : result xv :=
  match r with
  | Ok (Some rest) => Ok (XZ (Z.of_nat (total - length rest)))
  | Ok None => Ok (XZ (-1))
  | Err e => Err e
  end.

Lemma loop_and_tail pre p t neg L pre' p' iz :
  pre ++ p = pre' ++ p' -> iz = Z.of_nat (length pre') -> (length p' <= L)%nat ->
  match
    match xexec (32 + L) (mkX (pre ++ p) iz t neg false XNone XNone) (XWhileTrue XBODY) with
    | XNext l' => xblock (32 + L) l' XTAIL
    | XBrk l' => XBrk l' | XRet v => XRet v | XErr e => XErr e
    end
  with XRet v => Ok v | XNext _ => Ok XNone | XBrk _ => Err ESyntax | XErr c0 => Err c0 end =
  range_match_result (length (pre ++ p)) (rloop (S L) neg t false p').
Proof.
  intros E1 E2 E3.
  destruct (rloop'_ok (S L) neg t false p' ltac:(lia)) as (res & Hres).
  destruct (loop_exec t neg (S L) _ pre' p' iz false XNone XNone res E1 E2 Hres) as (cv' & c2v' & HX).
  change (31 + S L)%nat with (32 + L)%nat in HX. rewrite HX. rewrite rloop_exit, Hres.
  destruct res as [[ok' rest]|]; [|reflexivity].
  cbv iota. unfold XTAIL, mkX. cbn [Nat.add]. xgo.
  destruct ok', neg; cbn [okz Bool.eqb]; cbv beta iota; xgo; reflexivity.
Qed.

Theorem tie_range_match pre p t :
  xrun (38 + length p) range_match_params range_match_locals range_match_gen
       [XS (pre ++ p); XZ (Z.of_nat (length pre)); XS [t]] =
  range_match_result (length (pre ++ p)) (range_match p t).
Proof.
  unfold xrun, range_match_params, range_match_locals, range_match_gen, rm_pattern, rm_pattern_index, rm_test, rm_pattern_len,
    rm_negate, rm_ok, rm_c, rm_c2.
  cbn [combine map app Nat.add].
  destruct p as [|c p1].
  - rewrite app_nil_r. cbn [length]. xgo. reflexivity.
  - pose proof (loop_and_tail pre (c :: p1) t) as LOOP.
    remember (length (c :: p1)) as L eqn:HL.
    xgo.
    unfold range_match. cbv zeta. change cBANG with 33. change cCARET with 94. rewrite <- HL.
    destruct (c =? 33) eqn:E33; [|destruct (c =? 94) eqn:E94]; cbn [orb]; cbv beta iota; xgo.
    + refine (LOOP true L (pre ++ [c]) p1 _ _ _ _); [rewrite <- app_assoc; reflexivity | rewrite app_length; cbn [length]; lia | subst L; cbn [length]; lia].
    + refine (LOOP true L (pre ++ [c]) p1 _ _ _ _); [rewrite <- app_assoc; reflexivity | rewrite app_length; cbn [length]; lia | subst L; cbn [length]; lia].
    + refine (LOOP false L pre (c :: p1) _ eq_refl eq_refl _). subst L; lia.
Qed.

(* hence, of the regenerated source, on a class in its documented form (items a, a-b, escapes; closed by a bracket): the
   function returns the index just after the closing bracket exactly when the character belongs to the class (xor negation),
   and -1 otherwise *)
Corollary tie_range_match_doc pre neg items rest t : forallb citem_ok items = true ->
  xrun (38 + length (class_text neg items ++ rest)) range_match_params range_match_locals range_match_gen
       [XS (pre ++ class_text neg items ++ rest); XZ (Z.of_nat (length pre)); XS [t]] =
  Ok (XZ (if xorb (existsb (citem_has t) items) neg then Z.of_nat (length (pre ++ class_text neg items)) else (-1)%Z)).
Proof.
  intro H. rewrite tie_range_match, (class_doc neg items rest t H).
  destruct (xorb (existsb (citem_has t) items) neg); cbn [range_match_result]; [|reflexivity].
  do 2 f_equal. rewrite !app_length. lia.
Qed.

Print Assumptions tie_range_match.
Print Assumptions tie_range_match_doc.
