(* ImplLang.v — a small language for Enforcer.get_implicit_roles_for_user (casbin/enforcer.py), the breadth-first walk behind
   the implicit-role and implicit-permission queries (C15).  translators/implroles.py renders the Python source into this syntax
   on every run (coq/gen/ImplRolesGen.v): every statement must be, as a syntax tree, one of the recognised steps; ImplTie.v
   proves that the interpreter run on the regenerated program computes Mgmt.get_implicit_roles.

   Each step's meaning, in Mgmt.v's vocabulary (trusted reading):
   - res = []                                   the result list starts empty;
   - queue = [name]                             the queue starts with the asked name;
   - while queue: B                             B as long as the queue is not empty (the interpreter's loop fuel is a parameter;
                                                running out of it is Err EFuel, as in the model);
   - name = queue.pop(0)                        the head of the queue is taken off;
   - for rm in self.rm_map.values(): B          B for the role manager of g (if the model has g), then for that of g2 (if it has
                                                g2) - rm_map's insertion order;
   - roles = rm.get_roles(name, domain)         Mgmt.rmk_get_roles on g's manager (a domain manager may create the asked node:
                                                the state is threaded), RoleGraph.rm_get_roles on g2's;
   - for r in roles: B                          B for every listed role, in the listed order;
   - if r not in res: B                         membership by equality of names;
   - res.append(r) / queue.append(r)            at the end of either list;
   - return res. *)
From Coq Require Import List NArith Bool.
From PyCasbin Require Import Base Policy RoleGraph Mgmt.
Import ListNotations.
Local Open Scope N_scope.

Inductive qstmt : Type :=
| QInitRes | QInitQueue
| QWhileQueue (body : list qstmt)
| QPop
| QForRm (body : list qstmt)
| QGetRoles
| QForRoles (body : list qstmt)
| QIfNew (body : list qstmt)
| QAppendRes | QAppendQueue
| QReturnRes.

Inductive which_rm := MG | MG2.

Record qstate := { q_s : mstate; q_res : list name; q_queue : list name;
                   q_name : name; q_rm : which_rm; q_roles : list name; q_r : name }.

Fixpoint for_each {A} (f : qstate -> A -> result qstate) (l : list A) (st : qstate) : result qstate :=
  match l with
  | [] => Ok st
  | x :: l' => match f st x with Ok st' => for_each f l' st' | Err e => Err e end
  end.

Fixpoint while_queue (f : qstate -> result qstate) (wf : nat) (st : qstate) : result qstate :=
  match q_queue st with
  | [] => Ok st
  | _ :: _ =>
      match wf with
      | O => Err EFuel
      | S wf' => match f st with Ok st' => while_queue f wf' st' | Err e => Err e end
      end
  end.

Section Interp.
  Variable k : mkind.
  Variable u d : name.
  Variable WF : nat.                      (* bound on the iterations of the while loop *)

  Definition managers : list which_rm := (if k_g k then [MG] else []) ++ (if k_g2 k then [MG2] else []).

  Definition upd (st : qstate) s res queue nm rm roles r : qstate :=
    {| q_s := s; q_res := res; q_queue := queue; q_name := nm; q_rm := rm; q_roles := roles; q_r := r |}.

  Fixpoint qexec (n : nat) (st : qstate) (c : qstmt) {struct n} : result qstate :=
    match n with
    | O => Err ESyntax
    | S n' =>
      match c with
      | QInitRes => Ok (upd st (q_s st) [] (q_queue st) (q_name st) (q_rm st) (q_roles st) (q_r st))
      | QInitQueue => Ok (upd st (q_s st) (q_res st) [u] (q_name st) (q_rm st) (q_roles st) (q_r st))
      | QWhileQueue body => while_queue (fun st0 => qblock n' st0 body) WF st
      | QPop => match q_queue st with
                | x :: q => Ok (upd st (q_s st) (q_res st) q x (q_rm st) (q_roles st) (q_r st))
                | [] => Err EIndex
                end
      | QForRm body =>
          for_each (fun st0 rm => qblock n' (upd st0 (q_s st0) (q_res st0) (q_queue st0) (q_name st0) rm (q_roles st0) (q_r st0)) body)
                   managers st
      | QGetRoles =>
          match q_rm st with
          | MG => let '(r1, rm') := rmk_get_roles (m_rm (q_s st)) (q_name st) d in
                  Ok (upd st (set_rm (q_s st) rm') (q_res st) (q_queue st) (q_name st) (q_rm st) r1 (q_r st))
          | MG2 => Ok (upd st (q_s st) (q_res st) (q_queue st) (q_name st) (q_rm st) (rm_get_roles (m_rm2 (q_s st)) (q_name st)) (q_r st))
          end
      | QForRoles body =>
          for_each (fun st0 r => qblock n' (upd st0 (q_s st0) (q_res st0) (q_queue st0) (q_name st0) (q_rm st0) (q_roles st0) r) body)
                   (q_roles st) st
      | QIfNew body => if mem N.eqb (q_r st) (q_res st) then Ok st else qblock n' st body
      | QAppendRes => Ok (upd st (q_s st) (q_res st ++ [q_r st]) (q_queue st) (q_name st) (q_rm st) (q_roles st) (q_r st))
      | QAppendQueue => Ok (upd st (q_s st) (q_res st) (q_queue st ++ [q_r st]) (q_name st) (q_rm st) (q_roles st) (q_r st))
      | QReturnRes => Ok st
      end
    end
  with qblock (n : nat) (st : qstate) (b : list qstmt) {struct n} : result qstate :=
    match n with
    | O => Err ESyntax
    | S n' =>
      match b with
      | [] => Ok st
      | c :: r => match qexec n' st c with Ok st' => qblock n' st' r | Err e => Err e end
      end
    end.

  Definition qrun (n : nat) (body : list qstmt) (s : mstate) : result (list name * mstate) :=
    match qblock n {| q_s := s; q_res := []; q_queue := []; q_name := u; q_rm := MG; q_roles := []; q_r := u |} body with
    | Ok st => Ok (q_res st, q_s st)
    | Err e => Err e
    end.
End Interp.
