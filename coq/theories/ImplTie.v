(* ImplTie.v — C15: Enforcer.get_implicit_roles_for_user regenerated from casbin/enforcer.py on this run
   (coq/gen/ImplRolesGen.v), executed by the interpreter of ImplLang.v with the model's bound on the walk as loop fuel,
   computes Mgmt.get_implicit_roles - the function the C15 theorems (implicit roles = reachable roles, duplicate-free,
   enforce <-> some implicit permission) are about. *)
From Coq Require Import List NArith Bool Lia.
From PyCasbin Require Import Base Policy RoleGraph Mgmt ImplLang.
From PyCasbinGen Require Import ImplRolesGen.
Import ListNotations.
Local Open Scope N_scope.

Definition core (st : qstate) : mstate * list name * list name := (q_s st, q_res st, q_queue st).

(* one round of the model's walk *)
Definition impl_step (k : mkind) (d : name) (s : mstate) (res : list name) (n : name) (q : list name) : mstate * list name * list name :=
  let '(r1, rm') := if k_g k then rmk_get_roles (m_rm s) n d else ([], m_rm s) in
  let s' := set_rm s rm' in
  let '(res1, q1) := append_new res q r1 in
  let r2 := if k_g2 k then rm_get_roles (m_rm2 s') n else [] in
  let '(res2, q2) := append_new res1 q1 r2 in
  (s', res2, q2).

Lemma impl_roles_step k d f s res n q :
  impl_roles (S f) k s d res (n :: q) = let '(s', res2, q2) := impl_step k d s res n q in impl_roles f k s' d res2 q2.
Proof.
  cbn [impl_roles]. unfold impl_step.
  destruct (if k_g k then rmk_get_roles (m_rm s) n d else ([], m_rm s)) as [r1 rm'].
  destruct (append_new res q r1) as [res1 q1].
  destruct (append_new res1 q1 _) as [res2 q2]. reflexivity.
Qed.

Lemma set_rm_same s : set_rm s (m_rm s) = s.
Proof. destruct s; reflexivity. Qed.

(* the loop over the listed roles *)
Lemma roles_loop (f : qstate -> name -> result qstate) :
  (forall st r, exists st', f st r = Ok st' /\ q_name st' = q_name st /\
     core st' = (q_s st, if mem N.eqb r (q_res st) then q_res st else q_res st ++ [r],
                          if mem N.eqb r (q_res st) then q_queue st else q_queue st ++ [r])) ->
  forall roles st, exists st', for_each f roles st = Ok st' /\ q_name st' = q_name st /\
     core st' = (q_s st, fst (append_new (q_res st) (q_queue st) roles), snd (append_new (q_res st) (q_queue st) roles)).
Proof.
  intros Hf. induction roles as [|r roles IH]; intro st.
  - exists st. repeat split.
  - cbn [for_each append_new]. destruct (Hf st r) as (st1 & E1 & N1 & C1). rewrite E1.
    destruct (IH st1) as (st2 & E2 & N2 & C2). exists st2. split; [exact E2|]. split; [congruence|]. rewrite C2.
    unfold core in C1. inversion C1 as [[Hs Hr Hq]]. rewrite Hs, Hr, Hq.
    destruct (mem N.eqb r (q_res st)); reflexivity.
Qed.

(* the while loop *)
Lemma while_loop k d (f : qstate -> result qstate) :
  (forall st x q, q_queue st = x :: q -> exists st', f st = Ok st' /\ core st' = impl_step k d (q_s st) (q_res st) x q) ->
  forall wf st,
    match impl_roles wf k (q_s st) d (q_res st) (q_queue st) with
    | Ok (res, s') => exists st', while_queue f wf st = Ok st' /\ q_res st' = res /\ q_s st' = s'
    | Err e => while_queue f wf st = Err e
    end.
Proof.
  intros Hf. induction wf as [|wf IH]; intro st.
  - destruct (q_queue st) as [|x q] eqn:Eq; cbn [impl_roles while_queue]; rewrite Eq.
    + exists st. repeat split.
    + reflexivity.
  - destruct (q_queue st) as [|x q] eqn:Eq.
    + cbn [impl_roles while_queue]. rewrite Eq. exists st. repeat split.
    + rewrite impl_roles_step. cbn [while_queue]. rewrite Eq.
      destruct (Hf st x q Eq) as (st1 & E1 & C1). rewrite E1.
      destruct (impl_step k d (q_s st) (q_res st) x q) as [[s1 res1] q1].
      unfold core in C1. inversion C1 as [[Hs Hr Hq]].
      exact (IH st1).
Qed.

Theorem tie_get_implicit_roles k s u d :
  qrun k u d (names_bound s) 30 implicit_roles_gen s = get_implicit_roles k s u d.
Proof.
  unfold qrun, get_implicit_roles, implicit_roles_gen.
  cbn [qblock qexec upd q_s q_res q_queue q_name q_rm q_roles q_r].
  match goal with |- context [while_queue ?f _ ?st] => pose proof (while_loop k d f) as HW; set (st0 := st) end.
  lapply HW.
  - intro HW'. specialize (HW' (names_bound s) st0). change (q_s st0) with s in HW'. change (q_res st0) with (@nil name) in HW'. change (q_queue st0) with [u] in HW'.
    destruct (impl_roles (names_bound s) k s d [] [u]) as [[res s']|e].
    + destruct HW' as (st' & E & Hr & Hs). rewrite E. cbn [qblock qexec]. rewrite Hr, Hs. reflexivity.
    + rewrite HW'. reflexivity.
  - clear HW. intros st x q Eq. rewrite Eq.
    cbn [upd q_s q_res q_queue q_name q_rm q_roles q_r].
    unfold impl_step, managers.
    destruct (k_g k) eqn:Eg; destruct (k_g2 k) eqn:Eg2; cbn [app for_each upd q_s q_res q_queue q_name q_rm q_roles q_r].
    + destruct (rmk_get_roles (m_rm (q_s st)) x d) as [r1 rm'] eqn:Er1.
      cbn [upd q_s q_res q_queue q_name q_rm q_roles q_r].
      match goal with |- context [for_each ?f r1 ?stA] => destruct (roles_loop f ltac:(intros stx r; cbn beta; destruct (mem N.eqb r (q_res stx)); eexists; repeat split) r1 stA) as (st1 & E1 & N1 & C1) end.
      rewrite E1. cbn [core q_s q_res q_queue] in C1. inversion C1 as [[Hs1 Hr1 Hq1]].
      cbn [upd q_s q_res q_queue q_name q_rm q_roles q_r].
      match goal with |- context [for_each ?f ?rs ?stA] => destruct (roles_loop f ltac:(intros stx r; cbn beta; destruct (mem N.eqb r (q_res stx)); eexists; repeat split) rs stA) as (st2 & E2 & N2 & C2) end.
      rewrite E2. exists st2. split; [reflexivity|].
      cbn [core q_s q_res q_queue q_name] in C2, N1. rewrite C2, Hs1, Hr1, Hq1, N1. cbn [upd q_s q_res q_queue q_name q_rm q_roles q_r].
      destruct (append_new (q_res st) q r1) as [res1 q1]. cbn [fst snd].
      destruct (append_new res1 q1 _) as [res2 q2]. reflexivity.
    + destruct (rmk_get_roles (m_rm (q_s st)) x d) as [r1 rm'] eqn:Er1.
      cbn [upd q_s q_res q_queue q_name q_rm q_roles q_r].
      match goal with |- context [for_each ?f r1 ?stA] => destruct (roles_loop f ltac:(intros stx r; cbn beta; destruct (mem N.eqb r (q_res stx)); eexists; repeat split) r1 stA) as (st1 & E1 & N1 & C1) end.
      rewrite E1. exists st1. split; [reflexivity|].
      cbn [core q_s q_res q_queue] in C1. rewrite C1. cbn [upd q_s q_res q_queue q_name q_rm q_roles q_r append_new].
      destruct (append_new (q_res st) q r1) as [res1 q1]. reflexivity.
    + match goal with |- context [for_each ?f ?rs ?stA] => destruct (roles_loop f ltac:(intros stx r; cbn beta; destruct (mem N.eqb r (q_res stx)); eexists; repeat split) rs stA) as (st2 & E2 & N2 & C2) end.
      rewrite E2. exists st2. split; [reflexivity|].
      cbn [core q_s q_res q_queue] in C2. rewrite C2. rewrite set_rm_same. cbn [upd q_s q_res q_queue q_name q_rm q_roles q_r append_new].
      destruct (append_new (q_res st) q _) as [res2 q2]. reflexivity.
    + eexists. split; [reflexivity|]. cbn [core q_s q_res q_queue append_new]. rewrite set_rm_same. reflexivity.
Qed.

Print Assumptions tie_get_implicit_roles.
