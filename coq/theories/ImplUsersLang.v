(* ImplUsersLang.v — a small language for Enforcer.get_implicit_users_for_permission (casbin/enforcer.py; C15).
   translators/implusers.py renders the Python source into this syntax on every run (coq/gen/ImplUsersGen.v): every statement
   must be, as a syntax tree, one of the recognised steps, and the helpers it calls must be the recognised functions;
   ImplUsersTie.v proves that the interpreter run on the regenerated program computes Mgmt.get_implicit_users_for_permission.

   Each step's meaning, in Mgmt.v's vocabulary (trusted reading):
   - p_subjects = self.get_all_subjects()                                   the distinct values of the subject column of p, in
     order of first occurrence (Policy.values_for_field; a rule too short for the column raises);
   - g_inherit / g_subjects = self.model.get_values_for_field_in_policy("g", "g", 1 / 0)     the same over g's columns 1 / 0;
   - subjects = array_remove_duplicates(g_subjects + p_subjects)            checked to be list(OrderedDict.fromkeys(s)): first
     occurrences, in order (Mgmt.dedup_first);
   - res = list();  subjects = set_subtract(subjects, g_inherit)            checked to be [i for i in a if i not in b];
   - for user in subjects: B;  req = join_slice(user, *permission)          checked to be [a] extended by b;
   - allowed = self.enforce( *req)                                          the decision of Mgmt.enforce_ex_m (the state is
     threaded: a decision on a domains model may build a per-domain manager); an error ends the call;
   - if allowed: B;  res.append(user);  return res. *)
From Coq Require Import List NArith Bool.
From PyCasbin Require Import Base Policy RoleGraph Mgmt.
Import ListNotations.
Local Open Scope N_scope.

Inductive ustmt : Type :=
| UPSubjects | UGInherit | UGSubjects | USubjectsDedup | UInitRes | USubjectsSubtract
| UForUser (body : list ustmt)
| UReq | UEnforce
| UIfAllowed (body : list ustmt)
| UAppendUser | UReturnRes.

Record ustate := { u_s : mstate; u_psub : list name; u_ginh : list name; u_gsub : list name; u_subjects : list name;
                   u_res : list name; u_user : name; u_req : rule; u_allowed : bool }.

Inductive uout := UOk (st : ustate) | UErr (s : mstate) (e : N).

Fixpoint ufor (f : ustate -> name -> uout) (l : list name) (st : ustate) : uout :=
  match l with
  | [] => UOk st
  | x :: l' => match f st x with UOk st' => ufor f l' st' | UErr s e => UErr s e end
  end.

Section Interp.
  Variable k : mkind.
  Variable perm : list name.

  Definition mk s a b c d e f g h : ustate :=
    {| u_s := s; u_psub := a; u_ginh := b; u_gsub := c; u_subjects := d; u_res := e; u_user := f; u_req := g; u_allowed := h |}.

  Fixpoint uexec (n : nat) (st : ustate) (c : ustmt) {struct n} : uout :=
    match n with
    | O => UErr (u_s st) ESyntax
    | S n' =>
      match c with
      | UPSubjects => match values_for_field (m_p (u_s st)) (i_sub k) [] with
                      | Ok v => UOk (mk (u_s st) v (u_ginh st) (u_gsub st) (u_subjects st) (u_res st) (u_user st) (u_req st) (u_allowed st))
                      | Err e => UErr (u_s st) e
                      end
      | UGInherit => match values_for_field (m_g (u_s st)) 1 [] with
                     | Ok v => UOk (mk (u_s st) (u_psub st) v (u_gsub st) (u_subjects st) (u_res st) (u_user st) (u_req st) (u_allowed st))
                     | Err e => UErr (u_s st) e
                     end
      | UGSubjects => match values_for_field (m_g (u_s st)) 0 [] with
                      | Ok v => UOk (mk (u_s st) (u_psub st) (u_ginh st) v (u_subjects st) (u_res st) (u_user st) (u_req st) (u_allowed st))
                      | Err e => UErr (u_s st) e
                      end
      | USubjectsDedup => UOk (mk (u_s st) (u_psub st) (u_ginh st) (u_gsub st) (dedup_first [] (u_gsub st ++ u_psub st)) (u_res st)
                                  (u_user st) (u_req st) (u_allowed st))
      | UInitRes => UOk (mk (u_s st) (u_psub st) (u_ginh st) (u_gsub st) (u_subjects st) [] (u_user st) (u_req st) (u_allowed st))
      | USubjectsSubtract => UOk (mk (u_s st) (u_psub st) (u_ginh st) (u_gsub st) (set_subtract (u_subjects st) (u_ginh st)) (u_res st)
                                     (u_user st) (u_req st) (u_allowed st))
      | UForUser body =>
          ufor (fun st0 x => ublock n' (mk (u_s st0) (u_psub st0) (u_ginh st0) (u_gsub st0) (u_subjects st0) (u_res st0) x (u_req st0) (u_allowed st0)) body)
               (u_subjects st) st
      | UReq => UOk (mk (u_s st) (u_psub st) (u_ginh st) (u_gsub st) (u_subjects st) (u_res st) (u_user st) (u_user st :: perm) (u_allowed st))
      | UEnforce => match enforce_ex_m k (u_s st) (u_req st) with
                    | (s', Ok (b, _)) => UOk (mk s' (u_psub st) (u_ginh st) (u_gsub st) (u_subjects st) (u_res st) (u_user st) (u_req st) b)
                    | (s', Err e) => UErr s' e
                    end
      | UIfAllowed body => if u_allowed st then ublock n' st body else UOk st
      | UAppendUser => UOk (mk (u_s st) (u_psub st) (u_ginh st) (u_gsub st) (u_subjects st) (u_res st ++ [u_user st]) (u_user st) (u_req st) (u_allowed st))
      | UReturnRes => UOk st
      end
    end
  with ublock (n : nat) (st : ustate) (b : list ustmt) {struct n} : uout :=
    match n with
    | O => UErr (u_s st) ESyntax
    | S n' =>
      match b with
      | [] => UOk st
      | c :: r => match uexec n' st c with UOk st' => ublock n' st' r | UErr s e => UErr s e end
      end
    end.

  Definition urun (n : nat) (body : list ustmt) (s : mstate) : mstate * result (list name) :=
    match ublock n (mk s [] [] [] [] [] 0 [] false) body with
    | UOk st => (u_s st, Ok (u_res st))
    | UErr s' e => (s', Err e)
    end.
End Interp.
