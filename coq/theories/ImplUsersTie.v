(* ImplUsersTie.v — C15: Enforcer.get_implicit_users_for_permission regenerated from casbin/enforcer.py on this run
   (coq/gen/ImplUsersGen.v), executed by the interpreter of ImplUsersLang.v, computes
   Mgmt.get_implicit_users_for_permission (result and threaded state, errors included). *)
From Coq Require Import List NArith Bool Lia.
From PyCasbin Require Import Base Policy RoleGraph Mgmt ImplUsersLang.
From PyCasbinGen Require Import ImplUsersGen.
Import ListNotations.
Local Open Scope N_scope.

Lemma users_loop k perm (f : ustate -> name -> uout) :
  (forall st x,
     match enforce_ex_m k (u_s st) (x :: perm) with
     | (s', Ok (b, _)) => exists st', f st x = UOk st' /\ u_s st' = s' /\ u_res st' = (if b then u_res st ++ [x] else u_res st)
     | (s', Err e) => f st x = UErr s' e
     end) ->
  forall subjects st,
    match users_allowed k (u_s st) subjects perm with
    | (s'', Ok l) => exists st', ufor f subjects st = UOk st' /\ u_s st' = s'' /\ u_res st' = u_res st ++ l
    | (s'', Err e) => ufor f subjects st = UErr s'' e
    end.
Proof.
  intro Hf. induction subjects as [|x rest IH]; intro st.
  - cbn [users_allowed ufor]. exists st. rewrite app_nil_r. repeat split.
  - cbn [users_allowed ufor]. specialize (Hf st x).
    destruct (enforce_ex_m k (u_s st) (x :: perm)) as [s' [[b o]|e]].
    + destruct Hf as (st1 & E1 & Hs1 & Hr1). rewrite E1. specialize (IH st1). rewrite Hs1 in IH.
      destruct (users_allowed k s' rest perm) as [s'' [l|e]].
      * destruct IH as (st2 & E2 & Hs2 & Hr2). exists st2. split; [exact E2|]. split; [exact Hs2|].
        rewrite Hr2, Hr1. destruct b; [rewrite <- app_assoc|]; reflexivity.
      * exact IH.
    + rewrite Hf. reflexivity.
Qed.

Theorem tie_get_implicit_users_for_permission k s perm :
  urun k perm 30 implicit_users_gen s = get_implicit_users_for_permission k s perm.
Proof.
  unfold urun, get_implicit_users_for_permission, implicit_users_gen.
  cbn [ublock uexec mk u_s u_psub u_ginh u_gsub u_subjects u_res u_user u_req u_allowed].
  destruct (values_for_field (m_p s) (i_sub k) []) as [psub|e1]; cbn [mk u_s u_psub u_ginh u_gsub u_subjects u_res u_user u_req u_allowed].
  2:{ destruct (values_for_field (m_g s) 1 []); destruct (values_for_field (m_g s) 0 []); reflexivity. }
  destruct (values_for_field (m_g s) 1 []) as [ginh|e2]; cbn [mk u_s u_psub u_ginh u_gsub u_subjects u_res u_user u_req u_allowed].
  2:{ destruct (values_for_field (m_g s) 0 []); reflexivity. }
  destruct (values_for_field (m_g s) 0 []) as [gsub|e3]; cbn [mk u_s u_psub u_ginh u_gsub u_subjects u_res u_user u_req u_allowed]; [|reflexivity].
  match goal with |- context [ufor ?f ?subj ?st0] => pose proof (users_loop k perm f) as HL; set (st := st0) end.
  lapply HL.
  - clear HL. intro HL. specialize (HL (set_subtract (dedup_first [] (gsub ++ psub)) ginh) st).
    change (u_s st) with s in HL. change (u_res st) with (@nil name) in HL.
    destruct (users_allowed k s _ perm) as [s'' [l|e]].
    + destruct HL as (st' & E & Hs & Hr). rewrite E. cbn [ublock uexec]. rewrite Hs, Hr. reflexivity.
    + rewrite HL. reflexivity.
  - clear HL st. intros st x. cbn [mk u_s u_psub u_ginh u_gsub u_subjects u_res u_user u_req u_allowed].
    destruct (enforce_ex_m k (u_s st) (x :: perm)) as [s' [[b o]|e]]; [|reflexivity].
    cbn [mk u_s u_psub u_ginh u_gsub u_subjects u_res u_user u_req u_allowed].
    destruct b; eexists; repeat split.
Qed.

Print Assumptions tie_get_implicit_users_for_permission.
