(* IntLang.v — a small language for the internal API of casbin/internal_enforcer.py (the methods every management
   call ends in: change the model, tell the adapter, notify the watcher) and its interpreter.  translators/internal.py
   renders the Python source of those methods into this syntax on every run (coq/gen/InternalGen.v); InternalTie.v
   proves that the interpreter, run on the regenerated program, computes Mgmt.v's i_add / i_add_many / i_remove / ... -
   the functions the C09 (store mirrors memory), C20 (one notification per successful change) and C11 theorems are about.

   What the interpreter fixes as the meaning of the accepted Python subset (trusted, stated in the evidence):
     * self.model.<m>(sec, ptype, ...) is Policy.v's function for <m> on the rule list of the addressed policy type
       (tied to casbin/model/policy.py by PolicyTie.v); an exception of it propagates with nothing else done;
     * self.adapter.<m>(sec, ptype, ...) records the call; a FAITHFUL adapter returns None (never False) and offers every
       optional method (hasattr(self.adapter, ...) is true);
     * self.watcher.<m>(...) records the notification; callable(getattr(self.watcher, "<m>", None)) is decided by the
       watcher's kind: kind 1 offers update() only, kind 2 the WatcherEx callbacks, kind 3 also update_for_update_policy/-ies;
     * `x is False` is true only of the boolean False; `not x` of a boolean, None (true) or a list (true iff empty). *)
From Coq Require Import List NArith Bool.
From PyCasbin Require Import Base Policy Mgmt.
Import ListNotations.
Local Open Scope N_scope.

Inductive mmeth := M_add_policy | M_add_policies | M_update_policy | M_update_policies | M_remove_policy
                 | M_remove_policies | M_remove_filtered_policy | M_remove_filtered_policy_returns_effects.
Inductive ameth := A_add_policy | A_add_policies | A_update_policy | A_update_policies | A_remove_policy
                 | A_remove_policies | A_remove_filtered_policy.
Inductive wmeth := W_update | W_update_for_add_policy | W_update_for_add_policies | W_update_for_update_policy
                 | W_update_for_update_policies | W_update_for_remove_policy | W_update_for_remove_policies
                 | W_update_for_remove_filtered_policy.

Inductive iarg := ARule (r : rule) | ARules (l : list rule) | ANat (n : nat) | ANames (l : list name).
Inductive ival := IVB (b : bool) | IVNone | IVArg (a : iarg).

Inductive iex : Type :=
| IVar (x : N)
| IB (b : bool)
| INot (e : iex)
| IAnd (a b : iex)
| IIsFalse (e : iex)
| IAdapter | IAutoSave | IWatcher | IAutoNotify
| IAdapterHas (a : ameth)
| IWatcherOffers (w : wmeth)
| IModel (m : mmeth) (args : list iex)
| IACall (a : ameth) (args : list iex)
| ILenIsZero (e : iex)
| IListCopy (e : iex).

Inductive ist : Type :=
| ISAssign (x : N) (e : iex)
| ISIf (c : iex) (a b : list ist)
| ISReturn (e : iex)
| ISWatcher (w : wmeth) (with_sec_ptype : bool) (args : list iex)
| ISExpr (e : iex).

Record imeth := { im_params : list N; im_body : list ist }.
Definition iprog := list (N * imeth).

(* the enforcer's configuration as the internal API sees it *)
Record ienv := {
  ie_pt : N;                       (* the addressed policy type (sec, ptype are passed through) *)
  ie_prio : option nat;            (* Some i: a model with a priority column at i, for p *)
  ie_prio_tok : option nat;        (* "p_priority" in tokens *)
  ie_adapter : bool;               (* self.adapter is set *)
  ie_auto_save : bool;
  ie_watcher : bool;               (* self.watcher is set *)
  ie_auto_notify : bool;
  ie_offers_ex : bool;             (* the watcher offers the WatcherEx callbacks *)
  ie_offers_upd : bool             (* ... and update_for_update_policy / update_for_update_policies *)
}.

Record ist8 := { i_store : list rule; i_ac : list acall; i_wc : list wcall; i_loc : list (N * ival) }.

Inductive iout := INext (s : ist8) | IRet (v : ival) (s : ist8) | IErr (c : N) (s : ist8).

Definition offers (E : ienv) (w : wmeth) : bool :=
  match w with
  | W_update => true
  | W_update_for_update_policy | W_update_for_update_policies => ie_offers_upd E
  | _ => ie_offers_ex E
  end.

(* self.model.<m>(sec, ptype, args) on the addressed rule list *)
Definition model_call (E : ienv) (m : mmeth) (args : list iarg) (l : list rule) : result (list rule * ival) :=
  match m, args with
  | M_add_policy, [ARule r] => let '(l', b) := add_policy (ie_prio E) l r in Ok (l', IVB b)
  | M_add_policies, [ARules rs] => let '(l', b) := add_policies (ie_prio E) l rs in Ok (l', IVB b)
  | M_remove_policy, [ARule r] => let '(l', b) := remove_policy l r in Ok (l', IVB b)
  | M_remove_policies, [ARules rs] => let '(l', b) := remove_policies l rs in Ok (l', IVB b)
  | M_update_policy, [ARule o; ARule n] =>
      match update_policy (ie_prio_tok E) l o n with Ok (l', b) => Ok (l', IVB b) | Err c => Err c end
  | M_update_policies, [ARules os; ARules ns] =>
      match update_policies (ie_prio_tok E) l os ns with Ok (l', b) => Ok (l', IVB b) | Err c => Err c end
  | M_remove_filtered_policy, [ANat i; ANames vs] =>
      match remove_filtered l i vs with Ok (l', b) => Ok (l', IVB b) | Err c => Err c end
  | M_remove_filtered_policy_returns_effects, [ANat i; ANames vs] =>
      match remove_filtered_effects l i vs with Ok (l', gone) => Ok (l', IVArg (ARules gone)) | Err c => Err c end
  | _, _ => Err 90
  end.

Definition adapter_call (E : ienv) (a : ameth) (args : list iarg) : option acall :=
  match a, args with
  | A_add_policy, [ARule r] => Some (AAdd (ie_pt E) r)
  | A_add_policies, [ARules rs] => Some (AAddMany (ie_pt E) rs)
  | A_remove_policy, [ARule r] => Some (ARemove (ie_pt E) r)
  | A_remove_policies, [ARules rs] => Some (ARemoveMany (ie_pt E) rs)
  | A_remove_filtered_policy, [ANat i; ANames vs] => Some (ARemoveFiltered (ie_pt E) i vs)
  | A_update_policy, [ARule o; ARule n] => Some (AUpdate (ie_pt E) o n)
  | A_update_policies, [ARules os; ARules ns] => Some (AUpdateMany (ie_pt E) os ns)
  | _, _ => None
  end.

(* with_sec_ptype: the callback is called as (sec, ptype, ...) - the update callbacks get the rules only *)
Definition watcher_call (E : ienv) (w : wmeth) (sp : bool) (args : list iarg) : option wcall :=
  match w, sp, args with
  | W_update, false, [] => Some WUpdate
  | W_update_for_add_policy, true, [ARule r] => Some (WAdd (ie_pt E) r)
  | W_update_for_add_policies, true, [ARules rs] => Some (WAddMany (ie_pt E) rs)
  | W_update_for_remove_policy, true, [ARule r] => Some (WRemove (ie_pt E) r)
  | W_update_for_remove_policies, true, [ARules rs] => Some (WRemoveMany (ie_pt E) rs)
  | W_update_for_remove_filtered_policy, true, [ANat i; ANames vs] => Some (WRemoveFiltered (ie_pt E) i vs)
  | W_update_for_update_policy, false, [ARule o; ARule n] => Some (WUpdatePolicy o n)
  | W_update_for_update_policies, false, [ARules os; ARules ns] => Some (WUpdatePolicies os ns)
  | _, _, _ => None
  end.

Fixpoint ilookup_m (x : N) (l : list (N * imeth)) : option imeth :=
  match l with [] => None | (y, v) :: r => if x =? y then Some v else ilookup_m x r end.

Fixpoint ilookup (x : N) (l : list (N * ival)) : option ival :=
  match l with [] => None | (y, v) :: r => if x =? y then Some v else ilookup x r end.

Definition itruth (v : ival) : result bool :=
  match v with
  | IVB b => Ok b
  | IVNone => Ok false
  | IVArg (ARules l) => Ok (match l with [] => false | _ => true end)
  | IVArg (ANames l) => Ok (match l with [] => false | _ => true end)
  | IVArg (ARule l) => Ok (match l with [] => false | _ => true end)
  | IVArg (ANat _) => Err 90
  end.

Definition set_iloc (x : N) (v : ival) (s : ist8) : ist8 :=
  {| i_store := i_store s; i_ac := i_ac s; i_wc := i_wc s; i_loc := (x, v) :: i_loc s |}.

Fixpoint as_args (vs : list ival) : option (list iarg) :=
  match vs with
  | [] => Some []
  | IVArg a :: r => match as_args r with Some r' => Some (a :: r') | None => None end
  | _ :: _ => None
  end.

Section Interp.
  Variable E : ienv.

  (* expressions may change the state (model and adapter calls) *)
  Fixpoint ieval (n : nat) (s : ist8) (e : iex) {struct n} : result ival * ist8 :=
    match n with
    | O => (Err EFuel, s)
    | S n' =>
      match e with
      | IVar x => (match ilookup x (i_loc s) with Some v => Ok v | None => Err EName end, s)
      | IB b => (Ok (IVB b), s)
      | INot a => match ieval n' s a with
                  | (Ok v, s') => (match itruth v with Ok b => Ok (IVB (negb b)) | Err c => Err c end, s')
                  | (Err c, s') => (Err c, s') end
      | IAnd a b => match ieval n' s a with
                    | (Ok v, s') => match itruth v with
                                    | Ok true => ieval n' s' b
                                    | Ok false => (Ok v, s')
                                    | Err c => (Err c, s') end
                    | (Err c, s') => (Err c, s') end
      | IIsFalse a => match ieval n' s a with
                      | (Ok (IVB false), s') => (Ok (IVB true), s')
                      | (Ok _, s') => (Ok (IVB false), s')
                      | (Err c, s') => (Err c, s') end
      | IAdapter => (Ok (IVB (ie_adapter E)), s)
      | IAutoSave => (Ok (IVB (ie_auto_save E)), s)
      | IWatcher => (Ok (IVB (ie_watcher E)), s)
      | IAutoNotify => (Ok (IVB (ie_auto_notify E)), s)
      | IAdapterHas _ => (Ok (IVB true), s)
      | IWatcherOffers w => (Ok (IVB (offers E w)), s)
      | IModel m args =>
          match ievals n' s args with
          | (Ok vs, s') =>
              match as_args vs with
              | None => (Err 90, s')
              | Some al => match model_call E m al (i_store s') with
                           | Ok (l', v) => (Ok v, {| i_store := l'; i_ac := i_ac s'; i_wc := i_wc s'; i_loc := i_loc s' |})
                           | Err c => (Err c, s')
                           end
              end
          | (Err c, s') => (Err c, s')
          end
      | IACall a args =>
          match ievals n' s args with
          | (Ok vs, s') =>
              match as_args vs with
              | None => (Err 90, s')
              | Some al => match adapter_call E a al with
                           | Some c => (Ok IVNone, {| i_store := i_store s'; i_ac := i_ac s' ++ [c]; i_wc := i_wc s'; i_loc := i_loc s' |})
                           | None => (Err 90, s')
                           end
              end
          | (Err c, s') => (Err c, s')
          end
      | ILenIsZero a => match ieval n' s a with
                        | (Ok (IVArg (ARules l)), s') => (Ok (IVB (match l with [] => true | _ => false end)), s')
                        | (Ok _, s') => (Err 90, s')
                        | (Err c, s') => (Err c, s') end
      | IListCopy a => ieval n' s a
      end
    end
  with ievals (n : nat) (s : ist8) (es : list iex) {struct n} : result (list ival) * ist8 :=
    match n with
    | O => (Err EFuel, s)
    | S n' =>
      match es with
      | [] => (Ok [], s)
      | e :: r => match ieval n' s e with
                  | (Ok v, s') => match ievals n' s' r with
                                  | (Ok vs, s'') => (Ok (v :: vs), s'')
                                  | (Err c, s'') => (Err c, s'') end
                  | (Err c, s') => (Err c, s') end
      end
    end.

  Fixpoint iexec (n : nat) (s : ist8) (c : ist) {struct n} : iout :=
    match n with
    | O => IErr EFuel s
    | S n' =>
      match c with
      | ISAssign x e => match ieval n' s e with (Ok v, s') => INext (set_iloc x v s') | (Err c, s') => IErr c s' end
      | ISIf c a b => match ieval n' s c with
                      | (Ok v, s') => match itruth v with
                                      | Ok true => iblock n' s' a
                                      | Ok false => iblock n' s' b
                                      | Err c => IErr c s' end
                      | (Err c, s') => IErr c s' end
      | ISReturn e => match ieval n' s e with (Ok v, s') => IRet v s' | (Err c, s') => IErr c s' end
      | ISWatcher w sp args =>
          match ievals n' s args with
          | (Ok vs, s') =>
              match as_args vs with
              | None => IErr 90 s'
              | Some al => match watcher_call E w sp al with
                           | Some c => INext {| i_store := i_store s'; i_ac := i_ac s'; i_wc := i_wc s' ++ [c]; i_loc := i_loc s' |}
                           | None => IErr 90 s'
                           end
              end
          | (Err c, s') => IErr c s'
          end
      | ISExpr e => match ieval n' s e with (Ok _, s') => INext s' | (Err c, s') => IErr c s' end
      end
    end
  with iblock (n : nat) (s : ist8) (b : list ist) {struct n} : iout :=
    match n with
    | O => IErr EFuel s
    | S n' =>
      match b with
      | [] => INext s
      | c :: r => match iexec n' s c with INext s' => iblock n' s' r | o => o end
      end
    end.

  Fixpoint ibind (ps : list N) (vs : list ival) : option (list (N * ival)) :=
    match ps, vs with
    | [], [] => Some []
    | p :: ps', v :: vs' => match ibind ps' vs' with Some r => Some ((p, v) :: r) | None => None end
    | _, _ => None
    end.

  (* a call of an internal method: (value or exception, rule list afterwards, adapter calls, notifications) *)
  Definition irun (P : iprog) (n : nat) (m : N) (l : list rule) (args : list iarg)
    : result ival * list rule * list acall * list wcall :=
    match ilookup_m m P with
    | None => (Err EAttr, l, [], [])
    | Some mt =>
        match ibind (im_params mt) (map IVArg args) with
        | None => (Err EType, l, [], [])
        | Some lc =>
            match iblock n {| i_store := l; i_ac := []; i_wc := []; i_loc := lc |} (im_body mt) with
            | IRet v s => (Ok v, i_store s, i_ac s, i_wc s)
            | INext s => (Ok IVNone, i_store s, i_ac s, i_wc s)
            | IErr c s => (Err c, i_store s, i_ac s, i_wc s)
            end
        end
    end.
End Interp.
