(* InternalTie.v — C09/C20/C11: the internal API regenerated from casbin/internal_enforcer.py on this run
   (coq/gen/InternalGen.v), executed by the interpreter of IntLang.v, computes Mgmt.v's i_add / i_add_many / i_remove /
   i_remove_many / i_remove_filtered / i_remove_filtered_eff and the update steps: same result, same rule list, same
   adapter calls in the same order, same notifications - for every configuration (adapter, auto-save, watcher kind,
   auto-notify), every rule list and all arguments.  Hence CallsProofs.v / MirrorProofs.v speak of what the source says now.

   Proof method: the model call that opens every method is resolved through its equation (iblock_assign_model); everything
   after it is a finite case split on the configuration booleans and closed computation. *)
From Coq Require Import List NArith Bool.
From PyCasbin Require Import Base Policy Mgmt IntLang.
From PyCasbinGen Require Import InternalGen.
Import ListNotations.
Local Open Scope N_scope.

Definition IFUEL : nat := 40.

Section Eqs.
  Variable E : ienv.
  Lemma iblock_assign_model n s x m args rest vs al l' v :
    ievals E n s args = (Ok vs, s) -> as_args vs = Some al -> model_call E m al (i_store s) = Ok (l', v) ->
    iblock E (S (S (S n))) s (ISAssign x (IModel m args) :: rest) =
    iblock E (S (S n)) (set_iloc x v {| i_store := l'; i_ac := i_ac s; i_wc := i_wc s; i_loc := i_loc s |}) rest.
  Proof.
    intros H1 H2 H3.
    change (iblock E (S (S (S n))) s (ISAssign x (IModel m args) :: rest)) with
      (match (match (match ievals E n s args with
                     | (Ok vs, s') =>
                         match as_args vs with
                         | None => (Err 90, s')
                         | Some al => match model_call E m al (i_store s') with
                                      | Ok (l', v) => (Ok v, {| i_store := l'; i_ac := i_ac s'; i_wc := i_wc s'; i_loc := i_loc s' |})
                                      | Err c => (Err c, s')
                                      end
                         end
                     | (Err c, s') => (Err c, s')
                     end) with (Ok v, s') => INext (set_iloc x v s') | (Err c, s') => IErr c s' end)
       with INext s' => iblock E (S (S n)) s' rest | o => o end).
    rewrite H1, H2, H3. reflexivity.
  Qed.
  Lemma iblock_assign_model_err n s x m args rest vs al c :
    ievals E n s args = (Ok vs, s) -> as_args vs = Some al -> model_call E m al (i_store s) = Err c ->
    iblock E (S (S (S n))) s (ISAssign x (IModel m args) :: rest) = IErr c s.
  Proof.
    intros H1 H2 H3.
    change (iblock E (S (S (S n))) s (ISAssign x (IModel m args) :: rest)) with
      (match (match (match ievals E n s args with
                     | (Ok vs, s') =>
                         match as_args vs with
                         | None => (Err 90, s')
                         | Some al => match model_call E m al (i_store s') with
                                      | Ok (l', v) => (Ok v, {| i_store := l'; i_ac := i_ac s'; i_wc := i_wc s'; i_loc := i_loc s' |})
                                      | Err c => (Err c, s')
                                      end
                         end
                     | (Err c, s') => (Err c, s')
                     end) with (Ok v, s') => INext (set_iloc x v s') | (Err c, s') => IErr c s' end)
       with INext s' => iblock E (S (S n)) s' rest | o => o end).
    rewrite H1, H2, H3. reflexivity.
  Qed.
  Lemma iblock_step n s c r s' : iexec E n s c = INext s' -> iblock E (S n) s (c :: r) = iblock E n s' r.
  Proof.
    intro H. change (iblock E (S n) s (c :: r)) with (match iexec E n s c with INext s' => iblock E n s' r | o => o end).
    rewrite H. reflexivity.
  Qed.
End Eqs.

(* what a successful change sends to the watcher *)
Definition wnote (E : ienv) (offered : bool) (specific : wcall) : list wcall :=
  if ie_watcher E && ie_auto_notify E then (if offered then [specific] else [WUpdate]) else [].

Ltac open_method :=
  unfold irun, IFUEL;
  match goal with |- context [ilookup_m ?m ?P] => let v := eval lazy in (ilookup_m m P) in change (ilookup_m m P) with v end;
  cbv beta iota;
  match goal with |- context [ibind ?a ?b] => let v := eval lazy in (ibind a b) in change (ibind a b) with v end;
  cbv beta iota; cbn [im_body].

Ltac model_ok H :=
  match goal with |- context [iblock ?E (S (S (S ?n))) ?s (ISAssign ?x (IModel ?m ?args) :: ?rest)] =>
    erewrite (iblock_assign_model E n s x m args rest _ _ _ _ eq_refl eq_refl H) end.
Ltac model_err H :=
  match goal with |- context [iblock ?E (S (S (S ?n))) ?s (ISAssign ?x (IModel ?m ?args) :: ?rest)] =>
    erewrite (iblock_assign_model_err E n s x m args rest _ _ _ eq_refl eq_refl H) end.

Lemma tie_add E l r l' b : add_policy (ie_prio E) l r = (l', b) ->
  irun E internal_gen IFUEL im_add_policy l [ARule r] =
  if negb b then (Ok (IVB false), l', [], [])
  else if ie_adapter E && ie_auto_save E
       then (Ok (IVB true), l', [AAdd (ie_pt E) r], wnote E (ie_offers_ex E) (WAdd (ie_pt E) r))
       else (Ok (IVB true), l', [], []).
Proof.
  intro H. open_method.
  assert (HM : model_call E M_add_policy [ARule r] l = Ok (l', IVB b)) by (cbn [model_call]; rewrite H; reflexivity).
  model_ok HM. unfold wnote.
  destruct E as [pt prio tok ad sv w an ex up]; cbn [ie_pt ie_adapter ie_auto_save ie_watcher ie_auto_notify ie_offers_ex].
  destruct b, ad, sv, w, an, ex; reflexivity.
Qed.

Ltac finish_flags E :=
  unfold wnote;
  destruct E as [pt prio tok ad sv w an ex up];
  cbn [ie_pt ie_adapter ie_auto_save ie_watcher ie_auto_notify ie_offers_ex ie_offers_upd];
  repeat match goal with b : bool |- _ => destruct b end; reflexivity.

Lemma tie_add_many E l rs l' b : add_policies (ie_prio E) l rs = (l', b) ->
  irun E internal_gen IFUEL im_add_policies l [ARules rs] =
  if negb b then (Ok (IVB false), l', [], [])
  else if ie_adapter E && ie_auto_save E
       then (Ok (IVB true), l', [AAddMany (ie_pt E) rs], wnote E (ie_offers_ex E) (WAddMany (ie_pt E) rs))
       else (Ok (IVB true), l', [], []).
Proof.
  intro H. open_method.
  assert (HM : model_call E M_add_policies [ARules rs] l = Ok (l', IVB b)) by (cbn [model_call]; rewrite H; reflexivity).
  model_ok HM. finish_flags E.
Qed.

Lemma tie_remove E l r l' b : remove_policy l r = (l', b) ->
  irun E internal_gen IFUEL im_remove_policy l [ARule r] =
  if negb b then (Ok (IVB false), l', [], [])
  else if ie_adapter E && ie_auto_save E
       then (Ok (IVB true), l', [ARemove (ie_pt E) r], wnote E (ie_offers_ex E) (WRemove (ie_pt E) r))
       else (Ok (IVB true), l', [], []).
Proof.
  intro H. open_method.
  assert (HM : model_call E M_remove_policy [ARule r] l = Ok (l', IVB b)) by (cbn [model_call]; rewrite H; reflexivity).
  model_ok HM. finish_flags E.
Qed.

Ltac first_step :=
  match goal with |- context [iblock ?E (S ?n) ?s (?c :: ?r)] =>
    let o := eval lazy in (iexec E n s c) in
    lazymatch o with INext ?s' => rewrite (iblock_step E n s c r s' eq_refl) end end.

Lemma tie_remove_many E l rs l' b : remove_policies l rs = (l', b) ->
  irun E internal_gen IFUEL im_remove_policies l [ARules rs] =
  if negb b then (Ok (IVB false), l', [], [])
  else if ie_adapter E && ie_auto_save E
       then (Ok (IVB true), l', [ARemoveMany (ie_pt E) rs], wnote E (ie_offers_ex E) (WRemoveMany (ie_pt E) rs))
       else (Ok (IVB true), l', [], []).
Proof.
  intro H. open_method. first_step.
  assert (HM : model_call E M_remove_policies [ARules rs] l = Ok (l', IVB b)) by (cbn [model_call]; rewrite H; reflexivity).
  model_ok HM. finish_flags E.
Qed.

Definition upd_res (E : ienv) (l : list rule) (r : result (store * bool)) (ac : acall) (wc : wcall)
  : result ival * list rule * list acall * list wcall :=
  match r with
  | Err c => (Err c, l, [], [])
  | Ok (l', b) =>
      if negb b then (Ok (IVB false), l', [], [])
      else if ie_adapter E && ie_auto_save E then (Ok (IVB true), l', [ac], wnote E (ie_offers_upd E) wc)
      else (Ok (IVB true), l', [], [])
  end.

Lemma tie_update E l o n :
  irun E internal_gen IFUEL im_update_policy l [ARule o; ARule n] =
  upd_res E l (update_policy (ie_prio_tok E) l o n) (AUpdate (ie_pt E) o n) (WUpdatePolicy o n).
Proof.
  open_method. unfold upd_res.
  destruct (update_policy (ie_prio_tok E) l o n) as [[l' b]|c] eqn:H.
  - assert (HM : model_call E M_update_policy [ARule o; ARule n] l = Ok (l', IVB b)) by (cbn [model_call]; rewrite H; reflexivity).
    model_ok HM. finish_flags E.
  - assert (HM : model_call E M_update_policy [ARule o; ARule n] l = Err c) by (cbn [model_call]; rewrite H; reflexivity).
    model_err HM. reflexivity.
Qed.

Lemma tie_update_many E l os ns :
  irun E internal_gen IFUEL im_update_policies l [ARules os; ARules ns] =
  upd_res E l (update_policies (ie_prio_tok E) l os ns) (AUpdateMany (ie_pt E) os ns) (WUpdatePolicies os ns).
Proof.
  open_method. unfold upd_res.
  destruct (update_policies (ie_prio_tok E) l os ns) as [[l' b]|c] eqn:H.
  - assert (HM : model_call E M_update_policies [ARules os; ARules ns] l = Ok (l', IVB b)) by (cbn [model_call]; rewrite H; reflexivity).
    model_ok HM. finish_flags E.
  - assert (HM : model_call E M_update_policies [ARules os; ARules ns] l = Err c) by (cbn [model_call]; rewrite H; reflexivity).
    model_err HM. reflexivity.
Qed.

Lemma tie_remove_filtered E l i vs :
  irun E internal_gen IFUEL im_remove_filtered_policy l [ANat i; ANames vs] =
  match remove_filtered l i vs with
  | Err c => (Err c, l, [], [])
  | Ok (l', b) =>
      if negb b then (Ok (IVB false), l', [], [])
      else if ie_adapter E && ie_auto_save E
           then (Ok (IVB true), l', [ARemoveFiltered (ie_pt E) i vs], wnote E (ie_offers_ex E) (WRemoveFiltered (ie_pt E) i vs))
           else (Ok (IVB true), l', [], [])
  end.
Proof.
  open_method.
  destruct (remove_filtered l i vs) as [[l' b]|c] eqn:H.
  - assert (HM : model_call E M_remove_filtered_policy [ANat i; ANames vs] l = Ok (l', IVB b)) by (cbn [model_call]; rewrite H; reflexivity).
    model_ok HM. finish_flags E.
  - assert (HM : model_call E M_remove_filtered_policy [ANat i; ANames vs] l = Err c) by (cbn [model_call]; rewrite H; reflexivity).
    model_err HM. reflexivity.
Qed.

Lemma tie_remove_filtered_eff E l i vs :
  irun E internal_gen IFUEL im_remove_filtered_policy_returns_effects l [ANat i; ANames vs] =
  match remove_filtered_effects l i vs with
  | Err c => (Err c, l, [], [])
  | Ok (l', gone) =>
      match gone with
      | [] => (Ok (IVArg (ARules [])), l', [], [])
      | _ => if ie_adapter E && ie_auto_save E
             then (Ok (IVArg (ARules gone)), l', [ARemoveFiltered (ie_pt E) i vs],
                   wnote E (ie_offers_ex E) (WRemoveFiltered (ie_pt E) i vs))
             else (Ok (IVArg (ARules gone)), l', [], [])
      end
  end.
Proof.
  open_method.
  destruct (remove_filtered_effects l i vs) as [[l' gone]|c] eqn:H.
  - assert (HM : model_call E M_remove_filtered_policy_returns_effects [ANat i; ANames vs] l = Ok (l', IVArg (ARules gone)))
      by (cbn [model_call]; rewrite H; reflexivity).
    model_ok HM. destruct gone as [|g gs]; finish_flags E.
  - assert (HM : model_call E M_remove_filtered_policy_returns_effects [ANat i; ANames vs] l = Err c)
      by (cbn [model_call]; rewrite H; reflexivity).
    model_err HM. reflexivity.
Qed.

(* ------------------------------------------------------------------ the same, in Mgmt.v's vocabulary *)
Definition env_of (k : mkind) (s : mstate) (pt : N) : ienv :=
  {| ie_pt := pt; ie_prio := prio_opt_on k (m_prio_on s) pt; ie_prio_tok := prio_tok k pt;
     ie_adapter := k_adapter k; ie_auto_save := m_auto_save s;
     ie_watcher := 0 <? k_watcher k; ie_auto_notify := m_auto_notify s;
     ie_offers_ex := 2 <=? k_watcher k; ie_offers_upd := 3 <=? k_watcher k |}.

Lemma get_set_store s pt l : get_store (set_store s pt l) pt = l.
Proof. unfold get_store, set_store. destruct (pt =? PT_P) eqn:E1; [cbn; rewrite ?E1; reflexivity|]. destruct (pt =? PT_G) eqn:E2; cbn; rewrite ?E1, ?E2; reflexivity. Qed.

Lemma wnote_notify k s pt from w :
  wnote (env_of k s pt) (from <=? k_watcher k) w = notify k s w from.
Proof. unfold wnote, notify, env_of. cbn. reflexivity. Qed.

Notation isrc := (irun).

Theorem src_i_add k s pt r :
  isrc (env_of k s pt) internal_gen IFUEL im_add_policy (get_store s pt) [ARule r] =
  let '(s', b, ac, wc) := i_add k s pt r in (Ok (IVB b), get_store s' pt, ac, wc).
Proof.
  unfold i_add. destruct (add_policy (prio_opt_on k (m_prio_on s) pt) (get_store s pt) r) as [l' b] eqn:H.
  rewrite (tie_add (env_of k s pt) _ r l' b H). unfold use_adapter.
  change (ie_offers_ex (env_of k s pt)) with (2 <=? k_watcher k). rewrite wnote_notify.
  cbn [ie_adapter ie_auto_save ie_pt env_of].
  destruct b; cbn [negb].
  - destruct (k_adapter k && m_auto_save s); rewrite get_set_store; reflexivity.
  - unfold add_policy in H. destruct (has_policy (get_store s pt) r); [inversion H; reflexivity|].
    destruct (prio_opt_on k (m_prio_on s) pt); inversion H.
Qed.

Lemma add_policies_false prio l rs l' : add_policies prio l rs = (l', false) -> l' = l.
Proof. unfold add_policies. destruct (batch_addable l [] rs); intro H; inversion H; reflexivity. Qed.

Lemma remove_policies_false l rs l' : remove_policies l rs = (l', false) -> l' = l.
Proof. unfold remove_policies. destruct (forallb (has_policy l) rs && nodupb rule_eqb rs); intro H; inversion H; reflexivity. Qed.

Theorem src_i_add_many k s pt rs :
  isrc (env_of k s pt) internal_gen IFUEL im_add_policies (get_store s pt) [ARules rs] =
  let '(s', b, ac, wc) := i_add_many k s pt rs in (Ok (IVB b), get_store s' pt, ac, wc).
Proof.
  unfold i_add_many. destruct (add_policies (prio_opt_on k (m_prio_on s) pt) (get_store s pt) rs) as [l' b] eqn:H.
  rewrite (tie_add_many (env_of k s pt) _ rs l' b H). unfold use_adapter.
  change (ie_offers_ex (env_of k s pt)) with (2 <=? k_watcher k). rewrite wnote_notify.
  cbn [ie_adapter ie_auto_save ie_pt env_of].
  destruct b; cbn [negb].
  - destruct (k_adapter k && m_auto_save s); rewrite get_set_store; reflexivity.
  - rewrite (add_policies_false _ _ _ _ H). reflexivity.
Qed.

Theorem src_i_remove k s pt r :
  isrc (env_of k s pt) internal_gen IFUEL im_remove_policy (get_store s pt) [ARule r] =
  let '(s', b, ac, wc) := i_remove k s pt r in (Ok (IVB b), get_store s' pt, ac, wc).
Proof.
  unfold i_remove. destruct (remove_policy (get_store s pt) r) as [l' b] eqn:H.
  rewrite (tie_remove (env_of k s pt) _ r l' b H). unfold use_adapter.
  change (ie_offers_ex (env_of k s pt)) with (2 <=? k_watcher k). rewrite wnote_notify.
  cbn [ie_adapter ie_auto_save ie_pt env_of].
  destruct b; cbn [negb].
  - destruct (k_adapter k && m_auto_save s); rewrite get_set_store; reflexivity.
  - rewrite get_set_store. reflexivity.
Qed.

Theorem src_i_remove_many k s pt rs :
  isrc (env_of k s pt) internal_gen IFUEL im_remove_policies (get_store s pt) [ARules rs] =
  let '(s', b, ac, wc) := i_remove_many k s pt rs in (Ok (IVB b), get_store s' pt, ac, wc).
Proof.
  unfold i_remove_many. destruct (remove_policies (get_store s pt) rs) as [l' b] eqn:H.
  rewrite (tie_remove_many (env_of k s pt) _ rs l' b H). unfold use_adapter.
  change (ie_offers_ex (env_of k s pt)) with (2 <=? k_watcher k). rewrite wnote_notify.
  cbn [ie_adapter ie_auto_save ie_pt env_of].
  destruct b; cbn [negb].
  - destruct (k_adapter k && m_auto_save s); rewrite get_set_store; reflexivity.
  - rewrite (remove_policies_false _ _ _ H). reflexivity.
Qed.

Theorem src_i_remove_filtered k s pt i vs :
  isrc (env_of k s pt) internal_gen IFUEL im_remove_filtered_policy (get_store s pt) [ANat i; ANames vs] =
  match i_remove_filtered k s pt i vs with
  | Err c => (Err c, get_store s pt, [], [])
  | Ok (s', b, ac, wc) => (Ok (IVB b), get_store s' pt, ac, wc)
  end.
Proof.
  unfold i_remove_filtered. rewrite tie_remove_filtered.
  destruct (remove_filtered (get_store s pt) i vs) as [[l' b]|c]; [|reflexivity].
  unfold use_adapter. change (ie_offers_ex (env_of k s pt)) with (2 <=? k_watcher k). rewrite wnote_notify.
  cbn [ie_adapter ie_auto_save ie_pt env_of].
  destruct b; cbn [negb]; [destruct (k_adapter k && m_auto_save s)|]; rewrite get_set_store; reflexivity.
Qed.

Theorem src_i_remove_filtered_eff k s pt i vs :
  isrc (env_of k s pt) internal_gen IFUEL im_remove_filtered_policy_returns_effects (get_store s pt) [ANat i; ANames vs] =
  match i_remove_filtered_eff k s pt i vs with
  | Err c => (Err c, get_store s pt, [], [])
  | Ok (s', gone, ac, wc) => (Ok (IVArg (ARules gone)), get_store s' pt, ac, wc)
  end.
Proof.
  unfold i_remove_filtered_eff. rewrite tie_remove_filtered_eff.
  destruct (remove_filtered_effects (get_store s pt) i vs) as [[l' gone]|c]; [|reflexivity].
  unfold use_adapter. change (ie_offers_ex (env_of k s pt)) with (2 <=? k_watcher k). rewrite wnote_notify.
  cbn [ie_adapter ie_auto_save ie_pt env_of].
  destruct gone as [|g gs]; [|destruct (k_adapter k && m_auto_save s)]; rewrite get_set_store; reflexivity.
Qed.

(* update_policy / update_policies of the p rules: exactly the OUpdate / OUpdateMany steps of Mgmt.step *)
Theorem src_update k s o n :
  isrc (env_of k s PT_P) internal_gen IFUEL im_update_policy (m_p s) [ARule o; ARule n] =
  match update_policy (prio_tok k PT_P) (m_p s) o n with
  | Err c => (Err c, m_p s, [], [])
  | Ok (l', b) =>
      if negb b then (Ok (IVB false), l', [], [])
      else if use_adapter k s then (Ok (IVB true), l', [AUpdate PT_P o n], notify k s (WUpdatePolicy o n) 3)
      else (Ok (IVB true), l', [], [])
  end.
Proof.
  rewrite tie_update. unfold upd_res. cbn [ie_prio_tok env_of].
  destruct (update_policy (prio_tok k PT_P) (m_p s) o n) as [[l' b]|c]; [|reflexivity].
  unfold use_adapter. change (ie_offers_upd (env_of k s PT_P)) with (3 <=? k_watcher k). rewrite wnote_notify. reflexivity.
Qed.

Theorem src_update_many k s os ns :
  isrc (env_of k s PT_P) internal_gen IFUEL im_update_policies (m_p s) [ARules os; ARules ns] =
  match update_policies (prio_tok k PT_P) (m_p s) os ns with
  | Err c => (Err c, m_p s, [], [])
  | Ok (l', b) =>
      if negb b then (Ok (IVB false), l', [], [])
      else if use_adapter k s then (Ok (IVB true), l', [AUpdateMany PT_P os ns], notify k s (WUpdatePolicies os ns) 3)
      else (Ok (IVB true), l', [], [])
  end.
Proof.
  rewrite tie_update_many. unfold upd_res. cbn [ie_prio_tok env_of].
  destruct (update_policies (prio_tok k PT_P) (m_p s) os ns) as [[l' b]|c]; [|reflexivity].
  unfold use_adapter. change (ie_offers_upd (env_of k s PT_P)) with (3 <=? k_watcher k). rewrite wnote_notify. reflexivity.
Qed.

(* C20 read off the source: a call that reports failure sends nothing; a call that reports success with adapter, auto-save,
   watcher and auto-notify on sends exactly one notification - the operation's own callback iff the watcher offers it *)
Theorem src_add_notifies_once E l r :
  let '(v, _, ac, wc) := isrc E internal_gen IFUEL im_add_policy l [ARule r] in
  (v = Ok (IVB false) -> ac = [] /\ wc = []) /\
  (v = Ok (IVB true) -> ie_adapter E && ie_auto_save E = true -> ie_watcher E && ie_auto_notify E = true ->
   ac = [AAdd (ie_pt E) r] /\ wc = [if ie_offers_ex E then WAdd (ie_pt E) r else WUpdate]).
Proof.
  destruct (add_policy (ie_prio E) l r) as [l' b] eqn:H. rewrite (tie_add E l r l' b H). unfold wnote.
  destruct b; cbn [negb].
  - destruct (ie_adapter E && ie_auto_save E); (split; [discriminate|]); intros _ Ha Hw; [|discriminate].
    rewrite Hw. destruct (ie_offers_ex E); split; reflexivity.
  - split; [intros _; split; reflexivity | discriminate].
Qed.

Example isrc_example :
  isrc {| ie_pt := 0; ie_prio := None; ie_prio_tok := None; ie_adapter := true; ie_auto_save := true; ie_watcher := true;
          ie_auto_notify := true; ie_offers_ex := true; ie_offers_upd := false |}
       internal_gen IFUEL im_update_policy [[1000; 1001; 1002]] [ARule [1000; 1001; 1002]; ARule [1003; 1001; 1002]] =
  (Ok (IVB true), [[1003; 1001; 1002]], [AUpdate 0 [1000; 1001; 1002] [1003; 1001; 1002]], [WUpdate]).
Proof. vm_compute. reflexivity. Qed.
