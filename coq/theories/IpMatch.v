(* IpMatch.v — model of casbin/util/builtin_operators.py ip_match (l.367-376), i.e. of the part of the
   standard-library `ipaddress` module it uses (CPython 3.12 Lib/ipaddress.py):
     ip_address (l.28-52), ip_network (l.55-79), _split_optional_netmask (l.156-161),
     _count_righthand_zero_bits (l.184-197), _ip_int_from_prefix, _prefix_from_ip_int,
     _prefix_from_prefix_string, _prefix_from_ip_string (l.432-531), _split_addr_prefix,
     _BaseNetwork.__contains__ (l.739-749),
     _BaseV4._make_netmask/_ip_int_from_string/_parse_octet (l.1158-1243), IPv4Address.__init__,
     IPv4Network.__init__(strict=False),
     _BaseV6._make_netmask/_ip_int_from_string/_parse_hextet (l.1598-1740), _split_scope_id (l.1852-1869),
     IPv6Address.__init__, IPv6Network.__init__(strict=False).
   Both families, prefix-length networks, IPv4 dotted netmask / hostmask networks, IPv6 text with '::'
   anywhere, embedded dotted-quad tail, '%zone' suffixes.  Arguments are strings (ints / bytes, which
   ip_address also accepts, are outside the model).  No proofs here. *)
From Coq Require Import List NArith Bool.
From PyCasbin Require Import Base PatBase.
Import ListNotations.
Local Open Scope N_scope.

Definition cPCT : N := 37.   (* % *)

(* str.split(sep): always at least one piece *)
Fixpoint split_on (sep : N) (s : str) : list str :=
  match s with
  | [] => [[]]
  | c :: r =>
    if c =? sep then [] :: split_on sep r
    else match split_on sep r with
         | h :: t => (c :: h) :: t
         | [] => [[c]]
         end
  end.

(* sep.join(parts) *)
Fixpoint join (sep : N) (ps : list str) : str :=
  match ps with
  | [] => []
  | p :: rest => match rest with [] => p | _ :: _ => p ++ sep :: join sep rest end
  end.

Definition has_char (c : N) (s : str) : bool := existsb (fun x => x =? c) s.
Definition has_colon (s : str) : bool := has_char cCOLON s.

Definition parse_dec (s : str) : N := fold_left (fun a c => a * 10 + (c - 48)) s 0.

(* ================================================================ IPv4 text *)
(* ipaddress.IPv4Address._parse_octet *)
Definition parse_octet (s : str) : option N :=
  match s with
  | [] => None                                            (* "Empty octet not permitted" *)
  | c0 :: r =>
    if negb (forallb is_digit s) then None                (* isascii() and isdigit() *)
    else if Nat.ltb 3 (length s) then None                 (* "At most 3 characters permitted" *)
    else if (c0 =? 48) && negb (is_nil r) then None       (* "Leading zeros are not permitted" *)
    else let v := parse_dec s in
         if 255 <? v then None else Some v
  end.

(* IPv4Address._ip_int_from_string: exactly four octets, big endian
   (also IPv4Address(str): a '/' can never pass _parse_octet) *)
Definition parse_ip4 (s : str) : option N :=
  match split_on cDOT s with
  | [a; b; c; d] =>
    match parse_octet a, parse_octet b, parse_octet c, parse_octet d with
    | Some a, Some b, Some c, Some d => Some (((a * 256 + b) * 256 + c) * 256 + d)
    | _, _, _, _ => None
    end
  | _ => None
  end.

(* ================================================================ IPv6 text *)
Definition hex_val (c : N) : option N :=
  if is_digit c then Some (c - 48)
  else if (97 <=? c) && (c <=? 102) then Some (c - 87)     (* a-f *)
  else if (65 <=? c) && (c <=? 70) then Some (c - 55)      (* A-F *)
  else None.
Definition is_hex (c : N) : bool := match hex_val c with Some _ => true | None => false end.
Definition hex_digit_val (c : N) : N := match hex_val c with Some v => v | None => 0 end.
Definition parse_hex (s : str) : N := fold_left (fun a c => a * 16 + hex_digit_val c) s 0.

(* _BaseV6._parse_hextet: hex digits only, at most 4; int('', 16) raises ValueError as well *)
Definition parse_hextet (s : str) : option N :=
  if negb (forallb is_hex s) then None
  else if Nat.ltb 4 (length s) then None
  else if is_nil s then None
  else Some (parse_hex s).

(* '%x' % v for v < 65536 (the only use: the two halves of an embedded dotted quad; renderings) *)
Definition hex_digit (d : N) : N := if d <? 10 then 48 + d else 87 + d.
Definition hex4 (v : N) : str :=
  [hex_digit (v / 4096 mod 16); hex_digit (v / 256 mod 16); hex_digit (v / 16 mod 16); hex_digit (v mod 16)].
Fixpoint strip0 (s : str) : str :=
  match s with
  | [] => []
  | c :: r => match r with
              | [] => s
              | _ :: _ => if c =? 48 then strip0 r else s
              end
  end.
Definition hex_of (v : N) : str := strip0 (hex4 v).

(* indices (counted from i) of the empty parts of ps, its last element excluded:
   the loop `for i in range(1, len(parts) - 1): if not parts[i]` run on parts[1:] *)
Fixpoint mid_empties (i : nat) (ps : list str) : list nat :=
  match ps with
  | [] => []
  | p :: rest => match rest with
                 | [] => []
                 | _ :: _ => (if is_nil p then [i] else []) ++ mid_empties (S i) rest
                 end
  end.

Fixpoint parse_hextets (ps : list str) : option (list N) :=
  match ps with
  | [] => Some []
  | p :: rest => match parse_hextet p, parse_hextets rest with
                 | Some v, Some l => Some (v :: l)
                 | _, _ => None
                 end
  end.

(* ip_int <<= 16; ip_int |= hextet   (hextet < 2^16, so | is +) *)
Definition compose (acc : N) (l : list N) : N := fold_left (fun a v => a * 65536 + v) l acc.

(* _ip_int_from_string from "An IPv6 address can't have more than 8 colons" on, given the parts *)
Definition v6_from_parts (parts : list str) : option N :=
  let n := length parts in
  if Nat.ltb 9 n then None                                 (* "At most 8 colons permitted" *)
  else
    match mid_empties 1 (tl parts) with
    | _ :: _ :: _ => None                                  (* "At most one '::' permitted" *)
    | [k] =>
      let hd_empty := is_nil (hd [] parts) in
      let last_empty := is_nil (last parts []) in
      let hi := if hd_empty then (k - 1)%nat else k in
      let lo := if last_empty then (n - k - 1 - 1)%nat else (n - k - 1)%nat in
      if hd_empty && negb (Nat.eqb hi 0) then None         (* "Leading ':' only permitted as part of '::'" *)
      else if last_empty && negb (Nat.eqb lo 0) then None  (* "Trailing ':' only permitted as part of '::'" *)
      else if Nat.leb 8 (hi + lo) then None                (* parts_skipped < 1 *)
      else
        match parse_hextets (firstn hi parts), parse_hextets (skipn (n - lo) parts) with
        | Some vh, Some vl =>
          Some (compose (N.shiftl (compose 0 vh) (16 * N.of_nat (8 - (hi + lo)))) vl)
        | _, _ => None
        end
    | [] =>
      if negb (Nat.eqb n 8) then None                      (* "Exactly 8 parts expected without '::'" *)
      else if is_nil (hd [] parts) then None
      else if is_nil (last parts []) then None
      else match parse_hextets parts with
           | Some v => Some (compose 0 v)
           | None => None
           end
    end.

(* _BaseV6._ip_int_from_string *)
Definition parse_ip6 (s : str) : option N :=
  if is_nil s then None                                    (* "Address cannot be empty" *)
  else
    let parts := split_on cCOLON s in
    if Nat.ltb (length parts) 3 then None                  (* "At least 3 parts expected" *)
    else
      let lastp := last parts [] in
      if has_char cDOT lastp then                          (* IPv4-style suffix -> two hextets *)
        match parse_ip4 lastp with
        | Some w => v6_from_parts (removelast parts ++ [hex_of (w / 65536 mod 65536); hex_of (w mod 65536)])
        | None => None
        end
      else v6_from_parts parts.

(* str.partition(sep): text before the first sep, and the text after it when there is one *)
Fixpoint partition_on (sep : N) (s : str) : str * option str :=
  match s with
  | [] => ([], None)
  | c :: r => if c =? sep then ([], Some r)
              else let (a, b) := partition_on sep r in (c :: a, b)
  end.

(* _split_scope_id: the address part; None = AddressValueError (empty zone, second '%') *)
Definition split_scope_id (s : str) : option str :=
  match partition_on cPCT s with
  | (a, None) => Some a
  | (a, Some z) => if is_nil z || has_char cPCT z then None else Some a
  end.

(* the address text of an IPv6Address / IPv6Network once '/' is out of the way: zone dropped
   (__contains__ compares _ip only; strict=False rebuilds the network address from the integer) *)
Definition parse_ip6_scoped (s : str) : option N :=
  match split_scope_id s with
  | Some a => parse_ip6 a
  | None => None
  end.

(* ================================================================ ip_address *)
Inductive fam := V4 | V6.
Definition fam_eqb (f g : fam) : bool :=
  match f, g with V4, V4 => true | V6, V6 => true | _, _ => false end.
Definition width (f : fam) : N := match f with V4 => 32 | V6 => 128 end.

(* ipaddress.ip_address(str): IPv4Address, else IPv6Address ("Unexpected '/'" first), else ValueError *)
Definition parse_addr (s : str) : option (fam * N) :=
  match parse_ip4 s with
  | Some x => Some (V4, x)
  | None =>
    if has_char cSLASH s then None
    else match parse_ip6_scoped s with
         | Some x => Some (V6, x)
         | None => None
         end
  end.

(* ================================================================ netmasks *)
(* _prefix_from_prefix_string: ASCII digits only (no sign, no blank; leading zeros pass), int(), range;
   int() refuses more than 4300 digits (sys.get_int_max_str_digits()) *)
Definition prefix_from_prefix_string (W : N) (m : str) : option N :=
  if is_nil m then None
  else if negb (forallb is_digit m) then None
  else if 4300 <? N.of_nat (length m) then None
  else let n := parse_dec m in if W <? n then None else Some n.

(* (~number & (number - 1)).bit_length() for number <> 0 : number of trailing zero bits *)
Fixpoint ctz (fuel : nat) (m : N) : N :=
  match fuel with
  | O => 0
  | S f => if N.odd m then 0 else 1 + ctz f (N.div2 m)
  end.
Definition count_righthand_zero_bits (m bits : N) : N :=
  if m =? 0 then bits else N.min bits (ctz 32 m).

(* _prefix_from_ip_int for IPv4: /1*0*/ *)
Definition prefix_from_ip_int (m : N) : option N :=
  let tz := count_righthand_zero_bits m 32 in
  let p := 32 - tz in
  if N.shiftr m tz =? N.shiftl 1 p - 1 then Some p else None.

Definition ones32 : N := 4294967295.

(* _prefix_from_ip_string after the text is parsed: netmask first (so 0.0.0.0 is /0 and
   255.255.255.255 is /32), then `ip_int ^= _ALL_ONES` and the same test for a hostmask *)
Definition prefix_from_mask_int (m : N) : option N :=
  match prefix_from_ip_int m with
  | Some p => Some p
  | None => prefix_from_ip_int (N.lxor m ones32)
  end.

Definition prefix_from_ip_string (t : str) : option N :=
  match parse_ip4 t with
  | None => None
  | Some m => prefix_from_mask_int m
  end.

Inductive netres := NetOk (net prefixlen : N) | NetBad.

(* _BaseV4._make_netmask on the text after '/' *)
Definition parse_prefix (m : str) : netres :=
  match prefix_from_prefix_string 32 m with
  | Some n => NetOk 0 n
  | None => match prefix_from_ip_string m with
            | Some n => NetOk 0 n
            | None => NetBad
            end
  end.

(* IPv4Network(s, strict=False): address, prefix length *)
Definition parse_net (s : str) : netres :=
  match split_on cSLASH s with
  | [a] => match parse_ip4 a with Some x => NetOk x 32 | None => NetBad end
  | [a; m] =>
    match parse_prefix m with
    | NetOk _ n => match parse_ip4 a with Some x => NetOk x n | None => NetBad end
    | NetBad => NetBad
    end
  | _ => NetBad                                            (* "Only one '/' permitted" *)
  end.

(* IPv6Network(s, strict=False): no dotted netmask form (_BaseV6._make_netmask) *)
Definition parse_net6 (s : str) : netres :=
  match split_on cSLASH s with
  | [a] => match parse_ip6_scoped a with Some x => NetOk x 128 | None => NetBad end
  | [a; m] =>
    match prefix_from_prefix_string 128 m with
    | Some n => match parse_ip6_scoped a with Some x => NetOk x n | None => NetBad end
    | None => NetBad
    end
  | _ => NetBad
  end.

(* ipaddress.ip_network(s, strict=False) *)
Definition parse_network (s : str) : option (fam * N * N) :=
  match parse_net s with
  | NetOk net n => Some (V4, net, n)
  | NetBad =>
    match parse_net6 s with
    | NetOk net n => Some (V6, net, n)
    | NetBad => None
    end
  end.

(* _ip_int_from_prefix: _ALL_ONES ^ (_ALL_ONES >> prefixlen) *)
Definition mask (W n : N) : N := N.lxor (N.ones W) (N.shiftr (N.ones W) n).
Definition netmask (n : N) : N := mask 32 n.

(* ================================================================ ip_match *)
Definition ip_match (ip1 ip2 : str) : result bool :=
  match parse_addr ip1 with
  | None => Err EValue                                     (* l.371: ValueError propagates *)
  | Some (f, x) =>
    match parse_network ip2 with
    | None => Ok false                                     (* l.375-376: IPv?Address == str is False *)
    | Some (g, net, n) =>
      if negb (fam_eqb f g) then Ok false                  (* __contains__: versions differ *)
      else                                                 (* strict=False: network_address = net & mask *)
        Ok (N.land x (mask (width g) n) =? N.land net (mask (width g) n))
    end
  end.

(* ================================================================ spec: block membership as arithmetic *)
Definition in_block_w (W x net n : N) : bool := x / 2 ^ (W - n) =? net / 2 ^ (W - n).
Definition in_block (x net n : N) : bool := in_block_w 32 x net n.

(* documented form of the two arguments: an address of either family, and an address of either family
   optionally followed by /prefix-length (IPv4: or /netmask, /hostmask).  Zone suffixes ('%eth0') are
   accepted by the code and by the model (the zone is ignored) but are left outside the documented form:
   the spec makes no claim about them. *)
Definition ip_doc (ip1 ip2 : str) : bool :=
  negb (has_char cPCT ip1) && negb (has_char cPCT ip2) &&
  match parse_addr ip1, parse_network ip2 with Some _, Some _ => true | _, _ => false end.

Definition ip_spec (ip1 ip2 : str) : bool :=
  match parse_addr ip1, parse_network ip2 with
  | Some (f, x), Some (g, net, n) => fam_eqb f g && in_block_w (width g) x net n
  | _, _ => false
  end.

(* ================================================================ spec vocabulary for IPv6 texts *)
(* a group text: one to four hex digits in any case, denoting v *)
Definition hextet_text (t : str) (v : N) : Prop := parse_hextet t = Some v.

(* the optional dotted-quad tail of an IPv6 text and the two groups it stands for *)
Inductive tail_text : list str -> list N -> Prop :=
| TT_none : tail_text [] []
| TT_quad : forall q w, parse_ip4 q = Some w -> tail_text [q] [w / 65536; w mod 65536].

(* ================================================================ renderings of an IPv6 integer *)
Fixpoint groups_rev (k : nat) (n : N) : list N :=
  match k with
  | O => []
  | S k' => (n mod 65536) :: groups_rev k' (n / 65536)
  end.
Definition groups_of (n : N) : list N := rev (groups_rev 8 n).

(* text with '::' between the hextets pre and post (either may be empty) *)
Definition text6_dc (pre post : list str) : str :=
  join cCOLON ((if is_nil pre then [[]] else pre) ++ [[]] ++ (if is_nil post then [[]] else post)).

(* exploded form: 8 groups of 4 lower-case hex digits *)
Definition render6_full (n : N) : str := join cCOLON (map hex4 (groups_of n)).

Definition zero_run (g : list N) (start len : nat) : bool :=
  Nat.eqb (length (firstn len (skipn start g))) len && forallb (fun v => v =? 0) (firstn len (skipn start g)).

(* candidate (start, length) pairs: longer runs first, then leftmost; runs of one group are not compressed *)
Definition run_candidates : list (nat * nat) :=
  flat_map (fun len => map (fun start => (start, len)) (seq 0 (9 - len))) [8; 7; 6; 5; 4; 3; 2]%nat.

Definition best_run (g : list N) : option (nat * nat) :=
  find (fun sl => zero_run g (fst sl) (snd sl)) run_candidates.

(* RFC 5952 canonical form (= str(IPv6Address(n))): lower case, no leading zeros, the longest run of
   two or more zero groups (the first one among equals) written as '::' *)
Definition render6_compressed (n : N) : str :=
  let g := groups_of n in
  match best_run g with
  | Some (start, len) => text6_dc (map hex_of (firstn start g)) (map hex_of (skipn (start + len) g))
  | None => join cCOLON (map hex_of g)
  end.
