(* IpMatch.v — model of casbin/util/builtin_operators.py ip_match (l.368-377) for IPv4 addresses and
   IPv4 prefix-length networks, i.e. of the part of the standard-library `ipaddress` module it uses
   (CPython 3.12: IPv4Address._ip_int_from_string/_parse_octet, _split_optional_netmask,
   _prefix_from_prefix_string, _make_netmask, IPv4Network.__init__(strict=False), __contains__).
   NOT modelled (the model answers Err ENotModelled): anything containing ':' (IPv6) and
   dotted-quad netmasks/hostmasks after the '/'.  No proofs here. *)
From Coq Require Import List NArith Bool.
From PyCasbin Require Import Base PatBase.
Import ListNotations.
Local Open Scope N_scope.

(* str.split(sep): always at least one piece *)
Fixpoint split_on (sep : N) (s : str) : list str :=
  match s with
  | [] => [[]]
  | c :: r =>
    if c =? sep then [] :: split_on sep r
    else match split_on sep r with
         | h :: t => (c :: h) :: t
         | [] => [[c]]
         end
  end.

Definition parse_dec (s : str) : N := fold_left (fun a c => a * 10 + (c - 48)) s 0.

(* ipaddress.IPv4Address._parse_octet *)
Definition parse_octet (s : str) : option N :=
  match s with
  | [] => None                                            (* "Empty octet not permitted" *)
  | c0 :: r =>
    if negb (forallb is_digit s) then None                (* isascii() and isdigit() *)
    else if Nat.ltb 3 (length s) then None                 (* "At most 3 characters permitted" *)
    else if (c0 =? 48) && negb (is_nil r) then None       (* "Leading zeros are not permitted" *)
    else let v := parse_dec s in
         if 255 <? v then None else Some v
  end.

(* IPv4Address._ip_int_from_string: exactly four octets, big endian *)
Definition parse_ip4 (s : str) : option N :=
  match split_on cDOT s with
  | [a; b; c; d] =>
    match parse_octet a, parse_octet b, parse_octet c, parse_octet d with
    | Some a, Some b, Some c, Some d => Some (((a * 256 + b) * 256 + c) * 256 + d)
    | _, _, _, _ => None
    end
  | _ => None
  end.

Inductive netres := NetOk (net prefixlen : N) | NetBad | NetUnmodelled.

Definition digit_or_dot (c : N) : bool := is_digit c || (c =? cDOT).

(* the text after '/' *)
Definition parse_prefix (m : str) : netres :=
  if is_nil m then NetBad
  else if forallb is_digit m then
    let n := parse_dec m in if 32 <? n then NetBad else NetOk 0 n
  else if forallb digit_or_dot m then NetUnmodelled        (* netmask / hostmask notation *)
  else NetBad.

(* ipaddress.ip_network(s, strict=False) restricted to IPv4 *)
Definition parse_net (s : str) : netres :=
  match split_on cSLASH s with
  | [a] => match parse_ip4 a with Some x => NetOk x 32 | None => NetBad end
  | [a; m] =>
    match parse_prefix m with
    | NetOk _ n => match parse_ip4 a with Some x => NetOk x n | None => NetBad end
    | NetBad => NetBad
    | NetUnmodelled => match parse_ip4 a with Some _ => NetUnmodelled | None => NetBad end
    end
  | _ => NetBad                                            (* "Only one '/' permitted" *)
  end.

Definition ones32 : N := 4294967295.
(* IPv4Network._make_netmask: _ALL_ONES ^ (_ALL_ONES >> prefixlen) *)
Definition netmask (n : N) : N := N.lxor ones32 (N.shiftr ones32 n).

Definition has_colon (s : str) : bool := existsb (fun c => c =? cCOLON) s.

Definition ip_match (ip1 ip2 : str) : result bool :=
  if has_colon ip1 || has_colon ip2 then Err ENotModelled
  else
    match parse_ip4 ip1 with
    | None => Err EValue                                   (* l.372: ValueError propagates *)
    | Some x =>
      match parse_net ip2 with
      | NetBad => Ok false                                 (* l.376-377: IPv4Address == str is False *)
      | NetUnmodelled => Err ENotModelled
      | NetOk net n =>                                     (* strict=False: network_address = net & mask; l.375 *)
        Ok (N.land x (netmask n) =? N.land net (netmask n))
      end
    end.

(* ---------------------------------------------------------------- spec: CIDR membership as arithmetic *)
Definition in_block (x net n : N) : bool := x / 2 ^ (32 - n) =? net / 2 ^ (32 - n).

(* documented form of the two arguments: a dotted quad, and a dotted quad optionally followed by /n *)
Definition ip_doc (ip1 ip2 : str) : bool :=
  negb (has_colon ip1) && negb (has_colon ip2) &&
  match parse_ip4 ip1, parse_net ip2 with Some _, NetOk _ _ => true | _, _ => false end.

Definition ip_spec (ip1 ip2 : str) : bool :=
  match parse_ip4 ip1, parse_net ip2 with
  | Some x, NetOk net n => in_block x net n
  | _, _ => false
  end.
