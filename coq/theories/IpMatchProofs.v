(* IpMatchProofs.v — ip_match on documented IPv4 / CIDR arguments is block membership
   x / 2^(32-n) = net / 2^(32-n); bad networks answer False; bad addresses raise ValueError. *)
From Coq Require Import List NArith Bool Lia.
From PyCasbin Require Import Base PatBase IpMatch.
Import ListNotations.
Local Open Scope N_scope.

Lemma parse_octet_bound : forall s v, parse_octet s = Some v -> v <= 255.
Proof.
  intros s v. unfold parse_octet. destruct s as [|c0 r]; [discriminate|].
  destruct (negb (forallb is_digit (c0 :: r))); [discriminate|].
  destruct (Nat.ltb 3 (length (c0 :: r))); [discriminate|].
  destruct ((c0 =? 48) && negb (is_nil r)); [discriminate|].
  destruct (N.ltb_spec 255 (parse_dec (c0 :: r))) as [Hlt|Hle]; [discriminate|].
  intro HH; inversion HH; subst. assumption.
Qed.

Lemma parse_ip4_bound : forall s x, parse_ip4 s = Some x -> x < 2 ^ 32.
Proof.
  intros s x. unfold parse_ip4.
  destruct (split_on cDOT s) as [|a [|b [|c [|d [|? ?]]]]]; try discriminate.
  destruct (parse_octet a) as [va|] eqn:Ea; [|discriminate].
  destruct (parse_octet b) as [vb|] eqn:Eb; [|discriminate].
  destruct (parse_octet c) as [vc|] eqn:Ec; [|discriminate].
  destruct (parse_octet d) as [vd|] eqn:Ed; [|discriminate].
  apply parse_octet_bound in Ea, Eb, Ec, Ed.
  intro H; inversion H; subst. change (2 ^ 32) with 4294967296. lia.
Qed.

Lemma parse_prefix_ok : forall m net n, parse_prefix m = NetOk net n -> n <= 32.
Proof.
  intros m net n. unfold parse_prefix. destruct (is_nil m); [discriminate|].
  destruct (forallb is_digit m).
  - destruct (N.ltb_spec 32 (parse_dec m)) as [Hlt|Hle]; [discriminate|]. intro HH; inversion HH; subst; assumption.
  - destruct (forallb digit_or_dot m); discriminate.
Qed.

Lemma parse_net_ok : forall s net n, parse_net s = NetOk net n -> n <= 32 /\ net < 2 ^ 32.
Proof.
  intros s net n. unfold parse_net.
  destruct (split_on cSLASH s) as [|a [|m [|? ?]]]; try discriminate.
  - destruct (parse_ip4 a) as [x|] eqn:E; [|discriminate]. intro H; inversion H; subst.
    split; [lia|eapply parse_ip4_bound; eassumption].
  - destruct (parse_prefix m) as [z k| |] eqn:Em; try discriminate.
    + destruct (parse_ip4 a) as [x|] eqn:E; [|discriminate]. intro H; inversion H; subst.
      split; [eapply parse_prefix_ok; eassumption|eapply parse_ip4_bound; eassumption].
    + destruct (parse_ip4 a); discriminate.
Qed.

(* the netmask keeps exactly the top n of 32 bits *)
Lemma land_netmask : forall n x, n <= 32 -> x < 2 ^ 32 ->
  N.land x (netmask n) = N.shiftl (N.shiftr x (32 - n)) (32 - n).
Proof.
  intros n x Hn Hx. apply N.bits_inj. intro i.
  rewrite N.land_spec. unfold netmask. rewrite N.lxor_spec, N.shiftr_spec by lia.
  change ones32 with (N.ones 32).
  destruct (N.ltb_spec i (32 - n)) as [Hi|Hi].
  - rewrite N.shiftl_spec_low by assumption.
    rewrite (N.ones_spec_low 32 i) by lia. rewrite (N.ones_spec_low 32 (i + n)) by lia.
    simpl. apply andb_false_r.
  - rewrite N.shiftl_spec_high by lia. rewrite N.shiftr_spec by lia.
    replace (i - (32 - n) + (32 - n)) with i by lia.
    destruct (N.ltb_spec i 32) as [Hi2|Hi2].
    + rewrite (N.ones_spec_low 32 i) by lia. rewrite (N.ones_spec_high 32 (i + n)) by lia.
      simpl. apply andb_true_r.
    + assert (Hb : N.testbit x i = false).
      { destruct (N.eq_dec x 0) as [E|E]; [subst; apply N.bits_0|].
        apply N.bits_above_log2. apply N.lt_le_trans with 32; [|assumption].
        apply N.log2_lt_pow2; [lia|assumption]. }
      rewrite Hb. reflexivity.
Qed.

Lemma mask_eq_iff_block : forall n x net, n <= 32 -> x < 2 ^ 32 -> net < 2 ^ 32 ->
  (N.land x (netmask n) =? N.land net (netmask n)) = in_block x net n.
Proof.
  intros n x net Hn Hx Hnet. unfold in_block.
  rewrite !land_netmask by assumption.
  rewrite !N.shiftl_mul_pow2, !N.shiftr_div_pow2.
  assert (Hp : 2 ^ (32 - n) <> 0) by (apply N.pow_nonzero; discriminate).
  destruct (N.eqb_spec (x / 2 ^ (32 - n)) (net / 2 ^ (32 - n))) as [E|E].
  - rewrite E. apply N.eqb_refl.
  - apply N.eqb_neq. intro H. apply E. apply N.mul_cancel_r in H; assumption.
Qed.

Theorem ip_iff : forall a b x net n,
  has_colon a = false -> has_colon b = false ->
  parse_ip4 a = Some x -> parse_net b = NetOk net n ->
  ip_match a b = Ok (in_block x net n).
Proof.
  intros a b x net n Ha Hb Hx Hnet. unfold ip_match. rewrite Ha, Hb, Hx, Hnet. simpl.
  destruct (parse_net_ok _ _ _ Hnet) as [Hn Hlt].
  rewrite mask_eq_iff_block; [reflexivity|assumption|eapply parse_ip4_bound; eassumption|assumption].
Qed.

Theorem ip_doc_spec : forall a b, ip_doc a b = true -> ip_match a b = Ok (ip_spec a b).
Proof.
  intros a b H. unfold ip_doc in H.
  apply andb_true_iff in H. destruct H as [H H3]. apply andb_true_iff in H. destruct H as [H1 H2].
  apply negb_true_iff in H1, H2. unfold ip_spec.
  destruct (parse_ip4 a) as [x|] eqn:Ex; [|discriminate].
  destruct (parse_net b) as [net n| |] eqn:En; try discriminate.
  eapply ip_iff; eassumption.
Qed.

(* an argument that is not a network never matches; an address that is not an address raises *)
Theorem ip_bad_network : forall a b x,
  has_colon a = false -> has_colon b = false -> parse_ip4 a = Some x -> parse_net b = NetBad ->
  ip_match a b = Ok false.
Proof. intros a b x Ha Hb Hx Hn. unfold ip_match. rewrite Ha, Hb, Hx, Hn. reflexivity. Qed.

Theorem ip_bad_address : forall a b,
  has_colon a = false -> has_colon b = false -> parse_ip4 a = None -> ip_match a b = Err EValue.
Proof. intros a b Ha Hb Hx. unfold ip_match. rewrite Ha, Hb, Hx. reflexivity. Qed.

(* block membership, spelled out: same top n bits *)
Lemma in_block_full : forall x net, in_block x net 32 = (x =? net).
Proof. intros. unfold in_block. change (2 ^ (32 - 32)) with 1. rewrite !N.div_1_r. reflexivity. Qed.

Lemma in_block_zero : forall x net, x < 2 ^ 32 -> net < 2 ^ 32 -> in_block x net 0 = true.
Proof.
  intros x net Hx Hn. unfold in_block. change (32 - 0) with 32.
  rewrite !N.div_small by assumption. reflexivity.
Qed.
