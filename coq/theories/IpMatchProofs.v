(* IpMatchProofs.v — ip_match on documented arguments (either family; address, address/prefix, IPv4
   address/netmask|hostmask) is block membership x / 2^(W-n) = net / 2^(W-n) (W = 32 / 128) and false
   across families; dotted masks denote exactly the prefix lengths of contiguous net/host masks;
   IPv6 texts (any case, leading zeros, '::' anywhere it may stand, dotted-quad tail) denote the integer
   of their groups; bad networks answer False; bad addresses raise ValueError. *)
From Coq Require Import List NArith Bool Lia Arith.
From PyCasbin Require Import Base PatBase IpMatch.
Import ListNotations.
Local Open Scope N_scope.

(* ================================================================ IPv4 text *)
Lemma parse_octet_bound : forall s v, parse_octet s = Some v -> v <= 255.
Proof.
  intros s v. unfold parse_octet. destruct s as [|c0 r]; [discriminate|].
  destruct (negb (forallb is_digit (c0 :: r))); [discriminate|].
  destruct (Nat.ltb 3 (length (c0 :: r))); [discriminate|].
  destruct ((c0 =? 48) && negb (is_nil r)); [discriminate|].
  destruct (N.ltb_spec 255 (parse_dec (c0 :: r))) as [Hlt|Hle]; [discriminate|].
  intro HH; inversion HH; subst. assumption.
Qed.

Lemma parse_octet_digits : forall s v, parse_octet s = Some v -> forallb is_digit s = true /\ s <> [].
Proof.
  intros s v. unfold parse_octet. destruct s as [|c0 r]; [discriminate|].
  destruct (forallb is_digit (c0 :: r)); [|discriminate]. intros _. split; [reflexivity|discriminate].
Qed.

Lemma parse_ip4_bound : forall s x, parse_ip4 s = Some x -> x < 2 ^ 32.
Proof.
  intros s x. unfold parse_ip4.
  destruct (split_on cDOT s) as [|a [|b [|c [|d [|? ?]]]]]; try discriminate.
  destruct (parse_octet a) as [va|] eqn:Ea; [|discriminate].
  destruct (parse_octet b) as [vb|] eqn:Eb; [|discriminate].
  destruct (parse_octet c) as [vc|] eqn:Ec; [|discriminate].
  destruct (parse_octet d) as [vd|] eqn:Ed; [|discriminate].
  apply parse_octet_bound in Ea, Eb, Ec, Ed.
  intro H; inversion H; subst. change (2 ^ 32) with 4294967296. lia.
Qed.

(* ---------------------------------------------------------------- split / join *)
Lemma split_on_nonempty : forall sep s, split_on sep s <> [].
Proof.
  intros sep s. induction s as [|c r IH]; simpl; [discriminate|].
  destruct (c =? sep); [discriminate|]. destruct (split_on sep r); [contradiction|discriminate].
Qed.

Lemma split_on_nosep : forall sep s, has_char sep s = false -> split_on sep s = [s].
Proof.
  intros sep s. unfold has_char. induction s as [|c r IH]; simpl; [reflexivity|].
  intro H. apply orb_false_iff in H. destruct H as [Hc Hr]. rewrite Hc, (IH Hr). reflexivity.
Qed.

Lemma split_on_app : forall sep p r, has_char sep p = false ->
  split_on sep (p ++ sep :: r) = p :: split_on sep r.
Proof.
  intros sep p r. unfold has_char. induction p as [|c p IH]; simpl.
  - intros _. rewrite N.eqb_refl. reflexivity.
  - intro H. apply orb_false_iff in H. destruct H as [Hc Hp]. rewrite Hc, (IH Hp). reflexivity.
Qed.

Lemma split_join : forall sep ps, ps <> [] -> Forall (fun p => has_char sep p = false) ps ->
  split_on sep (join sep ps) = ps.
Proof.
  intros sep ps. induction ps as [|p rest IH]; [congruence|].
  intros _ HF. inversion HF as [|? ? Hp Hrest]; subst. simpl.
  destruct rest as [|q rest'].
  - apply split_on_nosep. assumption.
  - rewrite split_on_app by assumption. f_equal. apply IH; [discriminate|assumption].
Qed.

(* every character of s other than sep lies in a piece of the split *)
Lemma split_on_chars : forall sep s c, In c s -> c <> sep -> exists p, In p (split_on sep s) /\ In c p.
Proof.
  intros sep s c. induction s as [|d r IH]; simpl; [contradiction|].
  intros [->|Hin] Hne.
  - destruct (N.eqb_spec c sep) as [E|E]; [contradiction|].
    destruct (split_on sep r) as [|h t] eqn:Es.
    + exists [c]. split; left; reflexivity.
    + exists (c :: h). split; left; reflexivity.
  - destruct (IH Hin Hne) as [p [Hp Hc]].
    destruct (d =? sep).
    + exists p. split; [right; assumption|assumption].
    + destruct (split_on sep r) as [|h t]; [contradiction|].
      destruct Hp as [<-|Hp].
      * exists (d :: h). split; [left; reflexivity|right; assumption].
      * exists p. split; [right; assumption|assumption].
Qed.

Definition digit_or_dot (c : N) : bool := is_digit c || (c =? cDOT).

Lemma parse_ip4_chars : forall s x, parse_ip4 s = Some x -> forallb digit_or_dot s = true.
Proof.
  intros s x H. apply forallb_forall. intros c Hc. unfold digit_or_dot.
  destruct (N.eqb_spec c cDOT) as [E|E]; [apply orb_true_r|]. rewrite orb_false_r.
  destruct (split_on_chars cDOT s c Hc E) as [p [Hp Hcp]].
  unfold parse_ip4 in H.
  destruct (split_on cDOT s) as [|a [|b [|c' [|d [|? ?]]]]]; try discriminate.
  destruct (parse_octet a) as [va|] eqn:Ea; [|discriminate].
  destruct (parse_octet b) as [vb|] eqn:Eb; [|discriminate].
  destruct (parse_octet c') as [vc|] eqn:Ec; [|discriminate].
  destruct (parse_octet d) as [vd|] eqn:Ed; [|discriminate].
  apply parse_octet_digits in Ea, Eb, Ec, Ed.
  destruct Ea as [Ea _], Eb as [Eb _], Ec as [Ec _], Ed as [Ed _].
  rewrite forallb_forall in Ea, Eb, Ec, Ed.
  destruct Hp as [<-|[<-|[<-|[<-|[]]]]]; auto.
Qed.

Lemma parse_ip4_has_dot : forall s x, parse_ip4 s = Some x -> has_char cDOT s = true.
Proof.
  intros s x H. destruct (has_char cDOT s) eqn:E; [reflexivity|].
  unfold parse_ip4 in H. rewrite (split_on_nosep _ _ E) in H. discriminate.
Qed.

Lemma digit_or_dot_not : forall s c, forallb digit_or_dot s = true -> digit_or_dot c = false -> has_char c s = false.
Proof.
  intros s c H Hc. unfold has_char. induction s as [|d r IH]; simpl; [reflexivity|].
  simpl in H. apply andb_true_iff in H. destruct H as [Hd Hr].
  rewrite (IH Hr), orb_false_r. destruct (N.eqb_spec d c) as [->|]; [congruence|reflexivity].
Qed.

Lemma parse_ip4_no_char : forall s x c, parse_ip4 s = Some x -> digit_or_dot c = false -> has_char c s = false.
Proof. intros s x c H Hc. eapply digit_or_dot_not; [eapply parse_ip4_chars; eassumption|assumption]. Qed.

(* ================================================================ prefix lengths and dotted masks *)
Lemma prefix_string_ok : forall W m n, prefix_from_prefix_string W m = Some n -> n <= W.
Proof.
  intros W m n. unfold prefix_from_prefix_string.
  destruct (is_nil m); [discriminate|]. destruct (negb (forallb is_digit m)); [discriminate|].
  destruct (4300 <? N.of_nat (length m)); [discriminate|].
  destruct (N.ltb_spec W (parse_dec m)) as [Hlt|Hle]; [discriminate|]. intro HH; inversion HH; subst; assumption.
Qed.

Lemma ctz_le_fuel : forall f m, ctz f m <= N.of_nat f.
Proof.
  induction f as [|f IH]; intro m; [simpl; lia|].
  cbn [ctz]. rewrite Nat2N.inj_succ. destruct (N.odd m); [lia|]. specialize (IH (N.div2 m)). lia.
Qed.

Lemma ctz_low_zero : forall f m, m mod 2 ^ ctz f m = 0.
Proof.
  induction f as [|f IH]; intro m; cbn [ctz].
  - change (2 ^ 0) with 1. apply N.mod_1_r.
  - destruct (N.odd m) eqn:Eo.
    + change (2 ^ 0) with 1. apply N.mod_1_r.
    + assert (Hm : m = 2 * N.div2 m).
      { rewrite (N.div2_odd m) at 1. rewrite Eo. simpl. lia. }
      rewrite N.pow_add_r. change (2 ^ 1) with 2.
      rewrite Hm at 1.
      rewrite N.mul_mod_distr_l; [|apply N.pow_nonzero; discriminate|discriminate].
      rewrite IH. reflexivity.
Qed.

Lemma crz_le : forall m, count_righthand_zero_bits m 32 <= 32.
Proof.
  intro m. unfold count_righthand_zero_bits. destruct (m =? 0); [lia|]. apply N.le_min_l.
Qed.

Lemma crz_low_zero : forall m, m mod 2 ^ count_righthand_zero_bits m 32 = 0.
Proof.
  intro m. unfold count_righthand_zero_bits. destruct (N.eqb_spec m 0) as [->|Hne].
  - apply N.mod_0_l. apply N.pow_nonzero. discriminate.
  - rewrite N.min_r by (apply (ctz_le_fuel 32)). apply ctz_low_zero.
Qed.

(* a netmask pattern 1*0* is 2^32 - 2^(32-p) *)
Lemma prefix_from_ip_int_sound : forall m p, prefix_from_ip_int m = Some p ->
  p <= 32 /\ m = 2 ^ 32 - 2 ^ (32 - p).
Proof.
  intros m p. unfold prefix_from_ip_int.
  set (tz := count_righthand_zero_bits m 32).
  assert (Htz : tz <= 32) by apply crz_le.
  assert (Hz : m mod 2 ^ tz = 0) by apply crz_low_zero.
  clearbody tz.
  destruct (N.eqb_spec (N.shiftr m tz) (N.shiftl 1 (32 - tz) - 1)) as [E|E]; [|discriminate].
  intro HH. assert (Hpe : p = 32 - tz) by congruence. clear HH. subst p. split; [lia|].
  rewrite N.shiftr_div_pow2, N.shiftl_1_l in E.
  assert (Hp : 2 ^ tz <> 0) by (apply N.pow_nonzero; discriminate).
  rewrite (N.div_mod m (2 ^ tz) Hp), Hz, E, N.add_0_r.
  replace (32 - (32 - tz)) with tz by lia.
  rewrite N.mul_sub_distr_l, N.mul_1_r, <- N.pow_add_r.
  replace (tz + (32 - tz)) with 32 by lia. reflexivity.
Qed.

Lemma le32_cases : forall p, p <= 32 -> In p (map N.of_nat (seq 0 33)).
Proof.
  intros p Hp. rewrite <- (N2Nat.id p). apply in_map. apply in_seq. lia.
Qed.

Lemma mask_int_netmask : forall p, p <= 32 -> prefix_from_mask_int (2 ^ 32 - 2 ^ (32 - p)) = Some p.
Proof.
  intros p Hp. apply le32_cases in Hp. simpl in Hp.
  repeat (destruct Hp as [<-|Hp]; [vm_compute; reflexivity|]). contradiction.
Qed.

Lemma mask_int_hostmask : forall p, 0 < p -> p < 32 -> prefix_from_mask_int (2 ^ (32 - p) - 1) = Some p.
Proof.
  intros p H0 Hp. assert (Hle : p <= 32) by lia. apply le32_cases in Hle. simpl in Hle.
  repeat (destruct Hle as [<-|Hle]; [first [lia | vm_compute; reflexivity]|]). contradiction.
Qed.

Lemma lxor_ones32 : forall m, m < 2 ^ 32 -> N.lxor m ones32 = ones32 - m.
Proof.
  intros m Hm. change ones32 with (N.ones 32). change (N.lxor m (N.ones 32)) with (N.lnot m 32).
  apply N.lnot_sub_low.
  destruct (N.eq_dec m 0) as [->|Hne]; [reflexivity|]. apply N.log2_lt_pow2; lia.
Qed.

(* a dotted mask denotes p only if it is the netmask or the hostmask of p: other patterns are rejected *)
Lemma mask_int_sound : forall m p, m < 2 ^ 32 -> prefix_from_mask_int m = Some p ->
  p <= 32 /\ (m = 2 ^ 32 - 2 ^ (32 - p) \/ m = 2 ^ (32 - p) - 1).
Proof.
  intros m p Hm. unfold prefix_from_mask_int.
  destruct (prefix_from_ip_int m) as [q|] eqn:E1.
  - intro HH; inversion HH; subst q. apply prefix_from_ip_int_sound in E1. destruct E1; auto.
  - intro E2. apply prefix_from_ip_int_sound in E2. destruct E2 as [Hp E2]. split; [assumption|right].
    rewrite lxor_ones32 in E2 by assumption.
    assert (Hpow : 0 < 2 ^ (32 - p)) by (apply N.neq_0_lt_0, N.pow_nonzero; discriminate).
    assert (Hle : 2 ^ (32 - p) <= 2 ^ 32) by (apply N.pow_le_mono_r; lia).
    change ones32 with 4294967295 in E2. change (2 ^ 32) with 4294967296 in *. lia.
Qed.

Lemma parse_prefix_ok : forall m net n, parse_prefix m = NetOk net n -> n <= 32.
Proof.
  intros m net n. unfold parse_prefix.
  destruct (prefix_from_prefix_string 32 m) as [k|] eqn:E1.
  - intro HH; inversion HH; subst. eapply prefix_string_ok; eassumption.
  - unfold prefix_from_ip_string. destruct (parse_ip4 m) as [v|] eqn:E2; [|discriminate].
    destruct (prefix_from_mask_int v) as [k|] eqn:E3; [|discriminate].
    intro HH; inversion HH; subst. apply mask_int_sound in E3; [tauto|eapply parse_ip4_bound; eassumption].
Qed.

Lemma parse_net_ok : forall s net n, parse_net s = NetOk net n -> n <= 32 /\ net < 2 ^ 32.
Proof.
  intros s net n. unfold parse_net.
  destruct (split_on cSLASH s) as [|a [|m [|? ?]]]; try discriminate.
  - destruct (parse_ip4 a) as [x|] eqn:E; [|discriminate]. intro H; inversion H; subst.
    split; [lia|eapply parse_ip4_bound; eassumption].
  - destruct (parse_prefix m) as [z k|] eqn:Em; try discriminate.
    destruct (parse_ip4 a) as [x|] eqn:E; [|discriminate]. intro H; inversion H; subst.
    split; [eapply parse_prefix_ok; eassumption|eapply parse_ip4_bound; eassumption].
Qed.

(* ================================================================ masks and blocks, any width *)
(* the netmask keeps exactly the top n of W bits *)
Lemma land_mask : forall W n x, n <= W -> x < 2 ^ W ->
  N.land x (mask W n) = N.shiftl (N.shiftr x (W - n)) (W - n).
Proof.
  intros W n x Hn Hx. apply N.bits_inj. intro i.
  rewrite N.land_spec. unfold mask. rewrite N.lxor_spec, N.shiftr_spec by lia.
  destruct (N.ltb_spec i (W - n)) as [Hi|Hi].
  - rewrite N.shiftl_spec_low by assumption.
    rewrite (N.ones_spec_low W i) by lia. rewrite (N.ones_spec_low W (i + n)) by lia.
    simpl. apply andb_false_r.
  - rewrite N.shiftl_spec_high by lia. rewrite N.shiftr_spec by lia.
    replace (i - (W - n) + (W - n)) with i by lia.
    destruct (N.ltb_spec i W) as [Hi2|Hi2].
    + rewrite (N.ones_spec_low W i) by lia. rewrite (N.ones_spec_high W (i + n)) by lia.
      simpl. apply andb_true_r.
    + assert (Hb : N.testbit x i = false).
      { destruct (N.eq_dec x 0) as [E|E]; [subst; apply N.bits_0|].
        apply N.bits_above_log2. apply N.lt_le_trans with W; [|assumption].
        apply N.log2_lt_pow2; [lia|assumption]. }
      rewrite Hb. reflexivity.
Qed.

Lemma mask_eq_iff_block_w : forall W n x net, n <= W -> x < 2 ^ W -> net < 2 ^ W ->
  (N.land x (mask W n) =? N.land net (mask W n)) = in_block_w W x net n.
Proof.
  intros W n x net Hn Hx Hnet. unfold in_block_w.
  rewrite !land_mask by assumption.
  rewrite !N.shiftl_mul_pow2, !N.shiftr_div_pow2.
  assert (Hp : 2 ^ (W - n) <> 0) by (apply N.pow_nonzero; discriminate).
  destruct (N.eqb_spec (x / 2 ^ (W - n)) (net / 2 ^ (W - n))) as [E|E].
  - rewrite E. apply N.eqb_refl.
  - apply N.eqb_neq. intro H. apply E. apply N.mul_cancel_r in H; assumption.
Qed.

Lemma mask_eq_iff_block : forall n x net, n <= 32 -> x < 2 ^ 32 -> net < 2 ^ 32 ->
  (N.land x (netmask n) =? N.land net (netmask n)) = in_block x net n.
Proof. intros. apply mask_eq_iff_block_w; assumption. Qed.

(* ================================================================ IPv6 text: hextets *)
Definition P16 (k : nat) : N := 65536 ^ N.of_nat k.

Lemma P16_S : forall k, P16 (S k) = P16 k * 65536.
Proof. intro k. unfold P16. rewrite Nat2N.inj_succ, N.pow_succ_r'. apply N.mul_comm. Qed.

Lemma P16_add : forall a b, P16 (a + b) = P16 a * P16 b.
Proof. intros a b. unfold P16. rewrite Nat2N.inj_add. apply N.pow_add_r. Qed.

Lemma P16_pos : forall k, 0 < P16 k.
Proof. intro k. unfold P16. apply N.neq_0_lt_0, N.pow_nonzero. discriminate. Qed.

Lemma P16_mono : forall a b, (a <= b)%nat -> P16 a <= P16 b.
Proof. intros a b H. unfold P16. apply N.pow_le_mono_r; [discriminate|lia]. Qed.

Lemma P16_8 : P16 8 = 2 ^ 128.
Proof. reflexivity. Qed.

Lemma hex_digit_val_le : forall c, hex_digit_val c <= 15.
Proof.
  intro c. unfold hex_digit_val, hex_val, is_digit.
  destruct (N.leb_spec 48 c), (N.leb_spec c 57); simpl; try lia;
  destruct (N.leb_spec 97 c), (N.leb_spec c 102); simpl; try lia;
  destruct (N.leb_spec 65 c), (N.leb_spec c 70); simpl; lia.
Qed.

Lemma parse_hex_acc_bound : forall s a,
  fold_left (fun a c => a * 16 + hex_digit_val c) s a < (a + 1) * 16 ^ N.of_nat (length s).
Proof.
  induction s as [|c r IH]; intro a.
  - simpl. lia.
  - cbn [fold_left length]. rewrite Nat2N.inj_succ, N.pow_succ_r'.
    eapply N.lt_le_trans; [apply IH|].
    pose proof (hex_digit_val_le c) as Hc.
    rewrite N.mul_assoc. apply N.mul_le_mono_r. lia.
Qed.

Lemma parse_hextet_inv : forall s v, parse_hextet s = Some v ->
  forallb is_hex s = true /\ (length s <= 4)%nat /\ s <> [] /\ v = parse_hex s.
Proof.
  intros s v. unfold parse_hextet.
  destruct (forallb is_hex s); [|discriminate]. simpl.
  destruct (Nat.ltb_spec 4 (length s)) as [Hl|Hl]; [discriminate|].
  destruct s as [|c r]; [discriminate|]. cbn [is_nil]. intro HH; inversion HH.
  repeat split; [exact Hl|discriminate].
Qed.

Lemma parse_hextet_intro : forall s, forallb is_hex s = true -> (length s <= 4)%nat -> s <> [] ->
  parse_hextet s = Some (parse_hex s).
Proof.
  intros s H1 H2 H3. unfold parse_hextet. rewrite H1. simpl.
  destruct (Nat.ltb_spec 4 (length s)); [lia|]. destruct s; [congruence|reflexivity].
Qed.

Lemma parse_hextet_bound : forall s v, parse_hextet s = Some v -> v < 65536.
Proof.
  intros s v H. apply parse_hextet_inv in H. destruct H as [_ [Hl [_ ->]]].
  unfold parse_hex. eapply N.lt_le_trans; [apply parse_hex_acc_bound|].
  rewrite N.add_0_l, N.mul_1_l. change 65536 with (16 ^ N.of_nat 4).
  apply N.pow_le_mono_r; [discriminate|lia].
Qed.

Lemma parse_hextet_nonempty : forall s v, parse_hextet s = Some v -> is_nil s = false.
Proof. intros s v H. apply parse_hextet_inv in H. destruct H as [_ [_ [H _]]]. destruct s; [congruence|reflexivity]. Qed.

Lemma hex_no_char : forall s c, forallb is_hex s = true -> is_hex c = false -> has_char c s = false.
Proof.
  intros s c H Hc. unfold has_char. induction s as [|d r IH]; simpl; [reflexivity|].
  simpl in H. apply andb_true_iff in H. destruct H as [Hd Hr].
  rewrite (IH Hr), orb_false_r. destruct (N.eqb_spec d c) as [->|]; [congruence|reflexivity].
Qed.

Lemma parse_hextet_no_char : forall s v c, parse_hextet s = Some v -> is_hex c = false -> has_char c s = false.
Proof. intros s v c H Hc. apply parse_hextet_inv in H. destruct H as [H _]. eapply hex_no_char; eassumption. Qed.

(* leading zeros do not change a hextet *)
Lemma hextet_leading_zero : forall t v, parse_hextet t = Some v -> (length t < 4)%nat ->
  parse_hextet (48 :: t) = Some v.
Proof.
  intros t v H Hl. apply parse_hextet_inv in H. destruct H as [Hh [_ [Hne ->]]].
  rewrite parse_hextet_intro; [reflexivity| |simpl; lia|discriminate].
  simpl. rewrite Hh. reflexivity.
Qed.

(* case does not matter *)
Definition swapcase (c : N) : N :=
  if (97 <=? c) && (c <=? 122) then c - 32
  else if (65 <=? c) && (c <=? 90) then c + 32
  else c.

Lemma hex_val_swapcase : forall c, hex_val (swapcase c) = hex_val c.
Proof.
  intro c. unfold swapcase.
  destruct (N.leb_spec 97 c) as [Ha|Ha], (N.leb_spec c 122) as [Hb|Hb]; cbn [andb];
  [|destruct (N.leb_spec 65 c) as [Hc|Hc], (N.leb_spec c 90) as [Hd|Hd]; cbn [andb]; try reflexivity..].
  all: unfold hex_val, is_digit.
  - destruct (N.leb_spec 48 (c - 32)), (N.leb_spec (c - 32) 57), (N.leb_spec 48 c), (N.leb_spec c 57); cbn [andb]; try lia;
    destruct (N.leb_spec 97 (c - 32)), (N.leb_spec (c - 32) 102), (N.leb_spec 97 c), (N.leb_spec c 102); cbn [andb]; try lia;
    destruct (N.leb_spec 65 (c - 32)), (N.leb_spec (c - 32) 70), (N.leb_spec 65 c), (N.leb_spec c 70); cbn [andb];
      try lia; try reflexivity; f_equal; lia.
  - lia.
  - destruct (N.leb_spec 48 (c + 32)), (N.leb_spec (c + 32) 57), (N.leb_spec 48 c), (N.leb_spec c 57); cbn [andb]; try lia;
    destruct (N.leb_spec 97 (c + 32)), (N.leb_spec (c + 32) 102), (N.leb_spec 97 c), (N.leb_spec c 102); cbn [andb]; try lia;
    destruct (N.leb_spec 65 (c + 32)), (N.leb_spec (c + 32) 70), (N.leb_spec 65 c), (N.leb_spec c 70); cbn [andb];
      try lia; try reflexivity; f_equal; lia.
  - lia.
Qed.

Lemma parse_hex_swapcase : forall s a,
  fold_left (fun a c => a * 16 + hex_digit_val c) (map swapcase s) a =
  fold_left (fun a c => a * 16 + hex_digit_val c) s a.
Proof.
  induction s as [|c r IH]; intro a; [reflexivity|]. cbn [map fold_left].
  unfold hex_digit_val at 2 4. rewrite hex_val_swapcase. apply IH.
Qed.

Lemma hextet_case : forall t, parse_hextet (map swapcase t) = parse_hextet t.
Proof.
  intro t. unfold parse_hextet. rewrite map_length.
  assert (H : forallb is_hex (map swapcase t) = forallb is_hex t).
  { induction t as [|c r IH]; [reflexivity|]. simpl. rewrite IH. unfold is_hex. rewrite hex_val_swapcase. reflexivity. }
  rewrite H. unfold parse_hex. rewrite parse_hex_swapcase. destruct t; reflexivity.
Qed.

(* '%x' renderings read back *)
Lemma hex_digit_ok : forall d, d < 16 -> is_hex (hex_digit d) = true /\ hex_digit_val (hex_digit d) = d.
Proof.
  intros d Hd. assert (Hle : d <= 32) by lia. apply le32_cases in Hle. simpl in Hle.
  repeat (destruct Hle as [<-|Hle]; [first [lia | vm_compute; split; reflexivity]|]). contradiction.
Qed.

Lemma hex4_text : forall v, v < 65536 -> parse_hextet (hex4 v) = Some v.
Proof.
  intros v Hv.
  assert (H3 : v / 4096 mod 16 < 16) by (apply N.mod_lt; discriminate).
  assert (H2 : v / 256 mod 16 < 16) by (apply N.mod_lt; discriminate).
  assert (H1 : v / 16 mod 16 < 16) by (apply N.mod_lt; discriminate).
  assert (H0 : v mod 16 < 16) by (apply N.mod_lt; discriminate).
  destruct (hex_digit_ok _ H3) as [A3 B3]. destruct (hex_digit_ok _ H2) as [A2 B2].
  destruct (hex_digit_ok _ H1) as [A1 B1]. destruct (hex_digit_ok _ H0) as [A0 B0].
  rewrite parse_hextet_intro; [|unfold hex4; simpl; rewrite A3, A2, A1, A0; reflexivity|simpl; lia|discriminate].
  f_equal. unfold parse_hex, hex4. cbn [fold_left]. rewrite B3, B2, B1, B0.
  pose proof (N.div_mod v 16 ltac:(discriminate)) as E0.
  pose proof (N.div_mod (v / 16) 16 ltac:(discriminate)) as E1.
  pose proof (N.div_mod (v / 16 / 16) 16 ltac:(discriminate)) as E2.
  rewrite (N.div_div v 16 16) in E1, E2 by discriminate. change (16 * 16) with 256 in E1, E2.
  rewrite (N.div_div v 256 16) in E2 by discriminate. change (256 * 16) with 4096 in E2.
  assert (Hq : v / 4096 < 16) by (apply N.div_lt_upper_bound; [discriminate|exact Hv]).
  rewrite (N.mod_small (v / 4096) 16) by assumption. lia.
Qed.

Lemma strip0_text : forall s v, parse_hextet s = Some v -> parse_hextet (strip0 s) = Some v.
Proof.
  induction s as [|c r IH]; intros v H; [exact H|].
  cbn [strip0]. destruct r as [|d r']; [exact H|].
  destruct (N.eqb_spec c 48) as [->|Hne]; [|exact H].
  apply IH. apply parse_hextet_inv in H. destruct H as [Hh [Hl [_ ->]]].
  simpl in Hh. rewrite parse_hextet_intro; [reflexivity|exact Hh|simpl in *; lia|discriminate].
Qed.

Lemma hex_of_text : forall v, v < 65536 -> parse_hextet (hex_of v) = Some v.
Proof. intros v Hv. apply strip0_text, hex4_text, Hv. Qed.

(* ================================================================ IPv6 text: groups *)

Lemma parse_hextets_spec : forall ps l, parse_hextets ps = Some l <-> Forall2 hextet_text ps l.
Proof.
  induction ps as [|p rest IH]; intro l; simpl.
  - split; intro H; [inversion H; constructor|inversion H; reflexivity].
  - split.
    + destruct (parse_hextet p) as [v|] eqn:Ep; [|discriminate].
      destruct (parse_hextets rest) as [l'|] eqn:Er; [|discriminate].
      intro H; inversion H; subst. constructor; [exact Ep|apply IH; reflexivity].
    + intro H. inversion H as [|? v ? l' Hp Hr]; subst. unfold hextet_text in Hp. rewrite Hp.
      apply IH in Hr. rewrite Hr. reflexivity.
Qed.

Lemma Forall2_len : forall {A B} (R : A -> B -> Prop) l1 l2, Forall2 R l1 l2 -> length l1 = length l2.
Proof. intros A B R l1 l2 H. induction H; simpl; congruence. Qed.

Lemma hextets_bound : forall ps l, Forall2 hextet_text ps l -> Forall (fun v => v < 65536) l.
Proof.
  intros ps l H. induction H; constructor; [eapply parse_hextet_bound; eassumption|assumption].
Qed.

Lemma hextets_nonempty : forall ps l, Forall2 hextet_text ps l -> Forall (fun p => is_nil p = false) ps.
Proof.
  intros ps l H. induction H; constructor; [eapply parse_hextet_nonempty; eassumption|assumption].
Qed.

Lemma compose_app : forall a l1 l2, compose a (l1 ++ l2) = compose (compose a l1) l2.
Proof. intros. unfold compose. apply fold_left_app. Qed.

Lemma compose_zeros : forall k a, compose a (repeat 0 k) = N.shiftl a (16 * N.of_nat k).
Proof.
  induction k as [|k IH]; intro a.
  - simpl. rewrite N.shiftl_0_r. reflexivity.
  - cbn [repeat]. unfold compose in *. cbn [fold_left]. rewrite IH, N.add_0_r.
    rewrite !N.shiftl_mul_pow2, Nat2N.inj_succ.
    replace (16 * N.succ (N.of_nat k)) with (16 + 16 * N.of_nat k) by lia.
    rewrite N.pow_add_r. change (2 ^ 16) with 65536. lia.
Qed.

Lemma compose_bound : forall l a k, a < P16 k -> Forall (fun v => v < 65536) l ->
  compose a l < P16 (k + length l).
Proof.
  induction l as [|v l IH]; intros a k Ha Hl.
  - simpl. rewrite Nat.add_0_r. exact Ha.
  - inversion Hl as [|? ? Hv Hl']; subst. unfold compose. cbn [fold_left length].
    rewrite Nat.add_succ_r. change (S (k + length l)) with (S k + length l)%nat.
    apply IH; [|exact Hl']. rewrite P16_S.
    assert (a + 1 <= P16 k) by lia.
    apply N.lt_le_trans with ((a + 1) * 65536); [lia|]. apply N.mul_le_mono_r. assumption.
Qed.

Lemma v6_from_parts_bound : forall parts x, v6_from_parts parts = Some x -> x < 2 ^ 128.
Proof.
  intros parts x. unfold v6_from_parts.
  destruct (Nat.ltb 9 (length parts)); [discriminate|].
  destruct (mid_empties 1 (tl parts)) as [|k [|? ?]]; [| |discriminate].
  - destruct (negb (Nat.eqb (length parts) 8)) eqn:En; [discriminate|].
    destruct (is_nil (hd [] parts)); [discriminate|]. destruct (is_nil (last parts [])); [discriminate|].
    destruct (parse_hextets parts) as [v|] eqn:Ep; [|discriminate].
    intro H; inversion H; subst. apply parse_hextets_spec in Ep.
    apply negb_false_iff, Nat.eqb_eq in En.
    rewrite <- P16_8. replace 8%nat with (0 + length v)%nat by (rewrite <- (Forall2_len _ _ _ Ep); exact En).
    apply compose_bound; [apply P16_pos|eapply hextets_bound; eassumption].
  - set (hi := if is_nil (hd [] parts) then (k - 1)%nat else k).
    set (lo := if is_nil (last parts []) then (length parts - k - 1 - 1)%nat else (length parts - k - 1)%nat).
    destruct (is_nil (hd [] parts) && negb (Nat.eqb hi 0)); [discriminate|].
    destruct (is_nil (last parts []) && negb (Nat.eqb lo 0)); [discriminate|].
    destruct (Nat.leb_spec 8 (hi + lo)) as [Hs|Hs]; [discriminate|].
    destruct (parse_hextets (firstn hi parts)) as [vh|] eqn:Eh; [|discriminate].
    destruct (parse_hextets (skipn (length parts - lo) parts)) as [vl|] eqn:El; [|discriminate].
    intro H.
    assert (Hx : x = compose (N.shiftl (compose 0 vh) (16 * N.of_nat (8 - (hi + lo)))) vl) by congruence.
    clear H. subst x. apply parse_hextets_spec in Eh, El.
    pose proof (Forall2_len _ _ _ Eh) as Lh. pose proof (Forall2_len _ _ _ El) as Ll.
    pose proof (firstn_le_length hi parts) as Lh'. rewrite skipn_length in Ll.
    clearbody hi lo.
    assert (Hb1 : compose 0 vh < P16 (0 + length vh))
      by (apply compose_bound; [apply P16_pos|eapply hextets_bound; eassumption]).
    rewrite N.shiftl_mul_pow2.
    replace (2 ^ (16 * N.of_nat (8 - (hi + lo)))) with (P16 (8 - (hi + lo)))
      by (unfold P16; change 65536 with (2 ^ 16); rewrite <- N.pow_mul_r; reflexivity).
    assert (Hb2 : compose 0 vh * P16 (8 - (hi + lo)) < P16 (length vh + (8 - (hi + lo)))).
    { rewrite P16_add. apply N.mul_lt_mono_pos_r; [apply P16_pos|exact Hb1]. }
    eapply N.lt_le_trans; [apply compose_bound; [exact Hb2|eapply hextets_bound; eassumption]|].
    rewrite <- P16_8. apply P16_mono. lia.
Qed.

Lemma parse_ip6_bound : forall s x, parse_ip6 s = Some x -> x < 2 ^ 128.
Proof.
  intros s x. unfold parse_ip6. destruct (is_nil s); [discriminate|].
  destruct (Nat.ltb (length (split_on cCOLON s)) 3); [discriminate|].
  destruct (has_char cDOT (last (split_on cCOLON s) [])).
  - destruct (parse_ip4 (last (split_on cCOLON s) [])); [|discriminate]. apply v6_from_parts_bound.
  - apply v6_from_parts_bound.
Qed.

Lemma parse_ip6_scoped_bound : forall s x, parse_ip6_scoped s = Some x -> x < 2 ^ 128.
Proof.
  intros s x. unfold parse_ip6_scoped. destruct (split_scope_id s); [|discriminate]. apply parse_ip6_bound.
Qed.

Lemma parse_addr_bound : forall s f x, parse_addr s = Some (f, x) -> x < 2 ^ width f.
Proof.
  intros s f x. unfold parse_addr. destruct (parse_ip4 s) as [y|] eqn:E4.
  - intro H; inversion H; subst. eapply parse_ip4_bound; eassumption.
  - destruct (has_char cSLASH s); [discriminate|].
    destruct (parse_ip6_scoped s) as [y|] eqn:E6; [|discriminate].
    intro H; inversion H; subst. eapply parse_ip6_scoped_bound; eassumption.
Qed.

Lemma parse_net6_ok : forall s net n, parse_net6 s = NetOk net n -> n <= 128 /\ net < 2 ^ 128.
Proof.
  intros s net n. unfold parse_net6.
  destruct (split_on cSLASH s) as [|a [|m [|? ?]]]; try discriminate.
  - destruct (parse_ip6_scoped a) as [x|] eqn:E; [|discriminate]. intro H; inversion H; subst.
    split; [lia|eapply parse_ip6_scoped_bound; eassumption].
  - destruct (prefix_from_prefix_string 128 m) as [k|] eqn:Em; [|discriminate].
    destruct (parse_ip6_scoped a) as [x|] eqn:E; [|discriminate]. intro H; inversion H; subst.
    split; [eapply prefix_string_ok; eassumption|eapply parse_ip6_scoped_bound; eassumption].
Qed.

Lemma parse_network_ok : forall s f net n, parse_network s = Some (f, net, n) ->
  n <= width f /\ net < 2 ^ width f.
Proof.
  intros s f net n. unfold parse_network.
  destruct (parse_net s) as [x k|] eqn:E4.
  - intro H; inversion H; subst. eapply parse_net_ok; eassumption.
  - destruct (parse_net6 s) as [x k|] eqn:E6; [|discriminate].
    intro H; inversion H; subst. eapply parse_net6_ok; eassumption.
Qed.

(* ================================================================ ip_match = block membership *)
Theorem ip_iff_w : forall a b f x g net n,
  parse_addr a = Some (f, x) -> parse_network b = Some (g, net, n) ->
  ip_match a b = Ok (fam_eqb f g && in_block_w (width g) x net n).
Proof.
  intros a b f x g net n Ha Hb. unfold ip_match. rewrite Ha, Hb.
  destruct (parse_network_ok _ _ _ _ Hb) as [Hn Hnet]. pose proof (parse_addr_bound _ _ _ Ha) as Hx.
  destruct f, g; simpl fam_eqb; cbn [negb andb]; try reflexivity;
    rewrite mask_eq_iff_block_w by assumption; reflexivity.
Qed.

Lemma parse_addr_v4 : forall a x, parse_ip4 a = Some x -> parse_addr a = Some (V4, x).
Proof. intros a x H. unfold parse_addr. rewrite H. reflexivity. Qed.

Lemma parse_network_v4 : forall b net n, parse_net b = NetOk net n -> parse_network b = Some (V4, net, n).
Proof. intros b net n H. unfold parse_network. rewrite H. reflexivity. Qed.

Theorem ip_iff : forall a b x net n,
  parse_ip4 a = Some x -> parse_net b = NetOk net n ->
  ip_match a b = Ok (in_block x net n).
Proof.
  intros a b x net n Hx Hnet.
  rewrite (ip_iff_w _ _ _ _ _ _ _ (parse_addr_v4 _ _ Hx) (parse_network_v4 _ _ _ Hnet)). reflexivity.
Qed.

Theorem ip_cross_family : forall a b f x g net n,
  parse_addr a = Some (f, x) -> parse_network b = Some (g, net, n) -> f <> g -> ip_match a b = Ok false.
Proof.
  intros a b f x g net n Ha Hb Hne. rewrite (ip_iff_w _ _ _ _ _ _ _ Ha Hb).
  destruct f, g; try reflexivity; congruence.
Qed.

Theorem ip_doc_spec : forall a b, ip_doc a b = true -> ip_match a b = Ok (ip_spec a b).
Proof.
  intros a b H. unfold ip_doc in H. apply andb_true_iff in H. destruct H as [_ H]. unfold ip_spec.
  destruct (parse_addr a) as [[f x]|] eqn:Ea; [|discriminate].
  destruct (parse_network b) as [[[g net] n]|] eqn:Eb; [|discriminate].
  eapply ip_iff_w; eassumption.
Qed.

(* an argument that is not a network never matches; an address that is not an address raises *)
Theorem ip_not_network : forall a b f x,
  parse_addr a = Some (f, x) -> parse_network b = None -> ip_match a b = Ok false.
Proof. intros a b f x Ha Hb. unfold ip_match. rewrite Ha, Hb. reflexivity. Qed.

Theorem ip_bad_network : forall a b x,
  parse_ip4 a = Some x -> parse_net b = NetBad -> ip_match a b = Ok false.
Proof.
  intros a b x Hx Hn. unfold ip_match. rewrite (parse_addr_v4 _ _ Hx). unfold parse_network. rewrite Hn.
  destruct (parse_net6 b); reflexivity.
Qed.

Theorem ip_bad_address : forall a b, parse_addr a = None -> ip_match a b = Err EValue.
Proof. intros a b Hx. unfold ip_match. rewrite Hx. reflexivity. Qed.

(* the answer depends on the texts only through the integers they denote *)
Theorem ip_match_ext : forall a a' b b',
  parse_addr a = parse_addr a' -> parse_network b = parse_network b' -> ip_match a b = ip_match a' b'.
Proof. intros a a' b b' Ha Hb. unfold ip_match. rewrite Ha, Hb. reflexivity. Qed.

(* block membership, spelled out: same top n bits *)
Lemma in_block_full : forall x net, in_block x net 32 = (x =? net).
Proof. intros. unfold in_block, in_block_w. change (2 ^ (32 - 32)) with 1. rewrite !N.div_1_r. reflexivity. Qed.

Lemma in_block_zero : forall x net, x < 2 ^ 32 -> net < 2 ^ 32 -> in_block x net 0 = true.
Proof.
  intros x net Hx Hn. unfold in_block, in_block_w. change (32 - 0) with 32.
  rewrite !N.div_small by assumption. reflexivity.
Qed.

Lemma in_block_w_full : forall W x net, in_block_w W x net W = (x =? net).
Proof. intros. unfold in_block_w. rewrite N.sub_diag. change (2 ^ 0) with 1. rewrite !N.div_1_r. reflexivity. Qed.

(* ================================================================ IPv6 text: '::' anywhere *)
Lemma mid_empties_nonempty : forall B i, Forall (fun p => is_nil p = false) B -> mid_empties i B = [].
Proof.
  induction B as [|b B IH]; intros i H; [reflexivity|].
  inversion H as [|? ? Hb HB]; subst. cbn [mid_empties]. destruct B as [|b' B']; [reflexivity|].
  rewrite Hb. cbn [app]. apply IH. exact HB.
Qed.

Lemma mid_empties_app : forall A i B, Forall (fun p => is_nil p = false) A -> B <> [] ->
  mid_empties i (A ++ [] :: B) = (i + length A)%nat :: mid_empties (S (i + length A)) B.
Proof.
  induction A as [|a A IH]; intros i B HA HB.
  - destruct B as [|b B]; [congruence|]. cbn [app mid_empties is_nil length]. rewrite Nat.add_0_r. reflexivity.
  - inversion HA as [|? ? Ha HA']; subst. cbn [app mid_empties length].
    destruct (A ++ [] :: B) as [|z Z] eqn:EZ; [destruct A; discriminate|].
    rewrite Ha. cbn [app]. rewrite <- EZ, (IH (S i) B HA' HB).
    rewrite Nat.add_succ_r. reflexivity.
Qed.

Lemma last_app_cons : forall {A} (l : list A) b l' d, last (l ++ b :: l') d = last (b :: l') d.
Proof.
  intros A l b l' d. induction l as [|a l IH]; [reflexivity|].
  cbn [app]. rewrite <- IH. cbn [last]. destruct (l ++ b :: l') eqn:E; [destruct l; discriminate|reflexivity].
Qed.

Lemma last_nonempty : forall B, B <> [] -> Forall (fun p => is_nil p = false) B -> is_nil (last B ([] : str)) = false.
Proof.
  induction B as [|b B IH]; intros Hne H; [congruence|].
  inversion H as [|? ? Hb HB]; subst. destruct B as [|b' B']; [exact Hb|].
  change (last (b :: b' :: B') []) with (last (b' :: B') ([] : str)). apply IH; [discriminate|exact HB].
Qed.

Definition blank_if_nil (l : list str) : list str := if is_nil l then [[]] else l.

Ltac know_last b tac :=
  match goal with
  | |- context [is_nil (last ?l ?d)] =>
    let H := fresh "Hl" in assert (H : is_nil (last l d) = b) by tac; rewrite !H
  end.

(* the '::' branch of v6_from_parts, given what its intermediate quantities are *)
Lemma v6_dc_gen : forall (parts : list str) k hi lo vh vl,
  (length parts <= 9)%nat -> mid_empties 1 (tl parts) = [k] ->
  (if is_nil (hd [] parts) then (k - 1)%nat else k) = hi ->
  (if is_nil (last parts []) then (length parts - k - 1 - 1)%nat else (length parts - k - 1)%nat) = lo ->
  (is_nil (hd [] parts) = true -> hi = 0%nat) -> (is_nil (last parts []) = true -> lo = 0%nat) ->
  (hi + lo < 8)%nat ->
  parse_hextets (firstn hi parts) = Some vh -> parse_hextets (skipn (length parts - lo) parts) = Some vl ->
  v6_from_parts parts = Some (compose (N.shiftl (compose 0 vh) (16 * N.of_nat (8 - (hi + lo)))) vl).
Proof.
  intros parts k hi lo vh vl Hn Hm Hhi Hlo Hh0 Hl0 Hs Hvh Hvl.
  unfold v6_from_parts. rewrite Hm. cbv zeta. rewrite Hhi, Hlo.
  destruct (Nat.ltb_spec 9 (length parts)) as [?|_]; [lia|].
  assert (E1 : is_nil (hd [] parts) && negb (Nat.eqb hi 0) = false).
  { destruct (is_nil (hd [] parts)); [|reflexivity]. rewrite Hh0 by reflexivity. reflexivity. }
  assert (E2 : is_nil (last parts []) && negb (Nat.eqb lo 0) = false).
  { destruct (is_nil (last parts [])); [|reflexivity]. rewrite Hl0 by reflexivity. reflexivity. }
  rewrite E1, E2. destruct (Nat.leb_spec 8 (hi + lo)) as [?|_]; [lia|].
  rewrite Hvh, Hvl. reflexivity.
Qed.

(* the parts-level statement: hextets pre, an empty part, hextets post *)
Lemma v6_from_parts_dc : forall pre post vpre vpost,
  Forall2 hextet_text pre vpre -> Forall2 hextet_text post vpost ->
  (length pre + length post < 8)%nat ->
  v6_from_parts (blank_if_nil pre ++ [] :: blank_if_nil post)
  = Some (compose 0 (vpre ++ repeat 0 (8 - (length pre + length post)) ++ vpost)).
Proof.
  intros pre post vpre vpost Hpre Hpost Hlen.
  pose proof (hextets_nonempty _ _ Hpre) as Npre. pose proof (hextets_nonempty _ _ Hpost) as Npost.
  rewrite !compose_app, compose_zeros.
  apply parse_hextets_spec in Hpre, Hpost.
  destruct pre as [|p0 pre]; destruct post as [|q0 post]; unfold blank_if_nil; cbn [is_nil].
  - (* "::" *)
    simpl in Hpre, Hpost. inversion Hpre; inversion Hpost; subst. reflexivity.
  - (* "::q0:..." *)
    cbn [length] in Hlen.
    match goal with |- v6_from_parts ?P = _ => assert (Hlast : is_nil (last P []) = false) end.
    { rewrite last_app_cons. change (is_nil (last (q0 :: post) ([] : str)) = false).
      apply last_nonempty; [discriminate|exact Npost]. }
    apply v6_dc_gen with (k := 1%nat).
    + cbn [length app]; lia.
    + change (tl ([[]] ++ [] :: q0 :: post)) with (([] : list str) ++ [] :: q0 :: post).
      rewrite mid_empties_app by (constructor || discriminate).
      rewrite mid_empties_nonempty by exact Npost. reflexivity.
    + reflexivity.
    + rewrite Hlast. cbn [length app]; lia.
    + reflexivity.
    + rewrite Hlast. discriminate.
    + cbn [length app]; lia.
    + simpl in Hpre. inversion Hpre. reflexivity.
    + match goal with |- context [skipn ?n _] => replace n with 2%nat by (cbn [length app]; lia) end.
      exact Hpost.
  - (* "p0:...::" *)
    cbn [length] in Hlen. inversion Npre as [|? ? Np0 Npre']; subst.
    match goal with |- v6_from_parts ?P = _ => assert (Hlast : is_nil (last P []) = true) end.
    { rewrite last_app_cons. reflexivity. }
    match goal with |- v6_from_parts ?P = _ => assert (Hn : length P = S (S (S (length pre)))) end.
    { rewrite app_length. cbn [length app]; lia. }
    apply v6_dc_gen with (k := S (length pre)).
    + lia.
    + change (tl ((p0 :: pre) ++ [] :: [[]])) with (pre ++ [] :: [[]]).
      rewrite mid_empties_app by (exact Npre' || discriminate). reflexivity.
    + cbn [app hd]. rewrite Np0. reflexivity.
    + rewrite Hlast, Hn. cbn [length app]; lia.
    + cbn [app hd]. rewrite Np0. discriminate.
    + reflexivity.
    + cbn [length app]; lia.
    + replace (length (p0 :: pre)) with (length (p0 :: pre) + 0)%nat by lia.
      rewrite firstn_app_2. cbn [firstn]. rewrite app_nil_r. exact Hpre.
    + cbn [length]. rewrite Nat.sub_0_r, skipn_all. simpl in Hpost. inversion Hpost. reflexivity.
  - (* "p0:...::q0:..." *)
    cbn [length] in Hlen. inversion Npre as [|? ? Np0 Npre']; subst.
    match goal with |- v6_from_parts ?P = _ => assert (Hlast : is_nil (last P []) = false) end.
    { rewrite last_app_cons. change (is_nil (last (q0 :: post) ([] : str)) = false).
      apply last_nonempty; [discriminate|exact Npost]. }
    match goal with |- v6_from_parts ?P = _ =>
      assert (Hn : length P = (S (length pre) + S (S (length post)))%nat) end.
    { rewrite app_length. cbn [length app]; lia. }
    apply v6_dc_gen with (k := S (length pre)).
    + lia.
    + change (tl ((p0 :: pre) ++ [] :: q0 :: post)) with (pre ++ [] :: q0 :: post).
      rewrite mid_empties_app by (exact Npre' || discriminate).
      rewrite mid_empties_nonempty by exact Npost. reflexivity.
    + cbn [app hd]. rewrite Np0. reflexivity.
    + rewrite Hlast, Hn. cbn [length app]; lia.
    + cbn [app hd]. rewrite Np0. discriminate.
    + rewrite Hlast. discriminate.
    + cbn [length app]; lia.
    + replace (length (p0 :: pre)) with (length (p0 :: pre) + 0)%nat by lia.
      rewrite firstn_app_2. cbn [firstn]. rewrite app_nil_r. exact Hpre.
    + rewrite Hn. replace (S (length pre) + S (S (length post)) - length (q0 :: post))%nat
        with (length (p0 :: pre) + 1)%nat by (cbn [length app]; lia).
      rewrite skipn_app, skipn_all2 by lia.
      replace (length (p0 :: pre) + 1 - length (p0 :: pre))%nat with 1%nat by lia.
      exact Hpost.
Qed.

Lemma v6_from_parts_plain : forall gs vgs, Forall2 hextet_text gs vgs -> length gs = 8%nat ->
  v6_from_parts gs = Some (compose 0 vgs).
Proof.
  intros gs vgs H Hlen. pose proof (hextets_nonempty _ _ H) as Ngs.
  unfold v6_from_parts. rewrite Hlen. cbn [Nat.ltb Nat.leb Nat.eqb negb].
  destruct gs as [|g0 gs']; [discriminate|].
  inversion Ngs as [|? ? Ng0 Ngs']; subst. cbn [tl hd].
  rewrite mid_empties_nonempty by exact Ngs'. rewrite Ng0.
  know_last false ltac:(apply last_nonempty; [discriminate|exact Ngs]).
  apply parse_hextets_spec in H. rewrite H. reflexivity.
Qed.

(* ================================================================ IPv6 text: from strings *)
Lemma has_char_app : forall c s t, has_char c (s ++ t) = has_char c s || has_char c t.
Proof. intros. unfold has_char. apply existsb_app. Qed.

Lemma has_char_join : forall c sep ps, (sep =? c) = false -> Forall (fun p => has_char c p = false) ps ->
  has_char c (join sep ps) = false.
Proof.
  intros c sep ps Hne H. induction H as [|p rest Hp Hrest IH]; [reflexivity|].
  cbn [join]. destruct rest as [|q rest']; [exact Hp|].
  rewrite has_char_app, Hp. cbn [has_char existsb orb]. rewrite Hne. exact IH.
Qed.

Lemma join_split_len : forall sep ps, (2 <= length ps)%nat -> Forall (fun p => has_char sep p = false) ps ->
  is_nil (join sep ps) = false.
Proof.
  intros sep ps Hl H. destruct (join sep ps) as [|c r] eqn:E; [|reflexivity].
  assert (Hs : split_on sep (join sep ps) = ps) by (apply split_join; [destruct ps; [simpl in Hl; lia|discriminate]|exact H]).
  rewrite E in Hs. simpl in Hs. subst ps. simpl in Hl. lia.
Qed.

Definition v6_char_ok (c : N) : bool := is_hex c || (c =? cDOT) || (c =? cCOLON).

Lemma hextet_texts_no_char : forall ps vs c, Forall2 hextet_text ps vs -> is_hex c = false ->
  Forall (fun p => has_char c p = false) ps.
Proof.
  intros ps vs c H Hc. induction H; constructor; [eapply parse_hextet_no_char; eassumption|assumption].
Qed.

Lemma tail_text_no_char : forall tl vtl c, tail_text tl vtl -> digit_or_dot c = false ->
  Forall (fun p => has_char c p = false) tl.
Proof.
  intros tl vtl c H Hc. destruct H; constructor; [eapply parse_ip4_no_char; eassumption|constructor].
Qed.

Lemma blank_if_nil_no_char : forall c ps, Forall (fun p => has_char c p = false) ps ->
  Forall (fun p => has_char c p = false) (blank_if_nil ps).
Proof. intros c ps H. unfold blank_if_nil. destruct ps; [repeat constructor|exact H]. Qed.

Lemma blank_if_nil_len : forall ps : list str, (1 <= length (blank_if_nil ps))%nat.
Proof. intro ps. destruct ps; simpl; lia. Qed.

Lemma text6_dc_eq : forall pre post, text6_dc pre post = join cCOLON (blank_if_nil pre ++ [] :: blank_if_nil post).
Proof. reflexivity. Qed.

Lemma tail_groups : forall q w, parse_ip4 q = Some w ->
  hextet_text (hex_of (w / 65536 mod 65536)) (w / 65536) /\ hextet_text (hex_of (w mod 65536)) (w mod 65536).
Proof.
  intros q w H. apply parse_ip4_bound in H. change (2 ^ 32) with (65536 * 65536) in H.
  assert (Hq : w / 65536 < 65536) by (apply N.div_lt_upper_bound; [discriminate|exact H]).
  rewrite (N.mod_small (w / 65536)) by exact Hq. split; apply hex_of_text; [exact Hq|apply N.mod_lt; discriminate].
Qed.

(* parse_ip6 of a text whose ':'-separated parts are known *)
Lemma parse_ip6_join : forall parts tl vtl, Forall (fun p => has_char cCOLON p = false) (parts ++ tl) ->
  (3 <= length (parts ++ tl))%nat -> tail_text tl vtl ->
  (tl = [] -> has_char cDOT (last parts []) = false) ->
  exists t2, Forall2 hextet_text t2 vtl /\
             parse_ip6 (join cCOLON (parts ++ tl)) = v6_from_parts (parts ++ t2).
Proof.
  intros parts tl vtl Hc Hl Ht Hd. unfold parse_ip6.
  rewrite join_split_len by (exact Hc || lia). rewrite split_join by (exact Hc || (destruct (parts ++ tl); [simpl in Hl; lia|discriminate])).
  destruct (Nat.ltb_spec (length (parts ++ tl)) 3) as [?|_]; [lia|].
  destruct Ht as [|q w Hq].
  - exists []. split; [constructor|]. rewrite app_nil_r in *. rewrite (Hd eq_refl). reflexivity.
  - destruct (tail_groups _ _ Hq) as [G1 G2].
    exists [hex_of (w / 65536 mod 65536); hex_of (w mod 65536)]. split; [repeat constructor; assumption|].
    rewrite last_last, (parse_ip4_has_dot _ _ Hq), Hq, removelast_last. reflexivity.
Qed.

(* texts with '::' : hextets pre, '::', hextets post, optional dotted quad *)
Theorem ip6_text_dc : forall pre post tl vpre vpost vtl,
  Forall2 hextet_text pre vpre -> Forall2 hextet_text post vpost -> tail_text tl vtl ->
  (length pre + length post + length vtl < 8)%nat ->
  parse_ip6 (text6_dc pre (post ++ tl))
  = Some (compose 0 (vpre ++ repeat 0 (8 - (length pre + length post + length vtl)) ++ vpost ++ vtl)).
Proof.
  intros pre post tl vpre vpost vtl Hpre Hpost Ht Hlen.
  assert (Hhex : is_hex cCOLON = false) by reflexivity.
  assert (Hdd : digit_or_dot cCOLON = false) by reflexivity.
  pose proof (hextet_texts_no_char _ _ cCOLON Hpre Hhex) as Cpre.
  pose proof (hextet_texts_no_char _ _ cCOLON Hpost Hhex) as Cpost.
  pose proof (tail_text_no_char _ _ cCOLON Ht Hdd) as Ctl.
  rewrite text6_dc_eq.
  assert (Hshape : blank_if_nil pre ++ [] :: blank_if_nil (post ++ tl)
                   = (blank_if_nil pre ++ [] :: blank_if_nil post) ++ tl
                     \/ (post = [] /\ tl <> [])).
  { destruct post as [|q0 post]; [destruct tl; [left; cbn [app]; rewrite app_nil_r; reflexivity|right; split; [reflexivity|discriminate]]|].
    left. unfold blank_if_nil at 2 3. cbn [app is_nil]. rewrite <- app_assoc. reflexivity. }
  destruct Hshape as [Hshape|[-> Hne]].
  - rewrite Hshape.
    assert (Hc : Forall (fun p => has_char cCOLON p = false) ((blank_if_nil pre ++ [] :: blank_if_nil post) ++ tl)).
    { apply Forall_app; split; [|exact Ctl]. apply Forall_app; split; [apply blank_if_nil_no_char; exact Cpre|].
      constructor; [reflexivity|apply blank_if_nil_no_char; exact Cpost]. }
    assert (Hl3 : (3 <= length ((blank_if_nil pre ++ [] :: blank_if_nil post) ++ tl))%nat).
    { rewrite !app_length. cbn [length]. pose proof (blank_if_nil_len pre). pose proof (blank_if_nil_len post). lia. }
    destruct (parse_ip6_join _ _ _ Hc Hl3 Ht) as [t2 [Ht2 ->]].
    { intros _. rewrite last_app_cons. destruct post as [|q0 post]; [reflexivity|].
      unfold blank_if_nil. cbn [is_nil].
      change (last ([] :: q0 :: post) []) with (last (q0 :: post) ([] : str)).
      assert (Hdot : Forall (fun p => has_char cDOT p = false) (q0 :: post))
        by (eapply hextet_texts_no_char; [exact Hpost|reflexivity]).
      clear - Hdot. induction post as [|q1 post IH] in q0, Hdot |- *.
      - inversion Hdot; assumption.
      - inversion Hdot; subst. change (last (q0 :: q1 :: post) []) with (last (q1 :: post) ([] : str)). apply IH. assumption. }
    (* the tail groups join the post groups *)
    destruct post as [|q0 post].
    + (* post empty and (by Hshape) tl empty *)
      destruct tl as [|? ?]; [|unfold blank_if_nil in Hshape; cbn [app is_nil] in Hshape;
                                apply (f_equal (@length str)) in Hshape; rewrite !app_length in Hshape; simpl in Hshape; lia].
      inversion Ht; subst. inversion Ht2; subst. rewrite app_nil_r.
      inversion Hpost; subst. rewrite (v6_from_parts_dc pre [] vpre [] Hpre (Forall2_nil _)) by (simpl in *; lia).
      simpl. rewrite !Nat.add_0_r. reflexivity.
    + replace ((blank_if_nil pre ++ [] :: blank_if_nil (q0 :: post)) ++ t2)
        with (blank_if_nil pre ++ [] :: blank_if_nil ((q0 :: post) ++ t2))
        by (unfold blank_if_nil at 2 3; cbn [app is_nil]; rewrite <- app_assoc; reflexivity).
      rewrite (v6_from_parts_dc pre ((q0 :: post) ++ t2) vpre (vpost ++ vtl) Hpre (Forall2_app Hpost Ht2)).
      * rewrite app_length, (Forall2_len _ _ _ Ht2), Nat.add_assoc. reflexivity.
      * rewrite app_length, (Forall2_len _ _ _ Ht2). lia.
  - (* "pre::quad" *)
    destruct Ht as [|q w Hq]; [congruence|]. inversion Hpost; subst. cbn [app] in *.
    unfold blank_if_nil at 2. cbn [is_nil].
    replace (blank_if_nil pre ++ [[]; q]) with ((blank_if_nil pre ++ [[]]) ++ [q]) by (rewrite <- app_assoc; reflexivity).
    assert (Hc : Forall (fun p => has_char cCOLON p = false) ((blank_if_nil pre ++ [[]]) ++ [q])).
    { apply Forall_app; split; [|exact Ctl]. apply Forall_app; split; [apply blank_if_nil_no_char; exact Cpre|repeat constructor]. }
    assert (Hl3 : (3 <= length ((blank_if_nil pre ++ [[]]) ++ [q]))%nat).
    { rewrite !app_length. cbn [length]. pose proof (blank_if_nil_len pre). lia. }
    destruct (parse_ip6_join _ _ _ Hc Hl3 (TT_quad q w Hq)) as [t2 [Ht2 ->]]; [discriminate|].
    replace ((blank_if_nil pre ++ [[]]) ++ t2) with (blank_if_nil pre ++ [] :: blank_if_nil t2).
    + rewrite (v6_from_parts_dc pre t2 vpre _ Hpre Ht2).
      * rewrite (Forall2_len _ _ _ Ht2). cbn [length app]. rewrite !Nat.add_0_r. reflexivity.
      * rewrite (Forall2_len _ _ _ Ht2). cbn [length] in *. lia.
    + inversion Ht2 as [|? ? ? ? ? Hrest]; subst. unfold blank_if_nil at 2. cbn [is_nil].
      rewrite <- app_assoc. reflexivity.
Qed.

(* texts without '::' : eight groups, the last two possibly as a dotted quad *)
Theorem ip6_text_plain : forall gs tl vgs vtl,
  Forall2 hextet_text gs vgs -> tail_text tl vtl -> (length gs + length vtl = 8)%nat ->
  parse_ip6 (join cCOLON (gs ++ tl)) = Some (compose 0 (vgs ++ vtl)).
Proof.
  intros gs tl vgs vtl Hgs Ht Hlen.
  assert (Hc : Forall (fun p => has_char cCOLON p = false) (gs ++ tl)).
  { apply Forall_app; split; [eapply hextet_texts_no_char; [exact Hgs|reflexivity]|eapply tail_text_no_char; [exact Ht|reflexivity]]. }
  assert (Hl3 : (3 <= length (gs ++ tl))%nat).
  { rewrite app_length. destruct Ht; cbn [length] in *; lia. }
  destruct (parse_ip6_join _ _ _ Hc Hl3 Ht) as [t2 [Ht2 ->]].
  - intros ->. cbn [length] in Hlen. destruct gs as [|g0 gs']; [reflexivity|].
    assert (Hdot : Forall (fun p => has_char cDOT p = false) (g0 :: gs'))
      by (eapply hextet_texts_no_char; [exact Hgs|reflexivity]).
    clear - Hdot. induction gs' as [|g1 gs' IH] in g0, Hdot |- *.
    + inversion Hdot; assumption.
    + inversion Hdot; subst. change (last (g0 :: g1 :: gs') []) with (last (g1 :: gs') ([] : str)). apply IH. assumption.
  - apply v6_from_parts_plain; [apply Forall2_app; assumption|].
    rewrite app_length, (Forall2_len _ _ _ Ht2). exact Hlen.
Qed.

(* ================================================================ renderings of an integer read back *)
Lemma groups_rev_len : forall k n, length (groups_rev k n) = k.
Proof. induction k; intro n; simpl; congruence. Qed.

Lemma groups_rev_bound : forall k n, Forall (fun v => v < 65536) (groups_rev k n).
Proof. induction k; intro n; simpl; constructor; [apply N.mod_lt; discriminate|apply IHk]. Qed.

Lemma groups_rev_compose : forall k n, compose 0 (rev (groups_rev k n)) = n mod P16 k.
Proof.
  induction k as [|k IH]; intro n.
  - simpl. change (P16 0) with 1. rewrite N.mod_1_r. reflexivity.
  - cbn [groups_rev rev]. rewrite compose_app, IH. unfold compose. cbn [fold_left].
    rewrite P16_S, (N.mul_comm (P16 k)), N.mod_mul_r; [lia|discriminate|].
    pose proof (P16_pos k). lia.
Qed.

Lemma groups_of_len : forall n, length (groups_of n) = 8%nat.
Proof. intro n. unfold groups_of. rewrite rev_length. apply groups_rev_len. Qed.

Lemma groups_of_bound : forall n, Forall (fun v => v < 65536) (groups_of n).
Proof. intro n. unfold groups_of. apply Forall_rev, groups_rev_bound. Qed.

Lemma groups_of_compose : forall n, n < 2 ^ 128 -> compose 0 (groups_of n) = n.
Proof. intros n Hn. unfold groups_of. rewrite groups_rev_compose, P16_8. apply N.mod_small. exact Hn. Qed.

Lemma map_hextet_text : forall (f : N -> str) l, (forall v, v < 65536 -> parse_hextet (f v) = Some v) ->
  Forall (fun v => v < 65536) l -> Forall2 hextet_text (map f l) l.
Proof. intros f l Hf H. induction H; simpl; constructor; [apply Hf; assumption|assumption]. Qed.

Theorem ip6_render_full : forall n, n < 2 ^ 128 -> parse_ip6 (render6_full n) = Some n.
Proof.
  intros n Hn. unfold render6_full.
  rewrite <- (app_nil_r (map hex4 (groups_of n))).
  rewrite (ip6_text_plain _ [] (groups_of n) [] (map_hextet_text hex4 _ hex4_text (groups_of_bound n)) TT_none).
  - rewrite app_nil_r, groups_of_compose by exact Hn. reflexivity.
  - rewrite map_length, groups_of_len. reflexivity.
Qed.

Lemma all_zero_repeat : forall l, forallb (fun v => v =? 0) l = true -> l = repeat 0 (length l).
Proof.
  induction l as [|v l IH]; intro H; [reflexivity|]. simpl in H. apply andb_true_iff in H. destruct H as [Hv Hl].
  apply N.eqb_eq in Hv. subst v. simpl. f_equal. apply IH. exact Hl.
Qed.

Lemma skipn_skipn' : forall {A} a b (l : list A), skipn a (skipn b l) = skipn (b + a) l.
Proof.
  intros A a b. induction b as [|b IH]; intro l; [reflexivity|].
  destruct l as [|x l]; [rewrite !skipn_nil; reflexivity|]. cbn [Nat.add skipn]. apply IH.
Qed.

Lemma run_candidates_len : forall s l, In (s, l) run_candidates -> (2 <= l)%nat.
Proof.
  intros s l H.
  assert (Hall : forallb (fun sl => Nat.leb 2 (snd sl)) run_candidates = true) by (vm_compute; reflexivity).
  rewrite forallb_forall in Hall. specialize (Hall _ H). apply Nat.leb_le in Hall. exact Hall.
Qed.

Lemma best_run_spec : forall g s l, best_run g = Some (s, l) ->
  (2 <= l)%nat /\ (s + l <= length g)%nat /\ g = firstn s g ++ repeat 0 l ++ skipn (s + l) g.
Proof.
  intros g s l H. unfold best_run in H. apply find_some in H. destruct H as [Hin Hz].
  cbn [fst snd] in Hz. unfold zero_run in Hz. apply andb_true_iff in Hz. destruct Hz as [Hlen Hz].
  apply Nat.eqb_eq in Hlen. apply all_zero_repeat in Hz. rewrite Hlen in Hz.
  pose proof (run_candidates_len _ _ Hin) as H2.
  split; [exact H2|]. split.
  - rewrite firstn_length, skipn_length in Hlen. lia.
  - rewrite <- Hz, <- skipn_skipn', !firstn_skipn. reflexivity.
Qed.

Theorem ip6_render_compressed : forall n, n < 2 ^ 128 -> parse_ip6 (render6_compressed n) = Some n.
Proof.
  intros n Hn. unfold render6_compressed.
  pose proof (groups_of_len n) as Hlen. pose proof (groups_of_bound n) as Hb.
  destruct (best_run (groups_of n)) as [[s l]|] eqn:Eb.
  - apply best_run_spec in Eb. destruct Eb as [Hl [Hsl Hg]]. rewrite Hlen in Hsl.
    assert (Hb1 : Forall (fun v => v < 65536) (firstn s (groups_of n))).
    { rewrite <- (firstn_skipn s (groups_of n)) in Hb. apply Forall_app in Hb. tauto. }
    assert (Hb2 : Forall (fun v => v < 65536) (skipn (s + l) (groups_of n))).
    { rewrite <- (firstn_skipn (s + l) (groups_of n)) in Hb. apply Forall_app in Hb. tauto. }
    rewrite <- (app_nil_r (map hex_of (skipn (s + l) (groups_of n)))).
    rewrite (ip6_text_dc _ _ [] _ _ [] (map_hextet_text hex_of _ hex_of_text Hb1)
               (map_hextet_text hex_of _ hex_of_text Hb2) TT_none).
    + rewrite !map_length, firstn_length, skipn_length, Hlen. cbn [length].
      replace (8 - (Nat.min s 8 + (8 - (s + l)) + 0))%nat with l by lia.
      rewrite app_nil_r, <- Hg, groups_of_compose by exact Hn. reflexivity.
    + rewrite !map_length, firstn_length, skipn_length, Hlen. cbn [length]. lia.
  - rewrite <- (app_nil_r (map hex_of (groups_of n))).
    rewrite (ip6_text_plain _ [] (groups_of n) [] (map_hextet_text hex_of _ hex_of_text Hb) TT_none).
    + rewrite app_nil_r, groups_of_compose by exact Hn. reflexivity.
    + rewrite map_length, Hlen. reflexivity.
Qed.

(* ================================================================ from parse_ip6 to ip_address *)
Lemma partition_on_nosep : forall sep s, has_char sep s = false -> partition_on sep s = (s, None).
Proof.
  intros sep s. unfold has_char. induction s as [|c r IH]; simpl; [reflexivity|].
  intro H. apply orb_false_iff in H. destruct H as [Hc Hr]. rewrite Hc, (IH Hr). reflexivity.
Qed.

Lemma parse_ip6_has_colon : forall s x, parse_ip6 s = Some x -> has_char cCOLON s = true.
Proof.
  intros s x H. destruct (has_char cCOLON s) eqn:E; [reflexivity|].
  unfold parse_ip6 in H. rewrite (split_on_nosep _ _ E) in H. destruct (is_nil s); discriminate.
Qed.

Lemma parse_addr_v6 : forall s x, parse_ip6 s = Some x -> has_char cSLASH s = false -> has_char cPCT s = false ->
  parse_addr s = Some (V6, x).
Proof.
  intros s x H Hs Hp. unfold parse_addr.
  destruct (parse_ip4 s) as [y|] eqn:E4.
  - pose proof (parse_ip4_no_char _ _ cCOLON E4 eq_refl) as Hc.
    rewrite (parse_ip6_has_colon _ _ H) in Hc. discriminate.
  - rewrite Hs. unfold parse_ip6_scoped, split_scope_id. rewrite (partition_on_nosep _ _ Hp), H. reflexivity.
Qed.

Lemma parse_network_v6 : forall s x, parse_ip6 s = Some x -> has_char cSLASH s = false -> has_char cPCT s = false ->
  parse_network s = Some (V6, x, 128).
Proof.
  intros s x H Hs Hp. unfold parse_network, parse_net, parse_net6. rewrite (split_on_nosep _ _ Hs).
  destruct (parse_ip4 s) as [y|] eqn:E4.
  - pose proof (parse_ip4_no_char _ _ cCOLON E4 eq_refl) as Hc.
    rewrite (parse_ip6_has_colon _ _ H) in Hc. discriminate.
  - unfold parse_ip6_scoped, split_scope_id. rewrite (partition_on_nosep _ _ Hp), H. reflexivity.
Qed.

(* a documented IPv6 text contains neither '/' nor '%' *)
Lemma text6_parts_no_char : forall c pre post tl vpre vpost vtl,
  Forall2 hextet_text pre vpre -> Forall2 hextet_text post vpost -> tail_text tl vtl ->
  is_hex c = false -> digit_or_dot c = false -> (cCOLON =? c) = false ->
  has_char c (text6_dc pre (post ++ tl)) = false /\ has_char c (join cCOLON (pre ++ tl)) = false.
Proof.
  intros c pre post tl vpre vpost vtl Hpre Hpost Ht Hh Hd Hc.
  pose proof (hextet_texts_no_char _ _ c Hpre Hh) as Cpre.
  pose proof (hextet_texts_no_char _ _ c Hpost Hh) as Cpost.
  pose proof (tail_text_no_char _ _ c Ht Hd) as Ctl.
  split.
  - rewrite text6_dc_eq. apply has_char_join; [exact Hc|].
    apply Forall_app; split; [apply blank_if_nil_no_char; exact Cpre|].
    constructor; [reflexivity|]. apply blank_if_nil_no_char. apply Forall_app; split; assumption.
  - apply has_char_join; [exact Hc|]. apply Forall_app; split; assumption.
Qed.

(* ================================================================ IPv4 networks written with a dotted mask *)
Lemma parse_prefix_mask : forall mt m n, parse_ip4 mt = Some m -> prefix_from_mask_int m = Some n ->
  parse_prefix mt = NetOk 0 n.
Proof.
  intros mt m n Hm Hn. unfold parse_prefix.
  assert (Hp : prefix_from_prefix_string 32 mt = None).
  { unfold prefix_from_prefix_string. destruct (is_nil mt); [reflexivity|].
    destruct (forallb is_digit mt) eqn:Ed; [|reflexivity].
    pose proof (parse_ip4_has_dot _ _ Hm) as Hdot. unfold has_char in Hdot.
    apply existsb_exists in Hdot. destruct Hdot as [c [Hin Hc]]. apply N.eqb_eq in Hc. subst c.
    rewrite forallb_forall in Ed. specialize (Ed _ Hin). discriminate. }
  rewrite Hp. unfold prefix_from_ip_string. rewrite Hm, Hn. reflexivity.
Qed.

Theorem ip4_mask_iff : forall a nt mt x net m n,
  parse_ip4 a = Some x -> parse_ip4 nt = Some net -> parse_ip4 mt = Some m ->
  (n <= 32 /\ m = 2 ^ 32 - 2 ^ (32 - n)) \/ (0 < n < 32 /\ m = 2 ^ (32 - n) - 1) ->
  ip_match a (nt ++ cSLASH :: mt) = Ok (in_block x net n).
Proof.
  intros a nt mt x net m n Ha Hnt Hmt Hm.
  apply ip_iff; [exact Ha|].
  assert (Hn : prefix_from_mask_int m = Some n).
  { destruct Hm as [[Hle ->]|[[H0 H32] ->]]; [apply mask_int_netmask; exact Hle|apply mask_int_hostmask; assumption]. }
  unfold parse_net.
  rewrite split_on_app by (eapply parse_ip4_no_char; [exact Hnt|reflexivity]).
  rewrite split_on_nosep by (eapply parse_ip4_no_char; [exact Hmt|reflexivity]).
  rewrite (parse_prefix_mask _ _ _ Hmt Hn), Hnt. reflexivity.
Qed.

(* any other dotted quad after the '/' is not a mask: the pattern is not a network and nothing matches it *)
Theorem ip4_mask_rejected : forall a nt mt x m,
  parse_ip4 a = Some x -> parse_ip4 mt = Some m ->
  (forall n, n <= 32 -> m <> 2 ^ 32 - 2 ^ (32 - n) /\ m <> 2 ^ (32 - n) - 1) ->
  ip_match a (nt ++ cSLASH :: mt) = Ok false.
Proof.
  intros a nt mt x m Ha Hmt Hm.
  apply ip_bad_network with x; [exact Ha|].
  unfold parse_net.
  destruct (has_char cSLASH nt) eqn:Hs.
  - (* a second '/' : three or more pieces *)
    assert (Hlen : (3 <= length (split_on cSLASH (nt ++ cSLASH :: mt)))%nat).
    { clear - Hs. induction nt as [|c r IH]; [discriminate|]. cbn [app split_on].
      unfold has_char in Hs. cbn [existsb] in Hs. destruct (c =? cSLASH) eqn:Ec.
      - cbn [length]. clear. pose proof (split_on_nonempty cSLASH (r ++ cSLASH :: mt)).
        assert (H2 : (2 <= length (split_on cSLASH (r ++ cSLASH :: mt)))%nat).
        { clear. induction r as [|d r IH]; cbn [app split_on].
          - rewrite N.eqb_refl. cbn [length]. pose proof (split_on_nonempty cSLASH mt).
            destruct (split_on cSLASH mt); [congruence|simpl; lia].
          - destruct (d =? cSLASH); [cbn [length]; lia|].
            destruct (split_on cSLASH (r ++ cSLASH :: mt)); [simpl in IH; lia|exact IH]. }
        lia.
      - simpl in Hs. specialize (IH Hs).
        destruct (split_on cSLASH (r ++ cSLASH :: mt)); [simpl in IH; lia|exact IH]. }
    destruct (split_on cSLASH (nt ++ cSLASH :: mt)) as [|p1 [|p2 [|p3 ?]]]; simpl in Hlen; try lia. reflexivity.
  - rewrite split_on_app by exact Hs.
    rewrite split_on_nosep by (eapply parse_ip4_no_char; [exact Hmt|reflexivity]).
    destruct (parse_prefix mt) as [z k|] eqn:Ep; [|reflexivity]. exfalso.
    unfold parse_prefix in Ep.
    destruct (prefix_from_prefix_string 32 mt) as [k'|] eqn:E1.
    + unfold prefix_from_prefix_string in E1. destruct (is_nil mt); [discriminate|].
      destruct (forallb is_digit mt) eqn:Ed; [|discriminate].
      pose proof (parse_ip4_has_dot _ _ Hmt) as Hdot. unfold has_char in Hdot.
      apply existsb_exists in Hdot. destruct Hdot as [c [Hin Hc]]. apply N.eqb_eq in Hc. subst c.
      rewrite forallb_forall in Ed. specialize (Ed _ Hin). discriminate.
    + unfold prefix_from_ip_string in Ep. rewrite Hmt in Ep.
      destruct (prefix_from_mask_int m) as [k'|] eqn:E2; [|discriminate].
      apply mask_int_sound in E2; [|eapply parse_ip4_bound; exact Hmt].
      destruct E2 as [Hle Hor]. destruct (Hm _ Hle) as [N1 N2]. tauto.
Qed.

(* ================================================================ the documented IPv6 texts as arguments of ip_match *)
Theorem addr6_text_dc : forall pre post tl vpre vpost vtl,
  Forall2 hextet_text pre vpre -> Forall2 hextet_text post vpost -> tail_text tl vtl ->
  (length pre + length post + length vtl < 8)%nat ->
  let x := compose 0 (vpre ++ repeat 0 (8 - (length pre + length post + length vtl)) ++ vpost ++ vtl) in
  parse_addr (text6_dc pre (post ++ tl)) = Some (V6, x) /\
  parse_network (text6_dc pre (post ++ tl)) = Some (V6, x, 128).
Proof.
  intros pre post tl vpre vpost vtl Hpre Hpost Ht Hlen x.
  pose proof (ip6_text_dc _ _ _ _ _ _ Hpre Hpost Ht Hlen) as Hp.
  destruct (text6_parts_no_char cSLASH _ _ _ _ _ _ Hpre Hpost Ht eq_refl eq_refl eq_refl) as [Hs _].
  destruct (text6_parts_no_char cPCT _ _ _ _ _ _ Hpre Hpost Ht eq_refl eq_refl eq_refl) as [Hc _].
  split; [apply parse_addr_v6|apply parse_network_v6]; assumption.
Qed.

Theorem addr6_text_plain : forall gs tl vgs vtl,
  Forall2 hextet_text gs vgs -> tail_text tl vtl -> (length gs + length vtl = 8)%nat ->
  parse_addr (join cCOLON (gs ++ tl)) = Some (V6, compose 0 (vgs ++ vtl)) /\
  parse_network (join cCOLON (gs ++ tl)) = Some (V6, compose 0 (vgs ++ vtl), 128).
Proof.
  intros gs tl vgs vtl Hgs Ht Hlen.
  pose proof (ip6_text_plain _ _ _ _ Hgs Ht Hlen) as Hp.
  destruct (text6_parts_no_char cSLASH gs [] tl vgs [] vtl Hgs (Forall2_nil _) Ht eq_refl eq_refl eq_refl) as [_ Hs].
  destruct (text6_parts_no_char cPCT gs [] tl vgs [] vtl Hgs (Forall2_nil _) Ht eq_refl eq_refl eq_refl) as [_ Hc].
  split; [apply parse_addr_v6|apply parse_network_v6]; assumption.
Qed.

(* the integer n of an IPv6 address, written out in full or in the RFC 5952 form, is the address n *)
Theorem addr6_render : forall n, n < 2 ^ 128 ->
  parse_addr (render6_full n) = Some (V6, n) /\ parse_addr (render6_compressed n) = Some (V6, n) /\
  parse_network (render6_full n) = Some (V6, n, 128) /\ parse_network (render6_compressed n) = Some (V6, n, 128).
Proof.
  intros n Hn.
  pose proof (groups_of_len n) as Hlen. pose proof (groups_of_bound n) as Hb.
  assert (Hfull : parse_addr (render6_full n) = Some (V6, n) /\ parse_network (render6_full n) = Some (V6, n, 128)).
  { unfold render6_full. rewrite <- (app_nil_r (map hex4 (groups_of n))).
    destruct (addr6_text_plain _ [] (groups_of n) [] (map_hextet_text hex4 _ hex4_text Hb) TT_none) as [A B].
    - rewrite map_length, Hlen. reflexivity.
    - rewrite !app_nil_r in *. rewrite groups_of_compose in A, B by exact Hn. split; assumption. }
  assert (Hcomp : parse_addr (render6_compressed n) = Some (V6, n) /\ parse_network (render6_compressed n) = Some (V6, n, 128)).
  { pose proof (ip6_render_compressed n Hn) as Hp. unfold render6_compressed in *.
    destruct (best_run (groups_of n)) as [[s l]|] eqn:Eb.
    - assert (Hb1 : Forall (fun v => v < 65536) (firstn s (groups_of n))).
      { rewrite <- (firstn_skipn s (groups_of n)) in Hb. apply Forall_app in Hb. tauto. }
      assert (Hb2 : Forall (fun v => v < 65536) (skipn (s + l) (groups_of n))).
      { rewrite <- (firstn_skipn (s + l) (groups_of n)) in Hb. apply Forall_app in Hb. tauto. }
      rewrite <- (app_nil_r (map hex_of (skipn (s + l) (groups_of n)))) in *.
      destruct (text6_parts_no_char cSLASH _ _ [] _ _ [] (map_hextet_text hex_of _ hex_of_text Hb1)
                  (map_hextet_text hex_of _ hex_of_text Hb2) TT_none eq_refl eq_refl eq_refl) as [Hs _].
      destruct (text6_parts_no_char cPCT _ _ [] _ _ [] (map_hextet_text hex_of _ hex_of_text Hb1)
                  (map_hextet_text hex_of _ hex_of_text Hb2) TT_none eq_refl eq_refl eq_refl) as [Hc _].
      split; [apply parse_addr_v6|apply parse_network_v6]; assumption.
    - rewrite <- (app_nil_r (map hex_of (groups_of n))) in *.
      destruct (text6_parts_no_char cSLASH _ [] [] _ [] [] (map_hextet_text hex_of _ hex_of_text Hb)
                  (Forall2_nil _) TT_none eq_refl eq_refl eq_refl) as [_ Hs].
      destruct (text6_parts_no_char cPCT _ [] [] _ [] [] (map_hextet_text hex_of _ hex_of_text Hb)
                  (Forall2_nil _) TT_none eq_refl eq_refl eq_refl) as [_ Hc].
      split; [apply parse_addr_v6|apply parse_network_v6]; assumption. }
  tauto.
Qed.

(* so: however the two IPv6 integers are written, ip_match compares the integers *)
Theorem ip6_render_match : forall x net, x < 2 ^ 128 -> net < 2 ^ 128 ->
  ip_match (render6_compressed x) (render6_full net) = Ok (x =? net) /\
  ip_match (render6_full x) (render6_compressed net) = Ok (x =? net).
Proof.
  intros x net Hx Hnet.
  destruct (addr6_render x Hx) as [A1 [A2 _]]. destruct (addr6_render net Hnet) as [_ [_ [B1 B2]]].
  split.
  - rewrite (ip_iff_w _ _ _ _ _ _ _ A2 B1). cbn [fam_eqb andb width]. apply f_equal, in_block_w_full.
  - rewrite (ip_iff_w _ _ _ _ _ _ _ A1 B2). cbn [fam_eqb andb width]. apply f_equal, in_block_w_full.
Qed.
