(* KeyBind.v — spec-level definitions for the bindings of keyGet2 and keyMatch4 on documented-form
   patterns whose variables are delimited by '/' (":name" to the end of its segment, "{name}" a whole
   segment) and whose '/*' is the last token: the decomposition of a key along such a pattern is
   unique, so "the text bound by the named segment" is a function.  No proofs here. *)
From Coq Require Import List NArith Bool.
From PyCasbin Require Import Base PatBase KeyMatch.
Import ListNotations.
Local Open Scope N_scope.

(* maximal '/'-free prefix and the rest *)
Fixpoint take_seg (s : str) : str * str :=
  match s with
  | [] => ([], [])
  | x :: s' => if x =? cSLASH then ([], s)
               else let p := take_seg s' in (x :: fst p, snd p)
  end.

Fixpoint var_names (t : list ptok) : list str :=
  match t with
  | [] => []
  | PVar n :: r => n :: var_names r
  | _ :: r => var_names r
  end.

(* '/*' only as the last token *)
Fixpoint star_last (t : list ptok) : bool :=
  match t with
  | [] => true
  | PSlashStar :: r => is_nil r
  | _ :: r => star_last r
  end.

(* the texts bound by the variables, in order; None = the key is not an instance of the pattern *)
Fixpoint bindd (t : list ptok) (s : str) : option (list str) :=
  match t with
  | [] => if is_nil s then Some [] else None
  | PLit c :: r => match s with x :: s' => if x =? c then bindd r s' else None | [] => None end
  | PSlashStar :: r =>
    match s with
    | x :: _ => if (x =? cSLASH) && is_nil r then Some [] else None
    | [] => None
    end
  | PVar _ :: r =>
    let p := take_seg s in
    match fst p with
    | [] => None
    | _ :: _ => match bindd r (snd p) with Some vs => Some (fst p :: vs) | None => None end
    end
  end.

(* the key obtained by writing the texts vs for the variables and tail for the final '/*' *)
Fixpoint inst (t : list ptok) (vs : list str) (tail : str) : str :=
  match t with
  | [] => []
  | PLit c :: r => c :: inst r vs tail
  | PSlashStar :: _ => cSLASH :: tail
  | PVar _ :: r => match vs with
                   | v :: vs' => v ++ inst r vs' tail
                   | [] => inst r [] tail
                   end
  end.

(* a variable text: one non-empty path segment *)
Definition seg_ok (v : str) : bool :=
  negb (is_nil v) && forallb (fun c => negb (c =? cSLASH) && negb (c =? cNL)) v.

(* repeated names are bound to equal texts (keyMatch4) *)
Fixpoint consistent (names vals : list str) : bool :=
  match names, vals with
  | n :: names', v :: vals' =>
    forallb (fun nv => negb (str_eqb (fst nv) n) || str_eqb (snd nv) v) (combine names' vals')
    && consistent names' vals'
  | _, _ => true
  end.

(* keyGet2 / keyMatch4 documented forms with unique decomposition *)
Definition get2_doc (t : list ptok) : bool := wf2 t && star_last t.
Definition get2_spec (t : list ptok) (k v : str) : str :=
  match bindd t k with Some vs => pick_var (var_names t) vs v | None => [] end.
Definition km4_bind_spec (t : list ptok) (k : str) : bool :=
  match bindd t k with Some vs => consistent (var_names t) vs | None => false end.

(* on strings (the tokenizer's output is checked, see doc2/doc4 in KeyMatch.v) *)
(* keyMatch4's documented form with a unique decomposition: whole-segment variables, final '/*' *)
Definition doc4s (p : str) : bool := doc4 p && star_last (tokens5 p).
(* keyGet2's documented form with a unique decomposition *)
Definition get2_docs (p : str) : bool := doc2 p && star_last (tokens2 p).
