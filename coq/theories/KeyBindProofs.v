(* KeyBindProofs.v — captures: keyGet2 returns exactly the text bound by the named segment and
   keyMatch4 accepts exactly the instances whose repeated names are bound to equal segments, for
   documented-form patterns with '/'-delimited variables and a final '/*'. *)
From Coq Require Import List NArith Bool Arith Lia.
From PyCasbin Require Import Base PatBase KeyMatch KeyBind GlobProofs KeyMatchProofs KeyMatchRegexProofs.
Import ListNotations.
Local Open Scope N_scope.

(* ================================================================ take_seg *)
Lemma take_seg_app : forall s, s = fst (take_seg s) ++ snd (take_seg s).
Proof.
  induction s as [|x s IH]; [reflexivity|]. simpl. destruct (x =? cSLASH); [reflexivity|].
  simpl. f_equal. exact IH.
Qed.

Lemma take_seg_noslash : forall s, no_slash (fst (take_seg s)).
Proof.
  induction s as [|x s IH]; [apply no_slash_nil|]. simpl.
  destruct (N.eqb_spec x cSLASH) as [E|E]; [apply no_slash_nil|].
  simpl. apply no_slash_cons. split; assumption.
Qed.

Lemma take_seg_rest : forall s, snd (take_seg s) = [] \/ head_is cSLASH (snd (take_seg s)) = true.
Proof.
  induction s as [|x s IH]; [left; reflexivity|]. simpl.
  destruct (N.eqb_spec x cSLASH) as [E|E]; [right; simpl; subst; reflexivity|]. exact IH.
Qed.

Lemma take_seg_split : forall a r, no_slash a -> (r = [] \/ head_is cSLASH r = true) ->
  take_seg (a ++ r) = (a, r).
Proof.
  induction a as [|x a IH]; intros r Ha Hr.
  - simpl. destruct r as [|y r]; [reflexivity|]. destruct Hr as [Hr|Hr]; [discriminate|].
    simpl in Hr. simpl. rewrite Hr. reflexivity.
  - apply no_slash_cons in Ha. destruct Ha as [Hx Ha]. simpl. apply N.eqb_neq in Hx. rewrite Hx.
    rewrite IH by assumption. reflexivity.
Qed.

Lemma take_seg_firstn : forall s,
  firstn (length s - length (snd (take_seg s))) s = fst (take_seg s).
Proof.
  intro s. rewrite (take_seg_app s) at 1 3. rewrite app_length.
  replace (length (fst (take_seg s)) + length (snd (take_seg s)) - length (snd (take_seg s)))%nat
    with (length (fst (take_seg s))) by lia.
  apply firstn_app_exact.
Qed.

(* ================================================================ the greedy segment group is deterministic *)
Lemma greedy_det : forall (R : Type) (K : str -> option R) s,
  (forall y rest, In y s -> y <> cSLASH -> K (y :: rest) = None) ->
  greedy_star ANotSl K s = K (snd (take_seg s)).
Proof.
  intros R K. induction s as [|x s IH]; intro Hf; [reflexivity|].
  cbn [greedy_star amatch take_seg]. destruct (N.eqb_spec x cSLASH) as [E|E]; cbn [negb].
  - reflexivity.
  - cbn [snd]. rewrite IH.
    + destruct (K (snd (take_seg s))); [reflexivity|]. apply Hf; [left; reflexivity|exact E].
    + intros y rest Hy. apply Hf. right; exact Hy.
Qed.

Definition gitem_of_tok (t : ptok) : list ritem :=
  match t with
  | PLit c => [RA (ALit c) QOne false]
  | PSlashStar => [RA (ALit cSLASH) QOne false; RA ADot QStar false]
  | PVar _ => [ROpen; RA ANotSl QPlus false; RClose]
  end.
Definition gitems (t : list ptok) : list ritem := flat_map gitem_of_tok t.

(* after a variable the pattern continues with '/' or ends: no continuation from inside a segment *)
Lemma cont_fails : forall r st caps y rest, starts_slash r = true -> y <> cSLASH -> y <> cNL ->
  rmatch (gitems r) st caps (y :: rest) = None.
Proof.
  intros [|a r] st caps y rest Hs Hy Hn.
  - cbn [gitems flat_map rmatch]. unfold str_eqb. cbn [is_nil orb list_eqb].
    apply N.eqb_neq in Hn. rewrite Hn. reflexivity.
  - destruct a as [c| |n]; simpl in Hs.
    + apply N.eqb_eq in Hs. subst c. unfold gitems. cbn [flat_map gitem_of_tok app rmatch rep_match amatch].
      apply N.eqb_neq in Hy. rewrite Hy. reflexivity.
    + unfold gitems. cbn [flat_map gitem_of_tok app rmatch rep_match amatch].
      apply N.eqb_neq in Hy. rewrite Hy. reflexivity.
    + discriminate.
Qed.

(* the successful value of a continuation that can only succeed with one value *)
Lemma greedy_star_const : forall (R : Type) a (K : str -> option R) v s,
  (forall s', K s' = Some v \/ K s' = None) ->
  greedy_star a K s = Some v \/ greedy_star a K s = None.
Proof.
  intros R a K v. induction s as [|x s IH]; intro HK; cbn [greedy_star]; [apply HK|].
  destruct (amatch a x); [|apply HK].
  destruct (IH HK) as [E|E]; rewrite E; [left; reflexivity|apply HK].
Qed.

Lemma rmatch_RA : forall a q lz rest st caps s,
  rmatch (RA a q lz :: rest) st caps s = rep_match a q lz (fun s' => rmatch rest st caps s') s.
Proof. reflexivity. Qed.

Lemma rmatch_bind : forall t caps k, wf2 t = true -> star_last t = true -> no_nl k ->
  rmatch (gitems t) None caps k
  = match bindd t k with Some vs => Some (rev caps ++ vs) | None => None end.
Proof.
  induction t as [|a t IH]; intros caps k Hwf Hsl Hnl.
  - cbn [gitems flat_map rmatch bindd]. destruct k as [|x k].
    + simpl. rewrite app_nil_r. reflexivity.
    + apply no_nl_cons in Hnl. destruct Hnl as [Hx _]. apply N.eqb_neq in Hx.
      unfold str_eqb. cbn [is_nil orb list_eqb]. rewrite Hx. reflexivity.
  - simpl in Hwf. apply andb_true_iff in Hwf. destruct Hwf as [Hwf Hwt].
    apply andb_true_iff in Hwf. destruct Hwf as [Ha Hss].
    unfold gitems. cbn [flat_map]. fold (gitems t).
    destruct a as [c| |n]; cbn [gitem_of_tok app].
    + (* literal *)
      cbn [rmatch rep_match amatch bindd]. destruct k as [|x k]; [reflexivity|].
      destruct (x =? c); [|reflexivity].
      apply no_nl_cons in Hnl. destruct Hnl as [_ Hnl]. apply IH; assumption.
    + (* final slash-star *)
      simpl in Hsl. destruct t as [|b t]; [|discriminate].
      cbn [gitems flat_map bindd]. destruct k as [|x k]; [reflexivity|].
      rewrite rmatch_RA. cbn [rep_match amatch].
      destruct (x =? cSLASH); cbn [andb is_nil]; [|reflexivity].
      rewrite rmatch_RA. cbn [rep_match].
      apply no_nl_cons in Hnl. destruct Hnl as [_ Hnl].
      assert (Hne : greedy_star ADot (fun s' => rmatch [] None caps s') k <> None).
      { apply greedy_star_some. exists k, []. rewrite app_nil_r. repeat split.
        - apply forallb_dot. exact Hnl.
        - simpl. discriminate. }
      destruct (greedy_star_const _ ADot (fun s' => rmatch [] None caps s') (rev caps) k) as [E|E].
      * intro s'. cbn [rmatch]. destruct (is_nil s' || str_eqb s' [cNL]); [left|right]; reflexivity.
      * rewrite E, app_nil_r. reflexivity.
      * congruence.
    + (* variable *)
      simpl in Hsl. cbn [rmatch rep_match bindd].
      destruct k as [|x k]; [reflexivity|].
      cbn [amatch take_seg]. destruct (N.eqb_spec x cSLASH) as [E|E]; cbn [negb fst snd]; [reflexivity|].
      pose proof Hnl as Hnl0. apply no_nl_cons in Hnl. destruct Hnl as [_ Hnl].
      rewrite greedy_det.
      * cbn [rmatch].
        assert (Hf : firstn (length (x :: k) - length (snd (take_seg k))) (x :: k) = x :: fst (take_seg k)).
        { pose proof (take_seg_firstn (x :: k)) as Hq. simpl take_seg in Hq.
          apply N.eqb_neq in E. rewrite E in Hq. exact Hq. }
        rewrite Hf. rewrite IH; try assumption.
        -- destruct (bindd t (snd (take_seg k))) as [vs|]; [|reflexivity].
           simpl. rewrite <- app_assoc. reflexivity.
        -- rewrite (take_seg_app k) in Hnl. apply no_nl_app in Hnl. tauto.
      * intros y rest Hy Hys. cbn [rmatch]. apply cont_fails; try assumption.
        apply Hnl. exact Hy.
Qed.

(* ================================================================ the pipeline with capture groups *)
Definition glex_tok (t : ptok) : list rtok :=
  match t with
  | PLit c => [TkC c]
  | PSlashStar => [TkC cSLASH; TkC cDOT; TkC cSTAR]
  | PVar _ => [TkC cLPAR; TkNotSl; TkC cPLUS; TkC cRPAR]
  end.

Lemma rlex_grp_esc : forall r,
  rlex O (re_grp_notslash_esc ++ r) = TkC cLPAR :: TkNotSl :: TkC cPLUS :: TkC cRPAR :: rlex O r.
Proof. intro r. reflexivity. Qed.

Lemma rlex_grp : forall r,
  rlex O (re_grp_notslash ++ r) = TkC cLPAR :: TkNotSl :: TkC cPLUS :: TkC cRPAR :: rlex O r.
Proof. intro r. reflexivity. Qed.

Lemma rlex_re_g : forall rep t, (rep = re_grp_notslash_esc \/ rep = re_grp_notslash) ->
  forallb ptok_ok t = true -> rlex O (re_of rep t) = flat_map glex_tok t.
Proof.
  intros rep t Hrep. induction t as [|a t IH]; intro H; [reflexivity|].
  simpl in H. apply andb_true_iff in H. destruct H as [Ha Ht].
  unfold re_of. cbn [flat_map]. fold (re_of rep t).
  destruct a as [c| |n]; cbn [re_tok glex_tok].
  - cbn [app]. rewrite rlex_cons_ne; [rewrite IH by assumption; reflexivity|]. simpl in Ha. lit_ne Ha.
  - cbn [app]. rewrite !rlex_cons_ne by discriminate. rewrite IH by assumption. reflexivity.
  - destruct Hrep; subst rep; [rewrite rlex_grp_esc|rewrite rlex_grp]; rewrite IH by assumption; reflexivity.
Qed.

Lemma head_q_glex : forall t, forallb ptok_ok t = true -> head_q (flat_map glex_tok t) = false.
Proof.
  intros [|a t] H; [reflexivity|]. simpl in H. apply andb_true_iff in H. destruct H as [Ha _].
  destruct a as [c| |n]; simpl.
  - apply lit_not_q. exact Ha.
  - reflexivity.
  - reflexivity.
Qed.

Lemma rparse_group : forall T, head_q T = false ->
  rparse (TkC cLPAR :: TkNotSl :: TkC cPLUS :: TkC cRPAR :: T) false
  = ocons ROpen (ocons (RA ANotSl QPlus false) (ocons RClose (rparse T false))).
Proof.
  intros T HT.
  change (rparse (TkC cLPAR :: TkNotSl :: TkC cPLUS :: TkC cRPAR :: T) false)
    with (ocons ROpen (rparse (TkNotSl :: TkC cPLUS :: TkC cRPAR :: T) true)).
  f_equal. rewrite rparse_quant with (at_ := ANotSl); try reflexivity.
  f_equal. cbn [rparse tok_is]. change (cRPAR =? cLPAR) with false. change (cRPAR =? cRPAR) with true.
  cbv iota. rewrite HT. reflexivity.
Qed.

Lemma rparse_glex : forall t, forallb ptok_ok t = true ->
  rparse (flat_map glex_tok t) false = Some (gitems t).
Proof.
  induction t as [|a t IH]; intro H; [reflexivity|].
  simpl in H. apply andb_true_iff in H. destruct H as [Ha Ht].
  pose proof (head_q_glex t Ht) as Hq. specialize (IH Ht).
  unfold gitems. cbn [flat_map]. fold (gitems t).
  destruct a as [c| |n]; cbn [glex_tok gitem_of_tok app].
  - rewrite rparse_lit by assumption. rewrite IH. reflexivity.
  - rewrite rparse_slashstar by assumption. rewrite IH. reflexivity.
  - rewrite rparse_group by assumption. rewrite IH. reflexivity.
Qed.

Lemma regex_full_groups : forall rep t k, (rep = re_grp_notslash_esc \/ rep = re_grp_notslash) ->
  wf2 t = true -> star_last t = true -> no_nl k ->
  regex_full (re_of rep t) k = Ok (bindd t k).
Proof.
  intros rep t k Hrep Hwf Hsl Hk. pose proof (wf2_ok t Hwf) as Hok. unfold regex_full.
  rewrite rlex_re_g by assumption. rewrite rparse_glex by assumption.
  rewrite rmatch_bind by assumption. destruct (bindd t k); reflexivity.
Qed.

(* ---------------------------------------------------------------- the names collected by findall / the repl callback *)
Section ToksFacts.
  Variable find : N -> str -> option nat.
  Variable trim : nat.
  Lemma toks_none : forall c r, find c r = None -> toks_from find trim O (c :: r) = toks_from find trim O r.
  Proof. intros c r H. cbn [toks_from]. rewrite H. reflexivity. Qed.
  Lemma toks_some : forall c r k, find c r = Some k ->
    toks_from find trim O (c :: r) = firstn (k - trim) r :: toks_from find trim k r.
  Proof. intros c r k H. cbn [toks_from]. rewrite H. reflexivity. Qed.
  Lemma toks_skip : forall a r, toks_from find trim (length a) (a ++ r) = toks_from find trim O r.
  Proof. induction a as [|x a IH]; intro r; [reflexivity|]. simpl. apply IH. Qed.
End ToksFacts.

Lemma names2_mid : forall t, wf2 t = true -> toks_from find2 0 O (mid false t) = var_names t.
Proof.
  induction t as [|a t IH]; intro H; [reflexivity|].
  simpl in H. apply andb_true_iff in H. destruct H as [H Ht]. apply andb_true_iff in H. destruct H as [Ha Hs].
  unfold mid. cbn [flat_map]. fold (mid false t).
  destruct a as [c| |n]; cbn [mid_tok render_tok var_names].
  - cbn [app]. rewrite toks_none; [apply IH; assumption|]. apply find2_other. simpl in Ha. lit_ne Ha.
  - cbn [app]. rewrite !toks_none; try (apply find2_other; discriminate). apply IH; assumption.
  - simpl in Ha. apply name_ok_facts in Ha. destruct Ha as [Hne Hn].
    cbn [app]. rewrite (toks_some _ _ _ _ (length n)).
    + rewrite Nat.sub_0_r, firstn_app_exact, toks_skip, IH by assumption. reflexivity.
    + unfold find2. rewrite N.eqb_refl. rewrite run_len_app.
      * destruct n; [congruence|reflexivity].
      * intros x Hx. apply Hn; exact Hx.
      * apply mid_starts_slash. exact Hs.
Qed.

Lemma starts_slash_clean : forall t, starts_slash t = true -> run_clean (mid true t) = true.
Proof.
  intros [|a t] H; [reflexivity|]. destruct a as [c| |n]; simpl in *.
  - rewrite H. reflexivity.
  - reflexivity.
  - discriminate.
Qed.

Lemma names5_mid : forall t, wf2 t = true -> toks_from find5 1 O (mid true t) = var_names t.
Proof.
  induction t as [|a t IH]; intro H; [reflexivity|].
  simpl in H. apply andb_true_iff in H. destruct H as [H Ht]. apply andb_true_iff in H. destruct H as [Ha Hs].
  unfold mid. cbn [flat_map]. fold (mid true t).
  destruct a as [c| |n]; cbn [mid_tok render_tok var_names].
  - cbn [app]. rewrite toks_none; [apply IH; assumption|]. apply find5_other. simpl in Ha. lit_ne Ha.
  - cbn [app]. rewrite !toks_none; try (apply find5_other; discriminate). apply IH; assumption.
  - simpl in Ha. apply name_ok_facts in Ha. destruct Ha as [Hne Hn].
    assert (Hn' : forall x, In x n -> x <> cSLASH /\ x <> cRBRACE).
    { intros y Hy. destruct (Hn y Hy) as [Hl Hsl]. split; [exact Hsl|apply lit_not_rbrace; exact Hl]. }
    cbn [app]. rewrite <- app_assoc. cbn [app].
    rewrite (toks_some _ _ _ _ (length (n ++ [cRBRACE]))).
    + replace (length (n ++ [cRBRACE]) - 1)%nat with (length n) by (rewrite app_length; simpl; lia).
      rewrite firstn_app_exact.
      replace (n ++ cRBRACE :: mid true t) with ((n ++ [cRBRACE]) ++ mid true t)
        by (rewrite <- app_assoc; reflexivity).
      rewrite toks_skip, IH by assumption. reflexivity.
    + apply find5_var; try assumption. apply starts_slash_clean. exact Hs.
Qed.

(* wf2-shaped patterns also satisfy the one-variable-per-segment condition of the greedy brace token
   when every variable is followed by '/' or the end *)
Lemma subst5_mid_wf2 : forall rep t, wf2 t = true ->
  subst_from find5 rep O (mid true t) = re_of rep t.
Proof.
  intros rep. induction t as [|a t IH]; intro H; [reflexivity|].
  simpl in H. apply andb_true_iff in H. destruct H as [H Ht]. apply andb_true_iff in H. destruct H as [Ha Hs].
  unfold mid, re_of. cbn [flat_map]. fold (mid true t). fold (re_of rep t).
  destruct a as [c| |n]; cbn [mid_tok render_tok re_tok].
  - cbn [app]. rewrite subst_none; [rewrite IH by assumption; reflexivity|].
    apply find5_other. simpl in Ha. lit_ne Ha.
  - cbn [app]. rewrite subst_slashstar; try (apply find5_other; discriminate).
    rewrite IH by assumption. reflexivity.
  - simpl in Ha. apply name_ok_facts in Ha. destruct Ha as [Hne Hn].
    assert (Hn' : forall x, In x n -> x <> cSLASH /\ x <> cRBRACE).
    { intros y Hy. destruct (Hn y Hy) as [Hl Hsl]. split; [exact Hsl|apply lit_not_rbrace; exact Hl]. }
    cbn [app]. rewrite <- app_assoc. cbn [app].
    rewrite (subst_some _ _ _ _ (length (n ++ [cRBRACE]))).
    + replace (n ++ cRBRACE :: mid true t) with ((n ++ [cRBRACE]) ++ mid true t)
        by (rewrite <- app_assoc; reflexivity).
      rewrite subst_skip. rewrite IH by assumption. reflexivity.
    + apply find5_var; try assumption. apply starts_slash_clean. exact Hs.
Qed.

(* ================================================================ keyGet2 *)
Theorem key_get2_tokens : forall t k v, get2_doc t = true -> no_nl k ->
  key_get2 k (render false t) v = Ok (get2_spec t k v).
Proof.
  intros t k v Hd Hk. unfold get2_doc in Hd. apply andb_true_iff in Hd. destruct Hd as [Hwf Hsl].
  pose proof (wf2_ok t Hwf) as Hok. unfold key_get2, get2_spec.
  rewrite rss_render by assumption. rewrite names2_mid by assumption. rewrite subst2_mid by assumption.
  rewrite (star_special_id re_grp_notslash_esc t cLPAR (tl re_grp_notslash_esc)); try reflexivity; try assumption; try discriminate.
  rewrite regex_full_groups by auto. cbn [rbind]. destruct (bindd t k); reflexivity.
Qed.

(* ================================================================ keyMatch4 *)
Lemma bindd_length : forall t k vs, bindd t k = Some vs -> length vs = length (var_names t).
Proof.
  induction t as [|a t IH]; intros k vs H.
  - simpl in H. destruct (is_nil k); inversion H; reflexivity.
  - destruct a as [c| |n]; cbn [bindd var_names] in *.
    + destruct k as [|x k]; [discriminate|]. destruct (x =? c); [|discriminate]. eapply IH; eassumption.
    + destruct k as [|x k]; [discriminate|]. destruct ((x =? cSLASH) && is_nil t) eqn:E; [|discriminate].
      inversion H; subst. apply andb_true_iff in E. destruct E as [_ E]. destruct t; [reflexivity|discriminate].
    + destruct (fst (take_seg k)) as [|y seg]; [discriminate|].
      destruct (bindd t (snd (take_seg k))) as [vs'|] eqn:E; [|discriminate].
      inversion H; subst. simpl. f_equal. eapply IH; eassumption.
Qed.

Lemma str_eqb_sym : forall a b : str, str_eqb a b = str_eqb b a.
Proof.
  intros a b. destruct (str_eqb a b) eqn:E1; destruct (str_eqb b a) eqn:E2; try reflexivity.
  - apply str_eqb_eq in E1. subst. rewrite str_eqb_refl in E2. discriminate.
  - apply str_eqb_eq in E2. subst. rewrite str_eqb_refl in E1. discriminate.
Qed.

Definition compat1 (env : list (str * str)) (nv : str * str) : bool :=
  match lookup_str (fst nv) env with Some v0 => str_eqb v0 (snd nv) | None => true end.
Definition same1 (n v : str) (nv : str * str) : bool :=
  negb (str_eqb (fst nv) n) || str_eqb (snd nv) v.

Lemma compat_cons : forall n v env l, lookup_str n env = None ->
  forallb (compat1 ((n, v) :: env)) l = forallb (compat1 env) l && forallb (same1 n v) l.
Proof.
  intros n v env l Hn. induction l as [|[n' v'] l IH]; [reflexivity|].
  cbn [forallb]. rewrite IH.
  assert (E1 : compat1 ((n, v) :: env) (n', v') = compat1 env (n', v') && same1 n v (n', v')).
  { unfold compat1, same1. cbn [fst snd lookup_str].
    destruct (str_eqb n' n) eqn:E.
    - apply str_eqb_eq in E. subst n'. rewrite Hn. cbn [negb orb andb]. apply str_eqb_sym.
    - cbn [negb orb]. rewrite andb_true_r. reflexivity. }
  rewrite E1.
  destruct (compat1 env (n', v')); destruct (same1 n v (n', v'));
    destruct (forallb (compat1 env) l); destruct (forallb (same1 n v) l); reflexivity.
Qed.

Lemma compat_same : forall n v env l, lookup_str n env = Some v ->
  forallb (compat1 env) l = true -> forallb (same1 n v) l = true.
Proof.
  intros n v env l Hn. induction l as [|[n' v'] l IH]; [reflexivity|].
  cbn [forallb]. intro H. apply andb_true_iff in H. destruct H as [H1 H2]. rewrite IH by assumption.
  rewrite andb_true_r. unfold same1. cbn [fst snd]. destruct (str_eqb n' n) eqn:E; [|reflexivity].
  apply str_eqb_eq in E. subst n'. unfold compat1 in H1. cbn [fst snd] in H1. rewrite Hn in H1.
  cbn [negb orb]. rewrite str_eqb_sym. exact H1.
Qed.

Lemma km4_check_spec : forall names vals env,
  km4_check names vals env = forallb (compat1 env) (combine names vals) && consistent names vals.
Proof.
  induction names as [|n names IH]; intros vals env; [reflexivity|].
  destruct vals as [|v vals]; [reflexivity|].
  cbn [km4_check combine forallb consistent]. unfold compat1 at 1. cbn [fst snd].
  fold (same1 n v). change (fun nv : str * str => negb (str_eqb (fst nv) n) || str_eqb (snd nv) v) with (same1 n v).
  destruct (lookup_str n env) as [v0|] eqn:El.
  - destruct (str_eqb v0 v) eqn:Ev; [|reflexivity]. apply str_eqb_eq in Ev. subst v0.
    rewrite IH. cbn [andb].
    destruct (forallb (compat1 env) (combine names vals)) eqn:Ec; cbn [andb]; [|reflexivity].
    rewrite (compat_same n v env _ El Ec). reflexivity.
  - rewrite IH. rewrite compat_cons by assumption. cbn [andb].
    rewrite <- !andb_assoc. reflexivity.
Qed.

(* the dict loop of key_match4 is exactly "repeated names are bound to equal texts" *)
Theorem km4_consistent : forall names vals, km4_check names vals [] = consistent names vals.
Proof.
  intros names vals. rewrite km4_check_spec.
  assert (H : forallb (compat1 []) (combine names vals) = true).
  { apply forallb_forall. intros x _. reflexivity. }
  rewrite H. reflexivity.
Qed.

Lemma wf4_wf2 : forall b t, wf4_from b t = true -> wf2 t = true.
Proof.
  intros b t. revert b. induction t as [|a t IH]; intros b H; [reflexivity|].
  simpl in *. apply andb_true_iff in H. destruct H as [Ha H]. rewrite Ha. cbn [andb].
  destruct a as [c| |n].
  - eapply IH; eassumption.
  - eapply IH; eassumption.
  - apply andb_true_iff in H. destruct H as [H Hr]. apply andb_true_iff in H. destruct H as [_ Hs].
    rewrite Hs. cbn [andb]. eapply IH; eassumption.
Qed.

Theorem key_match4_tokens : forall t k, wf4 t = true -> star_last t = true -> no_nl k ->
  key_match4 k (render true t) = Ok (km4_bind_spec t k).
Proof.
  intros t k Hwf4 Hsl Hk. pose proof (wf4_wf2 _ _ Hwf4) as Hwf. pose proof (wf2_ok t Hwf) as Hok.
  unfold key_match4, km4_bind_spec.
  rewrite rss_render by assumption. rewrite names5_mid by assumption. rewrite subst5_mid_wf2 by assumption.
  rewrite regex_full_groups by auto. cbn [rbind].
  destruct (bindd t k) as [vs|] eqn:E; [|reflexivity].
  rewrite (bindd_length _ _ _ E). rewrite Nat.eqb_refl. rewrite km4_consistent. reflexivity.
Qed.

(* ================================================================ what bindd means: unique decomposition *)
Definition is_seg (v : str) : Prop := v <> [] /\ no_slash v.

Lemma inst_head : forall t vs tail, starts_slash t = true ->
  inst t vs tail = [] \/ head_is cSLASH (inst t vs tail) = true.
Proof.
  intros [|a t] vs tail H; [left; reflexivity|]. destruct a as [c| |n]; simpl in *.
  - right. exact H.
  - right. reflexivity.
  - discriminate.
Qed.

Theorem bindd_complete : forall t vs tail, wf2 t = true -> star_last t = true ->
  length vs = length (var_names t) -> Forall is_seg vs ->
  bindd t (inst t vs tail) = Some vs.
Proof.
  induction t as [|a t IH]; intros vs tail Hwf Hsl Hlen Hvs.
  - destruct vs; [reflexivity|discriminate].
  - simpl in Hwf. apply andb_true_iff in Hwf. destruct Hwf as [Hwf Hwt].
    apply andb_true_iff in Hwf. destruct Hwf as [Ha Hss].
    destruct a as [c| |n]; cbn [bindd inst var_names] in *.
    + rewrite N.eqb_refl. apply IH; assumption.
    + destruct t; [|discriminate]. rewrite N.eqb_refl. simpl. destruct vs; [reflexivity|discriminate].
    + destruct vs as [|v vs]; [discriminate|]. inversion Hvs as [|? ? [Hne Hns] Hvs']; subst.
      rewrite take_seg_split; [|exact Hns|apply inst_head; exact Hss]. cbn [fst snd].
      destruct v as [|y v]; [congruence|]. rewrite IH; try assumption; [reflexivity|].
      simpl in Hlen. lia.
Qed.

Theorem bindd_sound : forall t k vs, star_last t = true -> bindd t k = Some vs ->
  exists tail, k = inst t vs tail /\ Forall is_seg vs.
Proof.
  induction t as [|a t IH]; intros k vs Hsl H.
  - simpl in H. destruct k; [|discriminate]. inversion H; subst. exists []. split; [reflexivity|constructor].
  - destruct a as [c| |n]; cbn [bindd inst] in *.
    + destruct k as [|x k]; [discriminate|]. destruct (N.eqb_spec x c) as [E|E]; [|discriminate]. subst.
      destruct (IH _ _ Hsl H) as [tail [E1 E2]]. exists tail. subst. split; [reflexivity|assumption].
    + destruct k as [|x k]; [discriminate|]. destruct (N.eqb_spec x cSLASH) as [E|E]; [|discriminate].
      destruct (is_nil t); [|discriminate]. inversion H; subst. exists k. split; [reflexivity|constructor].
    + destruct (fst (take_seg k)) as [|y seg] eqn:Ef; [discriminate|].
      destruct (bindd t (snd (take_seg k))) as [vs'|] eqn:E; [|discriminate].
      inversion H; subst. destruct (IH _ _ Hsl E) as [tail [E1 E2]]. exists tail. split.
      * rewrite (take_seg_app k) at 1. rewrite Ef, E1. reflexivity.
      * constructor; [|assumption]. split; [discriminate|]. rewrite <- Ef. apply take_seg_noslash.
Qed.

(* ================================================================ on strings *)
Theorem key_get2_iff : forall p k v, get2_docs p = true -> key_ok k = true ->
  key_get2 k p v = Ok (get2_spec (tokens2 p) k v).
Proof.
  intros p k v Hd Hk. unfold get2_docs in Hd. apply andb_true_iff in Hd. destruct Hd as [Hd Hsl].
  unfold doc2 in Hd. apply andb_true_iff in Hd. destruct Hd as [Hwf Hr].
  apply str_eqb_eq in Hr. rewrite <- Hr at 1.
  apply key_get2_tokens; [|apply key_ok_no_nl; exact Hk].
  unfold get2_doc. rewrite Hwf, Hsl. reflexivity.
Qed.

Theorem km4_iff : forall p k, doc4s p = true -> key_ok k = true ->
  key_match4 k p = Ok (km4_bind_spec (tokens5 p) k).
Proof.
  intros p k Hd Hk. unfold doc4s in Hd. apply andb_true_iff in Hd. destruct Hd as [Hd Hsl].
  unfold doc4 in Hd. apply andb_true_iff in Hd. destruct Hd as [Hwf Hr].
  apply str_eqb_eq in Hr. rewrite <- Hr at 1.
  apply key_match4_tokens; [exact Hwf|exact Hsl|apply key_ok_no_nl; exact Hk].
Qed.
