(* KeyMatch.v — models of casbin/util/builtin_operators.py key_match (l.25-36), key_get (l.47-60),
   key_match2 (l.63-74), key_get2 (l.84-105), key_match3 (l.108-116), key_get3 (l.126-147),
   key_match4 (l.150-186), key_match5 (l.199-215), regex_match (l.225-232) on the regex fragment
   the rewrites can produce, plus the denotational pattern languages and documented forms.

   The regex-based functions are modelled as the code runs them: (1) str.replace("/*", "/.*"),
   (2) the re.sub of the variable tokens, (3) "^" + key2 + "$" handed to `re`: a lexer/parser for
   the fragment  literal | . | [^/] | [^\/]  each optionally followed by * + ? (lazy with a second ?),
   one level of ( ) groups, and a backtracking matcher with Python's priority order (greedy longest
   first, lazy shortest first) so that captures are modelled.  Anything else in the rewritten
   pattern (other regex metacharacters forwarded to `re`) -> Err ENotModelled.
   `.` does not match "\n"; `$` matches at the end or before a final "\n" (both as in `re`).
   No proofs here. *)
From Coq Require Import List NArith Bool Arith.
From PyCasbin Require Import Base PatBase.
Import ListNotations.
Local Open Scope N_scope.

(* ================================================================ key_match / key_get *)
Fixpoint find_char (c : N) (s : str) : option nat :=       (* s.find(c) *)
  match s with
  | [] => None
  | x :: r => if x =? c then Some O
              else match find_char c r with Some i => Some (S i) | None => None end
  end.

Definition key_match (k p : str) : bool :=
  match find_char cSTAR p with
  | None => str_eqb k p                                                   (* l.31-32 *)
  | Some i => if Nat.ltb i (length k) then str_eqb (firstn i k) (firstn i p)   (* l.34-35 *)
              else str_eqb k (firstn i p)                                 (* l.36 *)
  end.

Definition key_get (k p : str) : str :=
  match find_char cSTAR p with
  | None => []                                                            (* l.54-55 *)
  | Some i => if Nat.ltb i (length k)
              then (if str_eqb (firstn i k) (firstn i p) then skipn i k else [])   (* l.57-59 *)
              else []                                                     (* l.60 *)
  end.

(* spec: no '*': the key is the pattern; otherwise the key extends the text before the first '*' *)
Inductive km_lang : str -> str -> Prop :=
| KM_exact : forall p, ~ In cSTAR p -> km_lang p p
| KM_star : forall pre suf rest, ~ In cSTAR pre -> km_lang (pre ++ cSTAR :: suf) (pre ++ rest).

Fixpoint prefixb (a s : str) : bool :=
  match a, s with
  | [], _ => true
  | x :: a', y :: s' => (x =? y) && prefixb a' s'
  | _ :: _, [] => false
  end.

(* executable spec of key_match / key_get, stated with a prefix test *)
Definition km_spec (p k : str) : bool :=
  match find_char cSTAR p with
  | None => str_eqb k p
  | Some i => prefixb (firstn i p) k
  end.
Definition kg_spec (p k : str) : str :=
  match find_char cSTAR p with
  | None => []
  | Some i => if prefixb (firstn i p) k then skipn i k else []
  end.

(* ================================================================ the string rewrites *)
(* key2.replace("/*", "/.*") : leftmost, non-overlapping *)
Fixpoint rss (p : str) : str :=
  match p with
  | [] => []
  | c :: r =>
    match r with
    | d :: r' => if (c =? cSLASH) && (d =? cSTAR) then cSLASH :: cDOT :: cSTAR :: rss r' else c :: rss r
    | [] => [c]
    end
  end.

(* pattern.sub(repl, s) / re.findall for the four variable-token regexes.  [find c r] says whether
   a token starts at the character c (followed by r) and how many characters of r it covers;
   the scan is leftmost, non-overlapping, and copies everything else (the lazy (.*?) groups of
   KEY_MATCH2/3_PATTERN re-emit what they consumed, so newlines in between do not matter). *)
Section Scan.
  Variable find : N -> str -> option nat.

  Fixpoint subst_from (rep : str) (skip : nat) (p : str) : str :=
    match p with
    | [] => []
    | c :: r =>
      match skip with
      | S k => subst_from rep k r
      | O => match find c r with
             | Some k => rep ++ subst_from rep k r
             | None => c :: subst_from rep O r
             end
      end
    end.

  (* the matched texts minus their first character (and minus [trim] closing characters) *)
  Fixpoint toks_from (trim : nat) (skip : nat) (p : str) : list str :=
    match p with
    | [] => []
    | c :: r =>
      match skip with
      | S k => toks_from trim k r
      | O => match find c r with
             | Some k => firstn (k - trim) r :: toks_from trim k r
             | None => toks_from trim O r
             end
      end
    end.
End Scan.

Fixpoint run_len (r : str) : nat :=                       (* length of the maximal '/'-free prefix *)
  match r with
  | x :: r' => if x =? cSLASH then O else S (run_len r')
  | [] => O
  end.

(* KEY_MATCH2_PATTERN  (.*?):[^\/]+(.*?)   and  re.findall(":[^/]+") *)
Definition find2 (c : N) (r : str) : option nat :=
  if c =? cCOLON then match run_len r with O => None | n => Some n end else None.

(* index of the first '}' before any '/' *)
Fixpoint close_idx (r : str) : option nat :=
  match r with
  | [] => None
  | x :: r' => if x =? cRBRACE then Some O
               else if x =? cSLASH then None
               else match close_idx r' with Some j => Some (S j) | None => None end
  end.

(* KEY_MATCH3_PATTERN  (.*?){[^\/]+?}(.*?)   and  re.findall("{[^/]+?}") : lazy *)
Definition find3 (c : N) (r : str) : option nat :=
  if c =? cLBRACE then
    match r with
    | x :: r' => if x =? cSLASH then None
                 else match close_idx r' with Some j => Some (S (S j)) | None => None end
    | [] => None
    end
  else None.

(* index (>= 1) of the last '}' of the '/'-free run *)
Fixpoint last_close (r : str) (i : nat) (best : option nat) : option nat :=
  match r with
  | [] => best
  | x :: r' => if x =? cSLASH then best
               else last_close r' (S i) (if (x =? cRBRACE) && Nat.leb 1 i then Some i else best)
  end.

(* KEY_MATCH4_PATTERN {([^/]+)}  and  KEY_MATCH5_PATTERN {[^/]+} : greedy *)
Definition find5 (c : N) (r : str) : option nat :=
  if c =? cLBRACE then match last_close r O None with Some j => Some (S j) | None => None end
  else None.

Definition re_notslash_esc : str := [cLBR; cCARET; cBSL; cSLASH; cRBR; cPLUS].        (* [^\/]+ *)
Definition re_notslash : str := [cLBR; cCARET; cSLASH; cRBR; cPLUS].                  (* [^/]+ *)
Definition re_grp_notslash_esc : str := [cLPAR] ++ re_notslash_esc ++ [cRPAR].        (* ([^\/]+) *)
Definition re_grp_notslash : str := [cLPAR] ++ re_notslash ++ [cRPAR].                (* ([^/]+) *)
Definition re_grp_notslash_lazy : str := [cLPAR] ++ re_notslash ++ [cQM; cRPAR].      (* ([^/]+?) *)
Definition re_grp_any : str := [cLPAR; cDOT; cSTAR; cRPAR].                           (* ( .* ) *)

(* ================================================================ the regex fragment *)
Inductive rtok := TkC (c : N) | TkNotSl.

Definition notsl_len (c : N) (r : str) : option nat :=
  if c =? cLBR then
    if prefixb [cCARET; cSLASH; cRBR] r then Some 3%nat
    else if prefixb [cCARET; cBSL; cSLASH; cRBR] r then Some 4%nat
    else None
  else None.

Fixpoint rlex (skip : nat) (p : str) : list rtok :=
  match p with
  | [] => []
  | c :: r =>
    match skip with
    | S k => rlex k r
    | O => match notsl_len c r with
           | Some k => TkNotSl :: rlex k r
           | None => TkC c :: rlex O r
           end
    end
  end.

Inductive atom := ALit (c : N) | ADot | ANotSl.
Inductive quant := QOne | QStar | QPlus | QOpt.
Inductive ritem := RA (a : atom) (q : quant) (lz : bool) | ROpen | RClose.

Definition is_qchar (c : N) : bool := (c =? cSTAR) || (c =? cPLUS) || (c =? cQM).
Definition quant_of (c : N) : quant := if c =? cSTAR then QStar else if c =? cPLUS then QPlus else QOpt.
Definition head_q (t : list rtok) : bool :=
  match t with TkC c :: _ => is_qchar c | _ => false end.

(* characters that are never an ordinary literal for this fragment ('.' and '{' are decided in atom_of) *)
Definition re_special (c : N) : bool :=
  (c =? cCARET) || (c =? cDOLLAR) || (c =? cSTAR) || (c =? cPLUS) || (c =? cQM) || (c =? cLBR) ||
  (c =? cRBR) || (c =? cBSL) || (c =? cPIPE) || (c =? cLPAR) || (c =? cRPAR).

(* '{' is a literal for sre_parse unless it opens {m}, {m,n}, {m,}, {,n}; conservatively: unless a
   digit or ',' follows *)
Definition atom_of (t : rtok) (next : list rtok) : option atom :=
  match t with
  | TkNotSl => Some ANotSl
  | TkC c =>
    if c =? cDOT then Some ADot
    else if c =? cLBRACE then
      match next with
      | TkC d :: _ => if is_digit d || (d =? cCOMMA) then None else Some (ALit c)
      | _ => Some (ALit c)
      end
    else if re_special c then None
    else Some (ALit c)
  end.

Definition ocons {A} (x : A) (o : option (list A)) : option (list A) :=
  match o with Some l => Some (x :: l) | None => None end.

Definition tok_is (c : N) (t : rtok) : bool := match t with TkC x => x =? c | TkNotSl => false end.

Fixpoint rparse (t : list rtok) (opened : bool) {struct t} : option (list ritem) :=
  match t with
  | [] => if opened then None else Some []
  | a :: r =>
    if tok_is cLPAR a then (if opened then None else ocons ROpen (rparse r true))
    else if tok_is cRPAR a then
      (if opened then (if head_q r then None else ocons RClose (rparse r false)) else None)
    else
      match atom_of a r with
      | None => None
      | Some at_ =>
        match r with
        | TkC q :: r1 =>
          if is_qchar q then
            match r1 with
            | TkC q2 :: r2 =>
              if q2 =? cQM then (if head_q r2 then None else ocons (RA at_ (quant_of q) true) (rparse r2 opened))
              else if is_qchar q2 then None
              else ocons (RA at_ (quant_of q) false) (rparse r1 opened)
            | _ => ocons (RA at_ (quant_of q) false) (rparse r1 opened)
            end
          else ocons (RA at_ QOne false) (rparse r opened)
        | _ => ocons (RA at_ QOne false) (rparse r opened)
        end
      end
  end.

Definition amatch (a : atom) (x : N) : bool :=
  match a with
  | ALit c => x =? c
  | ADot => negb (x =? cNL)
  | ANotSl => negb (x =? cSLASH)
  end.

Section Rep.
  Context {R : Type}.
  (* continuation-passing backtracking; None = this alternative fails *)
  Fixpoint greedy_star (a : atom) (k : str -> option R) (s : str) : option R :=
    match s with
    | x :: s' => if amatch a x
                 then match greedy_star a k s' with Some r => Some r | None => k s end
                 else k s
    | [] => k s
    end.

  Fixpoint lazy_star (a : atom) (k : str -> option R) (s : str) : option R :=
    match k s with
    | Some r => Some r
    | None => match s with
              | x :: s' => if amatch a x then lazy_star a k s' else None
              | [] => None
              end
    end.

  Definition rep_match (a : atom) (q : quant) (lz : bool) (k : str -> option R) (s : str) : option R :=
    match q with
    | QOne => match s with x :: s' => if amatch a x then k s' else None | [] => None end
    | QStar => if lz then lazy_star a k s else greedy_star a k s
    | QPlus => match s with
               | x :: s' => if amatch a x then (if lz then lazy_star a k s' else greedy_star a k s') else None
               | [] => None
               end
    | QOpt =>
      if lz then
        match k s with
        | Some r => Some r
        | None => match s with x :: s' => if amatch a x then k s' else None | [] => None end
        end
      else
        match s with
        | x :: s' => if amatch a x then match k s' with Some r => Some r | None => k s end else k s
        | [] => k s
        end
    end.
End Rep.

(* re.match("^" + items + "$", s).groups(); st = where the open group started, caps reversed *)
Fixpoint rmatch (items : list ritem) (st : option str) (caps : list str) (s : str) {struct items}
  : option (list str) :=
  match items with
  | [] => if is_nil s || str_eqb s [cNL] then Some (rev caps) else None
  | RA a q lz :: rest => rep_match a q lz (fun s' => rmatch rest st caps s') s
  | ROpen :: rest => rmatch rest (Some s) caps s
  | RClose :: rest =>
    match st with
    | Some s0 => rmatch rest None (firstn (length s0 - length s) s0 :: caps) s
    | None => None
    end
  end.

(* re.match("^" + re + "$", k) : None = outside the fragment; Some None = no match; Some (Some groups) *)
Definition regex_full (re k : str) : result (option (list str)) :=
  match rparse (rlex O re) false with
  | None => Err ENotModelled
  | Some items => Ok (rmatch items None [] k)
  end.

Definition is_some {A} (o : option A) : bool := match o with Some _ => true | None => false end.

Definition star_special (r : str) : str := if str_eqb r [cSTAR] then re_grp_any else r.   (* l.71-72 *)

(* ================================================================ the functions *)
Definition key_match2 (k p : str) : result bool :=
  let r := subst_from find2 re_notslash_esc O (rss p) in                  (* l.68-69 *)
  rbind (regex_full (star_special r) k) (fun m => Ok (is_some m)).        (* l.71-74 *)

Definition key_match3 (k p : str) : result bool :=
  let r := subst_from find3 re_notslash_esc O (rss p) in                  (* l.113-114 *)
  rbind (regex_full r k) (fun m => Ok (is_some m)).                       (* l.116 *)

Fixpoint before_qm (k : str) : str :=                                     (* l.207-209 *)
  match k with
  | [] => []
  | x :: r => if x =? cQM then [] else x :: before_qm r
  end.

Definition key_match5 (k p : str) : result bool :=
  let r := subst_from find5 re_notslash O (rss p) in                      (* l.211-213 *)
  rbind (regex_full r (before_qm k)) (fun m => Ok (is_some m)).           (* l.215 *)

Fixpoint lookup_str (x : str) (env : list (str * str)) : option str :=
  match env with
  | [] => None
  | (a, b) :: r => if str_eqb x a then Some b else lookup_str x r
  end.

Fixpoint km4_check (toks vals : list str) (env : list (str * str)) : bool :=   (* l.176-186 *)
  match toks, vals with
  | t :: toks', v :: vals' =>
    match lookup_str t env with
    | None => km4_check toks' vals' ((t, v) :: env)
    | Some v0 => if str_eqb v0 v then km4_check toks' vals' env else false
    end
  | _, _ => true
  end.

Definition key_match4 (k p : str) : result bool :=
  let p1 := rss p in                                                      (* l.158 *)
  let toks := toks_from find5 1 O p1 in                                   (* l.162-166: group(1) *)
  let r := subst_from find5 re_grp_notslash O p1 in
  rbind (regex_full r k) (fun m =>
    match m with
    | None => Ok false                                                    (* l.171-172 *)
    | Some groups =>
      if Nat.eqb (length toks) (length groups) then Ok (km4_check toks groups [])
      else Err EKm4Count                                                  (* l.173-174 *)
    end).

Fixpoint pick_var (names : list str) (groups : list str) (v : str) : str :=    (* l.102-105 *)
  match names with
  | [] => []
  | n :: names' =>
    match groups with
    | g :: groups' => if str_eqb v n then g else pick_var names' groups' v
    | [] => []       (* cannot happen: at least as many groups as names *)
    end
  end.

Definition key_get2 (k p v : str) : result str :=
  let p1 := rss p in                                                      (* l.90 *)
  let names := toks_from find2 0 O p1 in                                  (* l.92, key[1:] *)
  let r := subst_from find2 re_grp_notslash_esc O p1 in                   (* l.93 *)
  rbind (regex_full (star_special r) k) (fun m =>
    match m with
    | None => Ok []                                                       (* l.100-101 *)
    | Some groups => Ok (pick_var names groups v)
    end).

Definition key_get3 (k p v : str) : result str :=
  let p1 := rss p in                                                      (* l.132 *)
  let names := toks_from find3 1 O p1 in                                  (* l.134, key[1:-1] *)
  let r := subst_from find3 re_grp_notslash_lazy O p1 in                  (* l.135 *)
  rbind (regex_full (star_special r) k) (fun m =>
    match m with
    | None => Ok []
    | Some groups => Ok (pick_var names groups v)
    end).

(* ================================================================ denotational spec: segment items *)
Inductive item := Lit (c : N) | Seg | Rest.

Inductive seg_lang : list item -> str -> Prop :=
| SL_nil : seg_lang [] []
| SL_lit : forall c its s, seg_lang its s -> seg_lang (Lit c :: its) (c :: s)
| SL_seg : forall its s1 s2, s1 <> [] -> no_slash s1 -> seg_lang its s2 -> seg_lang (Seg :: its) (s1 ++ s2)
| SL_rest : forall its s1 s2, seg_lang its s2 -> seg_lang (Rest :: its) (s1 ++ s2).

(* executable membership *)
Fixpoint seg_match (its : list item) (s : str) {struct its} : bool :=
  match its with
  | [] => is_nil s
  | Lit c :: r => match s with x :: s' => (x =? c) && seg_match r s' | [] => false end
  | Seg :: r =>
    (fix go (s : str) : bool :=                 (* s = remaining text, at least one char to take *)
       match s with
       | [] => false
       | x :: s' => negb (x =? cSLASH) && (seg_match r s' || go s')
       end) s
  | Rest :: r =>
    (fix go (s : str) : bool :=
       seg_match r s || match s with [] => false | _ :: s' => go s' end) s
  end.

(* ---------------------------------------------------------------- documented form, as tokens *)
Inductive ptok := PLit (c : N) | PSlashStar | PVar (name : str).

(* literal characters of the documented form: everything except the regex metacharacters and the
   three functions' own metacharacters; '/' is a literal *)
Definition lit_ok (c : N) : bool :=
  negb (re_special c || (c =? cDOT) || (c =? cLBRACE) || (c =? cRBRACE) || (c =? cCOLON)).
Definition name_char_ok (c : N) : bool := lit_ok c && negb (c =? cSLASH).
Definition name_ok (n : str) : bool := negb (is_nil n) && forallb name_char_ok n.
Definition ptok_ok (t : ptok) : bool :=
  match t with PLit c => lit_ok c | PSlashStar => true | PVar n => name_ok n end.

Definition starts_slash (t : list ptok) : bool :=
  match t with
  | [] => true
  | PLit c :: _ => c =? cSLASH
  | PSlashStar :: _ => true
  | PVar _ :: _ => false
  end.

(* keyMatch2: ":name" runs to the end of its segment *)
Fixpoint wf2 (t : list ptok) : bool :=
  match t with
  | [] => true
  | a :: r => ptok_ok a && (match a with PVar _ => starts_slash r | _ => true end) && wf2 r
  end.
(* keyMatch3: "{name}" anywhere *)
Definition wf3 (t : list ptok) : bool := forallb ptok_ok t.
(* keyMatch5 (greedy brace token): at most one "{name}" per segment *)
Fixpoint wf5_from (seen : bool) (t : list ptok) : bool :=
  match t with
  | [] => true
  | a :: r =>
    ptok_ok a &&
    match a with
    | PVar _ => negb seen && wf5_from true r
    | PLit c => wf5_from (if c =? cSLASH then false else seen) r
    | PSlashStar => wf5_from false r
    end
  end.
Definition wf5 (t : list ptok) : bool := wf5_from false t.

Definition render_tok (brace : bool) (t : ptok) : str :=
  match t with
  | PLit c => [c]
  | PSlashStar => [cSLASH; cSTAR]
  | PVar n => if brace then cLBRACE :: n ++ [cRBRACE] else cCOLON :: n
  end.
Definition render (brace : bool) (t : list ptok) : str := flat_map (render_tok brace) t.

Definition items_of_tok (t : ptok) : list item :=
  match t with PLit c => [Lit c] | PSlashStar => [Lit cSLASH; Rest] | PVar _ => [Seg] end.
Definition items_of (t : list ptok) : list item := flat_map items_of_tok t.

(* a total tokenizer; the documented-form predicates CHECK its output (well-formed and renders back
   to the very same string), so nothing about it has to be trusted *)
Section Tokz.
  Variable find : N -> str -> option nat.
  Variable trim : nat.
  Fixpoint tokz (skip : nat) (p : str) : list ptok :=
    match p with
    | [] => []
    | c :: r =>
      match skip with
      | S k => tokz k r
      | O => match find c r with
             | Some k => PVar (firstn (k - trim) r) :: tokz k r
             | None =>
               match r with
               | d :: _ => if (c =? cSLASH) && (d =? cSTAR) then PSlashStar :: tokz 1 r
                           else PLit c :: tokz O r
               | [] => [PLit c]
               end
             end
      end
    end.
End Tokz.

Definition tokens2 (p : str) : list ptok := tokz find2 0 O p.
Definition tokens3 (p : str) : list ptok := tokz find3 1 O p.
Definition tokens5 (p : str) : list ptok := tokz find5 1 O p.

Definition doc2 (p : str) : bool := let t := tokens2 p in wf2 t && str_eqb (render false t) p.
Definition doc3 (p : str) : bool := let t := tokens3 p in wf3 t && str_eqb (render true t) p.
Definition doc5 (p : str) : bool := let t := tokens5 p in wf5 t && str_eqb (render true t) p.
Definition parse2 (p : str) : list item := items_of (tokens2 p).
Definition parse3 (p : str) : list item := items_of (tokens3 p).
Definition parse5 (p : str) : list item := items_of (tokens5 p).

Definition key_ok (k : str) : bool := negb (existsb (fun c => c =? cNL) k).

(* ---------------------------------------------------------------- keyMatch4 / keyGet specs (executable):
   all ways of splitting the key along the tokens, with the texts bound by the variables *)
Fixpoint splits_seg (s : str) : list (str * str) :=        (* non-empty '/'-free prefixes *)
  match s with
  | [] => []
  | x :: s' => if x =? cSLASH then []
               else ([x], s') :: map (fun ab => (x :: fst ab, snd ab)) (splits_seg s')
  end.
Fixpoint splits_any (s : str) : list (str * str) :=        (* all prefixes *)
  ([], s) :: match s with [] => [] | x :: s' => map (fun ab => (x :: fst ab, snd ab)) (splits_any s') end.

Fixpoint all_binds (t : list ptok) (s : str) {struct t} : list (list (str * str)) :=
  match t with
  | [] => if is_nil s then [[]] else []
  | PLit c :: r => match s with x :: s' => if x =? c then all_binds r s' else [] | [] => [] end
  | PSlashStar :: r =>
    match s with
    | x :: s' => if x =? cSLASH then flat_map (fun ab => all_binds r (snd ab)) (splits_any s') else []
    | [] => []
    end
  | PVar n :: r =>
    flat_map (fun ab => map (fun env => (n, fst ab) :: env) (all_binds r (snd ab))) (splits_seg s)
  end.

(* repeated names bound to equal texts *)
Fixpoint env_consistent (env : list (str * str)) (seen : list (str * str)) : bool :=
  match env with
  | [] => true
  | (n, v) :: r =>
    match lookup_str n seen with
    | None => env_consistent r ((n, v) :: seen)
    | Some v0 => str_eqb v0 v && env_consistent r seen
    end
  end.

(* keyMatch4 documented form: "{name}" is a whole segment *)
Fixpoint wf4_from (at_start : bool) (t : list ptok) : bool :=
  match t with
  | [] => true
  | a :: r =>
    ptok_ok a &&
    match a with
    | PVar _ => at_start && starts_slash r && wf4_from false r
    | PLit c => wf4_from (c =? cSLASH) r
    | PSlashStar => wf4_from false r
    end
  end.
Definition wf4 (t : list ptok) : bool := wf4_from true t.
Definition doc4 (p : str) : bool := let t := tokens5 p in wf4 t && str_eqb (render true t) p.

Definition km4_spec (p k : str) : bool :=
  existsb (fun env => env_consistent env []) (all_binds (tokens5 p) k).

(* the texts the first variable called v can be bound to, over all decompositions *)
Definition get_candidates (t : list ptok) (k v : str) : list str :=
  map (fun env => match lookup_str v env with Some x => x | None => [] end) (all_binds t k).
