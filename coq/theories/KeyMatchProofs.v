(* KeyMatchProofs.v — key_match / key_get against km_lang; the executable segment matcher against
   seg_lang.  (The regex-pipeline theorems for keyMatch2/3/5 are in KeyMatchRegexProofs.v.) *)
From Coq Require Import List NArith Bool Arith Lia.
From PyCasbin Require Import Base PatBase KeyMatch GlobProofs.
Import ListNotations.
Local Open Scope N_scope.

Lemma str_eqb_eq : forall a b : str, str_eqb a b = true <-> a = b.
Proof. exact list_eqb_N_eq. Qed.

Lemma str_eqb_refl : forall a : str, str_eqb a a = true.
Proof. intro a. apply str_eqb_eq. reflexivity. Qed.

(* ---------------------------------------------------------------- find *)
Lemma find_char_none : forall c s, find_char c s = None <-> ~ In c s.
Proof.
  intros c. induction s as [|x r IH]; simpl.
  - split; [intros _ H; exact H|reflexivity].
  - destruct (N.eqb_spec x c) as [E|E].
    + split; [discriminate|]. intro H. exfalso. apply H. left; exact E.
    + destruct (find_char c r) as [i|].
      * split; [discriminate|]. intro H. exfalso. destruct IH as [_ IH].
        assert (Hn : ~ In c r) by (intro Hi; apply H; right; exact Hi). specialize (IH Hn). discriminate.
      * split; [|reflexivity]. intros _ [H|H]; [contradiction|]. destruct IH as [IH _]. apply (IH eq_refl H).
Qed.

Lemma find_char_app : forall c pre suf, ~ In c pre -> find_char c (pre ++ c :: suf) = Some (length pre).
Proof.
  intros c. induction pre as [|x pre IH]; intros suf H; simpl.
  - rewrite N.eqb_refl. reflexivity.
  - destruct (N.eqb_spec x c) as [E|E]; [exfalso; apply H; left; exact E|].
    rewrite IH; [reflexivity|]. intro Hi; apply H; right; exact Hi.
Qed.

Lemma find_char_some : forall c s i, find_char c s = Some i ->
  exists pre suf, s = pre ++ c :: suf /\ ~ In c pre /\ length pre = i.
Proof.
  intros c. induction s as [|x r IH]; simpl; intros i H; [discriminate|].
  destruct (N.eqb_spec x c) as [E|E].
  - inversion H; subst. exists [], r. repeat split. intros [].
  - destruct (find_char c r) as [j|] eqn:Ej; [|discriminate]. inversion H; subst.
    destruct (IH j eq_refl) as [pre [suf [E1 [E2 E3]]]]. exists (x :: pre), suf. subst.
    repeat split. intros [Hi|Hi]; [contradiction|]. exact (E2 Hi).
Qed.

Lemma firstn_app_exact : forall (a b : str), firstn (length a) (a ++ b) = a.
Proof. induction a as [|x a IH]; intro b; simpl; [reflexivity|]. rewrite IH; reflexivity. Qed.

Lemma skipn_app_exact : forall (a b : str), skipn (length a) (a ++ b) = b.
Proof. induction a as [|x a IH]; intro b; simpl; [reflexivity|]. apply IH. Qed.

(* ---------------------------------------------------------------- key_match *)
Theorem key_match_iff : forall k p, key_match k p = true <-> km_lang p k.
Proof.
  intros k p. unfold key_match. split.
  - destruct (find_char cSTAR p) as [i|] eqn:Ef.
    + destruct (find_char_some _ _ _ Ef) as [pre [suf [E1 [E2 E3]]]]. subst p i.
      rewrite firstn_app_exact.
      destruct (Nat.ltb (length pre) (length k)) eqn:El; intro H; apply str_eqb_eq in H.
      * rewrite <- (firstn_skipn (length pre) k). rewrite H. constructor; exact E2.
      * subst k. rewrite <- (app_nil_r pre) at 2. constructor; exact E2.
    + intro H. apply str_eqb_eq in H. subst. constructor. apply find_char_none. exact Ef.
  - intro H. inversion H; subst.
    + apply find_char_none in H0. rewrite H0. apply str_eqb_refl.
    + rewrite find_char_app by assumption. rewrite !firstn_app_exact.
      destruct (Nat.ltb (length pre) (length (pre ++ rest))) eqn:El.
      * apply str_eqb_refl.
      * apply Nat.ltb_ge in El. rewrite app_length in El.
        destruct rest; [rewrite app_nil_r; apply str_eqb_refl|simpl in El; lia].
Qed.

(* key_get returns exactly the text the '*' stands for *)
Theorem key_get_is_remainder : forall k pre suf, ~ In cSTAR pre ->
  key_match k (pre ++ cSTAR :: suf) = true ->
  k = pre ++ key_get k (pre ++ cSTAR :: suf).
Proof.
  intros k pre suf Hp. unfold key_match, key_get. rewrite find_char_app by assumption.
  rewrite firstn_app_exact. destruct (Nat.ltb (length pre) (length k)).
  - intro H. rewrite H. apply str_eqb_eq in H.
    rewrite <- (firstn_skipn (length pre) k) at 1. rewrite H. reflexivity.
  - intro H. apply str_eqb_eq in H. rewrite app_nil_r. exact H.
Qed.

Theorem key_get_no_match : forall k p, key_match k p = false -> key_get k p = [].
Proof.
  intros k p. unfold key_match, key_get. destruct (find_char cSTAR p) as [i|]; [|reflexivity].
  destruct (Nat.ltb i (length k)); [|reflexivity]. intro H; rewrite H; reflexivity.
Qed.

Theorem key_get_no_star : forall k p, ~ In cSTAR p -> key_get k p = [].
Proof. intros k p H. unfold key_get. apply find_char_none in H. rewrite H. reflexivity. Qed.

(* ---------------------------------------------------------------- seg_match = seg_lang *)
Lemma seg_go_spec : forall (f : str -> bool) s,
  (fix go (s : str) : bool :=
     match s with
     | [] => false
     | x :: s' => negb (x =? cSLASH) && (f s' || go s')
     end) s = true
  <-> exists s1 s2, s = s1 ++ s2 /\ s1 <> [] /\ no_slash s1 /\ f s2 = true.
Proof.
  intros f. induction s as [|x s IH].
  - split; [discriminate|]. intros [s1 [s2 [E [Hn _]]]]. destruct s1; [contradiction|discriminate].
  - rewrite andb_true_iff, negb_true_iff, N.eqb_neq, orb_true_iff, IH. split.
    + intros [Hx [H|[s1 [s2 [E [Hn [Hs H]]]]]]].
      * exists [x], s. repeat split; [discriminate| |exact H].
        apply no_slash_cons; split; [exact Hx|apply no_slash_nil].
      * exists (x :: s1), s2. subst. repeat split; [discriminate| |exact H].
        apply no_slash_cons; split; assumption.
    + intros [s1 [s2 [E [Hn [Hs H]]]]]. destruct s1 as [|y s1]; [contradiction|].
      simpl in E. inversion E; subst. apply no_slash_cons in Hs. destruct Hs as [Hy Hs].
      split; [exact Hy|]. destruct s1 as [|z s1].
      * left. exact H.
      * right. exists (z :: s1), s2. repeat split; [discriminate|exact Hs|exact H].
Qed.

Lemma rest_go_spec : forall (f : str -> bool) s,
  (fix go (s : str) : bool :=
     f s || match s with [] => false | _ :: s' => go s' end) s = true
  <-> exists s1 s2, s = s1 ++ s2 /\ f s2 = true.
Proof.
  intros f. induction s as [|x s IH].
  - rewrite orb_false_r. split.
    + intro H. exists [], []. auto.
    + intros [s1 [s2 [E H]]]. destruct s1; destruct s2; try discriminate. exact H.
  - rewrite orb_true_iff, IH. split.
    + intros [H|[s1 [s2 [E H]]]].
      * exists [], (x :: s). auto.
      * exists (x :: s1), s2. subst. auto.
    + intros [s1 [s2 [E H]]]. destruct s1 as [|y s1]; simpl in E.
      * subst. left; exact H.
      * inversion E; subst. right. exists s1, s2. auto.
Qed.

Theorem seg_match_iff : forall its s, seg_match its s = true <-> seg_lang its s.
Proof.
  induction its as [|it its IH]; intro s.
  - simpl. split.
    + intro H. apply is_nil_true in H. subst. constructor.
    + intro H. inversion H. reflexivity.
  - destruct it as [c| |]; cbn [seg_match].
    + destruct s as [|x s'].
      * split; [discriminate|]. intro H; inversion H.
      * rewrite andb_true_iff, N.eqb_eq, IH. split.
        -- intros [E H]; subst. constructor; exact H.
        -- intro H; inversion H; subst. auto.
    + rewrite seg_go_spec. split.
      * intros [s1 [s2 [E [Hn [Hs H]]]]]. subst. constructor; try assumption. apply IH; exact H.
      * intro H. inversion H; subst. exists s1, s2. repeat split; try assumption. apply IH; assumption.
    + rewrite rest_go_spec. split.
      * intros [s1 [s2 [E H]]]. subst. constructor. apply IH; exact H.
      * intro H. inversion H; subst. exists s1, s2. split; [reflexivity|]. apply IH; assumption.
Qed.

(* ---------------------------------------------------------------- the prefix-test formulation (used by the harness) *)
Lemma prefixb_iff : forall a s, prefixb a s = true <-> exists r, s = a ++ r.
Proof.
  induction a as [|x a IH]; intros s; simpl.
  - split; [intros _; exists s; reflexivity|reflexivity].
  - destruct s as [|y s].
    + split; [discriminate|]. intros [r E]; discriminate.
    + rewrite andb_true_iff, N.eqb_eq, IH. split.
      * intros [E [r Hr]]; subst. exists r; reflexivity.
      * intros [r E]. inversion E; subst. split; [reflexivity|exists r; reflexivity].
Qed.

Theorem km_spec_iff : forall p k, km_spec p k = true <-> km_lang p k.
Proof.
  intros p k. unfold km_spec. split.
  - destruct (find_char cSTAR p) as [i|] eqn:Ef.
    + destruct (find_char_some _ _ _ Ef) as [pre [suf [E1 [E2 E3]]]]. subst p i.
      rewrite firstn_app_exact. intro H. apply prefixb_iff in H. destruct H as [r E]; subst.
      constructor; exact E2.
    + intro H. apply str_eqb_eq in H. subst. constructor. apply find_char_none; exact Ef.
  - intro H. inversion H; subst.
    + apply find_char_none in H0. rewrite H0. apply str_eqb_refl.
    + rewrite find_char_app by assumption. rewrite firstn_app_exact. apply prefixb_iff. exists rest; reflexivity.
Qed.

Corollary key_match_is_km_spec : forall k p, key_match k p = km_spec p k.
Proof.
  intros k p. destruct (key_match k p) eqn:E1; destruct (km_spec p k) eqn:E2; try reflexivity.
  - apply key_match_iff in E1. apply km_spec_iff in E1. congruence.
  - apply km_spec_iff in E2. apply key_match_iff in E2. congruence.
Qed.
