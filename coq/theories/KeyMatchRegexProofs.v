(* KeyMatchRegexProofs.v — keyMatch2 / keyMatch3 / keyMatch5 on documented-form patterns:
   the modelled pipeline  replace("/*","/.*") -> re.sub of the variable tokens -> regex lexer/parser
   -> backtracking matcher  accepts exactly the denotational segment language of the pattern. *)
From Coq Require Import List NArith Bool Arith Lia.
From PyCasbin Require Import Base PatBase KeyMatch GlobProofs KeyMatchProofs.
Import ListNotations.
Local Open Scope N_scope.

(* ================================================================ 1. the matcher on Lit/Seg/Rest items *)
Lemma greedy_star_some : forall (R : Type) a (k : str -> option R) s,
  greedy_star a k s <> None <->
  exists s1 s2, s = s1 ++ s2 /\ forallb (amatch a) s1 = true /\ k s2 <> None.
Proof.
  intros R a k. induction s as [|x s IH]; cbn [greedy_star].
  - split.
    + intro H. exists [], []. auto.
    + intros [s1 [s2 [E [_ H]]]]. destruct s1; destruct s2; try discriminate. exact H.
  - destruct (amatch a x) eqn:Ea.
    + split.
      * intro H. destruct (greedy_star a k s) as [r|] eqn:Eg.
        -- assert (Hs : Some r <> None) by discriminate. apply IH in Hs.
           destruct Hs as [s1 [s2 [E [H1 H2]]]]. exists (x :: s1), s2. subst.
           simpl. rewrite Ea, H1. auto.
        -- exists [], (x :: s). auto.
      * intros [s1 [s2 [E [H1 H2]]]]. destruct s1 as [|y s1]; simpl in E.
        -- subst s2. destruct (greedy_star a k s); [discriminate|exact H2].
        -- inversion E; subst. simpl in H1. apply andb_true_iff in H1. destruct H1 as [_ H1].
           assert (Hs : greedy_star a k (s1 ++ s2) <> None) by (apply IH; exists s1, s2; auto).
           destruct (greedy_star a k (s1 ++ s2)); [discriminate|contradiction].
    + split.
      * intro H. exists [], (x :: s). auto.
      * intros [s1 [s2 [E [H1 H2]]]]. destruct s1 as [|y s1]; simpl in E.
        -- subst s2. exact H2.
        -- inversion E; subst. simpl in H1. rewrite Ea in H1. discriminate.
Qed.

Definition ritem_of (it : item) : ritem :=
  match it with
  | Lit c => RA (ALit c) QOne false
  | Seg => RA ANotSl QPlus false
  | Rest => RA ADot QStar false
  end.

Lemma no_nl_cons : forall x s, no_nl (x :: s) <-> x <> cNL /\ no_nl s.
Proof.
  intros x s; split.
  - intro H; split; [apply H; left; reflexivity|]. intros y Hy; apply H; right; exact Hy.
  - intros [H1 H2] y [Hy|Hy]; [subst; exact H1|apply H2; exact Hy].
Qed.

Lemma no_nl_app : forall a b, no_nl (a ++ b) <-> no_nl a /\ no_nl b.
Proof.
  intros a b; split.
  - intro H; split; intros x Hx; apply H; apply in_or_app; [left|right]; exact Hx.
  - intros [H1 H2] x Hx. apply in_app_or in Hx. destruct Hx; [apply H1|apply H2]; assumption.
Qed.

Lemma forallb_notslash : forall s, forallb (amatch ANotSl) s = true <-> no_slash s.
Proof.
  induction s as [|x s IH]; simpl.
  - split; [intros _; apply no_slash_nil|reflexivity].
  - rewrite andb_true_iff, negb_true_iff, N.eqb_neq, IH, no_slash_cons. reflexivity.
Qed.

Lemma forallb_dot : forall s, forallb (amatch ADot) s = true <-> no_nl s.
Proof.
  induction s as [|x s IH]; simpl.
  - split; [intros _ x H; inversion H|reflexivity].
  - rewrite andb_true_iff, negb_true_iff, N.eqb_neq, IH, no_nl_cons. reflexivity.
Qed.

Lemma sl_nil_inv : forall s, seg_lang [] s <-> s = [].
Proof. intro s; split; intro H; [inversion H; reflexivity|subst; constructor]. Qed.

Lemma sl_lit_inv : forall c its s, seg_lang (Lit c :: its) s <-> exists s', s = c :: s' /\ seg_lang its s'.
Proof.
  intros c its s; split.
  - intro H; inversion H; subst. eexists; split; [reflexivity|assumption].
  - intros [s' [E H]]; subst. constructor; assumption.
Qed.

Lemma sl_seg_inv : forall its s, seg_lang (Seg :: its) s <->
  exists s1 s2, s = s1 ++ s2 /\ s1 <> [] /\ no_slash s1 /\ seg_lang its s2.
Proof.
  intros its s; split.
  - intro H; inversion H; subst. do 2 eexists; repeat split; eassumption.
  - intros [s1 [s2 [E [H1 [H2 H3]]]]]; subst. constructor; assumption.
Qed.

Lemma sl_rest_inv : forall its s, seg_lang (Rest :: its) s <->
  exists s1 s2, s = s1 ++ s2 /\ seg_lang its s2.
Proof.
  intros its s; split.
  - intro H; inversion H; subst. do 2 eexists; split; [reflexivity|assumption].
  - intros [s1 [s2 [E H]]]; subst. constructor; assumption.
Qed.

Lemma rmatch_seg : forall its st caps s, no_nl s ->
  (rmatch (map ritem_of its) st caps s <> None <-> seg_lang its s).
Proof.
  induction its as [|it its IH]; intros st caps s Hnl.
  - cbn [map rmatch]. rewrite sl_nil_inv. destruct s as [|x s].
    + simpl. split; [reflexivity|discriminate].
    + assert (E : is_nil (x :: s) || str_eqb (x :: s) [cNL] = false).
      { apply no_nl_cons in Hnl. destruct Hnl as [Hx _]. apply N.eqb_neq in Hx.
        unfold str_eqb. cbn [is_nil orb list_eqb]. rewrite Hx. reflexivity. }
      rewrite E. split; [intro H; exfalso; apply H; reflexivity|discriminate].
  - destruct it as [c| |]; cbn [map ritem_of rmatch rep_match].
    + rewrite sl_lit_inv. destruct s as [|x s].
      * split; [intro H; exfalso; apply H; reflexivity|intros [s' [E _]]; discriminate].
      * apply no_nl_cons in Hnl. destruct Hnl as [_ Hnl]. cbn [amatch].
        destruct (N.eqb_spec x c) as [E|E].
        -- subst. rewrite IH by assumption. split.
           ++ intro H. exists s. auto.
           ++ intros [s' [E H]]. inversion E; subst. exact H.
        -- split; [intro H; exfalso; apply H; reflexivity|].
           intros [s' [E' _]]. inversion E'; subst. congruence.
    + rewrite sl_seg_inv. destruct s as [|x s].
      * split; [intro H; exfalso; apply H; reflexivity|].
        intros [s1 [s2 [E [Hn _]]]]. destruct s1; [congruence|discriminate].
      * apply no_nl_cons in Hnl. destruct Hnl as [_ Hnl]. cbn [amatch].
        destruct (N.eqb_spec x cSLASH) as [E|E]; cbn [negb].
        -- split; [intro H; exfalso; apply H; reflexivity|].
           intros [s1 [s2 [Es [Hn [Hs _]]]]]. destruct s1 as [|y s1]; [congruence|].
           simpl in Es. inversion Es; subst. apply no_slash_cons in Hs. destruct Hs as [Hs _]. congruence.
        -- rewrite greedy_star_some. split.
           ++ intros [s1 [s2 [Es [H1 H2]]]]. subst s. apply no_nl_app in Hnl. destruct Hnl as [_ Hnl2].
              apply IH in H2; [|exact Hnl2]. apply forallb_notslash in H1.
              exists (x :: s1), s2. repeat split; [discriminate| |exact H2].
              apply no_slash_cons; split; assumption.
           ++ intros [s1 [s2 [Es [Hn [Hs H]]]]]. destruct s1 as [|y s1]; [congruence|].
              simpl in Es. inversion Es; subst. apply no_slash_cons in Hs. destruct Hs as [_ Hs].
              apply no_nl_app in Hnl. destruct Hnl as [_ Hnl2].
              exists s1, s2. repeat split; [apply forallb_notslash; exact Hs|].
              apply IH; assumption.
    + rewrite sl_rest_inv. rewrite greedy_star_some. split.
      * intros [s1 [s2 [Es [H1 H2]]]]. subst s. apply no_nl_app in Hnl. destruct Hnl as [_ Hnl2].
        apply IH in H2; [|exact Hnl2]. exists s1, s2. auto.
      * intros [s1 [s2 [Es H]]]. subst s. apply no_nl_app in Hnl. destruct Hnl as [Hnl1 Hnl2].
        exists s1, s2. repeat split; [apply forallb_dot; exact Hnl1|]. apply IH; assumption.
Qed.

Lemma is_some_rmatch_seg : forall its k, no_nl k ->
  is_some (rmatch (map ritem_of its) None [] k) = seg_match its k.
Proof.
  intros its k Hnl. pose proof (rmatch_seg its None [] k Hnl) as H.
  destruct (rmatch (map ritem_of its) None [] k) as [g|] eqn:E; simpl.
  - symmetry. apply seg_match_iff. apply H. discriminate.
  - destruct (seg_match its k) eqn:Es; [|reflexivity].
    apply seg_match_iff in Es. apply H in Es. exfalso; apply Es; reflexivity.
Qed.

(* ================================================================ 2. facts about documented-form tokens *)
Ltac lit_ne H :=
  let E := fresh "E" in let H' := fresh "H'" in
  intro E; pose proof H as H'; rewrite E in H'; vm_compute in H'; discriminate.

Lemma name_char_lit : forall c, name_char_ok c = true -> lit_ok c = true /\ c <> cSLASH.
Proof.
  intros c H. unfold name_char_ok in H. apply andb_true_iff in H. destruct H as [H1 H2].
  split; [exact H1|]. apply negb_true_iff in H2. apply N.eqb_neq. exact H2.
Qed.

Lemma name_ok_facts : forall n, name_ok n = true ->
  n <> [] /\ (forall x, In x n -> lit_ok x = true /\ x <> cSLASH).
Proof.
  intros n H. unfold name_ok in H. apply andb_true_iff in H. destruct H as [H1 H2].
  split.
  - destruct n; [discriminate|discriminate].
  - intros x Hx. rewrite forallb_forall in H2. apply name_char_lit. apply H2. exact Hx.
Qed.

(* what a token looks like after replace("/*", "/.*") *)
Definition mid_tok (brace : bool) (t : ptok) : str :=
  match t with PSlashStar => [cSLASH; cDOT; cSTAR] | _ => render_tok brace t end.
Definition mid (brace : bool) (t : list ptok) : str := flat_map (mid_tok brace) t.
(* ... after the re.sub of the variable tokens *)
Definition re_tok (rep : str) (t : ptok) : str :=
  match t with PLit c => [c] | PSlashStar => [cSLASH; cDOT; cSTAR] | PVar _ => rep end.
Definition re_of (rep : str) (t : list ptok) : str := flat_map (re_tok rep) t.

Definition head_is (c : N) (s : str) : bool := match s with x :: _ => x =? c | [] => false end.

Lemma render_head_not_star : forall brace t, forallb ptok_ok t = true ->
  head_is cSTAR (render brace t) = false.
Proof.
  intros brace [|a t] H; [reflexivity|]. simpl in H. apply andb_true_iff in H. destruct H as [Ha _].
  destruct a as [c| |n]; simpl.
  - apply N.eqb_neq. simpl in Ha. lit_ne Ha.
  - reflexivity.
  - destruct brace; reflexivity.
Qed.

(* ---------------------------------------------------------------- step 1: replace("/*", "/.*") *)
Lemma rss_cons_keep : forall c r, (c =? cSLASH) && head_is cSTAR r = false -> rss (c :: r) = c :: rss r.
Proof.
  intros c r H. cbn [rss]. destruct r as [|d r']; [reflexivity|]. simpl in H. rewrite H. reflexivity.
Qed.

Lemma rss_app_noslash : forall a r, (forall x, In x a -> x <> cSLASH) -> rss (a ++ r) = a ++ rss r.
Proof.
  induction a as [|x a IH]; intros r H; [reflexivity|].
  change ((x :: a) ++ r) with (x :: (a ++ r)). rewrite rss_cons_keep.
  - rewrite IH; [reflexivity|]. intros y Hy. apply H. right; exact Hy.
  - assert (Hx : x <> cSLASH) by (apply H; left; reflexivity). apply N.eqb_neq in Hx. rewrite Hx. reflexivity.
Qed.

Lemma rss_render : forall brace t, forallb ptok_ok t = true -> rss (render brace t) = mid brace t.
Proof.
  intros brace. induction t as [|a t IH]; intro H; [reflexivity|].
  simpl in H. apply andb_true_iff in H. destruct H as [Ha Ht].
  unfold render, mid. cbn [flat_map]. fold (render brace t). fold (mid brace t).
  destruct a as [c| |n]; cbn [render_tok mid_tok].
  - cbn [app]. rewrite rss_cons_keep; [rewrite IH by assumption; reflexivity|].
    rewrite render_head_not_star by assumption. apply andb_false_r.
  - cbn [app rss]. rewrite !N.eqb_refl. cbn [andb]. rewrite IH by assumption. reflexivity.
  - simpl in Ha. apply name_ok_facts in Ha. destruct Ha as [_ Hn].
    rewrite rss_app_noslash; [rewrite IH by assumption; reflexivity|].
    intros x Hx. destruct brace.
    + destruct Hx as [Hx|Hx]; [subst; discriminate|]. apply in_app_or in Hx. destruct Hx as [Hx|Hx].
      * apply Hn; exact Hx.
      * destruct Hx as [Hx|[]]. subst; discriminate.
    + destruct Hx as [Hx|Hx]; [subst; discriminate|]. apply Hn; exact Hx.
Qed.

(* ---------------------------------------------------------------- step 2: the re.sub of the variable tokens *)
Section SubstFacts.
  Variable find : N -> str -> option nat.
  Variable rep : str.

  Lemma subst_none : forall c r, find c r = None ->
    subst_from find rep O (c :: r) = c :: subst_from find rep O r.
  Proof. intros c r H. cbn [subst_from]. rewrite H. reflexivity. Qed.

  Lemma subst_some : forall c r k, find c r = Some k ->
    subst_from find rep O (c :: r) = rep ++ subst_from find rep k r.
  Proof. intros c r k H. cbn [subst_from]. rewrite H. reflexivity. Qed.

  Lemma subst_skip : forall a r, subst_from find rep (length a) (a ++ r) = subst_from find rep O r.
  Proof. induction a as [|x a IH]; intro r; [reflexivity|]. simpl. apply IH. Qed.

  Lemma subst_slashstar : forall r,
    find cSLASH (cDOT :: cSTAR :: r) = None -> find cDOT (cSTAR :: r) = None -> find cSTAR r = None ->
    subst_from find rep O (cSLASH :: cDOT :: cSTAR :: r) = cSLASH :: cDOT :: cSTAR :: subst_from find rep O r.
  Proof. intros r H1 H2 H3. rewrite !subst_none by assumption. reflexivity. Qed.
End SubstFacts.

Lemma find2_other : forall c r, c <> cCOLON -> find2 c r = None.
Proof. intros c r H. unfold find2. apply N.eqb_neq in H. rewrite H. reflexivity. Qed.

Lemma find3_other : forall c r, c <> cLBRACE -> find3 c r = None.
Proof. intros c r H. unfold find3. apply N.eqb_neq in H. rewrite H. reflexivity. Qed.

Lemma find5_other : forall c r, c <> cLBRACE -> find5 c r = None.
Proof. intros c r H. unfold find5. apply N.eqb_neq in H. rewrite H. reflexivity. Qed.

Lemma run_len_app : forall a r, (forall x, In x a -> x <> cSLASH) ->
  (r = [] \/ head_is cSLASH r = true) -> run_len (a ++ r) = length a.
Proof.
  induction a as [|x a IH]; intros r Ha Hr.
  - simpl. destruct Hr as [Hr|Hr]; [subst; reflexivity|].
    destruct r as [|y r]; [reflexivity|]. simpl in Hr. simpl. rewrite Hr. reflexivity.
  - simpl. assert (Hx : x <> cSLASH) by (apply Ha; left; reflexivity). apply N.eqb_neq in Hx. rewrite Hx.
    f_equal. apply IH; [|exact Hr]. intros y Hy. apply Ha. right; exact Hy.
Qed.

Lemma mid_starts_slash : forall brace t, starts_slash t = true ->
  mid brace t = [] \/ head_is cSLASH (mid brace t) = true.
Proof.
  intros brace [|a t] H; [left; reflexivity|]. right. destruct a as [c| |n]; simpl in *.
  - exact H.
  - reflexivity.
  - discriminate.
Qed.

Lemma wf2_ok : forall t, wf2 t = true -> forallb ptok_ok t = true.
Proof.
  induction t as [|a t IH]; intro H; [reflexivity|]. simpl in *.
  apply andb_true_iff in H. destruct H as [H Ht]. apply andb_true_iff in H. destruct H as [Ha _].
  rewrite Ha, IH by assumption. reflexivity.
Qed.

Lemma subst2_mid : forall rep t, wf2 t = true ->
  subst_from find2 rep O (mid false t) = re_of rep t.
Proof.
  intros rep. induction t as [|a t IH]; intro H; [reflexivity|].
  simpl in H. apply andb_true_iff in H. destruct H as [H Ht]. apply andb_true_iff in H. destruct H as [Ha Hs].
  unfold mid, re_of. cbn [flat_map]. fold (mid false t). fold (re_of rep t).
  destruct a as [c| |n]; cbn [mid_tok render_tok re_tok].
  - cbn [app]. rewrite subst_none; [rewrite IH by assumption; reflexivity|].
    apply find2_other. simpl in Ha. lit_ne Ha.
  - cbn [app]. rewrite subst_slashstar; try (apply find2_other; discriminate).
    rewrite IH by assumption. reflexivity.
  - simpl in Ha. apply name_ok_facts in Ha. destruct Ha as [Hne Hn].
    cbn [app]. rewrite (subst_some _ _ _ _ (length n)).
    + rewrite subst_skip. rewrite IH by assumption. reflexivity.
    + unfold find2. rewrite N.eqb_refl. rewrite run_len_app.
      * destruct n; [congruence|reflexivity].
      * intros x Hx. apply Hn; exact Hx.
      * apply mid_starts_slash. exact Hs.
Qed.

Lemma close_idx_app : forall a r, (forall x, In x a -> x <> cSLASH /\ x <> cRBRACE) ->
  close_idx (a ++ cRBRACE :: r) = Some (length a).
Proof.
  induction a as [|x a IH]; intros r H.
  - simpl. reflexivity.
  - simpl. destruct (H x (or_introl eq_refl)) as [H1 H2]. apply N.eqb_neq in H1, H2. rewrite H1, H2.
    rewrite IH; [reflexivity|]. intros y Hy. apply H. right; exact Hy.
Qed.

Lemma lit_not_rbrace : forall c, lit_ok c = true -> c <> cRBRACE.
Proof. intros c H. lit_ne H. Qed.

Lemma subst3_mid : forall rep t, forallb ptok_ok t = true ->
  subst_from find3 rep O (mid true t) = re_of rep t.
Proof.
  intros rep. induction t as [|a t IH]; intro H; [reflexivity|].
  simpl in H. apply andb_true_iff in H. destruct H as [Ha Ht].
  unfold mid, re_of. cbn [flat_map]. fold (mid true t). fold (re_of rep t).
  destruct a as [c| |n]; cbn [mid_tok render_tok re_tok].
  - cbn [app]. rewrite subst_none; [rewrite IH by assumption; reflexivity|].
    apply find3_other. simpl in Ha. lit_ne Ha.
  - cbn [app]. rewrite subst_slashstar; try (apply find3_other; discriminate).
    rewrite IH by assumption. reflexivity.
  - simpl in Ha. apply name_ok_facts in Ha. destruct Ha as [Hne Hn].
    destruct n as [|x n']; [congruence|].
    cbn [app]. rewrite <- app_assoc. cbn [app].
    rewrite (subst_some _ _ _ _ (length ((x :: n') ++ [cRBRACE]))).
    + replace (x :: n' ++ cRBRACE :: mid true t) with (((x :: n') ++ [cRBRACE]) ++ mid true t)
        by (rewrite <- app_assoc; reflexivity).
      rewrite subst_skip. rewrite IH by assumption. reflexivity.
    + unfold find3. rewrite N.eqb_refl.
      destruct (Hn x (or_introl eq_refl)) as [_ Hx]. apply N.eqb_neq in Hx. rewrite Hx.
      rewrite close_idx_app.
      * rewrite app_length. simpl. f_equal. lia.
      * intros y Hy. destruct (Hn y (or_intror Hy)) as [Hl Hs]. split; [exact Hs|apply lit_not_rbrace; exact Hl].
Qed.

(* greedy brace token (keyMatch5 / keyMatch4) *)
Fixpoint run_clean (r : str) : bool :=          (* no '}' before the next '/' *)
  match r with
  | [] => true
  | x :: r' => if x =? cSLASH then true else negb (x =? cRBRACE) && run_clean r'
  end.

Lemma last_close_app : forall a r i best, (forall x, In x a -> x <> cSLASH /\ x <> cRBRACE) ->
  last_close (a ++ r) i best = last_close r (i + length a) best.
Proof.
  induction a as [|x a IH]; intros r i best H.
  - simpl. rewrite Nat.add_0_r. reflexivity.
  - simpl. destruct (H x (or_introl eq_refl)) as [H1 H2]. apply N.eqb_neq in H1, H2. rewrite H1, H2.
    cbn [andb]. rewrite IH; [f_equal; lia|]. intros y Hy. apply H. right; exact Hy.
Qed.

Lemma last_close_clean : forall r i best, run_clean r = true -> last_close r i best = best.
Proof.
  induction r as [|x r IH]; intros i best H; [reflexivity|].
  simpl in *. destruct (x =? cSLASH); [reflexivity|].
  apply andb_true_iff in H. destruct H as [H1 H2]. apply negb_true_iff in H1. rewrite H1. cbn [andb].
  apply IH. exact H2.
Qed.

Lemma find5_var : forall n r, n <> [] -> (forall x, In x n -> x <> cSLASH /\ x <> cRBRACE) ->
  run_clean r = true -> find5 cLBRACE (n ++ cRBRACE :: r) = Some (length (n ++ [cRBRACE])).
Proof.
  intros n r Hne Hn Hr. unfold find5. rewrite N.eqb_refl. rewrite last_close_app by assumption.
  cbn [last_close]. change (cRBRACE =? cSLASH) with false. cbv iota. rewrite N.eqb_refl.
  destruct n as [|x n]; [congruence|]. cbn [length Nat.add Nat.leb andb].
  rewrite last_close_clean by assumption. rewrite app_length. simpl. f_equal. lia.
Qed.

Lemma wf5_clean : forall t, wf5_from true t = true -> run_clean (mid true t) = true.
Proof.
  induction t as [|a t IH]; intro H; [reflexivity|].
  simpl in H. apply andb_true_iff in H. destruct H as [Ha H].
  unfold mid. cbn [flat_map]. fold (mid true t).
  destruct a as [c| |n]; cbn [mid_tok render_tok app].
  - cbn [run_clean]. destruct (N.eqb_spec c cSLASH) as [E|E]; [reflexivity|].
    simpl in Ha. assert (Hc : c <> cRBRACE) by (apply lit_not_rbrace; exact Ha).
    apply N.eqb_neq in Hc. rewrite Hc. cbn [negb andb]. apply IH. exact H.
  - reflexivity.
  - discriminate.
Qed.

Lemma wf5_ok : forall seen t, wf5_from seen t = true -> forallb ptok_ok t = true.
Proof.
  intros seen t. revert seen. induction t as [|a t IH]; intros seen H; [reflexivity|].
  simpl in *. apply andb_true_iff in H. destruct H as [Ha H]. rewrite Ha. cbn [andb].
  destruct a as [c| |n].
  - eapply IH; eassumption.
  - eapply IH; eassumption.
  - apply andb_true_iff in H. destruct H as [_ H]. eapply IH; eassumption.
Qed.

Lemma subst5_mid : forall rep t seen, wf5_from seen t = true ->
  subst_from find5 rep O (mid true t) = re_of rep t.
Proof.
  intros rep. induction t as [|a t IH]; intros seen H; [reflexivity|].
  simpl in H. apply andb_true_iff in H. destruct H as [Ha H].
  unfold mid, re_of. cbn [flat_map]. fold (mid true t). fold (re_of rep t).
  destruct a as [c| |n]; cbn [mid_tok render_tok re_tok].
  - cbn [app]. rewrite subst_none; [erewrite IH by eassumption; reflexivity|].
    apply find5_other. simpl in Ha. lit_ne Ha.
  - cbn [app]. rewrite subst_slashstar; try (apply find5_other; discriminate).
    erewrite IH by eassumption. reflexivity.
  - apply andb_true_iff in H. destruct H as [_ H].
    simpl in Ha. apply name_ok_facts in Ha. destruct Ha as [Hne Hn].
    assert (Hn' : forall x, In x n -> x <> cSLASH /\ x <> cRBRACE).
    { intros y Hy. destruct (Hn y Hy) as [Hl Hs]. split; [exact Hs|apply lit_not_rbrace; exact Hl]. }
    cbn [app]. rewrite <- app_assoc. cbn [app].
    rewrite (subst_some _ _ _ _ (length (n ++ [cRBRACE]))).
    + replace (n ++ cRBRACE :: mid true t) with ((n ++ [cRBRACE]) ++ mid true t)
        by (rewrite <- app_assoc; reflexivity).
      rewrite subst_skip. erewrite IH by eassumption. reflexivity.
    + apply find5_var; try assumption. apply wf5_clean. exact H.
Qed.

(* ---------------------------------------------------------------- step 3: the rewritten pattern is never the bare "*" *)
Lemma star_special_id : forall rep t r0 rep', rep = r0 :: rep' -> r0 <> cSTAR ->
  forallb ptok_ok t = true -> star_special (re_of rep t) = re_of rep t.
Proof.
  intros rep t r0 rep' Hrep Hr0 H. unfold star_special.
  assert (E : str_eqb (re_of rep t) [cSTAR] = false).
  { destruct t as [|a t]; [reflexivity|]. simpl in H. apply andb_true_iff in H. destruct H as [Ha _].
    unfold re_of. cbn [flat_map]. destruct a as [c| |n]; cbn [re_tok app].
    - unfold str_eqb. cbn [list_eqb]. simpl in Ha.
      assert (Hc : c <> cSTAR) by (lit_ne Ha). apply N.eqb_neq in Hc. rewrite Hc. reflexivity.
    - reflexivity.
    - subst rep. unfold str_eqb. cbn [app list_eqb]. apply N.eqb_neq in Hr0. rewrite Hr0. reflexivity. }
  rewrite E. reflexivity.
Qed.

(* ---------------------------------------------------------------- step 4: the regex lexer *)
Definition lex_tok (t : ptok) : list rtok :=
  match t with
  | PLit c => [TkC c]
  | PSlashStar => [TkC cSLASH; TkC cDOT; TkC cSTAR]
  | PVar _ => [TkNotSl; TkC cPLUS]
  end.

Lemma rlex_cons_ne : forall c r, c <> cLBR -> rlex O (c :: r) = TkC c :: rlex O r.
Proof.
  intros c r H. cbn [rlex]. unfold notsl_len. apply N.eqb_neq in H. rewrite H. reflexivity.
Qed.

Lemma rlex_rep_esc : forall r, rlex O (re_notslash_esc ++ r) = TkNotSl :: TkC cPLUS :: rlex O r.
Proof. intro r. reflexivity. Qed.

Lemma rlex_rep : forall r, rlex O (re_notslash ++ r) = TkNotSl :: TkC cPLUS :: rlex O r.
Proof. intro r. reflexivity. Qed.

Lemma rlex_re : forall rep t, (rep = re_notslash_esc \/ rep = re_notslash) ->
  forallb ptok_ok t = true -> rlex O (re_of rep t) = flat_map lex_tok t.
Proof.
  intros rep t Hrep. induction t as [|a t IH]; intro H; [reflexivity|].
  simpl in H. apply andb_true_iff in H. destruct H as [Ha Ht].
  unfold re_of. cbn [flat_map]. fold (re_of rep t).
  destruct a as [c| |n]; cbn [re_tok lex_tok].
  - cbn [app]. rewrite rlex_cons_ne; [rewrite IH by assumption; reflexivity|]. simpl in Ha. lit_ne Ha.
  - cbn [app]. rewrite !rlex_cons_ne by discriminate. rewrite IH by assumption. reflexivity.
  - destruct Hrep; subst rep; [rewrite rlex_rep_esc|rewrite rlex_rep]; rewrite IH by assumption; reflexivity.
Qed.

(* ---------------------------------------------------------------- step 5: the regex parser *)
Lemma lit_ok_special : forall c, lit_ok c = true ->
  re_special c = false /\ (c =? cDOT) = false /\ (c =? cLBRACE) = false.
Proof.
  intros c H. unfold lit_ok in H. apply negb_true_iff in H.
  apply orb_false_iff in H. destruct H as [H _].
  apply orb_false_iff in H. destruct H as [H _].
  apply orb_false_iff in H. destruct H as [H H3].
  apply orb_false_iff in H. destruct H as [H1 H2]. auto.
Qed.

Lemma lit_not_q : forall c, lit_ok c = true -> is_qchar c = false.
Proof.
  intros c H. unfold is_qchar.
  assert (H1 : c <> cSTAR) by (lit_ne H). assert (H2 : c <> cPLUS) by (lit_ne H).
  assert (H3 : c <> cQM) by (lit_ne H). apply N.eqb_neq in H1, H2, H3. rewrite H1, H2, H3. reflexivity.
Qed.

Lemma head_q_lex : forall t, forallb ptok_ok t = true -> head_q (flat_map lex_tok t) = false.
Proof.
  intros [|a t] H; [reflexivity|]. simpl in H. apply andb_true_iff in H. destruct H as [Ha _].
  destruct a as [c| |n]; simpl.
  - apply lit_not_q. exact Ha.
  - reflexivity.
  - reflexivity.
Qed.

Lemma qchar_not_qm : forall q, is_qchar q = false -> (q =? cQM) = false.
Proof.
  intros q H. unfold is_qchar in H. apply orb_false_iff in H. destruct H as [_ H]. exact H.
Qed.

(* an atom followed by no quantifier *)
Lemma rparse_one : forall a at_ T o, tok_is cLPAR a = false -> tok_is cRPAR a = false ->
  atom_of a T = Some at_ -> head_q T = false ->
  rparse (a :: T) o = ocons (RA at_ QOne false) (rparse T o).
Proof.
  intros a at_ T o H1 H2 Ha Hq. cbn [rparse]. rewrite H1, H2, Ha.
  destruct T as [|[q|] r1]; try reflexivity. simpl in Hq. rewrite Hq. reflexivity.
Qed.

(* an atom followed by one greedy quantifier character *)
Lemma rparse_quant : forall a at_ q T o, tok_is cLPAR a = false -> tok_is cRPAR a = false ->
  atom_of a (TkC q :: T) = Some at_ -> is_qchar q = true -> head_q T = false ->
  rparse (a :: TkC q :: T) o = ocons (RA at_ (quant_of q) false) (rparse T o).
Proof.
  intros a at_ q T o H1 H2 Ha Hq HT. cbn [rparse]. rewrite H1, H2, Ha, Hq.
  destruct T as [|[q2|] r2]; try reflexivity. simpl in HT.
  rewrite (qchar_not_qm _ HT), HT. reflexivity.
Qed.

Lemma rparse_lit : forall c T o, lit_ok c = true -> head_q T = false ->
  rparse (TkC c :: T) o = ocons (RA (ALit c) QOne false) (rparse T o).
Proof.
  intros c T o Hc HT. destruct (lit_ok_special c Hc) as [Hs [Hd Hb]].
  apply rparse_one; try assumption.
  - simpl. apply N.eqb_neq. lit_ne Hc.
  - simpl. apply N.eqb_neq. lit_ne Hc.
  - unfold atom_of. rewrite Hd, Hb, Hs. reflexivity.
Qed.

Lemma rparse_slashstar : forall T o, head_q T = false ->
  rparse (TkC cSLASH :: TkC cDOT :: TkC cSTAR :: T) o
  = ocons (RA (ALit cSLASH) QOne false) (ocons (RA ADot QStar false) (rparse T o)).
Proof.
  intros T o HT. rewrite rparse_one with (at_ := ALit cSLASH); try reflexivity.
  f_equal. rewrite rparse_quant with (at_ := ADot); try reflexivity. exact HT.
Qed.

Lemma rparse_var : forall T o, head_q T = false ->
  rparse (TkNotSl :: TkC cPLUS :: T) o = ocons (RA ANotSl QPlus false) (rparse T o).
Proof. intros T o HT. rewrite rparse_quant with (at_ := ANotSl); try reflexivity. exact HT. Qed.

Lemma rparse_lex : forall t, forallb ptok_ok t = true ->
  rparse (flat_map lex_tok t) false = Some (map ritem_of (items_of t)).
Proof.
  induction t as [|a t IH]; intro H; [reflexivity|].
  pose proof H as Hall. simpl in H. apply andb_true_iff in H. destruct H as [Ha Ht].
  pose proof (head_q_lex t Ht) as Hq. specialize (IH Ht).
  unfold items_of. cbn [flat_map]. fold (items_of t). rewrite map_app.
  destruct a as [c| |n]; cbn [lex_tok items_of_tok app map ritem_of].
  - rewrite rparse_lit by assumption. rewrite IH. reflexivity.
  - rewrite rparse_slashstar by assumption. rewrite IH. reflexivity.
  - rewrite rparse_var by assumption. rewrite IH. reflexivity.
Qed.

(* ================================================================ 3. the theorems *)
Lemma key_ok_no_nl : forall k, key_ok k = true -> no_nl k.
Proof.
  intros k H x Hx E. subst x. unfold key_ok in H. apply negb_true_iff in H.
  assert (Ht : existsb (fun c => c =? cNL) k = true).
  { apply existsb_exists. exists cNL. split; [exact Hx|apply N.eqb_refl]. }
  congruence.
Qed.

Lemma regex_full_tokens : forall rep t k, (rep = re_notslash_esc \/ rep = re_notslash) ->
  forallb ptok_ok t = true -> no_nl k ->
  rbind (regex_full (re_of rep t) k) (fun m => Ok (is_some m)) = Ok (seg_match (items_of t) k).
Proof.
  intros rep t k Hrep Ht Hk. unfold regex_full. rewrite rlex_re by assumption.
  rewrite rparse_lex by assumption. cbn [rbind]. rewrite is_some_rmatch_seg by assumption. reflexivity.
Qed.

Theorem km2_tokens : forall t k, wf2 t = true -> no_nl k ->
  key_match2 k (render false t) = Ok (seg_match (items_of t) k).
Proof.
  intros t k Hwf Hk. pose proof (wf2_ok t Hwf) as Hok. unfold key_match2.
  rewrite rss_render by assumption. rewrite subst2_mid by assumption.
  rewrite (star_special_id re_notslash_esc t cLBR (tl re_notslash_esc)); try reflexivity; try assumption; try discriminate.
  apply regex_full_tokens; auto.
Qed.

Theorem km3_tokens : forall t k, wf3 t = true -> no_nl k ->
  key_match3 k (render true t) = Ok (seg_match (items_of t) k).
Proof.
  intros t k Hwf Hk. unfold wf3 in Hwf. unfold key_match3.
  rewrite rss_render by assumption. rewrite subst3_mid by assumption.
  apply regex_full_tokens; auto.
Qed.

Lemma before_qm_no_nl : forall k, no_nl k -> no_nl (before_qm k).
Proof.
  induction k as [|x k IH]; intro H; [exact H|]. simpl. apply no_nl_cons in H. destruct H as [Hx Hk].
  destruct (x =? cQM); [intros y []|]. apply no_nl_cons. split; [exact Hx|apply IH; exact Hk].
Qed.

Theorem km5_tokens : forall t k, wf5 t = true -> no_nl k ->
  key_match5 k (render true t) = Ok (seg_match (items_of t) (before_qm k)).
Proof.
  intros t k Hwf Hk. unfold wf5 in Hwf. pose proof (wf5_ok _ _ Hwf) as Hok. unfold key_match5.
  rewrite rss_render by assumption. rewrite (subst5_mid _ _ _ Hwf).
  apply regex_full_tokens; auto. apply before_qm_no_nl. exact Hk.
Qed.

(* on strings: the documented-form predicates check that the tokenizer's output is well formed and
   renders back to the very same pattern *)
Theorem km2_iff : forall p k, doc2 p = true -> key_ok k = true ->
  key_match2 k p = Ok (seg_match (parse2 p) k).
Proof.
  intros p k Hd Hk. unfold doc2 in Hd. apply andb_true_iff in Hd. destruct Hd as [Hwf Hr].
  apply str_eqb_eq in Hr. rewrite <- Hr at 1. unfold parse2.
  apply km2_tokens; [exact Hwf|apply key_ok_no_nl; exact Hk].
Qed.

Theorem km3_iff : forall p k, doc3 p = true -> key_ok k = true ->
  key_match3 k p = Ok (seg_match (parse3 p) k).
Proof.
  intros p k Hd Hk. unfold doc3 in Hd. apply andb_true_iff in Hd. destruct Hd as [Hwf Hr].
  apply str_eqb_eq in Hr. rewrite <- Hr at 1. unfold parse3.
  apply km3_tokens; [exact Hwf|apply key_ok_no_nl; exact Hk].
Qed.

Theorem km5_iff : forall p k, doc5 p = true -> key_ok k = true ->
  key_match5 k p = Ok (seg_match (parse5 p) (before_qm k)).
Proof.
  intros p k Hd Hk. unfold doc5 in Hd. apply andb_true_iff in Hd. destruct Hd as [Hwf Hr].
  apply str_eqb_eq in Hr. rewrite <- Hr at 1. unfold parse5.
  apply km5_tokens; [exact Hwf|apply key_ok_no_nl; exact Hk].
Qed.

(* keyMatch2's whole-pattern "*" *)
Theorem km2_star : forall k, key_ok k = true -> key_match2 k [cSTAR] = Ok true.
Proof.
  intros k Hk. apply key_ok_no_nl in Hk. unfold key_match2.
  change (subst_from find2 re_notslash_esc O (rss [cSTAR])) with [cSTAR].
  change (star_special [cSTAR]) with re_grp_any. unfold regex_full.
  change (rparse (rlex O re_grp_any) false) with (Some [ROpen; RA ADot QStar false; RClose]).
  cbn [rbind]. f_equal.
  assert (H : rmatch [ROpen; RA ADot QStar false; RClose] None [] k <> None).
  { cbn [rmatch rep_match]. apply greedy_star_some. exists k, []. rewrite app_nil_r. repeat split.
    - apply forallb_dot. exact Hk.
    - simpl. discriminate. }
  destruct (rmatch [ROpen; RA ADot QStar false; RClose] None [] k); [reflexivity|congruence].
Qed.
