(* LineLang.v — a small language for casbin/persist/adapter.py load_policy_line (one policy text line -> one rule of the
   model) and its interpreter.  translators/loadline.py renders the Python source into this syntax on every run
   (coq/gen/LoadLineGen.v); LineTie.v proves that the interpreter run on the regenerated program computes
   Csv.load_policy_line - the function C10's round-trip and "split at commas outside brackets" theorems are about.

   Values: strings (a character is a string of length 1, as in Python), lists of strings, booleans.
   Meaning fixed by the interpreter (trusted): `for c in line` visits the characters in order; x[-1] += s, x.pop(), x[0]
   raise IndexError on an empty list / string; `and` / `or` short-circuit; s.strip() is Csv.strip (compared with CPython on
   every code point by the C10 check); the model object is Csv.model (sections and keys that exist). *)
From Coq Require Import List NArith Bool.
From PyCasbin Require Import Base Csv.
Import ListNotations.
Local Open Scope N_scope.

Inductive lv := LVS (s : str) | LVL (l : list str) | LVB (b : bool).

Inductive lex : Type :=
| LVar (x : N) | LStr (s : str) | LNil
| LEqE (a b : lex) | LOrE (a b : lex) | LAndE (a b : lex)
| LLenIsZero (a : lex)
| LSliceTo1 (a : lex) | LIdx0 (a : lex) | LSliceFrom1 (a : lex)
| LStripAll (a : lex)
| LSecMissing (a : lex)
| LKeyMissing (sec key : lex).

Inductive lst : Type :=
| LAssign (x : N) (e : lex)
| LAppend (x : N) (e : lex)
| LPop (x : N)
| LLastAdd (x : N) (e : lex)
| LIf (c : lex) (a b : list lst)
| LForChars (c : N) (e : lex) (body : list lst)
| LReturn
| LModelAppend (sec key toks : lex).

Record lstate := { l_loc : list (N * lv); l_model : model }.
Inductive lout := LNext (s : lstate) | LRet (s : lstate) | LErr (c : N).

(* equality of variable identifiers: its own constant so that proofs can compute on identifiers while N.eqb on DATA stays folded *)
Definition lkeyb (a b : N) : bool :=
  match a, b with N0, N0 => true | Npos p, Npos q => Pos.eqb p q | _, _ => false end.

Fixpoint llookup (x : N) (l : list (N * lv)) : option lv :=
  match l with [] => None | (y, v) :: r => if lkeyb x y then Some v else llookup x r end.
Fixpoint lupd (x : N) (v : lv) (l : list (N * lv)) : list (N * lv) :=
  match l with
  | [] => [(x, v)]
  | (y, w) :: r => if lkeyb x y then (y, v) :: r else (y, w) :: lupd x v r
  end.
Definition lset (x : N) (v : lv) (s : lstate) : lstate := {| l_loc := lupd x v (l_loc s); l_model := l_model s |}.

(* x[-1] += s *)
Fixpoint add_last_s (toks : list str) (s : str) : option (list str) :=
  match toks with
  | [] => None
  | t :: r => match r with
              | [] => Some [t ++ s]
              | _ => match add_last_s r s with Some r' => Some (t :: r') | None => None end
              end
  end.
(* x.pop() : drop the last element *)
Fixpoint drop_last (l : list str) : option (list str) :=
  match l with
  | [] => None
  | t :: r => match r with [] => Some [] | _ => match drop_last r with Some r' => Some (t :: r') | None => None end end
  end.

Definition sec_exists (m : model) (c : N) : bool := existsb (fun a => a_sec a =? c) m.
Definition key_exists (m : model) (c : N) (k : str) : bool := existsb (ast_is c k) m.

Fixpoint for_chars (f : N -> lstate -> lout) (s : str) (st : lstate) : lout :=
  match s with
  | [] => LNext st
  | c :: r => match f c st with LNext st' => for_chars f r st' | o => o end
  end.

Fixpoint leval (n : nat) (s : lstate) (e : lex) {struct n} : result lv :=
  match n with
  | O => Err EFuel
  | S n' =>
    let ev := leval n' s in
    match e with
    | LVar x => match llookup x (l_loc s) with Some v => Ok v | None => Err EName end
    | LStr t => Ok (LVS t)
    | LNil => Ok (LVL [])
    | LEqE a b => rbind (ev a) (fun va => rbind (ev b) (fun vb =>
                    match va, vb with LVS x, LVS y => Ok (LVB (str_eqb x y)) | _, _ => Err 90 end))
    | LOrE a b => rbind (ev a) (fun va => match va with LVB true => Ok (LVB true) | LVB false => ev b | _ => Err 90 end)
    | LAndE a b => rbind (ev a) (fun va => match va with LVB false => Ok (LVB false) | LVB true => ev b | _ => Err 90 end)
    | LLenIsZero a => rbind (ev a) (fun va => match va with
                                              | LVL l => Ok (LVB (match l with [] => true | _ => false end))
                                              | LVS l => Ok (LVB (match l with [] => true | _ => false end))
                                              | _ => Err 90 end)
    | LSliceTo1 a => rbind (ev a) (fun va => match va with LVS t => Ok (LVS (firstn 1 t)) | _ => Err 90 end)
    | LIdx0 a => rbind (ev a) (fun va => match va with
                                         | LVS (c :: _) => Ok (LVS [c])
                                         | LVL (t :: _) => Ok (LVS t)
                                         | LVS [] | LVL [] => Err EIndex
                                         | _ => Err 90 end)
    | LSliceFrom1 a => rbind (ev a) (fun va => match va with LVL l => Ok (LVL (tl l)) | _ => Err 90 end)
    | LStripAll a => rbind (ev a) (fun va => match va with LVL l => Ok (LVL (map strip l)) | _ => Err 90 end)
    | LSecMissing a => rbind (ev a) (fun va => match va with
                                               | LVS [c] => Ok (LVB (negb (sec_exists (l_model s) c)))
                                               | _ => Err 90 end)
    | LKeyMissing a b => rbind (ev a) (fun va => rbind (ev b) (fun vb =>
                           match va, vb with
                           | LVS [c], LVS k => Ok (LVB (negb (key_exists (l_model s) c k)))
                           | _, _ => Err 90 end))
    end
  end.

Fixpoint lexec (n : nat) (s : lstate) (c : lst) {struct n} : lout :=
  match n with
  | O => LErr EFuel
  | S n' =>
    match c with
    | LAssign x e => match leval n' s e with Ok v => LNext (lset x v s) | Err c => LErr c end
    | LAppend x e =>
        match llookup x (l_loc s), leval n' s e with
        | Some (LVL l), Ok (LVS t) => LNext (lset x (LVL (l ++ [t])) s)
        | _, Err c => LErr c
        | _, _ => LErr 90
        end
    | LPop x =>
        match llookup x (l_loc s) with
        | Some (LVL l) => match drop_last l with Some l' => LNext (lset x (LVL l') s) | None => LErr EIndex end
        | _ => LErr 90
        end
    | LLastAdd x e =>
        match llookup x (l_loc s), leval n' s e with
        | Some (LVL l), Ok (LVS t) => match add_last_s l t with Some l' => LNext (lset x (LVL l') s) | None => LErr EIndex end
        | _, Err c => LErr c
        | _, _ => LErr 90
        end
    | LIf c a b =>
        match leval n' s c with
        | Ok (LVB true) => lblock n' s a
        | Ok (LVB false) => lblock n' s b
        | Ok _ => LErr 90
        | Err c => LErr c
        end
    | LForChars x e body =>
        match leval n' s e with
        | Ok (LVS t) => for_chars (fun ch st => lblock n' (lset x (LVS [ch]) st) body) t s
        | Ok _ => LErr 90
        | Err c => LErr c
        end
    | LReturn => LRet s
    | LModelAppend a b t =>
        match leval n' s a, leval n' s b, leval n' s t with
        | Ok (LVS [c]), Ok (LVS k), Ok (LVL fs) => LNext {| l_loc := l_loc s; l_model := append_rule (l_model s) c k fs |}
        | Err c, _, _ => LErr c
        | _, Err c, _ => LErr c
        | _, _, Err c => LErr c
        | _, _, _ => LErr 90
        end
    end
  end
with lblock (n : nat) (s : lstate) (b : list lst) {struct n} : lout :=
  match n with
  | O => LErr EFuel
  | S n' =>
    match b with
    | [] => LNext s
    | c :: r => match lexec n' s c with LNext s' => lblock n' s' r | o => o end
    end
  end.

(* load_policy_line(line, model): the model afterwards, or the exception *)
Definition lrun (n : nat) (line_var : N) (locals : list N) (body : list lst) (line : str) (m : model) : result model :=
  match lblock n {| l_loc := (line_var, LVS line) :: map (fun x => (x, LVB false)) locals; l_model := m |} body with
  | LNext s | LRet s => Ok (l_model s)
  | LErr c => Err c
  end.
