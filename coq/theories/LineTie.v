(* LineTie.v — C10/C12: load_policy_line regenerated from casbin/persist/adapter.py on this run (coq/gen/LoadLineGen.v),
   executed by the interpreter of LineLang.v, computes Csv.load_policy_line for every line and every model. *)
From Coq Require Import List NArith Bool Lia Arith.
From PyCasbin Require Import Base Csv LineLang.
From PyCasbinGen Require Import LoadLineGen.
Import ListNotations.
Local Open Scope N_scope.

Definition LFUEL : nat := 60.

Lemma lblock_nil n s : lblock (S n) s [] = LNext s.
Proof. reflexivity. Qed.
Lemma lblock_step n s c r o : lexec n s c = o ->
  lblock (S n) s (c :: r) = match o with LNext s' => lblock n s' r | LRet s' => LRet s' | LErr e => LErr e end.
Proof.
  intros <-. change (lblock (S n) s (c :: r)) with (match lexec n s c with LNext s' => lblock n s' r | o => o end).
  destruct (lexec n s c); reflexivity.
Qed.
Lemma lexec_if n s c a b v : leval n s c = v ->
  lexec (S n) s (LIf c a b) =
  match v with Ok (LVB true) => lblock n s a | Ok (LVB false) => lblock n s b | Ok _ => LErr 90 | Err e => LErr e end.
Proof. intros <-. reflexivity. Qed.
Lemma lexec_for n s x e body t : leval n s e = Ok (LVS t) ->
  lexec (S n) s (LForChars x e body) = for_chars (fun ch st => lblock n (lset x (LVS [ch]) st) body) t s.
Proof.
  intro H. change (lexec (S n) s (LForChars x e body)) with
    (match leval n s e with
     | Ok (LVS t) => for_chars (fun ch st => lblock n (lset x (LVS [ch]) st) body) t s
     | Ok _ => LErr 90 | Err c => LErr c end).
  rewrite H. reflexivity.
Qed.

Ltac l_atomic c := lazymatch c with LIf _ _ _ => fail | LForChars _ _ _ => fail | _ => idtac end.
Ltac llz t := let v := eval lazy -[N.eqb str_eqb list_eqb add_last_s drop_last app map strip tl firstn sec_exists key_exists
                                   append_rule for_chars str model] in t in v.
Ltac lbstep :=
  lazymatch goal with
  | |- context [lblock (S ?n) ?s []] => rewrite (lblock_nil n s)
  | |- context [lblock (S ?n) ?s (?c :: ?r)] =>
      tryif l_atomic c then (let o := llz (lexec n s c) in rewrite (lblock_step n s c r o eq_refl))
      else rewrite (lblock_step n s c r _ eq_refl)
  end; cbv beta iota.
Ltac lestep :=
  lazymatch goal with
  | |- context [lexec (S ?n) ?s (LIf ?c ?a ?b)] =>
      let v := llz (leval n s c) in rewrite (lexec_if n s c a b v eq_refl)
  end; cbv beta iota.
Ltac lstep := first [lestep | lbstep].

(* ------------------------------------------------------------------ list facts *)
Lemma add_last_s_char toks ch : add_last_s toks [ch] = add_last toks ch.
Proof.
  induction toks as [|t r IH]; simpl; [reflexivity|]. destruct r; [reflexivity|]. rewrite IH. reflexivity.
Qed.

Lemma drop_last_snoc : forall l (x : str), drop_last (l ++ [x]) = Some l.
Proof.
  induction l as [|t r IH]; intro x; simpl; [reflexivity|].
  destruct (r ++ [x]) eqn:E; [destruct r; discriminate|]. rewrite <- E, IH. reflexivity.
Qed.

Lemma drop_last_length : forall l l', drop_last l = Some l' -> length l = S (length l').
Proof.
  induction l as [|t r IH]; intros l' H; simpl in H; [discriminate|].
  destruct r as [|t2 r2]; [inversion H; reflexivity|].
  destruct (drop_last (t2 :: r2)) as [r'|] eqn:E; [|discriminate]. inversion H; subst.
  specialize (IH r' eq_refl). simpl in IH |- *. rewrite IH. reflexivity.
Qed.

Lemma drop_last_nonempty : forall l : list str, l <> [] -> exists l', drop_last l = Some l'.
Proof.
  induction l as [|t r IH]; intro H; [contradiction|]. simpl.
  destruct r as [|t2 r2]; [eexists; reflexivity|].
  destruct (IH ltac:(discriminate)) as [r' Hr]. rewrite Hr. eexists; reflexivity.
Qed.

Lemma str_eqb_char c k : str_eqb [c] [k] = (c =? k).
Proof. unfold str_eqb. simpl. apply andb_true_r. Qed.

Ltac l_inner :=
  match goal with
  | |- context [match ?x with _ => _ end] =>
      lazymatch x with
      | context [match _ with _ => _ end] => fail
      | lblock _ _ _ => fail
      | lexec _ _ _ => fail
      | for_chars _ _ _ => fail
      | _ => destruct x eqn:?
      end
  end.

Ltac leaf := cbn [andb orb]; cbv beta iota; repeat lstep; cbn [andb orb]; cbv beta iota; reflexivity.

Definition BODY : list lst :=
  Eval lazy in match nth_error load_line_gen 4 with Some (LForChars _ _ b) => b | _ => [] end.
Definition TAIL : list lst := Eval lazy in skipn 5 load_line_gen.

Definition mkS (m : model) (line : str) (stack toks : list str) (c key sec : lv) : lstate :=
  {| l_loc := [(1, LVS line); (2, LVL stack); (3, LVL toks); (4, c); (5, key); (6, sec)]; l_model := m |}.

Lemma body_char m line n ch stack toks c0 key sec :
  lblock (20 + n) (lset 4 (LVS [ch]) (mkS m line stack toks c0 key sec)) BODY =
  if is_open ch then
    match add_last toks ch with
    | None => LErr EIndex
    | Some t' => LNext (mkS m line (stack ++ [[ch]]) t' (LVS [ch]) key sec)
    end
  else if is_close ch then
    match drop_last stack with
    | None => LErr EIndex
    | Some s' => match add_last toks ch with
                 | None => LErr EIndex
                 | Some t' => LNext (mkS m line s' t' (LVS [ch]) key sec)
                 end
    end
  else if (ch =? c_comma) && (match stack with [] => true | _ => false end) then
    LNext (mkS m line stack (toks ++ [[]]) (LVS [ch]) key sec)
  else match toks with
       | [] => LNext (mkS m line stack [[ch]] (LVS [ch]) key sec)
       | _ => match add_last toks ch with
              | None => LErr EIndex
              | Some t' => LNext (mkS m line stack t' (LVS [ch]) key sec)
              end
       end.
Proof.
  unfold BODY, mkS, is_open, is_close, c_lbr, c_lpar, c_rbr, c_rpar, c_comma. cbn [Nat.add].
  repeat (first [ lstep | rewrite add_last_s_char | rewrite !str_eqb_char
                | (l_inner; cbn [andb orb]; cbv beta iota) ]);
    cbn [andb orb]; cbv beta iota; try reflexivity; try discriminate.
Qed.

Lemma loop_tok m line0 n : forall line stack toks c0 key sec,
  match tok_loop line (length stack) toks with
  | Err e => for_chars (fun ch st => lblock (20 + n) (lset 4 (LVS [ch]) st) BODY) line (mkS m line0 stack toks c0 key sec) = LErr e
  | Ok (h, toks') => exists stack' c', length stack' = h /\
      for_chars (fun ch st => lblock (20 + n) (lset 4 (LVS [ch]) st) BODY) line (mkS m line0 stack toks c0 key sec) =
      LNext (mkS m line0 stack' toks' c' key sec)
  end.
Proof.
  induction line as [|c r IH]; intros stack toks c0 key sec.
  - simpl. exists stack, c0. split; reflexivity.
  - cbn [for_chars tok_loop]. rewrite body_char.
    destruct (is_open c).
    + destruct (add_last toks c) as [t'|]; [|reflexivity].
      specialize (IH (stack ++ [[c]]) t' (LVS [c]) key sec). rewrite app_length in IH. simpl length in IH.
      rewrite Nat.add_1_r in IH. exact IH.
    + destruct (is_close c).
      * destruct stack as [|s0 st].
        -- reflexivity.
        -- destruct (drop_last_nonempty (s0 :: st) ltac:(discriminate)) as [s' Hs]. rewrite Hs.
           pose proof (drop_last_length _ _ Hs) as Hl. simpl length in Hl. inversion Hl as [Hl'].
           simpl length. destruct (add_last toks c) as [t'|]; [|reflexivity].
           specialize (IH s' t' (LVS [c]) key sec). rewrite <- Hl' in IH. exact IH.
      * replace (Nat.eqb (length stack) 0) with (match stack with [] => true | _ => false end) by (destruct stack; reflexivity).
        destruct ((c =? c_comma) && match stack with [] => true | _ => false end).
        -- apply IH.
        -- destruct toks as [|t0 ts].
           ++ apply IH.
           ++ destruct (add_last (t0 :: ts) c) as [t'|]; [apply IH | reflexivity].
Qed.

Lemma append_rule_nomatch : forall m c k fs, key_exists m c k = false -> append_rule m c k fs = m.
Proof.
  induction m as [|a r IH]; intros c k fs H; simpl in *; [reflexivity|].
  apply orb_false_iff in H. destruct H as [H1 H2]. rewrite H1, (IH c k fs H2). reflexivity.
Qed.

Lemma sec_missing_key_missing : forall m c k, sec_exists m c = false -> key_exists m c k = false.
Proof.
  induction m as [|a r IH]; intros c k H; simpl in *; [reflexivity|].
  apply orb_false_iff in H. destruct H as [H1 H2]. unfold ast_is. rewrite H1, (IH c k H2). reflexivity.
Qed.

Ltac lsteps := repeat (lazymatch goal with |- context [str_eqb _ _] => fail | _ => lstep end).

Theorem tie_load_policy_line line m :
  lrun LFUEL lv_line load_line_locals load_line_gen line m = Csv.load_policy_line line m.
Proof.
  unfold lrun, LFUEL, Csv.load_policy_line, parse_line.
  let b := eval lazy in load_line_gen in change load_line_gen with b.
  let b := eval lazy in ((lv_line, LVS line) :: map (fun x : N => (x, LVB false)) load_line_locals) in
    change ((lv_line, LVS line) :: map (fun x : N => (x, LVB false)) load_line_locals) with b.
  destruct line as [|c0 r].
  - repeat lstep. reflexivity.
  - lsteps. change (str_eqb (c0 :: r) []) with false. cbv beta iota.
    lsteps. cbn [firstn]. rewrite str_eqb_char. unfold c_hash.
    destruct (c0 =? 35); cbv beta iota; [repeat lstep; reflexivity|].
    lsteps.
    match goal with |- context [lexec (S ?n) ?s (LForChars ?x ?e ?body)] =>
      rewrite (lexec_for n s x e body (c0 :: r) eq_refl) end.
    pose proof (loop_tok m (c0 :: r) 33 (c0 :: r) [] [] (LVB false) (LVB false) (LVB false)) as HL.
    change (20 + 33)%nat with 53%nat in HL. unfold BODY, mkS in HL. cbn [length] in HL.
    destruct (tok_loop (c0 :: r) 0 []) as [[h toks']|e].
    + destruct HL as (stack' & c' & _ & HL).
      match type of HL with ?lhs = _ =>
        match goal with |- context [for_chars ?F ?t ?s] => change (for_chars F t s) with lhs end end.
      rewrite HL. clear HL. cbv beta iota.
      repeat (first [ lstep | (l_inner; cbn [negb hd tl]; cbv beta iota) ]);
        try reflexivity;
        try (match goal with H : key_exists _ _ _ = false |- _ => rewrite (append_rule_nomatch _ _ _ _ H); reflexivity end);
        try (match goal with H : sec_exists _ _ = false |- _ =>
               rewrite (append_rule_nomatch _ _ _ _ (sec_missing_key_missing _ _ _ H)); reflexivity end).
    + match type of HL with ?lhs = _ =>
        match goal with |- context [for_chars ?F ?t ?s] => change (for_chars F t s) with lhs end end.
      rewrite HL. reflexivity.
Qed.
