(* LinkLang.v — a small language for the two methods of casbin/model/assertion.py that turn grouping rules into role links,
   Assertion.build_role_links and Assertion.build_incremental_role_links, and its interpreter.
   translators/rolelinks.py renders the Python source into this syntax on every run (coq/gen/RoleLinksGen.v); LinkTie.v
   proves that the interpreter run on the regenerated programs computes Mgmt.links_add / links_del - the functions through
   which every C04 / C05 / C11 theorem sees the role managers change.

   Meaning fixed by the interpreter (trusted):
   - the role manager object the method is given (`rm`, also reachable as `self.rm` after `self.rm = rm`) is a value of an
     abstract type; rm.add_link(a, b, *rest) / rm.delete_link(a, b, *rest) are the parameters `addl` / `dell` applied to the
     flattened argument list (delete_link may raise); logging calls have no effect;
   - self.value.count("_") is the parameter `cnt`, self.policy the parameter `pol`;
   - x[:k] is firstn, x[k:] is skipn, x[k] raises IndexError out of range; integers here are lengths (nat);
   - a raise ends the method and leaves the manager as it is at that point. *)
From Coq Require Import List NArith Bool Arith.
From PyCasbin Require Import Base.
Import ListNotations.
Local Open Scope N_scope.

Inductive kop := KAdd | KRemove | KOther.
Inductive kv := KRule (r : rule) | KRules (rs : list rule) | KNat (n : nat) | KName (a : name) | KOp (o : kop) | KB (b : bool) | KNone.

Inductive kex : Type :=
| KVar (x : N)
| KCount                         (* self.value.count("_") *)
| KSelfPolicy                    (* self.policy *)
| KInt (n : nat)
| KLen (a : kex)
| KLt (a b : kex) | KGt (a b : kex)
| KEq (a b : kex)
| KOpConst (o : kop)             (* PolicyOp.Policy_add / Policy_remove *)
| KSliceTo (a b : kex)           (* a[:b] *)
| KSliceFrom (a : kex) (k : nat) (* a[k:] *)
| KIdx (a : kex) (k : nat).      (* a[k] *)

Inductive karg := KPos (e : kex) | KStar (e : kex).

Inductive kst : Type :=
| KAssign (x : N) (e : kex)
| KBindRm                        (* self.rm = rm *)
| KIf (c : kex) (a b : list kst)
| KFor (x : N) (it : kex) (body : list kst)
| KRaise (code : N)
| KAddLink (args : list karg)
| KDelLink (args : list karg)
| KLog.

Definition kkeyb (a b : N) : bool :=
  match a, b with N0, N0 => true | Npos p, Npos q => Pos.eqb p q | _, _ => false end.

Definition kop_eqb (a b : kop) : bool :=
  match a, b with KAdd, KAdd | KRemove, KRemove | KOther, KOther => true | _, _ => false end.

Section Interp.
  Variable RM : Type.
  Variable addl : RM -> list name -> RM.
  Variable dell : RM -> list name -> RM * option N.
  Variable cnt : nat.
  Variable pol : list rule.

  Definition klocals := list (N * kv).
  Record kstate := { k_loc : klocals; k_rm : RM }.
  Inductive kout := KNext (s : kstate) | KErr (s : kstate) (c : N).

  Fixpoint klookup (x : N) (l : klocals) : option kv :=
    match l with [] => None | (y, v) :: r => if kkeyb x y then Some v else klookup x r end.
  Fixpoint kupd (x : N) (v : kv) (l : klocals) : klocals :=
    match l with
    | [] => [(x, v)]
    | (y, w) :: r => if kkeyb x y then (y, v) :: r else (y, w) :: kupd x v r
    end.
  Definition kset (x : N) (v : kv) (s : kstate) : kstate := {| k_loc := kupd x v (k_loc s); k_rm := k_rm s |}.

  Fixpoint keval (n : nat) (l : klocals) (e : kex) {struct n} : result kv :=
    match n with
    | O => Err EFuel
    | S n' =>
      let ev := keval n' l in
      match e with
      | KVar x => match klookup x l with Some v => Ok v | None => Err EName end
      | KCount => Ok (KNat cnt)
      | KSelfPolicy => Ok (KRules pol)
      | KInt k => Ok (KNat k)
      | KLen a => rbind (ev a) (fun v => match v with
                                         | KRule r => Ok (KNat (length r))
                                         | KRules r => Ok (KNat (length r))
                                         | _ => Err EType end)
      | KLt a b => rbind (ev a) (fun va => rbind (ev b) (fun vb =>
                     match va, vb with KNat x, KNat y => Ok (KB (Nat.ltb x y)) | _, _ => Err EType end))
      | KGt a b => rbind (ev a) (fun va => rbind (ev b) (fun vb =>
                     match va, vb with KNat x, KNat y => Ok (KB (Nat.ltb y x)) | _, _ => Err EType end))
      | KEq a b => rbind (ev a) (fun va => rbind (ev b) (fun vb =>
                     match va, vb with
                     | KOp x, KOp y => Ok (KB (kop_eqb x y))
                     | KNat x, KNat y => Ok (KB (Nat.eqb x y))
                     | _, _ => Err 90
                     end))
      | KOpConst o => Ok (KOp o)
      | KSliceTo a b => rbind (ev a) (fun va => rbind (ev b) (fun vb =>
                     match va, vb with KRule r, KNat k => Ok (KRule (firstn k r)) | _, _ => Err EType end))
      | KSliceFrom a k => rbind (ev a) (fun va => match va with KRule r => Ok (KRule (skipn k r)) | _ => Err EType end)
      | KIdx a k => rbind (ev a) (fun va => match va with
                                            | KRule r => match nth_error r k with Some x => Ok (KName x) | None => Err EIndex end
                                            | _ => Err EType end)
      end
    end.

  (* f(a, b, *rest): the flattened positional arguments *)
  Fixpoint kargs (ev : kex -> result kv) (args : list karg) : result (list name) :=
    match args with
    | [] => Ok []
    | KPos e :: r => match ev e with
                     | Ok (KName x) => match kargs ev r with Ok xs => Ok (x :: xs) | Err c => Err c end
                     | Ok _ => Err EType
                     | Err c => Err c
                     end
    | KStar e :: r => match ev e with
                      | Ok (KRule l) => match kargs ev r with Ok xs => Ok (l ++ xs) | Err c => Err c end
                      | Ok _ => Err EType
                      | Err c => Err c
                      end
    end.

  Fixpoint for_rules (f : rule -> kstate -> kout) (rs : list rule) (s : kstate) : kout :=
    match rs with
    | [] => KNext s
    | r :: rest => match f r s with KNext s' => for_rules f rest s' | o => o end
    end.

  Fixpoint kexec (n : nat) (s : kstate) (c : kst) {struct n} : kout :=
    match n with
    | O => KErr s EFuel
    | S n' =>
      match c with
      | KAssign x e => match keval n' (k_loc s) e with Ok v => KNext (kset x v s) | Err c => KErr s c end
      | KBindRm => KNext s
      | KIf c a b =>
          match keval n' (k_loc s) c with
          | Ok (KB true) => kblock n' s a
          | Ok (KB false) => kblock n' s b
          | Ok _ => KErr s 90
          | Err c => KErr s c
          end
      | KFor x it body =>
          match keval n' (k_loc s) it with
          | Ok (KRules rs) => for_rules (fun r s' => kblock n' (kset x (KRule r) s') body) rs s
          | Ok _ => KErr s EType
          | Err c => KErr s c
          end
      | KRaise code => KErr s code
      | KAddLink args =>
          match kargs (keval n' (k_loc s)) args with
          | Ok xs => KNext {| k_loc := k_loc s; k_rm := addl (k_rm s) xs |}
          | Err c => KErr s c
          end
      | KDelLink args =>
          match kargs (keval n' (k_loc s)) args with
          | Ok xs => match dell (k_rm s) xs with
                     | (rm', None) => KNext {| k_loc := k_loc s; k_rm := rm' |}
                     | (rm', Some c) => KErr {| k_loc := k_loc s; k_rm := rm' |} c
                     end
          | Err c => KErr s c
          end
      | KLog => KNext s
      end
    end
  with kblock (n : nat) (s : kstate) (b : list kst) {struct n} : kout :=
    match n with
    | O => KErr s EFuel
    | S n' =>
      match b with
      | [] => KNext s
      | c :: r => match kexec n' s c with KNext s' => kblock n' s' r | o => o end
      end
    end.

  (* the manager afterwards and the exception, if any *)
  Definition krun (n : nat) (params locals : list N) (body : list kst) (args : list kv) (rm : RM) : RM * option N :=
    match kblock n {| k_loc := combine params args ++ map (fun x => (x, KNone)) locals; k_rm := rm |} body with
    | KNext s => (k_rm s, None)
    | KErr s c => (k_rm s, Some c)
    end.
End Interp.
