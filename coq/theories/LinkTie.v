(* LinkTie.v — C04 / C05 / C11: Assertion.build_role_links and Assertion.build_incremental_role_links regenerated from
   casbin/model/assertion.py on this run (coq/gen/RoleLinksGen.v), executed by the interpreter of LinkLang.v with the role
   manager operations of Mgmt.v (rm_link_add / rm_link_del), compute Mgmt.links_add / links_del - for every rule list,
   every manager state and every declared arity >= 2. *)
From Coq Require Import List NArith Bool Lia Arith.
From PyCasbin Require Import Base RoleGraph Mgmt LinkLang.
From PyCasbinGen Require Import RoleLinksGen.
Import ListNotations.
Local Open Scope N_scope.

Definition KFUEL : nat := 30.

Definition run_build (cnt : nat) (pol : list rule) (rm : rmk) : rmk * option N :=
  krun rmk rm_link_add rm_link_del cnt pol KFUEL build_role_links_params build_role_links_locals build_role_links_gen [] rm.

Definition run_incremental (cnt : nat) (op : kop) (rules : list rule) (rm : rmk) : rmk * option N :=
  krun rmk rm_link_add rm_link_del cnt [] KFUEL build_incremental_role_links_params build_incremental_role_links_locals
       build_incremental_role_links_gen [KOp op; KRules rules] rm.

(* ------------------------------------------------------------------ stepping equations *)
Section Steps.
  Variable cnt : nat.
  Variable pol : list rule.
  Notation kblock' := (kblock rmk rm_link_add rm_link_del cnt pol).
  Notation kexec' := (kexec rmk rm_link_add rm_link_del cnt pol).
  Notation keval' := (keval cnt pol).

  Lemma kblock_nil n s : kblock' (S n) s [] = KNext rmk s.
  Proof. reflexivity. Qed.
  Lemma kblock_step n s c r o : kexec' n s c = o ->
    kblock' (S n) s (c :: r) = match o with KNext _ s' => kblock' n s' r | KErr _ s' e => KErr rmk s' e end.
  Proof.
    intros <-. change (kblock' (S n) s (c :: r)) with (match kexec' n s c with KNext _ s' => kblock' n s' r | o => o end).
    destruct (kexec' n s c); reflexivity.
  Qed.
  Lemma kexec_if n s c a b v : keval' n (k_loc rmk s) c = v ->
    kexec' (S n) s (KIf c a b) =
    match v with Ok (KB true) => kblock' n s a | Ok (KB false) => kblock' n s b | Ok _ => KErr rmk s 90 | Err e => KErr rmk s e end.
  Proof. intros <-. reflexivity. Qed.
  Lemma kexec_for n s x it body rs : keval' n (k_loc rmk s) it = Ok (KRules rs) ->
    kexec' (S n) s (KFor x it body) = for_rules rmk (fun r s' => kblock' n (kset rmk x (KRule r) s') body) rs s.
  Proof.
    intro H. change (kexec' (S n) s (KFor x it body)) with
      (match keval' n (k_loc rmk s) it with
       | Ok (KRules rs) => for_rules rmk (fun r s' => kblock' n (kset rmk x (KRule r) s') body) rs s
       | Ok _ => KErr rmk s EType
       | Err c => KErr rmk s c end).
    rewrite H. reflexivity.
  Qed.
End Steps.

Ltac k_atomic c := lazymatch c with KIf _ _ _ => fail | KFor _ _ _ => fail | _ => idtac end.
Ltac klz t := let v := eval lazy -[N.eqb Nat.ltb Nat.eqb length firstn skipn app rm_link_add rm_link_del for_rules rule name] in t in v.
Ltac kbstep :=
  lazymatch goal with
  | |- context [kblock ?R ?a ?d ?c ?p (S ?n) ?s []] => rewrite (kblock_nil c p n s)
  | |- context [kblock ?R ?a ?d ?c ?p (S ?n) ?s (?st :: ?r)] =>
      tryif k_atomic st then (let o := klz (kexec R a d c p n s st) in rewrite (kblock_step c p n s st r o eq_refl))
      else rewrite (kblock_step c p n s st r _ eq_refl)
  end; cbv beta iota.
Ltac kestep :=
  lazymatch goal with
  | |- context [kexec ?R ?a ?d ?c ?p (S ?n) ?s (KIf ?cond ?x ?y)] =>
      let v := klz (keval c p n (k_loc R s) cond) in rewrite (kexec_if c p n s cond x y v eq_refl)
  end; cbv beta iota.
Ltac kstep := first [kestep | kbstep].
(* evaluate what is left of the goal in one go (small residual goals only) *)
Ltac kfinish := match goal with |- ?G => let G' := klz G in change G' end.
Ltac ksteps :=
  repeat (lazymatch goal with
          | |- context [if _ then kblock _ _ _ _ _ _ _ _ else kblock _ _ _ _ _ _ _ _] => fail
          | _ => kstep
          end).

(* ------------------------------------------------------------------ list facts *)
Lemma two_fields (l : rule) : (2 <= length l)%nat -> exists a b rest, l = a :: b :: rest.
Proof. destruct l as [|a [|b rest]]; simpl; intro H; try lia. eauto. Qed.

Lemma firstn_len_ge (l : rule) k : (k <= length l)%nat -> length (firstn k l) = k.
Proof. intro H. rewrite firstn_length. lia. Qed.

(* ------------------------------------------------------------------ build_role_links *)
Definition BBODY : list kst :=
  Eval lazy in match nth_error build_role_links_gen 3 with Some (KFor _ _ b) => b | _ => [] end.

Definition mkB (cnt : nat) (v : kv) (rm : rmk) : kstate rmk :=
  {| k_loc := [(1, KNat cnt); (2, v)]; k_rm := rm |}.

Lemma build_body cnt pol n v rm (r : rule) :
  exists v',
  kblock rmk rm_link_add rm_link_del cnt pol (12 + n) (kset rmk 2 (KRule r) (mkB cnt v rm)) BBODY =
  if (length r <? cnt)%nat then KErr rmk (mkB cnt v' rm) 9
  else KNext rmk (mkB cnt v' (rm_link_add rm (firstn cnt r))).
Proof.
  unfold BBODY, mkB, kset. cbn [Nat.add k_loc k_rm kupd kkeyb Pos.eqb].
  kstep. kstep.
  destruct (length r <? cnt)%nat eqn:E1; cbv beta iota.
  - exists (KRule r). ksteps. reflexivity.
  - ksteps.
    destruct (cnt <? length r)%nat eqn:E2; cbv beta iota.
    + exists (KRule (firstn cnt r)). ksteps. rewrite app_nil_r.
      rewrite firstn_firstn, Nat.min_id. reflexivity.
    + exists (KRule r). ksteps. rewrite app_nil_r. reflexivity.
Qed.

Lemma build_loop cnt pol n : forall rs v rm,
  exists v',
  for_rules rmk (fun r s' => kblock rmk rm_link_add rm_link_del cnt pol (12 + n) (kset rmk 2 (KRule r) s') BBODY) rs (mkB cnt v rm) =
  match links_add cnt rm rs EGroupArity with
  | (rm', None) => KNext rmk (mkB cnt v' rm')
  | (rm', Some e) => KErr rmk (mkB cnt v' rm') e
  end.
Proof.
  induction rs as [|r rs IH]; intros v rm.
  - exists v. reflexivity.
  - cbn [for_rules links_add]. destruct (build_body cnt pol n v rm r) as (v1 & HB). rewrite HB.
    destruct (length r <? cnt)%nat.
    + exists v1. reflexivity.
    + apply IH.
Qed.

Theorem tie_build_role_links cnt pol rm : (2 <= cnt)%nat ->
  run_build cnt pol rm = links_add cnt rm pol EGroupArity.
Proof.
  intro Hc. unfold run_build, krun, KFUEL.
  let b := eval lazy in build_role_links_gen in change build_role_links_gen with b.
  match goal with |- context [kblock _ _ _ _ _ _ ?S _] => let S' := eval lazy -[rule name] in S in change S with S' end.
  kstep. kstep. kstep. kstep.
  assert (E : (cnt <? 2)%nat = false) by (apply Nat.ltb_ge; exact Hc). rewrite E. cbv beta iota.
  kstep. kstep.
  match goal with |- context [kexec ?R ?a ?d ?c ?p (S ?n) ?s (KFor ?x ?it ?body)] =>
    rewrite (kexec_for c p n s x it body pol eq_refl) end.
  destruct (build_loop cnt pol 12 pol KNone rm) as (v' & HL).
  change (12 + 12)%nat with 24%nat in HL. unfold BBODY, mkB in HL.
  match type of HL with ?lhs = _ =>
    match goal with |- context [for_rules ?R ?F ?rs ?s] => change (for_rules R F rs s) with lhs end end.
  rewrite HL. clear HL.
  destruct (links_add cnt rm pol EGroupArity) as [rm' [e|]]; cbv beta iota.
  - reflexivity.
  - repeat kstep. reflexivity.
Qed.

(* ------------------------------------------------------------------ build_incremental_role_links *)
Definition IBODY : list kst :=
  Eval lazy in match nth_error build_incremental_role_links_gen 3 with Some (KFor _ _ b) => b | _ => [] end.

Definition mkI (op : kop) (rules : list rule) (cnt : nat) (v : kv) (rm : rmk) : kstate rmk :=
  {| k_loc := [(1, KOp op); (2, KRules rules); (3, KNat cnt); (4, v)]; k_rm := rm |}.

Lemma incr_add_body cnt pol n rules v rm (r : rule) : (2 <= cnt)%nat ->
  exists v',
  kblock rmk rm_link_add rm_link_del cnt pol (14 + n) (kset rmk 4 (KRule r) (mkI KAdd rules cnt v rm)) IBODY =
  if (length r <? cnt)%nat then KErr rmk (mkI KAdd rules cnt v' rm) 9
  else KNext rmk (mkI KAdd rules cnt v' (rm_link_add rm (firstn cnt r))).
Proof.
  intro Hc. unfold IBODY, mkI, kset. cbn [Nat.add k_loc k_rm kupd kkeyb Pos.eqb].
  kstep. kstep.
  destruct (length r <? cnt)%nat eqn:E1; cbv beta iota.
  - exists (KRule r). ksteps. reflexivity.
  - apply Nat.ltb_ge in E1. ksteps.
    destruct (cnt <? length r)%nat eqn:E2; cbv beta iota.
    + exists (KRule (firstn cnt r)).
      destruct (two_fields (firstn cnt r)) as (a & b & rest & Hf); [rewrite firstn_len_ge; lia|].
      ksteps. rewrite Hf. kfinish. rewrite app_nil_r. reflexivity.
    + exists (KRule r). apply Nat.ltb_ge in E2.
      assert (Hr : firstn cnt r = r) by (apply firstn_all2; lia). rewrite Hr.
      destruct (two_fields r) as (a & b & rest & Hf); [lia|].
      ksteps. rewrite Hf. kfinish. rewrite app_nil_r. reflexivity.
Qed.

Lemma incr_add_loop cnt pol n rules : (2 <= cnt)%nat -> forall rs v rm,
  exists v',
  for_rules rmk (fun r s' => kblock rmk rm_link_add rm_link_del cnt pol (14 + n) (kset rmk 4 (KRule r) s') IBODY) rs (mkI KAdd rules cnt v rm) =
  match links_add cnt rm rs EGroupArity with
  | (rm', None) => KNext rmk (mkI KAdd rules cnt v' rm')
  | (rm', Some e) => KErr rmk (mkI KAdd rules cnt v' rm') e
  end.
Proof.
  intro Hc. induction rs as [|r rs IH]; intros v rm.
  - exists v. reflexivity.
  - cbn [for_rules links_add]. destruct (incr_add_body cnt pol n rules v rm r Hc) as (v1 & HB). rewrite HB.
    destruct (length r <? cnt)%nat.
    + exists v1. reflexivity.
    + apply IH.
Qed.

Lemma incr_del_body cnt pol n rules v rm (r : rule) : (2 <= cnt)%nat ->
  exists v',
  kblock rmk rm_link_add rm_link_del cnt pol (14 + n) (kset rmk 4 (KRule r) (mkI KRemove rules cnt v rm)) IBODY =
  if (length r <? cnt)%nat then KErr rmk (mkI KRemove rules cnt v' rm) 9
  else match rm_link_del rm (firstn cnt r) with
       | (rm', None) => KNext rmk (mkI KRemove rules cnt v' rm')
       | (rm', Some e) => KErr rmk (mkI KRemove rules cnt v' rm') e
       end.
Proof.
  intro Hc. unfold IBODY, mkI, kset. cbn [Nat.add k_loc k_rm kupd kkeyb Pos.eqb].
  kstep. kstep.
  destruct (length r <? cnt)%nat eqn:E1; cbv beta iota.
  - exists (KRule r). ksteps. reflexivity.
  - apply Nat.ltb_ge in E1. ksteps.
    destruct (cnt <? length r)%nat eqn:E2; cbv beta iota.
    + exists (KRule (firstn cnt r)).
      destruct (two_fields (firstn cnt r)) as (a & b & rest & Hf); [rewrite firstn_len_ge; lia|].
      ksteps. rewrite Hf. kfinish. cbn [skipn]. rewrite ?app_nil_r.
      destruct (rm_link_del rm (a :: b :: rest)) as [rm' [e|]]; reflexivity.
    + exists (KRule r). apply Nat.ltb_ge in E2.
      assert (Hr : firstn cnt r = r) by (apply firstn_all2; lia). rewrite Hr.
      destruct (two_fields r) as (a & b & rest & Hf); [lia|].
      ksteps. rewrite Hf. kfinish. cbn [skipn]. rewrite ?app_nil_r.
      destruct (rm_link_del rm (a :: b :: rest)) as [rm' [e|]]; reflexivity.
Qed.

Lemma incr_del_loop cnt pol n rules : (2 <= cnt)%nat -> forall rs v rm,
  exists v',
  for_rules rmk (fun r s' => kblock rmk rm_link_add rm_link_del cnt pol (14 + n) (kset rmk 4 (KRule r) s') IBODY) rs (mkI KRemove rules cnt v rm) =
  match links_del cnt rm rs with
  | (rm', None) => KNext rmk (mkI KRemove rules cnt v' rm')
  | (rm', Some e) => KErr rmk (mkI KRemove rules cnt v' rm') e
  end.
Proof.
  intro Hc. induction rs as [|r rs IH]; intros v rm.
  - exists v. reflexivity.
  - cbn [for_rules links_del]. destruct (incr_del_body cnt pol n rules v rm r Hc) as (v1 & HB). rewrite HB.
    destruct (length r <? cnt)%nat.
    + exists v1. reflexivity.
    + destruct (rm_link_del rm (firstn cnt r)) as [rm' [e|]].
      * exists v1. reflexivity.
      * apply IH.
Qed.

Ltac incr_start :=
  unfold run_incremental, krun, KFUEL;
  let b := eval lazy in build_incremental_role_links_gen in change build_incremental_role_links_gen with b;
  match goal with |- context [kblock _ _ _ _ _ _ ?S _] => let S' := eval lazy -[rule name] in S in change S with S' end;
  kstep; kstep; kstep; kstep.

Theorem tie_incremental_add cnt rules rm : (2 <= cnt)%nat ->
  run_incremental cnt KAdd rules rm = links_add cnt rm rules EGroupArity.
Proof.
  intro Hc. incr_start.
  assert (E : (cnt <? 2)%nat = false) by (apply Nat.ltb_ge; exact Hc). rewrite E. cbv beta iota.
  kstep. kstep.
  match goal with |- context [kexec ?R ?a ?d ?c ?p (S ?n) ?s (KFor ?x ?it ?body)] =>
    rewrite (kexec_for c p n s x it body rules eq_refl) end.
  destruct (incr_add_loop cnt [] 10 rules Hc rules KNone rm) as (v' & HL).
  change (14 + 10)%nat with 24%nat in HL. unfold IBODY, mkI in HL.
  match type of HL with ?lhs = _ =>
    match goal with |- context [for_rules ?R ?F ?rs ?s] => change (for_rules R F rs s) with lhs end end.
  rewrite HL. clear HL.
  destruct (links_add cnt rm rules EGroupArity) as [rm' [e|]]; cbv beta iota; [reflexivity|].
  repeat kstep. reflexivity.
Qed.

Theorem tie_incremental_remove cnt rules rm : (2 <= cnt)%nat ->
  run_incremental cnt KRemove rules rm = links_del cnt rm rules.
Proof.
  intro Hc. incr_start.
  assert (E : (cnt <? 2)%nat = false) by (apply Nat.ltb_ge; exact Hc). rewrite E. cbv beta iota.
  kstep. kstep.
  match goal with |- context [kexec ?R ?a ?d ?c ?p (S ?n) ?s (KFor ?x ?it ?body)] =>
    rewrite (kexec_for c p n s x it body rules eq_refl) end.
  destruct (incr_del_loop cnt [] 10 rules Hc rules KNone rm) as (v' & HL).
  change (14 + 10)%nat with 24%nat in HL. unfold IBODY, mkI in HL.
  match type of HL with ?lhs = _ =>
    match goal with |- context [for_rules ?R ?F ?rs ?s] => change (for_rules R F rs s) with lhs end end.
  rewrite HL. clear HL.
  destruct (links_del cnt rm rules) as [rm' [e|]]; cbv beta iota; [reflexivity|].
  repeat kstep. reflexivity.
Qed.

(* a role definition with fewer than two "_" is refused before anything is linked *)
Theorem tie_build_count_too_small cnt pol rm : (cnt < 2)%nat -> run_build cnt pol rm = (rm, Some ERuntime).
Proof.
  intro Hc. unfold run_build, krun, KFUEL.
  let b := eval lazy in build_role_links_gen in change build_role_links_gen with b.
  match goal with |- context [kblock _ _ _ _ _ _ ?S _] => let S' := eval lazy -[rule name] in S in change S with S' end.
  kstep. kstep. kstep. kstep.
  assert (E : (cnt <? 2)%nat = true) by (apply Nat.ltb_lt; exact Hc). rewrite E. cbv beta iota.
  repeat kstep. reflexivity.
Qed.
