(* LoadLang.v — a small language for the CONTROL SKELETON of CoreEnforcer.load_policy (casbin/core_enforcer.py): the
   candidate model, the try block, the order of loading / sorting / clearing / linking, the single commit
   `self.model = new_model`, the rollback condition and the re-raise.  translators/loadpolicy.py renders the Python source
   into this syntax on every run (coq/gen/LoadPolicyGen.v); LoadTie.v proves that the interpreter run on the regenerated
   program computes Mgmt.load_policy - the function every C11 theorem is about.

   Each statement the translator accepts is ONE named step whose meaning is fixed here in the vocabulary of Mgmt.v
   (trusted reading, the same representation choices as Mgmt.v):
   - new_model = copy.deepcopy(self.model); new_model.clear_policy()   a candidate with no rules; self is untouched;
   - self.adapter.load_policy(new_model)        Mgmt.deliver of the adapter's rows into the candidate (may raise);
   - new_model.sort_policies_by_priority()      Mgmt's priority sort on priority models (may raise);
     new_model.sort_policies_by_subject_hierarchy(), new_model.print_policy()   no effect in this model (C07 treats the first);
   - self.rm_map holds the managers of g and g2 (a role definition the model lacks is present and empty, as in Mgmt.v), so
     len(self.rm_map) != 0; `for rm in self.rm_map.values(): rm.clear()` clears both; new_model.build_role_links(self.rm_map)
     links the candidate's g then g2 rules into them, stopping at the first exception with what was linked so far;
   - self.cond_rm_map is empty (no conditional role definitions in Mgmt's kinds);
   - self.model.build_role_links(self.rm_map)   the same linking with the enforcer's OWN g then g2 rules (Policy.build_role_links
     is checked by the translator to be the loop `for ptype, ast in self["g"].items(): rm = rm_map.get(ptype); if rm:
     ast.build_role_links(rm)` behind the `"g" not in self.keys()` guard; Assertion.build_role_links is tied by LinkTie.v);
   - self.model = new_model                     the enforcer now holds the candidate's rules (and knows its priority index);
   - self.build_role_links()                    Mgmt.build_role_links on the enforcer as it is now (may raise);
   - try: B except Exception as e: H; raise e   if B raises c: H runs, then c is raised again (or what H raised). *)
From Coq Require Import List NArith Bool.
From PyCasbin Require Import Base Policy RoleGraph Mgmt.
Import ListNotations.
Local Open Scope N_scope.

Inductive lcond := CAutoBuild | CNeed | CRmMapNonEmpty | CCondMapNonEmpty | CAndC (a b : lcond).

Inductive lstmt : Type :=
| SNeed (b : bool)
| SNewModel
| SAdapterLoad
| SSortHier | SSortPrio | SPrint
| SIfL (c : lcond) (a b : list lstmt)
| SClearRms | SClearCondRms
| SBuildNew | SBuildCondNew
| SBuildOwn                       (* self.model.build_role_links(self.rm_map) *)
| SCommit
| SSelfBuild
| STryL (body handler : list lstmt).

Record ldstate := { l_self : mstate; l_new : store * store * store; l_need : bool }.
Inductive ldout := LdNext (s : ldstate) | LdRaise (s : ldstate) (c : N).

Definition clear_rms (s : mstate) : mstate := set_rm2 (set_rm s (clear_rmk (m_rm s))) (rm_clear (m_rm2 s)).

Section Interp.
  Variable k : mkind.
  Variable fail_at : option nat.

  Fixpoint lcond_eval (s : ldstate) (c : lcond) : bool :=
    match c with
    | CAutoBuild => m_auto_build (l_self s)
    | CNeed => l_need s
    | CRmMapNonEmpty => true
    | CCondMapNonEmpty => false
    | CAndC a b => lcond_eval s a && lcond_eval s b
    end.

  Definition with_self (s : ldstate) (m : mstate) : ldstate := {| l_self := m; l_new := l_new s; l_need := l_need s |}.

  Fixpoint ldexec (n : nat) (s : ldstate) (c : lstmt) {struct n} : ldout :=
    match n with
    | O => LdRaise s EFuel
    | S n' =>
      match c with
      | SNeed b => LdNext {| l_self := l_self s; l_new := l_new s; l_need := b |}
      | SNewModel => LdNext {| l_self := l_self s; l_new := ([], [], []); l_need := l_need s |}
      | SAdapterLoad =>
          let '(p0, g0, h0) := l_new s in
          match deliver k (m_db (l_self s)) fail_at p0 g0 h0 with
          | Ok t => LdNext {| l_self := l_self s; l_new := t; l_need := l_need s |}
          | Err c => LdRaise s c
          end
      | SSortHier | SPrint => LdNext s
      | SSortPrio =>
          let '(p0, g0, h0) := l_new s in
          match (if k_prio k then sort_by_priority 0 p0 else Ok p0) with
          | Ok p' => LdNext {| l_self := l_self s; l_new := (p', g0, h0); l_need := l_need s |}
          | Err c => LdRaise s c
          end
      | SIfL c a b => if lcond_eval s c then ldblock n' s a else ldblock n' s b
      | SClearRms => LdNext (with_self s (clear_rms (l_self s)))
      | SClearCondRms => LdNext s
      | SBuildNew =>
          let '(_, g0, h0) := l_new s in
          let me := l_self s in
          let '(rm, e) := links_add (g_count k PT_G) (m_rm me) g0 EGroupArity in
          let me1 := set_rm me rm in
          match e with
          | Some c => LdRaise (with_self s me1) c
          | None =>
              let '(rm2, e2) := links_add 2 (RMPlain (m_rm2 me1)) h0 EGroupArity in
              let me2 := put_rm me1 PT_G2 rm2 in
              match e2 with Some c => LdRaise (with_self s me2) c | None => LdNext (with_self s me2) end
          end
      | SBuildCondNew => LdRaise s 90
      | SBuildOwn =>
          let me := l_self s in
          let '(rm, e) := links_add (g_count k PT_G) (m_rm me) (m_g me) EGroupArity in
          let me1 := set_rm me rm in
          match e with
          | Some c => LdRaise (with_self s me1) c
          | None =>
              let '(rm2, e2) := links_add 2 (RMPlain (m_rm2 me1)) (m_g2 me1) EGroupArity in
              let me2 := put_rm me1 PT_G2 rm2 in
              match e2 with Some c => LdRaise (with_self s me2) c | None => LdNext (with_self s me2) end
          end
      | SCommit =>
          let '(p0, g0, h0) := l_new s in
          let me := l_self s in
          LdNext (with_self s (mkM p0 g0 h0 (m_rm me) (m_rm2 me) (m_auto_save me) (m_auto_build me) (m_auto_notify me)
                                   (m_enabled me) (m_db me) (m_prio_on me || k_prio k)))
      | SSelfBuild =>
          match build_role_links k (l_self s) with
          | (me', None) => LdNext (with_self s me')
          | (me', Some c) => LdRaise (with_self s me') c
          end
      | STryL body handler =>
          match ldblock n' s body with
          | LdNext s' => LdNext s'
          | LdRaise s' c => match ldblock n' s' handler with
                            | LdNext s'' => LdRaise s'' c
                            | LdRaise s'' c' => LdRaise s'' c'
                            end
          end
      end
    end
  with ldblock (n : nat) (s : ldstate) (b : list lstmt) {struct n} : ldout :=
    match n with
    | O => LdRaise s EFuel
    | S n' =>
      match b with
      | [] => LdNext s
      | c :: r => match ldexec n' s c with LdNext s' => ldblock n' s' r | o => o end
      end
    end.

  (* the enforcer afterwards and what the call returned / raised *)
  Definition ldrun (n : nat) (body : list lstmt) (s : mstate) : mstate * val :=
    match ldblock n {| l_self := s; l_new := ([], [], []); l_need := false |} body with
    | LdNext s' => (l_self s', ok (VL []))
    | LdRaise s' c => (l_self s', verr c)
    end.
End Interp.
