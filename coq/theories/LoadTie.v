(* LoadTie.v — C11: the control skeleton of CoreEnforcer.load_policy regenerated from casbin/core_enforcer.py on this run
   (coq/gen/LoadPolicyGen.v), executed by the interpreter of LoadLang.v, computes Mgmt.load_policy - for every kind of
   model, every enforcer state whose current policy re-links without error (implied by the invariant of the C04 / C11
   theorems), every adapter content and every adapter fault. *)
From Coq Require Import List NArith Bool Lia.
From PyCasbin Require Import Base Policy RoleGraph Mgmt LoadLang.
From PyCasbinGen Require Import LoadPolicyGen.
Import ListNotations.
Local Open Scope N_scope.

Definition LDFUEL : nat := 30.

Definition run_load_policy (k : mkind) (s : mstate) (fail_at : option nat) : mstate * val :=
  ldrun k fail_at LDFUEL load_policy_gen s.

(* ------------------------------------------------------------------ clearing forgets links *)
Lemma clear_rmk_link_add rm r : clear_rmk (rm_link_add rm r) = clear_rmk rm.
Proof.
  destruct rm as [s|s]; destruct r as [|u [|ro [|d rest]]]; try reflexivity.
Qed.

Lemma clear_rmk_links_add cnt e : forall rules rm, clear_rmk (fst (links_add cnt rm rules e)) = clear_rmk rm.
Proof.
  induction rules as [|r rules IH]; intro rm; cbn [links_add]; [reflexivity|].
  destruct (Nat.ltb (length r) cnt); [reflexivity|]. rewrite IH. apply clear_rmk_link_add.
Qed.

Lemma clear_rmk_idem rm : clear_rmk (clear_rmk rm) = clear_rmk rm.
Proof. destruct rm; reflexivity. Qed.

Lemma rm_link_add_plain s r : exists s', rm_link_add (RMPlain s) r = RMPlain s' /\ rm_clear s' = rm_clear s.
Proof.
  destruct r as [|u [|ro rest]]; cbn [rm_link_add]; try (eexists; split; reflexivity).
Qed.

Lemma links_add_plain cnt e : forall rules s, exists s', fst (links_add cnt (RMPlain s) rules e) = RMPlain s' /\ rm_clear s' = rm_clear s.
Proof.
  induction rules as [|r rules IH]; intro s; cbn [links_add].
  - exists s. split; reflexivity.
  - destruct (Nat.ltb (length r) cnt); [exists s; split; reflexivity|].
    destruct (rm_link_add_plain s (firstn cnt r)) as (s1 & H1 & H2). rewrite H1.
    destruct (IH s1) as (s2 & H3 & H4). exists s2. split; [exact H3 | congruence].
Qed.

(* a rebuild only looks at the rules and at what clearing leaves of the managers *)
Lemma build_role_links_rms k p g g2 rm rm2 rmX rm2X a b c d db pr :
  clear_rmk rmX = clear_rmk rm -> rm_clear rm2X = rm_clear rm2 ->
  build_role_links k (mkM p g g2 rmX rm2X a b c d db pr) = build_role_links k (mkM p g g2 rm rm2 a b c d db pr).
Proof.
  intros H1 H2. unfold build_role_links. cbn [m_rm m_rm2 set_rm set_rm2 m_g m_g2 m_p]. rewrite H1, H2. reflexivity.
Qed.

(* ------------------------------------------------------------------ the tie *)
Theorem tie_load_policy k s fa : snd (build_role_links k s) = None ->
  run_load_policy k s fa = Mgmt.load_policy k s fa.
Proof.
  intro Hold. unfold run_load_policy, ldrun, LDFUEL, Mgmt.load_policy.
  let b := eval lazy in load_policy_gen in change load_policy_gen with b.
  destruct s as [p g g2 rm rm2 asv abd ant enb db pr].
  cbn [ldblock ldexec l_self l_new l_need m_db m_auto_build lcond_eval andb with_self].
  destruct (deliver k db fa [] [] []) as [[[p1 g1] h1]|c] eqn:ED; cbn [l_self l_new l_need lcond_eval m_auto_build andb].
  2:{ destruct abd; reflexivity. }
  destruct (if k_prio k then sort_by_priority 0 p1 else Ok p1) as [p'|c] eqn:ES; cbn [l_self l_new l_need lcond_eval m_auto_build andb].
  2:{ destruct abd; reflexivity. }
  destruct abd; cbn [l_self l_new l_need lcond_eval m_auto_build andb with_self clear_rms m_rm m_rm2 set_rm set_rm2].
  2:{ reflexivity. }
  (* auto_build_role_links on *)
  unfold build_role_links at 2. cbn [m_rm m_rm2 set_rm set_rm2 m_g m_g2].
  destruct (links_add (g_count k PT_G) (clear_rmk rm) g1 EGroupArity) as [rmA eA] eqn:EA.
  destruct eA as [cA|]; unfold clear_rms, with_self in *;
    cbv [set_rm set_rm2 m_p m_g m_g2 m_rm m_rm2 m_auto_save m_auto_build m_auto_notify m_enabled m_db m_prio_on l_self l_new l_need andb lcond_eval].
  - (* linking g raised: rollback *)
    cbn [l_self l_new l_need lcond_eval m_auto_build andb with_self set_rm].
    assert (HB : build_role_links k (mkM p g g2 rmA (rm_clear rm2) asv true ant enb db pr) = build_role_links k (mkM p g g2 rm rm2 asv true ant enb db pr)).
    { apply build_role_links_rms; [|reflexivity].
      pose proof (clear_rmk_links_add (g_count k PT_G) EGroupArity g1 (clear_rmk rm)) as H. rewrite EA in H. cbn [fst] in H.
      rewrite H. apply clear_rmk_idem. }
    rewrite HB. destruct (build_role_links k (mkM p g g2 rm rm2 asv true ant enb db pr)) as [s' e'] eqn:EB.
    cbn [snd] in Hold. subst e'. reflexivity.
  - cbn [l_self l_new l_need lcond_eval m_auto_build andb with_self set_rm m_rm2].
    destruct (links_add 2 (RMPlain (rm_clear rm2)) h1 EGroupArity) as [rmB eB] eqn:EB2.
    destruct (links_add_plain 2 EGroupArity h1 (rm_clear rm2)) as (sB & HB1 & HB2). rewrite EB2 in HB1. cbn [fst] in HB1. subst rmB.
    destruct eB as [cB|]; unfold clear_rms, with_self in *;
      cbv [put_rm set_rm set_rm2 m_p m_g m_g2 m_rm m_rm2 m_auto_save m_auto_build m_auto_notify m_enabled m_db m_prio_on l_self l_new l_need andb lcond_eval].
    + (* linking g2 raised: rollback *)
      cbn [l_self l_new l_need lcond_eval m_auto_build andb with_self put_rm set_rm2]. change (PT_G2 =? PT_G) with false. cbv beta iota.
      cbn [set_rm2].
      assert (HB : build_role_links k (mkM p g g2 rmA sB asv true ant enb db pr) = build_role_links k (mkM p g g2 rm rm2 asv true ant enb db pr)).
      { apply build_role_links_rms.
        - pose proof (clear_rmk_links_add (g_count k PT_G) EGroupArity g1 (clear_rmk rm)) as H. rewrite EA in H. cbn [fst] in H.
          rewrite H. apply clear_rmk_idem.
        - rewrite HB2. destruct rm2; reflexivity. }
      rewrite HB. destruct (build_role_links k (mkM p g g2 rm rm2 asv true ant enb db pr)) as [s' e'] eqn:EB.
      cbn [snd] in Hold. subst e'. reflexivity.
    + (* success: commit *)
      cbn [l_self l_new l_need lcond_eval m_auto_build andb with_self put_rm set_rm2]. change (PT_G2 =? PT_G) with false. cbv beta iota.
      reflexivity.
Qed.

(* ------------------------------------------------------------------ CoreEnforcer.build_role_links *)
Definition run_build_role_links (k : mkind) (s : mstate) : mstate * val :=
  ldrun k None LDFUEL build_role_links_gen s.

Theorem tie_build_role_links k s :
  run_build_role_links k s =
  (fst (Mgmt.build_role_links k s), match snd (Mgmt.build_role_links k s) with None => ok (VL []) | Some c => verr c end).
Proof.
  unfold run_build_role_links, ldrun, LDFUEL, Mgmt.build_role_links.
  let b := eval lazy in build_role_links_gen in change build_role_links_gen with b.
  destruct s as [p g g2 rm rm2 asv abd ant enb db pr].
  cbn [ldblock ldexec l_self l_new l_need with_self]. unfold clear_rms, with_self.
  cbv [set_rm set_rm2 m_p m_g m_g2 m_rm m_rm2 m_auto_save m_auto_build m_auto_notify m_enabled m_db m_prio_on l_self l_new l_need].
  destruct (links_add (g_count k PT_G) (clear_rmk rm) g EGroupArity) as [rmA [cA|]]; [reflexivity|].
  cbv [set_rm set_rm2 m_p m_g m_g2 m_rm m_rm2 m_auto_save m_auto_build m_auto_notify m_enabled m_db m_prio_on l_self l_new l_need].
  destruct (links_add 2 (RMPlain (rm_clear rm2)) g2 EGroupArity) as [rmB [cB|]]; reflexivity.
Qed.
